#!/bin/bash
# run.sh <property> [quick|thorough] — builds kgv if needed (offline, from files on disk) and
# evaluates the property's rules on /repo's current working tree.
set -u
here="$(cd "$(dirname "$0")" && pwd)"
export GOFLAGS=-mod=mod GOPROXY=off GOSUMDB=off GOTOOLCHAIN=local
unset GOWORK
prop="${1:?property id}"
tier="${2:-${VERIF_TIER:-quick}}"
mkdir -p "$here/bin" "$here/evidence/replay"
if ! (cd "$here/kgv" && go build -o "$here/bin/kgv" ./cmd/kgv) >"$here/bin/build.log" 2>&1; then
  cat "$here/bin/build.log"
  echo "VIOLATION property=$prop replay=$here/bin/build.log"
  exit 1
fi
exec "$here/bin/kgv" check -prop "$prop" -tier "$tier" -repo "${KGV_REPO:-/repo}" -root "$here"
