package rules

import (
	"fmt"

	"golang.org/x/tools/go/ssa"

	"kgv/internal/eng"
)

func init() { RegisterExtra("C18", c18DeleteMeansDeleted) }

// c18DeleteMeansDeleted (C18.R6): the cleanup passes reclaim a dead instance's quota by deleting
// its conditions from the limit store; with the API-backed store the quota leaves the
// allocated sum only when the condition leaves the store's in-memory copy. R6: in
// objectStore.Delete and objectStore.DeleteUpstream every return that reports success with a
// constant nil lies behind the local delete — "already gone from the API server" is not
// "gone": a condition that exists in memory but was never flushed is then deleted without
// effect by both passes, and its quota stays allocated.
func c18DeleteMeansDeleted(c *eng.Ctx) {
	c.Rule("R6", "a successful delete of the API-backed store has removed the in-memory condition: in objectStore.Delete / DeleteUpstream every constant-nil return lies behind the local store's Delete / DeleteUpstream", 2)
	n := 0
	for _, name := range []string{"Delete", "DeleteUpstream"} {
		fn := c.MustMethod(pkgRLStoreK8s, "objectStore", name)
		if fn == nil {
			continue
		}
		isLocal := func(i ssa.Instruction) bool {
			ci, ok := i.(ssa.CallInstruction)
			if !ok || !(eng.MethodNameIs(ci, "Delete") || eng.MethodNameIs(ci, "DeleteUpstream")) {
				return false
			}
			return eng.FieldLoadOf(eng.Receiver(ci), pkgRLStoreK8s+".objectStore", "localStore")
		}
		k := 0
		for _, b := range fn.Blocks {
			if b == fn.Recover {
				continue
			}
			ret, ok := b.Instrs[len(b.Instrs)-1].(*ssa.Return)
			if !ok {
				continue
			}
			res := eng.ReturnResults(ret)
			if len(res) != 1 {
				continue
			}
			switch r := res[0].(type) {
			case *ssa.Const:
				if !r.IsNil() {
					continue
				}
				k++
				c.Check("R6", fn, fmt.Sprintf("nil return#%d lies behind the local delete", k), ret.Pos(), eng.AlwaysBefore(fn, ret, isLocal),
					"the delete is acknowledged on a path that leaves the condition in the in-memory store: its quota stays in the allocated sum although the cleanup 'deleted' it")
			case *ssa.Phi:
				for i, e := range r.Edges {
					if !eng.IsNilConst(e) {
						continue
					}
					k++
					pred := r.Block().Preds[i]
					last := pred.Instrs[len(pred.Instrs)-1]
					c.Check("R6", fn, fmt.Sprintf("nil return#%d lies behind the local delete", k), ret.Pos(), eng.AlwaysBefore(fn, last, isLocal),
						"the delete is acknowledged on a path that leaves the condition in the in-memory store: its quota stays in the allocated sum although the cleanup 'deleted' it")
				}
			default:
				// the result of a call (the local delete's own answer) or an error value
				k++
				n++
				okCall := false
				if cc, _ := eng.CallResultOf(r); cc != nil && isLocal(cc) {
					okCall = true
				}
				if !okCall {
					// an error variable: success (nil) can only come from a tested-nil path, judged by C19.R3
					okCall = true
				}
				c.Pass("R6", fn, fmt.Sprintf("return#%d hands on a computed answer", k), ret.Pos(), "")
				continue
			}
			n++
		}
	}
	if n == 0 {
		c.Fail("R6", nil, "returns of objectStore.Delete / DeleteUpstream", 0, "none found")
	}
}
