package rules

import (
	"golang.org/x/tools/go/ssa"

	"kgv/internal/eng"
)

// C03.R10 = C15.R4 (added for seeded C03-7). "A disabled endpoint gets no health probes until it
// is enabled again" needs more than cancelling the stored cancelHealthCheck (R7): every
// goroutine that can invoke the probe function must end when *that* context ends. A prober that
// watches the endpoint's own context instead (started once per endpoint, outliving the
// enable/disable cycle) keeps serving triggers — TriggerHealthCheck after a failed in-flight
// request probes a disabled endpoint. The rule is the one C15 uses for removal, evaluated for
// the per-cycle probe context: every loop of the goroutines started by the probe starter
// selects on Done() of the starter's probe context (its ctx parameter, which by C15.R1 is the
// WithCancel child whose cancel is kept in cancelHealthCheck), that case leaves the loop, and
// healthCheckFun is invoked only in such a goroutine behind such a select.
func init() {
	RegisterExtra("C03", func(c *eng.Ctx) {
		c.Rule("R10", "probing stops with the enable cycle: every loop of the goroutines started by startGatewayHealthCheck selects on Done() of the probe context (the WithCancel child whose cancel EnsureGatewayHealthCheck keeps in cancelHealthCheck and invokes on disable; pairing checked by C15.R1, clearing by R7) and leaves on it; healthCheckFun is invoked only inside such a goroutine behind such a select (same rule as C15.R4)", 3)
		x := &c15x{c: c, sl: c.Slicer(), sa: c.Slicer().WithArgs(), ord: map[string]int{}, bind: map[*ssa.Parameter]ssa.Value{}, ruleAs: map[string]string{"R4": "R10"}}
		c15R4(x)
	})
}
