package rules

import (
	"fmt"
	"go/token"
	"go/types"

	"golang.org/x/tools/go/ssa"

	"kgv/internal/eng"
)

func init() { RegisterExtra("C15", c15Extra) }

// c15Extra: rules added after the second seeded round.
func c15Extra(c *eng.Ctx) {
	c.Rule("R5", "removed servers are dropped by every sync that gets past the skip flag: in syncEndpoints the removal of the endpoints that are no longer listed (delete from the map, cancel of the endpoint's context) is passed on every path to an exit — in particular it is not skipped when adding another server fails (same obligation as C03.R6)", 3)
	c03RemovalEveryPath(c, "R5")

	c.Rule("R6", "other clusters are unaffected by a deletion: every Manager.Delete/DeleteWithStop(key) in the controller is control-dependent on a comparison of the NAME (ClusterInfo.Cluster, a string) of the entry found under that same key with the acting cluster's name — not on an identity comparison with whatever entry the acting name resolves to, which is another cluster's when the name is one of its aliases", 2)
	n := 0
	for _, fn := range c.W.FuncsOf(pkgCtrl) {
		for _, ci := range eng.Calls(fn) {
			if !eng.MethodNameIs(ci, "DeleteWithStop") && !eng.MethodNameIs(ci, "Delete") {
				continue
			}
			o := eng.CalleeObj(ci)
			if o == nil || o.Pkg() == nil || o.Pkg().Path() != pkgClusters {
				continue
			}
			a := eng.Args(ci)
			if len(a) != 1 {
				continue
			}
			if b, isB := a[0].Type().Underlying().(*types.Basic); !isB || b.Kind() != types.String {
				continue
			}
			n++
			key := a[0]
			isEntryName := func(v ssa.Value) bool {
				// load of .Cluster of a value returned by Get(key) with the same key
				if !eng.FieldLoadOf(v, tClusterInfo, "Cluster") {
					return false
				}
				return c.Slicer().DerivesFrom(v, func(x ssa.Value) bool {
					cc, i := eng.CallResultOf(x)
					if cc == nil || i != 0 || !eng.MethodNameIs(cc, "Get") {
						return false
					}
					ga := eng.Args(cc)
					return len(ga) == 1 && (ga[0] == key || sameLoad(ga[0], key))
				})
			}
			ok := eng.GuardedBy(ci.(ssa.Instruction), func(r eng.Rel) bool {
				if r.Op != token.EQL {
					return false
				}
				return isEntryName(r.X) || isEntryName(r.Y)
			})
			c.Check("R6", fn, fmt.Sprintf("delete#%d guarded by the name of the entry under the same key", n), ci.Pos(), ok,
				"the entry removed (and stopped) under this key is not checked to belong, by name, to the cluster being deleted: deleting an object whose name is an alias of another cluster unregisters and stops that cluster")
		}
	}
	if n == 0 {
		c.Fail("R6", nil, "Manager.Delete/DeleteWithStop in the controller", 0, "no keyed deletion found")
	}
}
