package rules

import (
	"fmt"

	"golang.org/x/tools/go/ssa"

	"kgv/internal/eng"
)

func init() { RegisterExtra("C15", c15Extra) }

// c15Extra: rules added after the second seeded round.
func c15Extra(c *eng.Ctx) {
	c.Rule("R5", "removed servers are dropped by every sync that gets past the skip flag: in syncEndpoints the removal of the endpoints that are no longer listed (delete from the map, cancel of the endpoint's context) is passed on every path to an exit — in particular it is not skipped when adding another server fails (same obligation as C03.R6)", 3)
	c03RemovalEveryPath(c, "R5")

	c.Rule("R6", "other clusters are unaffected by a deletion: every Manager.Delete/DeleteWithStop(key) in the controller is control-dependent on a comparison of the NAME (ClusterInfo.Cluster, a string) of the entry found under that same key with the acting cluster's name — not on an identity comparison with whatever entry the acting name resolves to, which is another cluster's when the name is one of its aliases", 2)
	// the owner-guard template of C10.R2 (c10CheckOwnerGuard): decided in every calling context,
	// through predicate helpers and deletion helpers
	sp := c10OwnerSpec{
		isLookup:  func(ci ssa.CallInstruction) bool { return c10IsMgr(ci, "Get") },
		ownerBase: func(v ssa.Value) ssa.Value { return eng.FieldBase(v, c10TCluster, "Cluster") },
	}
	n := 0
	for _, fn := range c.W.FuncsOf(pkgCtrl) {
		for _, ci := range eng.Calls(fn) {
			if !c10IsMgr(ci, "Delete", "DeleteWithStop") || len(eng.Args(ci)) != 1 {
				continue
			}
			n++
			ok, why, _ := c10CheckOwnerGuard(ci, eng.Args(ci)[0], sp, c.Slicer())
			c.Check("R6", fn, fmt.Sprintf("delete#%d guarded by the name of the entry under the same key", n), ci.Pos(), ok,
				"the entry removed (and stopped) under this key is not checked to belong, by name, to the cluster being deleted: deleting an object whose name is an alias of another cluster unregisters and stops that cluster"+c02Found(why))
		}
	}
	if n == 0 {
		c.Fail("R6", nil, "Manager.Delete/DeleteWithStop in the controller", 0, "no keyed deletion found")
	}
}
