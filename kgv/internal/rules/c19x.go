package rules

import (
	"golang.org/x/tools/go/ssa"

	"kgv/internal/eng"
)

func init() { RegisterExtra("C19", c19WriteThroughAck) }

// c19WriteThroughAck (C19.R8): in write-through mode an acknowledged condition is persisted.
// R1 orders the API write before the local write; R8 closes the other door: on the edge
// `syncPeriod == 0` of objectStore.Save no path reaches an exit without passing the API write
// (createOrUpdate). A "nothing changed, spare the API the write" early return acknowledges a
// condition that was mutated in place through the pointer the local store handed out, and
// a crash loses it.
func c19WriteThroughAck(c *eng.Ctx) {
	c.Rule("R8", "write-through acknowledges only what it wrote: on the syncPeriod == 0 edge of objectStore.Save every path to an exit passes createOrUpdate (no early acknowledgement based on a comparison with the local copy)", 1)
	save := c.MustMethod(pkgRLStoreK8s, "objectStore", "Save")
	if save == nil {
		return
	}
	// Decided by forcing (c19WriteThroughPaths): with every load of syncPeriod yielding 0, each
	// path of Save — through the helpers it calls — that can end in an acknowledgement (an
	// error result not known to be non-nil) has executed the API write. Where the mode test
	// sits (Save, a helper returning the object to keep, a predicate) does not matter.
	isAPIWrite := func(ci ssa.CallInstruction) bool {
		return eng.IsCall(ci, c19CondIface+".Update", c19CondIface+".Create")
	}
	const construct = "write-through edge#1: every exit lies behind the API write"
	paths, isEvent, consulted, err := c19WriteThroughPaths(c, save, isAPIWrite)
	if err != nil {
		c.Undecided("R8", save, construct, save.Pos(), "the paths of Save cannot be enumerated: "+err.Error())
		return
	}
	errIdx := save.Signature.Results().Len() - 1
	var bad, cut ssa.Instruction
	nAck := 0
	for _, pr := range paths {
		if pr.Panicked {
			continue
		}
		if pr.LoopCut {
			cut = save.Blocks[0].Instrs[0]
			continue
		}
		if errIdx < 0 || errIdx >= len(pr.Ret) || pr.Ret[errIdx].K == eng.NonNilV {
			continue // refused: the caller is not acknowledged
		}
		nAck++
		written := false
		for _, ci := range pr.Calls {
			written = written || isEvent(ci)
		}
		if !written && bad == nil {
			bad = pr.Exit
		}
	}
	pos := save.Pos()
	if bad != nil {
		pos = bad.Pos()
	}
	switch {
	case bad == nil && cut != nil:
		c.Undecided("R8", save, construct, pos, "Save contains a loop: its paths cannot be enumerated")
	case nAck == 0:
		c.Fail("R8", save, construct, pos, "no path of Save acknowledges in write-through mode")
	default:
		_ = consulted // a Save that never looks at syncPeriod writes through unconditionally
		c.Check("R8", save, construct, pos, bad == nil,
			"Save returns in write-through mode without having written the condition to the API: the caller's acknowledgement is not backed by the persisted object")
	}
}
