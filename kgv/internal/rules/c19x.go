package rules

import (
	"fmt"
	"go/token"

	"golang.org/x/tools/go/ssa"

	"kgv/internal/eng"
)

func init() { RegisterExtra("C19", c19WriteThroughAck) }

// c19WriteThroughAck (C19.R8): in write-through mode an acknowledged condition is persisted.
// R1 orders the API write before the local write; R8 closes the other door: on the edge
// `syncPeriod == 0` of objectStore.Save no path reaches an exit without passing the API write
// (createOrUpdate). A "nothing changed, spare the API the write" early return acknowledges a
// condition that was mutated in place through the pointer the local store handed out, and
// a crash loses it.
func c19WriteThroughAck(c *eng.Ctx) {
	c.Rule("R8", "write-through acknowledges only what it wrote: on the syncPeriod == 0 edge of objectStore.Save every path to an exit passes createOrUpdate (no early acknowledgement based on a comparison with the local copy)", 1)
	save := c.MustMethod(pkgRLStoreK8s, "objectStore", "Save")
	if save == nil {
		return
	}
	isWrite := func(i ssa.Instruction) bool {
		ci, ok := i.(ssa.CallInstruction)
		return ok && eng.IsCall(ci, "(*"+pkgRLStoreK8s+".objectStore).createOrUpdate")
	}
	n := 0
	for _, b := range save.Blocks {
		iff, ok := b.Instrs[len(b.Instrs)-1].(*ssa.If)
		if !ok {
			continue
		}
		r := eng.RelOf(iff.Cond, true)
		isPeriod := func(v ssa.Value) bool { return eng.FieldLoadOf(v, pkgRLStoreK8s+".objectStore", "syncPeriod") }
		isZero := func(v ssa.Value) bool { z, ok := eng.IntConst(v); return ok && z == 0 }
		if !((isPeriod(r.X) && isZero(r.Y)) || (isZero(r.X) && isPeriod(r.Y))) {
			continue
		}
		var wt *ssa.BasicBlock
		switch r.Op {
		case token.EQL, token.LEQ:
			wt = b.Succs[0]
		case token.NEQ, token.GTR:
			wt = b.Succs[1]
		default:
			continue
		}
		n++
		x := eng.ReachFromBlock(wt, eng.PathQuery{Target: eng.IsExit, Avoid: eng.LiftPred(isWrite)})
		c.Check("R8", save, fmt.Sprintf("write-through edge#%d: every exit lies behind the API write", n), iff.Pos(), x == nil,
			"Save returns in write-through mode without having written the condition to the API: the caller's acknowledgement is not backed by the persisted object")
	}
	if n == 0 {
		c.Fail("R8", save, "write-through edge", save.Pos(), "no test of syncPeriod against 0 found in Save")
	}
}
