package rules

import (
	"fmt"

	"golang.org/x/tools/go/ssa"

	"kgv/internal/eng"
)

func init() { RegisterExtra("C11", c11RetryBudget) }

// c11RetryBudget (C11.R8): a cluster whose sync keeps failing (e.g. a server-name conflict that
// another object resolves later) converges because the controller's requeue request is honoured
// for as long as the failure lasts. The sync queue gives an item up when its requeue counter
// reaches Result.MaxRequeueTimes; that counter is advanced only through the queue's rate
// limiter (AddRateLimited / RateLimiter.When). R8: in the sync queue those calls occur only on
// the edge where the handler returned an error — a handler-requested requeue (RequeueAfter)
// never consumes the retry budget. Otherwise the third retry of a still-failing cluster is the
// last one, no later event of that object arrives, and the gateway never reaches the state a
// freshly started gateway computes from the latest objects.
func c11RetryBudget(c *eng.Ctx) {
	c.Rule("R8", "handler-requested requeues do not consume the retry budget: in the worker path of the sync queue (processNextWorkItem and its helpers) every call that advances an item's requeue counter (AddRateLimited, RateLimiter.When) is control-dependent on the sync handler having returned an error", 1)
	pn := c.MustMethod(pkgSyncQueue, "SyncQueue", "processNextWorkItem")
	if pn == nil {
		return
	}
	// the handler's error: result #1 of the dynamic call of the syncHandler field
	isHandlerErr := func(v ssa.Value) bool {
		cc, i := eng.CallResultOf(v)
		if cc == nil || i != 1 || cc.Call.IsInvoke() || cc.Call.StaticCallee() != nil {
			return false
		}
		return eng.FieldLoadOf(cc.Call.Value, pkgSyncQueue+".SyncQueue", "syncHandler")
	}
	n := 0
	for _, fn := range c.W.Region(pn) {
		for _, ci := range eng.Calls(fn) {
			if !(eng.MethodNameIs(ci, "AddRateLimited") || eng.MethodNameIs(ci, "When")) {
				continue
			}
			o := eng.CalleeObj(ci)
			if o == nil || o.Pkg() == nil || o.Pkg().Path() != "k8s.io/client-go/util/workqueue" {
				continue
			}
			n++
			ok := eng.GuardedByNil(ci.(ssa.Instruction), isHandlerErr, false)
			c.Check("R8", fn, fmt.Sprintf("requeue counter advanced#%d only after a handler error", n), ci.Pos(), ok,
				"the requeue counter is advanced on a path where the handler did not fail: requeues the controller asks for while a cluster cannot be applied yet count against MaxRequeueTimes and the cluster is abandoned after a few attempts")
		}
	}
	if n == 0 {
		c.Fail("R8", pn, "calls advancing the requeue counter", pn.Pos(), "none found (AddRateLimited / RateLimiter.When)")
	}
}
