package rules

import (
	"fmt"

	"golang.org/x/tools/go/ssa"

	"kgv/internal/eng"
)

func init() { RegisterExtra("C08", c08AcceptIsLimiterAnswer) }

// c08AcceptIsLimiterAnswer (C08.R7): on the server, an acquire result says Accept only as the
// limiter's own answer. Every value stored into RateLimitAcquireResult.Accept in DoAcquire
// (and the helpers its body is spread over) is the constant false, the result of
// GlobalFlowControl.TryAcquireN, or the constant true on the edge where the accept result of
// GlobalFlowControl.SetState (or the result of TryAcquireN) is true. A shortcut that answers Accept without consulting the
// limiter (e.g. for a zero report) skips the accounting: the report that lowers an
// instance's count to zero is never applied and the room is never given back.
func c08AcceptIsLimiterAnswer(c *eng.Ctx) {
	c.Rule("R7", "Accept is the limiter's own answer: every value stored into RateLimitAcquireResult.Accept in DoAcquire is false, the result of TryAcquireN, or true under the accept result of SetState", 3)
	da := c.MustMethod(pkgLimiter, "rateLimiter", "DoAcquire")
	if da == nil {
		return
	}
	tRes := pkgV1alpha1 + ".RateLimitAcquireResult"
	isLimiterCall := func(v ssa.Value, name string, idx int) bool {
		cc, i := eng.CallResultOf(v)
		if cc == nil || !eng.MethodNameIs(cc, name) {
			return false
		}
		if idx >= 0 && i != idx {
			return false
		}
		return eng.TypeName(eng.Receiver(cc).Type()) == tGlobalFC || eng.RecvTypeName(cc) == tGlobalFC
	}
	sl := c.Slicer()
	n := 0
	for _, fn := range c.W.Region(da) {
		for _, st := range eng.StoresToField([]*ssa.Function{fn}, tRes, "Accept") {
			n++
			ok := false
			switch {
			case eng.IsBoolConst(st.Val, false):
				ok = true
			case eng.IsBoolConst(st.Val, true):
				ok = eng.GuardedByBool(st, func(v ssa.Value) bool { return isLimiterCall(v, "SetState", 0) || isLimiterCall(v, "TryAcquireN", -1) }, true)
			default:
				// a computed value: every origin is a TryAcquireN result, a SetState accept result or false
				ls := sl.Leaves(st.Val, func(v ssa.Value) bool {
					return isLimiterCall(v, "TryAcquireN", -1) || isLimiterCall(v, "SetState", 0)
				})
				ok = len(ls) > 0
				for _, l := range ls {
					if !(isLimiterCall(l, "TryAcquireN", -1) || isLimiterCall(l, "SetState", 0) || eng.IsBoolConst(l, false)) {
						ok = false
					}
				}
			}
			c.Check("R7", da, fmt.Sprintf("Accept store#%d is the limiter's answer", n), st.Pos(), ok,
				"Accept is set without the limiter having been asked: the report or ask on that path never reaches the accounting (a zero in-flight report is not applied, tokens are granted that were never taken)")
		}
	}
	if n == 0 {
		c.Fail("R7", da, "stores of RateLimitAcquireResult.Accept", da.Pos(), "none found in DoAcquire")
	}
}
