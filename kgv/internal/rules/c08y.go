package rules

import (
	"fmt"

	"golang.org/x/tools/go/ssa"

	"kgv/internal/eng"
)

func init() { RegisterExtra("C08", c08AcceptIsLimiterAnswer) }

// c08AcceptIsLimiterAnswer (C08.R7): on the server, an acquire result says Accept only as the
// limiter's own answer. Every value stored into RateLimitAcquireResult.Accept in DoAcquire
// (and the helpers its body is spread over) is the constant false, the result of
// GlobalFlowControl.TryAcquireN, or the constant true on the edge where the accept result of
// GlobalFlowControl.SetState (or the result of TryAcquireN) is true. A shortcut that answers Accept without consulting the
// limiter (e.g. for a zero report) skips the accounting: the report that lowers an
// instance's count to zero is never applied and the room is never given back.
func c08AcceptIsLimiterAnswer(c *eng.Ctx) {
	c.Rule("R7", "Accept is the limiter's own answer: every value stored into RateLimitAcquireResult.Accept in DoAcquire is false, the result of TryAcquireN, or true under the accept result of SetState", 3)
	da := c.MustMethod(pkgLimiter, "rateLimiter", "DoAcquire")
	if da == nil {
		return
	}
	tRes := pkgV1alpha1 + ".RateLimitAcquireResult"
	isLimiterCall := func(v ssa.Value, name string, idx int) bool {
		cc, i := eng.CallResultOf(v)
		if cc == nil || !eng.MethodNameIs(cc, name) {
			return false
		}
		if idx >= 0 && i != idx {
			return false
		}
		return eng.TypeName(eng.Receiver(cc).Type()) == tGlobalFC || eng.RecvTypeName(cc) == tGlobalFC
	}
	isAnswer := func(v ssa.Value) bool { return isLimiterCall(v, "SetState", 0) || isLimiterCall(v, "TryAcquireN", -1) }
	// okAt: value v, used at instruction `at`, is the limiter's own answer
	var okAt func(v ssa.Value, at ssa.Instruction, depth int) bool
	okAt = func(v ssa.Value, at ssa.Instruction, depth int) bool {
		if depth < 0 || v == nil {
			return false
		}
		switch x := v.(type) {
		case *ssa.Const:
			if eng.IsBoolConst(x, false) {
				return true
			}
			if eng.IsBoolConst(x, true) {
				return at != nil && eng.GuardedByBool(at, isAnswer, true)
			}
			return false
		case *ssa.Phi:
			for i, e := range x.Edges {
				pred := x.Block().Preds[i]
				if !okAt(e, pred.Instrs[len(pred.Instrs)-1], depth-1) {
					return false
				}
			}
			return true
		case *ssa.UnOp:
			// a local cell (e.g. a captured result variable): every store into it
			if al, ok := x.X.(*ssa.Alloc); ok && al.Referrers() != nil {
				n := 0
				for _, r := range *al.Referrers() {
					if st, isSt := r.(*ssa.Store); isSt && st.Addr == ssa.Value(al) {
						n++
						if !okAt(st.Val, st, depth-1) {
							return false
						}
					}
				}
				return n > 0
			}
		}
		if isAnswer(v) {
			return true
		}
		// a result of a same-package helper: every return of the helper hands on an answer
		if cc, idx := eng.CallResultOf(v); cc != nil {
			if callee := cc.Call.StaticCallee(); callee != nil && callee.Pkg == da.Pkg && callee.Blocks != nil {
				if idx < 0 {
					idx = 0
				}
				n := 0
				for _, b := range callee.Blocks {
					ret, isRet := b.Instrs[len(b.Instrs)-1].(*ssa.Return)
					if !isRet || b == callee.Recover {
						continue
					}
					rs := eng.ReturnResults(ret)
					if idx >= len(rs) {
						return false
					}
					n++
					if !okAt(rs[idx], ret, depth-1) {
						return false
					}
				}
				return n > 0
			}
		}
		return false
	}
	n := 0
	for _, fn := range c.W.Region(da) {
		for _, st := range eng.StoresToField([]*ssa.Function{fn}, tRes, "Accept") {
			n++
			c.Check("R7", da, fmt.Sprintf("Accept store#%d is the limiter's answer", n), st.Pos(), okAt(st.Val, st, 4),
				"Accept is set without the limiter having been asked: the report or ask on that path never reaches the accounting (a zero in-flight report is not applied, tokens are granted that were never taken)")
		}
	}
	if n == 0 {
		c.Fail("R7", da, "stores of RateLimitAcquireResult.Accept", da.Pos(), "none found in DoAcquire")
	}
}
