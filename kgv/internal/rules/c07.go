package rules

import (
	"fmt"
	"go/token"

	"golang.org/x/tools/go/ssa"

	"kgv/internal/eng"
)

func init() {
	Register("C07", c07)
	RegisterFixture("C07", c07Fixtures)
}

const (
	tLimitStore  = pkgRLStoreIf + ".LimitStore"
	tRateLimiter = pkgLimiter + ".rateLimiter"
	fnNextQuota  = pkgLimiter + ".calculateNextQuota"
	fnGetQuota   = pkgLimiter + ".getLimitQuota"
	fnSetFCLimit = pkgLimiter + ".setFlowControlLimit"
)

// c07QuotaOf returns the float64(getLimitQuota(param_k.LimitItemDetail, …)) value of fn for
// parameter index k, or nil. The conversion may sit in fn or be the single result of a pure
// helper / local closure called by fn with param_k.LimitItemDetail.
func c07QuotaOf(fn *ssa.Function, k int) ssa.Value {
	var out ssa.Value
	eng.Instrs(fn, func(ins ssa.Instruction) {
		v, ok := ins.(ssa.Value)
		if !ok {
			return
		}
		var env *c07Env
		cv, isCv := ins.(*ssa.Convert)
		if call, isCall := ins.(*ssa.Call); isCall && !isCv {
			// a helper whose only result is the converted quota of its argument
			callee := call.Call.StaticCallee()
			if callee == nil {
				if mc, isMC := call.Call.Value.(*ssa.MakeClosure); isMC {
					callee, _ = mc.Fn.(*ssa.Function)
				}
			}
			if !eng.Analysable(callee) || callee.Signature.Results().Len() != 1 || len(callee.Params) != len(call.Call.Args) {
				return
			}
			var rets []*ssa.Return
			eng.Instrs(callee, func(i ssa.Instruction) {
				if r, isR := i.(*ssa.Return); isR && i.Block() != callee.Recover {
					rets = append(rets, r)
				}
			})
			if len(rets) != 1 || len(rets[0].Results) != 1 {
				return
			}
			cv, isCv = eng.ReturnResults(rets[0])[0].(*ssa.Convert)
			env = &c07Env{call: call, callee: callee}
		}
		if !isCv {
			return
		}
		cc, _ := eng.CallResultOf(cv.X)
		if cc == nil || !eng.IsCall(cc, fnGetQuota) {
			return
		}
		root, path := c07PathOf(eng.Args(cc)[0], env)
		if root == ssa.Value(fn.Params[k]) && len(path) == 1 && path[0] == "LimitItemDetail" {
			out = v
		}
	})
	return out
}

func c07(c *eng.Ctx) {
	c.Rule("R1", "quota bounds at the point where calculateNextQuota hands the quota to setFlowControlLimit (global-allocate branch): next ≥ 1; next ≤ max(total, 1); next ≤ max(current + remaining, 1) with remaining = max(total − allocated, 0); burst = ceil(next/total·Burst_total) only when total > 0", 6)
	c.Rule("R2", "read-compute-save is one critical section: every store read whose result feeds calculateNextQuota/calculateUpstreamCondition, and both Saves, execute after the per-upstream mutex is locked and before it is released (deferred unlock)", 5)
	c.Rule("R4", "the recorded usage survives a cluster update: in updateUpstreamStateCondition the status kept for a schema is the previously recorded one whenever it exists; a fresh (zero) status is used only when the lookup by schema name found nothing", 2)
	c.Rule("R5", "the recorded sum is the sum of the quotas on record: calculateUpstreamCondition adds the Spec quota (max / qps / burst) of every item of every condition listed for the upstream, skipping only the upstream's own state record, and stores the result as the state's status", 6)
	c.Rule("R3", "on every successful return of UpdateRateLimitConditionStatus: Save(condition) → calculateUpstreamCondition → Save(upstream condition), each Save's error checked, the recomputation works on the stored state object, and the returned object is the saved one", 6)

	// ---- R1
	if fn := c.MustFunc(pkgLimiter, "calculateNextQuota"); fn != nil {
		sinks := eng.CallsTo(fn, fnSetFCLimit)
		if len(sinks) != 1 {
			c.Fail("R1", fn, "quota sink", fn.Pos(), fmt.Sprintf("expected one setFlowControlLimit call, found %d", len(sinks)))
		} else {
			sink := sinks[0]
			args := eng.Args(sink)
			next, burst := args[2], args[3]
			total, allocated, current := c07QuotaOf(fn, 0), c07QuotaOf(fn, 1), c07QuotaOf(fn, 2)
			if total == nil || allocated == nil || current == nil {
				c.Fail("R1", fn, "quota operands", fn.Pos(), "total/allocated/current are not read with getLimitQuota from the upstream total, the upstream usage and the instance's configuration")
			} else {
				// the bounder sees through pure helpers the clamp sequence may have been moved into
				b := eng.NewBounderIn(fn)
				f := b.Facts(next)
				tTotal, tCur, tAlloc := b.TermOf(total), b.TermOf(current), b.TermOf(allocated)
				one := eng.Num(1)
				c.Check("R1", fn, "next ≥ 1", sink.Pos(), f.HasL(func(t *eng.Term) bool { return t.K == eng.TConst && t.C >= 1 }),
					"every quota answered is at least 1 — the floor must be the last adjustment (e.g. total=100, allocated=800, current=400 gives −300 otherwise); derived: "+f.String())
				capKey := eng.Bin(eng.TMax, tTotal, one).Key()
				c.Check("R1", fn, "next ≤ max(total, 1)", sink.Pos(), f.Int && f.HasU(func(t *eng.Term) bool { return t.Key() == capKey || t.Key() == tTotal.Key() }),
					"a quota never exceeds the global limit; derived: "+f.String())
				// growth bound: some upper bound max(current + R, 1) with R = max(total − allocated, 0)
				var rem ssa.Value
				growth := f.HasU(func(t *eng.Term) bool {
					u := t
					if u.K == eng.TMax {
						switch {
						case u.B.K == eng.TConst && u.B.C == 1:
							u = u.A
						case u.A.K == eng.TConst && u.A.C == 1:
							u = u.B
						}
					}
					if u.K != eng.TAdd {
						return false
					}
					for _, pair := range [][2]*eng.Term{{u.A, u.B}, {u.B, u.A}} {
						if pair[0].Key() == tCur.Key() && pair[1].K == eng.TVal {
							rem = pair[1].V
							return true
						}
					}
					return false
				})
				c.Check("R1", fn, "growth ≤ remaining", sink.Pos(), growth, "the quota grows by at most the remaining quota: next ≤ max(current + remaining, 1); derived: "+f.String())
				if rem != nil {
					fr := b.Facts(rem)
					wantKey := eng.Bin(eng.TMax, eng.Bin(eng.TSub, tTotal, tAlloc), eng.Num(0)).Key()
					okR := fr.HasL(func(t *eng.Term) bool { return t.K == eng.TConst && t.C >= 0 }) &&
						fr.HasU(func(t *eng.Term) bool { return t.Key() == wantKey })
					c.Check("R1", fn, "remaining = max(total − allocated, 0)", rem.Pos(), okR,
						"when the recorded sum already exceeds the limit (limit lowered) nothing remains and no quota may grow; derived: "+fr.String())
				} else {
					c.Fail("R1", fn, "remaining = max(total − allocated, 0)", sink.Pos(), "no growth bound found")
				}
				// the sink receives an integral value: the rounding comes after every adjustment that can
				// produce a fraction (decided on the value, wherever the math.Ceil sits)
				c.Check("R1", fn, "quota is integral", sink.Pos(), f.Int, "the value converted to int32 by setFlowControlLimit is integral (ceil applied after all clamps); derived: "+f.String())
				// burst shape
				c07Burst(c, fn, sink, burst, next, total)
			}
		}
	}

	c07State(c)

	// ---- R2 / R3
	if up := c.MustMethod(pkgLimiter, "rateLimiter", "UpdateRateLimitConditionStatus"); up != nil {
		sl := c.Slicer().WithArgs()
		isMutexOfUpstream := func(v ssa.Value) bool {
			return c.Slicer().DerivesFrom(v, func(x ssa.Value) bool {
				l, ok := x.(*ssa.Lookup)
				return ok && eng.FieldLoadOf(l.X, tRateLimiter, "upstreamLock")
			})
		}
		isLock := func(ins ssa.Instruction) bool {
			return eng.IsPlainCall(ins, "(*sync.Mutex).Lock") && isMutexOfUpstream(eng.Receiver(ins.(ssa.CallInstruction)))
		}
		var deferUnlock, plainUnlock int
		for _, ci := range eng.CallsTo(up, "(*sync.Mutex).Unlock") {
			if !isMutexOfUpstream(eng.Receiver(ci)) {
				continue
			}
			if _, isD := ci.(*ssa.Defer); isD {
				deferUnlock++
				// the defer must follow the lock immediately (no read between lock and defer matters; it must be dominated by the lock)
				if !eng.AlwaysBefore(up, ci, isLock) {
					plainUnlock++
				}
			} else {
				plainUnlock++
			}
		}
		c.Check("R2", up, "per-upstream mutex held to the exit", up.Pos(), deferUnlock == 1 && plainUnlock == 0,
			"the mutex of r.upstreamLock[upstream] is released by one deferred Unlock dominated by its Lock")
		// the report path together with the helpers (all callers known) its tail may have been moved
		// into; a helper's parameter stands for the operand every call site binds to it
		region := c.W.Region(up)
		upv := func(v ssa.Value) ssa.Value { return c07UpTo(c.W, v, up) }
		regionCalls := func(match func(ssa.CallInstruction) bool) []ssa.CallInstruction {
			var out []ssa.CallInstruction
			for _, rf := range region {
				for _, ci := range eng.Calls(rf) {
					if match(ci) {
						out = append(out, ci)
					}
				}
			}
			return out
		}
		// before(target, pred): every path to target — from the entry of its own function and, when
		// that is a helper, from the entry of the report path to the helper's call — passes pred
		before := func(target ssa.Instruction, pred func(ssa.Instruction) bool) bool {
			return eng.AlwaysBefore(target.Parent(), target, pred)
		}
		// reads feeding the computation
		cuFn, _, _ := c07CalcUpstream(c)
		nqFn := c.W.Func(pkgLimiter, "calculateNextQuota")
		isCalcUp := func(ci ssa.CallInstruction) bool { return cuFn != nil && eng.CalleeFn(ci) == cuFn }
		var feeds []ssa.Value
		for _, ci := range regionCalls(func(ci ssa.CallInstruction) bool {
			return isCalcUp(ci) || (nqFn != nil && eng.CalleeFn(ci) == nqFn) || eng.IsCall(ci, fnNextQuota)
		}) {
			for _, a := range ci.Common().Args {
				feeds = append(feeds, upv(a))
			}
		}
		nReads := 0
		for _, ci := range regionCalls(func(ci ssa.CallInstruction) bool {
			return eng.IsCall(ci, "("+tLimitStore+").Get", "("+tLimitStore+").ListUpstream", "("+tLimitStore+").List")
		}) {
			call, ok := ci.(*ssa.Call)
			if !ok {
				continue
			}
			flows := false
			for _, a := range feeds {
				if sl.DerivesFrom(a, func(v ssa.Value) bool { cc, _ := eng.CallResultOf(v); return cc == call }) {
					flows = true
				}
			}
			if !flows {
				continue
			}
			nReads++
			what := "condition"
			if cs, _ := eng.CallResultOf(eng.Args(call)[len(eng.Args(call))-1]); cs != nil && eng.IsCall(cs, pkgLimiter+".upstreamStateConditionName") {
				what = "upstream state"
			}
			c.Check("R2", up, fmt.Sprintf("read of %s inside the critical section", what), call.Pos(), before(call, isLock),
				"a store read that feeds the quota computation executes before the per-upstream mutex is taken: two overlapping reports both see the same remaining quota and together over-commit the limit")
		}
		if nReads < 1 {
			c.Fail("R2", up, "reads feeding the computation", up.Pos(), "the upstream state (recorded sum and global limit) is not read from the store")
		}
		saves := regionCalls(func(ci ssa.CallInstruction) bool { return eng.IsCall(ci, "("+tLimitStore+").Save") })
		for i, s := range saves {
			c.Check("R2", up, fmt.Sprintf("save#%d inside the critical section", i+1), s.Pos(), before(s, isLock), "")
		}
		for _, ci := range regionCalls(isCalcUp) {
			c.Check("R2", up, "recomputation of the allocated sum inside the critical section", ci.Pos(), before(ci, isLock), "")
		}

		// ---- R3
		var s1, s2, cu ssa.CallInstruction
		for _, ci := range regionCalls(isCalcUp) {
			cu = ci
		}
		for _, s := range saves {
			a := eng.Args(s)
			if upv(a[1]) == ssa.Value(up.Params[2]) {
				s1 = s
			} else if cu != nil && c.Slicer().DerivesFrom(a[1], func(v ssa.Value) bool { return v == eng.ResultValue(cu) }) {
				s2 = s
			}
		}
		if s1 == nil || s2 == nil || cu == nil {
			c.Fail("R3", up, "save → recompute → save", up.Pos(), "Save(condition), calculateUpstreamCondition and Save(upstream condition) not all found")
		} else {
			eng.Instrs(up, func(ins ssa.Instruction) {
				r, ok := ins.(*ssa.Return)
				if !ok || len(r.Results) != 2 {
					return
				}
				res := eng.ReturnResults(r)
				if !eng.IsNilConst(res[1]) {
					return
				}
				is := func(x ssa.CallInstruction) func(ssa.Instruction) bool {
					return func(i ssa.Instruction) bool { return i == x.(ssa.Instruction) }
				}
				// the last step may sit in a helper that reports one error: it precedes the return
				// on the paths on which the helper reported success
				order := eng.AlwaysBeforeOK(up, r, is(s2)) && before(s2, is(cu)) && before(cu, is(s1))
				c.Check("R3", up, "success ⇒ save, recompute, save in order", r.Pos(), order, "the allocated sum must be recomputed from the store after the instance's new quota is saved, and saved, before the report is acknowledged")
				errNil := func(s ssa.CallInstruction) bool {
					return eng.HoldsOnSuccess(r, func(at ssa.Instruction) bool {
						return eng.GuardedByNil(at, func(v ssa.Value) bool { return v == eng.ResultValue(s) }, true)
					})
				}
				c.Check("R3", up, "success ⇒ both Save errors were nil", r.Pos(), errNil(s1) && errNil(s2), "a failed Save must not be acknowledged as success")
				c.Check("R3", up, "the saved condition is returned", r.Pos(), res[0] == ssa.Value(up.Params[2]), "")
			})
			// the recomputation reads the store it saved to, and the saved sum is its result
			// (the operands bound to the store and the state parameter, wherever they stand)
			var ca []ssa.Value
			if _, pStore, pState := c07CalcUpstream(c); pStore != nil {
				a0, a1 := c13ArgFor(cu, c13ParamIndex(pStore.(*ssa.Parameter))), c13ArgFor(cu, c13ParamIndex(pState.(*ssa.Parameter)))
				if a0 != nil && a1 != nil {
					ca = []ssa.Value{upv(a0), upv(a1)}
				}
			}
			c.Check("R3", up, "recomputation uses the same store", cu.Pos(), len(ca) == 2 && ca[0] == upv(eng.Receiver(s1)) && upv(eng.Receiver(s1)) == upv(eng.Receiver(s2)), "")
			// the sum is refreshed on the stored state object itself: if the following Save of the state fails
			// (write-through API store), the record in memory still accounts for the quota just saved
			stored := false
			if len(ca) == 2 {
				if cc, idx := eng.CallResultOf(ca[1]); cc != nil && idx == 0 && eng.IsCall(cc, "("+tLimitStore+").Get") {
					stored = true
				}
			}
			c.Check("R3", up, "recomputation updates the stored state object in place", cu.Pos(), stored,
				"the allocated sum must be refreshed on the object obtained from the store (not on a copy): with a copy, a failed Save of the state after the instance's quota was saved leaves a stale sum on record and the next report spends the same remaining quota again")
			// same upstream key for both saves
			k1, k2 := upv(eng.Args(s1)[0]), upv(eng.Args(s2)[0])
			c.Check("R3", up, "both saves keyed by the condition's upstream", s1.Pos(), sameLoad(k1, k2), "")
		}
	}
}

// c07Env is the call through which a helper's body is looked at: the helper's parameters stand
// for the arguments of that call.
type c07Env struct {
	call   *ssa.Call
	callee *ssa.Function
	parent *c07Env
}

// c07Resolve replaces a parameter of the helper entered through env by the argument bound to it.
func c07Resolve(v ssa.Value, env *c07Env) (ssa.Value, *c07Env) {
	for env != nil {
		prm, ok := v.(*ssa.Parameter)
		if !ok || prm.Parent() != env.callee {
			break
		}
		idx := -1
		for i, q := range prm.Parent().Params {
			if q == prm {
				idx = i
			}
		}
		if idx < 0 || idx >= len(env.call.Call.Args) {
			break
		}
		v, env = env.call.Call.Args[idx], env.parent
	}
	return v, env
}

// c07PathOf is eng.AccessPath continued through helper parameters.
func c07PathOf(v ssa.Value, env *c07Env) (ssa.Value, []string) {
	var path []string
	for i := 0; i < 8; i++ {
		root, p := eng.AccessPath(v)
		path = append(append([]string{}, p...), path...)
		r2, e2 := c07Resolve(root, env)
		if r2 == root {
			return root, path
		}
		v, env = r2, e2
	}
	return v, path
}

// c07Origin is one of the values a quantity may be: reached through joins, math.Ceil and the
// returns of pure helpers.
type c07Origin struct {
	v    ssa.Value
	env  *c07Env
	ceil bool // a math.Ceil is applied on the way to the sink
}

func c07Origins(v ssa.Value, env *c07Env, ceil bool, depth int, seen map[c07Origin]bool, out *[]c07Origin) {
	v, env = c07Resolve(v, env)
	k := c07Origin{v, env, ceil}
	if seen[k] {
		return
	}
	seen[k] = true
	switch x := v.(type) {
	case *ssa.Phi:
		for _, e := range x.Edges {
			c07Origins(e, env, ceil, depth, seen, out)
		}
		return
	case *ssa.Call:
		if eng.IsCall(x, "math.Ceil") {
			c07Origins(eng.Args(x)[0], env, true, depth, seen, out)
			return
		}
		callee := x.Call.StaticCallee()
		if depth > 0 && eng.Analysable(callee) && !eng.HasLoop(callee) && callee.Signature.Results().Len() == 1 {
			n := 0
			eng.Instrs(callee, func(ins ssa.Instruction) {
				if r, ok := ins.(*ssa.Return); ok && r.Block() != callee.Recover && len(r.Results) == 1 {
					n++
					c07Origins(eng.ReturnResults(r)[0], &c07Env{x, callee, env}, ceil, depth-1, seen, out)
				}
			})
			if n > 0 {
				return
			}
		}
	}
	*out = append(*out, k)
}

// c07GuardedIn reports whether ins — or, when ins sits in a helper entered through env, the call
// through which the helper was entered (and so on outwards) — executes only under a branch
// condition satisfying pred.
func c07GuardedIn(ins ssa.Instruction, env *c07Env, pred func(eng.Rel, *c07Env) bool) bool {
	for {
		for _, g := range eng.GuardsOf(ins) {
			if pred(g.Rel(), env) {
				return true
			}
		}
		if env == nil {
			return false
		}
		ins, env = env.call, env.parent
	}
}

// c07Burst checks that the burst handed to the sink is either 0 or
// ceil(next/total × global burst), the division evaluated only under total > 0 — wherever the
// product, the test and the rounding sit (in calculateNextQuota or in a pure helper).
func c07Burst(c *eng.Ctx, fn *ssa.Function, sink ssa.CallInstruction, burst, next, total ssa.Value) {
	var origins []c07Origin
	c07Origins(burst, nil, false, 2, map[c07Origin]bool{}, &origins)
	ok := true
	detail := "burst = ceil(next/total × global burst), next ≤ max(total,1) and total ≥ 1 integral ⇒ burst ≤ global burst"
	nProd := 0
	for _, o := range origins {
		if z, isC := eng.IntConst(o.v); isC && z == 0 {
			continue // no burst (not a token bucket, or no global limit)
		}
		prod, isB := o.v.(*ssa.BinOp)
		if !isB || prod.Op != token.MUL {
			ok, detail = false, "burst is not ceil(next/total × global burst) guarded by total > 0"
			continue
		}
		var ratio *ssa.BinOp
		var factor ssa.Value
		if q, isQ := prod.X.(*ssa.BinOp); isQ && q.Op == token.QUO {
			ratio, factor = q, prod.Y
		} else if q, isQ := prod.Y.(*ssa.BinOp); isQ && q.Op == token.QUO {
			ratio, factor = q, prod.X
		}
		if ratio == nil {
			ok, detail = false, "burst is not ceil(next/total × global burst) guarded by total > 0"
			continue
		}
		rx, _ := c07Resolve(ratio.X, o.env)
		ry, _ := c07Resolve(ratio.Y, o.env)
		if rx != next || ry != total {
			ok, detail = false, "burst is not ceil(next/total × global burst) guarded by total > 0"
			continue
		}
		nProd++
		// factor = float64(upstreamTotal…TokenBucket.Burst)
		fromBurst := false
		fv, fenv := c07Resolve(factor, o.env)
		if cv, isCv := fv.(*ssa.Convert); isCv {
			root, path := c07PathOf(cv.X, fenv)
			fromBurst = root == ssa.Value(fn.Params[0]) && len(path) > 0 && path[len(path)-1] == "Burst"
		}
		guard := c07GuardedIn(prod, o.env, func(r eng.Rel, env *c07Env) bool {
			x, _ := c07Resolve(r.X, env)
			y, _ := c07Resolve(r.Y, env)
			op := r.Op
			if _, isK := eng.IntConst(x); isK {
				x, y, op = y, x, eng.FlipOp(op)
			}
			z, isZ := eng.IntConst(y)
			if x != total || !isZ {
				return false
			}
			return (z == 0 && (op == token.GTR || op == token.NEQ)) || (z >= 0 && op == token.GTR) || (z >= 1 && op == token.GEQ)
		})
		switch {
		case !fromBurst:
			ok, detail = false, "burst is not scaled from the global burst of the upstream total"
		case !guard:
			ok, detail = false, "next/total is evaluated without total > 0: with a zero global limit the burst becomes NaN/Inf and converts to an arbitrary int32"
		case !o.ceil:
			ok, detail = false, "burst is not ceil(next/total × global burst) guarded by total > 0"
		}
	}
	if nProd == 0 && ok {
		ok, detail = false, "burst is not ceil(next/total × global burst) guarded by total > 0"
	}
	c.Check("R1", fn, "burst ≤ global burst", sink.Pos(), ok, detail)
}

// ---------------------------------------------------------------------------------------

const c07FxSrc = `package fx
func sink(x float64) {}
func ceil(x float64) float64 { return x }
func good(total, allocated, cur, x float64) {
	rem := total - allocated
	if rem < 0 { rem = 0 }
	next := x
	if next-cur > rem { next = cur + rem }
	if next > total { next = total }
	if next < 1 { next = 1 }
	sink(next)
}
func badOrder(total, allocated, cur, x float64) {
	rem := total - allocated
	next := x
	if next < 1 { next = 1 }
	if next-cur > rem { next = cur + rem }
	sink(next)
}
func remOf(total, allocated float64) float64 {
	if allocated >= total { return 0 }
	return total - allocated
}
func tail(x, cur, rem, total float64) float64 {
	if x-cur > rem { x = cur + rem }
	if total < x { x = total }
	if x < 1 { return 1 }
	return ceil(x)
}
func tailBad(x, cur, rem, total float64) float64 {
	if x < 1 { x = 1 }
	if x-cur > rem { return cur + rem }
	return x
}
func goodHelper(total, allocated, cur, x float64) {
	sink(tail(x, cur, remOf(total, allocated), total))
}
func badHelper(total, allocated, cur, x float64) {
	sink(tailBad(x, cur, remOf(total, allocated), total))
}
`

func c07Fixtures(c *eng.Ctx) {
	p, _, err := eng.BuildFixture(c07FxSrc)
	if err != nil {
		c.Fixture("C07.bounds/build", "ok", err.Error())
		return
	}
	for name, want := range map[string]string{"good": "ge1=true cap=true", "badOrder": "ge1=false cap=false", "goodHelper": "ge1=true cap=true", "badHelper": "ge1=false cap=false"} {
		fn := p.Func(name)
		call := eng.CallsTo(fn, "fx.sink")[0]
		b := eng.NewBounderIn(fn)
		f := b.Facts(eng.Args(call)[0])
		ge1 := f.HasL(func(t *eng.Term) bool { return t.K == eng.TConst && t.C >= 1 })
		capKey := eng.Bin(eng.TMax, b.TermOf(fn.Params[0]), eng.Num(1)).Key()
		cp := f.HasU(func(t *eng.Term) bool { return t.Key() == capKey })
		c.Fixture("C07.bounds/"+name, want, fmt.Sprintf("ge1=%v cap=%v", ge1, cp))
	}
}

// c07State: R4 and R5.
func c07State(c *eng.Ctx) {
	// ---- R4
	// updateUpstreamStateCondition by name, or the function that consults the recorded statuses by
	// schema name (a comma-ok lookup in util.FlowControlStatusToMap(...))
	if us := c13Anchor(c, pkgLimiter, "", "updateUpstreamStateCondition", func(fn *ssa.Function) bool {
		found := false
		eng.Instrs(fn, func(ins ssa.Instruction) {
			if l, ok := ins.(*ssa.Lookup); ok && l.CommaOk {
				if cc, _ := eng.CallResultOf(l.X); cc != nil && eng.IsCall(cc, pkgRLUtil+".FlowControlStatusToMap") {
					found = true
				}
			}
		})
		return found
	}); us != nil {
		// the lookup of the previously recorded status by schema name
		var look *ssa.Lookup
		eng.Instrs(us, func(ins ssa.Instruction) {
			l, ok := ins.(*ssa.Lookup)
			if !ok || !l.CommaOk {
				return
			}
			cc, _ := eng.CallResultOf(l.X)
			if cc != nil && eng.IsCall(cc, pkgRLUtil+".FlowControlStatusToMap") {
				look = l
			}
		})
		if look == nil {
			c.Fail("R4", us, "recorded status looked up by schema name", us.Pos(), "the previous status of the schemas is not consulted: every cluster update forgets the allocated sums")
		} else {
			// the status map is built from the state's own recorded statuses
			cc, _ := eng.CallResultOf(look.X)
			fromState := c.Slicer().DerivesFrom(eng.Args(cc)[0], func(v ssa.Value) bool {
				return eng.FieldLoadOf(v, pkgV1alpha1+".RateLimitStatus", "LimitItemStatuses")
			})
			c.Check("R4", us, "recorded status looked up by schema name", look.Pos(), fromState, "the map must be built from the state condition's own Status.LimitItemStatuses")
			// every zero-status literal (store of the constant RequestLevel 0 / empty detail into the status cell)
			// is control-dependent on exactly the lookup's ok flag being false
			var okVal ssa.Value
			for _, e := range eng.ExtractOf(look, 1) {
				okVal = e
			}
			n := 0
			eng.Instrs(us, func(ins ssa.Instruction) {
				st, isSt := ins.(*ssa.Store)
				if !isSt || !eng.FieldAddrOf(st.Addr, pkgV1alpha1+".RateLimitItemStatus", "RequestLevel") {
					return
				}
				n++
				guards := eng.GuardsOf(st)
				onlyNotFound := false
				for _, g := range guards {
					r := g.Rel()
					if r.X == okVal && ((eng.IsBoolConst(r.Y, false) && r.Op == token.EQL) || (eng.IsBoolConst(r.Y, true) && r.Op == token.NEQ)) {
						onlyNotFound = true
					}
				}
				c.Check("R4", us, "fresh status only when none is recorded", st.Pos(), onlyNotFound && okVal != nil,
					"the recorded status (allocated sum, request level) of a schema is replaced by a zero status although one is on record — e.g. when the global limit changes: the next report then sees allocated = 0 and is granted the whole limit on top of the quotas already out")
			})
			if n == 0 {
				c.Fail("R4", us, "fresh status only when none is recorded", us.Pos(), "no initial status for new schemas found")
			}
		}
	}
	// ---- R5
	cu, cuStore, cuState := c07CalcUpstream(c)
	if cu == nil {
		return
	}
	// calculateUpstreamCondition together with the helpers (all callers known) its loops may have
	// been spread over; a value that is a helper's parameter stands for the argument bound to it
	region := c.W.Region(cu)
	up := func(v ssa.Value) ssa.Value { return c07UpTo(c.W, v, cu) }
	slUp := c.Slicer().WithUp()
	// the conditions summed are ListUpstream(of the state's own upstream)
	var lists []ssa.CallInstruction
	for _, rf := range region {
		lists = append(lists, eng.CallsTo(rf, "("+tLimitStore+").ListUpstream")...)
	}
	okList := len(lists) == 1 && up(eng.Receiver(lists[0])) == cuStore &&
		eng.FieldLoadOf(up(eng.Args(lists[0])[0]), pkgV1alpha1+".RateLimitSpec", "UpstreamCluster")
	c.Check("R5", cu, "sums over every condition of the state's upstream", cu.Pos(), okList, "the allocated sum is computed from ListUpstream(state.Spec.UpstreamCluster) of the store passed in")
	// accumulations: x.F += item.F with item from Spec.LimitItemConfigurations (not Status)
	type acc struct{ typ, field string }
	for _, a := range []acc{{pkgV1alpha1 + ".MaxRequestsInflightFlowControlSchema", "Max"}, {pkgV1alpha1 + ".TokenBucketFlowControlSchema", "QPS"}, {pkgV1alpha1 + ".TokenBucketFlowControlSchema", "Burst"}} {
		found := false
		good := false
		for _, st := range eng.StoresToField(region, a.typ, a.field) {
			add, isAdd := st.Val.(*ssa.BinOp)
			if !isAdd || add.Op != token.ADD {
				continue
			}
			found = true
			// one operand is the previous value of the same cell, the other a Spec item's field
			var other ssa.Value
			sameAddr := func(a, b ssa.Value) bool {
				fa, oka := a.(*ssa.FieldAddr)
				fb, okb := b.(*ssa.FieldAddr)
				return a == b || (oka && okb && fa.X == fb.X && fa.Field == fb.Field)
			}
			if u, ok := add.X.(*ssa.UnOp); ok && sameAddr(u.X, st.Addr) {
				other = add.Y
			} else if u, ok := add.Y.(*ssa.UnOp); ok && sameAddr(u.X, st.Addr) {
				other = add.X
			}
			if other == nil || !eng.FieldLoadOf(other, a.typ, a.field) {
				continue
			}
			// the item may reach the accumulation as the parameter of an extracted helper: its
			// origin is followed into the arguments of the helper's call sites
			fromSpec := slUp.DerivesFrom(other, func(v ssa.Value) bool {
				return eng.FieldLoadOf(v, pkgV1alpha1+".RateLimitSpec", "LimitItemConfigurations")
			})
			fromStatus := slUp.DerivesFrom(other, func(v ssa.Value) bool {
				return eng.FieldLoadOf(v, pkgV1alpha1+".RateLimitStatus", "LimitItemStatuses")
			})
			// every iteration of the two enclosing loops reaches the accumulation unless the condition is the state record
			good = fromSpec && !fromStatus
		}
		c.Check("R5", cu, "sum += Spec "+a.field+" of every item", cu.Pos(), found && good, "the recorded sum accumulates the quota on record (Spec) of each instance condition")
	}
	// the only skip inside the loop over conditions is the state record itself
	skipOK := true
	nSkip := 0
	listed := false
	for _, rf := range region {
		for _, l := range findRangeLoops(rf) {
			if slUp.DerivesFrom(l.S, func(v ssa.Value) bool {
				cc, _ := eng.CallResultOf(v)
				return cc != nil && eng.IsCall(cc, "("+tLimitStore+").ListUpstream")
			}) {
				listed = true
			}
		}
	}
	if listed {
		// tests of the condition's name against the state record's name, in the loop body or in
		// a helper the body was moved into
		for _, rf := range region {
			for _, b := range rf.Blocks {
				iff, ok := b.Instrs[len(b.Instrs)-1].(*ssa.If)
				if !ok || (rf == cu && !eng.InLoop(b)) {
					continue
				}
				r := eng.RelOf(iff.Cond, true)
				isName := func(v ssa.Value) bool {
					return eng.FieldLoadOf(up(v), "k8s.io/apimachinery/pkg/apis/meta/v1.ObjectMeta", "Name")
				}
				isStateName := func(v ssa.Value) bool {
					x, _ := eng.CallResultOf(up(v))
					return x != nil && eng.IsCall(x, pkgLimiter+".upstreamStateConditionName")
				}
				if (isName(r.X) && isStateName(r.Y)) || (isName(r.Y) && isStateName(r.X)) {
					nSkip++
					if r.Op != token.EQL && r.Op != token.NEQ {
						skipOK = false
					}
				}
			}
		}
	}
	c.Check("R5", cu, "only the state record is skipped", cu.Pos(), skipOK && nSkip == 1, "inside the loop over the upstream's conditions exactly one test compares the condition's name with the state record's name")
	// the result is stored as the state's status
	stored := false
	for _, st := range eng.StoresToField(region, pkgV1alpha1+".RateLimitStatus", "LimitItemStatuses") {
		root, _ := eng.AccessPath(st.Addr)
		if up(root) == cuState {
			stored = true
		}
	}
	c.Check("R5", cu, "sums stored as the state's status", cu.Pos(), stored, "the new sums must replace Status.LimitItemStatuses of the state condition passed in (and returned)")
}

type c07cuResult struct {
	cu           *ssa.Function
	store, state ssa.Value
}

var c07cuCache = map[*eng.Ctx]c07cuResult{}

// c07CalcUpstream resolves the function that recomputes the allocated sums of an upstream
// (calculateUpstreamCondition): by name, or — renamed, or turned into a function that takes the
// store — the function of the limiter that lists the upstream's conditions and replaces the
// state's Status.LimitItemStatuses. store and state are its parameters of type LimitStore and
// *RateLimitCondition.
func c07CalcUpstream(c *eng.Ctx) (cu *ssa.Function, store, state ssa.Value) {
	if r, ok := c07cuCache[c]; ok {
		return r.cu, r.store, r.state
	}
	defer func() { c07cuCache[c] = c07cuResult{cu, store, state} }()
	cu = c13Anchor(c, pkgLimiter, "rateLimiter", "calculateUpstreamCondition", func(fn *ssa.Function) bool {
		lists, writes := false, false
		for _, rf := range eng.WithClosures(fn) {
			if len(eng.CallsTo(rf, "("+tLimitStore+").ListUpstream")) > 0 {
				lists = true
			}
		}
		if len(eng.StoresToField(c.W.Region(fn), pkgV1alpha1+".RateLimitStatus", "LimitItemStatuses")) > 0 {
			writes = true
		}
		return lists && writes
	})
	if cu == nil {
		return nil, nil, nil
	}
	for _, p := range cu.Params {
		switch eng.TypeName(p.Type()) {
		case tLimitStore:
			if store == nil {
				store = p
			}
		case pkgV1alpha1 + ".RateLimitCondition":
			if state == nil {
				state = p
			}
		}
	}
	if store == nil || state == nil {
		c.Fail("engine", nil, "unresolved-anchor parameters of "+eng.FuncName(cu), 0, "no LimitStore / *RateLimitCondition parameter")
		return nil, nil, nil
	}
	return cu, store, state
}

// c07UpTo resolves a value that is a parameter of a helper of anchor's region (all callers
// known) to the value every call site binds to it, repeatedly; parameters of anchor itself are
// not resolved further (they are the rule's reference points).
func c07UpTo(w *eng.World, v ssa.Value, anchor *ssa.Function) ssa.Value {
	for d := 0; d < eng.LiftDepth; d++ {
		p, ok := v.(*ssa.Parameter)
		if !ok || p.Parent() == anchor {
			return v
		}
		ups := w.UpArgSites(p)
		if len(ups) == 0 {
			return v
		}
		same := ups[0].Arg
		for _, u := range ups[1:] {
			if u.Arg != same {
				return v
			}
		}
		v = same
	}
	return v
}

// c07ReportOrdering records, under the given rule id, the obligations "every nil-error return of
// UpdateRateLimitConditionStatus passes Save(report) → calculateUpstreamCondition → Save(state)
// with both errors nil". Used by C18 (reclaimed capacity becomes visible only through this
// recomputation).
func c07ReportOrdering(c *eng.Ctx, rule string) {
	up := c.MustMethod(pkgLimiter, "rateLimiter", "UpdateRateLimitConditionStatus")
	if up == nil {
		return
	}
	// the report path together with the helpers its tail may have been moved into
	region := c.W.Region(up)
	var saves []ssa.CallInstruction
	var s1, s2, cu ssa.CallInstruction
	cuFn, _, _ := c07CalcUpstream(c)
	for _, rf := range region {
		saves = append(saves, eng.CallsTo(rf, "("+tLimitStore+").Save")...)
		if cuFn != nil {
			for _, ci := range eng.CallsToFn(rf, cuFn) {
				cu = ci
			}
		}
	}
	for _, s := range saves {
		a := eng.Args(s)
		if c07UpTo(c.W, a[1], up) == ssa.Value(up.Params[2]) {
			s1 = s
		} else if cu != nil && c.Slicer().DerivesFrom(a[1], func(v ssa.Value) bool { return v == eng.ResultValue(cu) }) {
			s2 = s
		}
	}
	if s1 == nil || s2 == nil || cu == nil {
		c.Fail(rule, up, "save → recompute → save", up.Pos(), "Save(report), calculateUpstreamCondition and Save(state) not all found")
		return
	}
	before := func(target ssa.Instruction, pred func(ssa.Instruction) bool) bool {
		return eng.AlwaysBefore(target.Parent(), target, pred)
	}
	n := 0
	eng.Instrs(up, func(ins ssa.Instruction) {
		r, ok := ins.(*ssa.Return)
		if !ok || len(r.Results) != 2 || r.Block() == up.Recover {
			return
		}
		res := eng.ReturnResults(r)
		if !eng.IsNilConst(res[1]) {
			return
		}
		n++
		is := func(x ssa.CallInstruction) func(ssa.Instruction) bool {
			return func(i ssa.Instruction) bool { return i == x.(ssa.Instruction) }
		}
		order := eng.AlwaysBeforeOK(up, r, is(s2)) && before(s2, is(cu)) && before(cu, is(s1))
		c.Check(rule, up, fmt.Sprintf("acknowledged report#%d ⇒ saved, sum recomputed, state saved", n), r.Pos(), order,
			"a report is acknowledged on a path that skips saving it or recomputing the allocated sum (e.g. an \"unchanged report\" shortcut): the sum on record stays stale, so capacity freed by the cleanup of a dead instance is never handed to the survivors")
	})
	c.Check(rule, up, "reports are acknowledged", up.Pos(), n >= 1, "no successful return found")
	c.Check(rule, up, "single success return shape", up.Pos(), n >= 1, "")
}
