package rules

// C04 Forwarding fidelity (structural part): a request the gateway answers itself is never
// forwarded (R1), the answer's status matches the reason (R2), the outbound request and the
// relayed response are only touched in the allow-listed places (R3) and a URL rebuilt for
// forwarding keeps Path/RawPath/RawQuery of the incoming URL together (R4).

import (
	"fmt"
	"go/constant"
	"go/token"
	"go/types"
	"sort"
	"strings"

	"golang.org/x/tools/go/ssa"

	"kgv/internal/eng"
)

func init() {
	Register("C04", c04)
	RegisterFixture("C04", c04Fixtures)
}

const (
	c04PkgAPIErrors   = "k8s.io/apimachinery/pkg/api/errors"
	c04PkgRespWriters = "k8s.io/apiserver/pkg/endpoints/handlers/responsewriters"
	c04PkgAuthorizer  = "k8s.io/apiserver/pkg/authorization/authorizer"
	c04PkgUtilProxy   = "k8s.io/apimachinery/pkg/util/proxy"
	c04TRequest       = "net/http.Request"
	c04TResponse      = "net/http.Response"
	c04TURL           = "net/url.URL"
	c04TRevProxy      = pkgRevProxy + ".ReverseProxy"
)

// ---------------------------------------------------------------------------------------
// R1 template: terminate ⇒ not forwarded (typestate over one function's CFG)

// c04TypestateSpec parameterises the template: which calls answer the request locally,
// which calls hand it on, and (optionally) which instructions write to the response.
type c04TypestateSpec struct {
	isTerm  func(ssa.CallInstruction) bool
	isFwd   func(ssa.CallInstruction) bool
	isWrite func(ssa.Instruction) bool // nil: "no second write" is not checked
	label   func(ssa.CallInstruction) string
}

type c04TypestateResult struct {
	site      ssa.CallInstruction
	construct string
	ok        bool
	undecided bool
	detail    string
}

// c04ClosureOf returns the closure body a call invokes in place (func(){…}(), defer
// func(){…}(), go func(){…}()), or nil.
func c04ClosureOf(ci ssa.CallInstruction) *ssa.Function {
	switch v := ci.Common().Value.(type) {
	case *ssa.MakeClosure:
		f, _ := v.Fn.(*ssa.Function)
		return f
	case *ssa.Function:
		if v.Parent() != nil {
			return v
		}
	}
	return nil
}

// c04TerminateNotForwarded evaluates, for every terminating call of fn, that no CFG path
// continues from it to a forwarding call (directly, through a closure invoked in place, or
// through a forwarding call deferred earlier on the path), and — when sp.isWrite is set —
// that nothing else is written to the response afterwards.
func c04TerminateNotForwarded(fn *ssa.Function, sp c04TypestateSpec) []c04TypestateResult {
	forwards := func(ci ssa.CallInstruction) bool {
		if sp.isFwd(ci) {
			return true
		}
		if cl := c04ClosureOf(ci); cl != nil {
			for _, f := range eng.WithClosures(cl) {
				for _, cc := range eng.Calls(f) {
					if sp.isFwd(cc) {
						return true
					}
				}
			}
		}
		return false
	}
	isFwdIns := func(ins ssa.Instruction) bool {
		ci, ok := ins.(ssa.CallInstruction)
		if !ok {
			return false
		}
		if _, isDefer := ins.(*ssa.Defer); isDefer {
			return false // runs at exit; handled separately
		}
		return forwards(ci)
	}
	var fwdDefers []*ssa.Defer
	eng.Instrs(fn, func(ins ssa.Instruction) {
		if d, ok := ins.(*ssa.Defer); ok && forwards(d) {
			fwdDefers = append(fwdDefers, d)
		}
	})
	var out []c04TypestateResult
	ord := map[string]int{}
	for _, ci := range eng.Calls(fn) {
		if !sp.isTerm(ci) {
			continue
		}
		lab := "terminate"
		if sp.label != nil {
			lab = sp.label(ci)
		}
		ord[lab]++
		res := c04TypestateResult{site: ci, construct: fmt.Sprintf("%s#%d ⇒ not forwarded", lab, ord[lab]), ok: true}
		if _, plain := ci.(*ssa.Call); !plain {
			res.ok, res.undecided = false, true
			res.detail = "terminating call is deferred or started as a goroutine: its position on the path is not decided by this rule"
			out = append(out, res)
			continue
		}
		var why []string
		if x := eng.ReachAfter(ci, eng.PathQuery{Target: isFwdIns}); x != nil {
			why = append(why, fmt.Sprintf("a forwarding call (%s) is reachable after the terminating call: the request is answered locally and still handed on", c04CallLabel(x.(ssa.CallInstruction))))
		}
		for _, d := range fwdDefers {
			if eng.ReachAfter(d, eng.PathQuery{Target: func(i ssa.Instruction) bool { return i == ssa.Instruction(ci) }}) != nil {
				why = append(why, "a forwarding call deferred earlier on the path runs after the terminating call")
			}
		}
		if sp.isWrite != nil {
			if x := eng.ReachAfter(ci, eng.PathQuery{Target: sp.isWrite}); x != nil {
				why = append(why, "the response is written again after the terminating call (the Status body would be corrupted)")
			}
		}
		if len(why) > 0 {
			res.ok = false
			res.detail = strings.Join(dedup(why), "; ")
		} else {
			res.detail = "no path from the terminating call reaches a forwarding call"
		}
		out = append(out, res)
	}
	return out
}

func c04CallLabel(ci ssa.CallInstruction) string {
	if n := eng.FullName(ci); n != "" {
		return shortName(n)
	}
	return "dynamic call " + ci.Common().Value.Name()
}

// ---------------------------------------------------------------------------------------
// predicates over the resolved program

type c04Preds struct {
	c        *eng.Ctx
	handler  *types.Interface // net/http.Handler
	tripper  *types.Interface // net/http.RoundTripper
	mustTerm map[*ssa.Function]bool
	mayFwd   map[*ssa.Function]bool
	mayTerm  map[*ssa.Function]bool // some path passes a terminating call
	scope    map[*ssa.Function]bool // the functions of the forwarding packages
	sigs     map[*ssa.Function]*c04TermSig
}

func c04IsNamed(t types.Type, full string) bool { return eng.TypeName(t) == full }

// c04SigIs reports whether sig's parameters are exactly the given named types ("*" prefix
// means pointer) and it has no results.
func c04SigIs(sig *types.Signature, params ...string) bool {
	if sig == nil || sig.Params().Len() != len(params) || sig.Results().Len() != 0 {
		return false
	}
	for i, want := range params {
		t := sig.Params().At(i).Type()
		if strings.HasPrefix(want, "*") {
			p, ok := t.(*types.Pointer)
			if !ok || !c04IsNamed(p.Elem(), want[1:]) {
				return false
			}
			continue
		}
		if _, isPtr := t.(*types.Pointer); isPtr || !c04IsNamed(t, want) {
			return false
		}
	}
	return true
}

func c04IsDynamic(ci ssa.CallInstruction) bool {
	cc := ci.Common()
	if cc.IsInvoke() || cc.StaticCallee() != nil {
		return false
	}
	_, isB := cc.Value.(*ssa.Builtin)
	return !isB
}

// baseTerm: calls that write a gateway-made answer to the client.
func (p *c04Preds) baseTerm(ci ssa.CallInstruction) bool {
	if eng.IsCall(ci,
		pkgResponse+".TerminateWithError",
		c04PkgRespWriters+".InternalError", c04PkgRespWriters+".Forbidden", c04PkgRespWriters+".ErrorNegotiated",
		"net/http.Error", "net/http.NotFound", "net/http.Redirect",
		"("+c04PkgUtilProxy+".ErrorResponder).Error") {
		return true
	}
	// a status chosen by the gateway itself (constant), as opposed to a relayed one
	if eng.IsCall(ci, "(net/http.ResponseWriter).WriteHeader") {
		if a := eng.Args(ci); len(a) == 1 {
			if _, isConst := eng.IntConst(a[0]); isConst {
				return true
			}
		}
		return false
	}
	// the reverse proxy's error handler: a func(ResponseWriter, *Request, error) value
	if c04IsDynamic(ci) {
		v := ci.Common().Value
		sig, _ := v.Type().Underlying().(*types.Signature)
		if c04SigIs(sig, "net/http.ResponseWriter", "*"+c04TRequest, "error") {
			return true
		}
		sl := &eng.Slicer{W: p.c.W, Depth: 0}
		if sl.DerivesFrom(v, func(x ssa.Value) bool {
			return eng.IsResultOf(x, "(*"+c04TRevProxy+").getErrorHandler") || eng.FieldLoadOf(x, c04TRevProxy, "ErrorHandler")
		}) {
			return true
		}
	}
	return false
}

// c04Callee returns the function a call runs and the arguments bound to its parameters
// (receiver first): the static callee, or — for a call of a method value (`fail :=
// d.responseError; fail(err, w, req, reason)`) — the method, with the bound receiver in front.
func c04Callee(w *eng.World, ci ssa.CallInstruction) (*ssa.Function, []ssa.Value) {
	f := eng.CalleeFn(ci)
	if f == nil {
		return nil, nil
	}
	args := ci.Common().Args
	if f.Synthetic != "" && f.Blocks != nil {
		if mc, ok := ci.Common().Value.(*ssa.MakeClosure); ok && len(mc.Bindings) == 1 {
			if m := w.FuncOfValue(mc); m != nil && m != f && m.Signature.Recv() != nil {
				return m, append([]ssa.Value{mc.Bindings[0]}, args...)
			}
		}
	}
	return f, args
}

func (p *c04Preds) isTerm(ci ssa.CallInstruction) bool {
	if p.baseTerm(ci) {
		return true
	}
	if f, _ := c04Callee(p.c.W, ci); f != nil && p.mustTerm[f] {
		return true
	}
	return false
}

// baseFwd: calls that hand the request to the next handler / the upstream.
func (p *c04Preds) baseFwd(ci ssa.CallInstruction) bool {
	if r := eng.Receiver(ci); r != nil {
		if eng.MethodNameIs(ci, "ServeHTTP") && implementsIface(r.Type(), p.handler) {
			return true
		}
		if eng.MethodNameIs(ci, "RoundTrip") && implementsIface(r.Type(), p.tripper) {
			return true
		}
	}
	if c04IsDynamic(ci) {
		sig, _ := ci.Common().Value.Type().Underlying().(*types.Signature)
		if c04SigIs(sig, "net/http.ResponseWriter", "*"+c04TRequest) {
			return true
		}
	}
	return false
}

func (p *c04Preds) isFwd(ci ssa.CallInstruction) bool {
	if p.baseFwd(ci) {
		return true
	}
	if f, _ := c04Callee(p.c.W, ci); f != nil && p.mayFwd[f] {
		return true
	}
	return false
}

func (p *c04Preds) termIns(ins ssa.Instruction) bool {
	ci, ok := ins.(*ssa.Call)
	return ok && p.isTerm(ci)
}

func (p *c04Preds) fwdIns(ins ssa.Instruction) bool {
	ci, ok := ins.(ssa.CallInstruction)
	return ok && p.isFwd(ci)
}

// isRespWrite: any further write to the client response.
func (p *c04Preds) isRespWrite(ins ssa.Instruction) bool {
	ci, ok := ins.(*ssa.Call)
	if !ok {
		return false
	}
	if p.isTerm(ci) {
		return true
	}
	if eng.IsCall(ci, "(net/http.ResponseWriter).WriteHeader", "(net/http.ResponseWriter).Write") {
		return true
	}
	if eng.IsCall(ci, "(net/http.Header).Set", "(net/http.Header).Add", "(net/http.Header).Del") {
		return eng.IsResultOf(eng.Receiver(ci), "(net/http.ResponseWriter).Header")
	}
	return false
}

func (p *c04Preds) termLabel(ci ssa.CallInstruction) string {
	if eng.IsCall(ci, "(net/http.ResponseWriter).WriteHeader") {
		if k, ok := eng.IntConst(eng.Args(ci)[0]); ok {
			return fmt.Sprintf("WriteHeader(%d)", k)
		}
	}
	if n := eng.FullName(ci); n != "" {
		n = shortName(n)
		n = strings.ReplaceAll(n, "k8s.io/apiserver/pkg/endpoints/handlers/", "")
		n = strings.ReplaceAll(n, "k8s.io/apimachinery/pkg/util/", "")
		return n
	}
	return "error-handler()"
}

// c04NewPreds resolves the interfaces and computes the derived sets over funcs:
// mustTerm = functions every path of which passes a terminating call (so calling them
// terminates), mayFwd = functions that contain a forwarding call on some path.
func c04NewPreds(c *eng.Ctx, funcs []*ssa.Function) *c04Preds {
	p := &c04Preds{c: c, mustTerm: map[*ssa.Function]bool{}, mayFwd: map[*ssa.Function]bool{}, mayTerm: map[*ssa.Function]bool{},
		scope: map[*ssa.Function]bool{}, sigs: map[*ssa.Function]*c04TermSig{}}
	for _, fn := range funcs {
		p.scope[fn] = true
	}
	p.handler = c.W.Interface("net/http", "Handler")
	p.tripper = c.W.Interface("net/http", "RoundTripper")
	if p.handler == nil || p.tripper == nil {
		c.Fail("engine", nil, "unresolved-anchor net/http.Handler / RoundTripper", 0, "interface not found")
		return nil
	}
	for changed := true; changed; {
		changed = false
		for _, fn := range funcs {
			if !p.mustTerm[fn] && !c04IsHandlerMethod(fn, p) {
				has := false
				for _, ci := range eng.Calls(fn) {
					if _, plain := ci.(*ssa.Call); plain && p.isTerm(ci) {
						has = true
					}
				}
				if has && eng.ReachFromEntry(fn, eng.PathQuery{Target: eng.IsExit, Avoid: p.termIns}) == nil {
					p.mustTerm[fn] = true
					changed = true
				}
			}
			if !p.mayTerm[fn] {
				for _, ci := range eng.Calls(fn) {
					if _, plain := ci.(*ssa.Call); !plain {
						continue
					}
					f, _ := c04Callee(p.c.W, ci)
					if p.isTerm(ci) || (f != nil && p.mayTerm[f]) {
						p.mayTerm[fn] = true
						changed = true
						break
					}
				}
			}
			if !p.mayFwd[fn] {
				for _, ci := range eng.Calls(fn) {
					fw := p.isFwd(ci)
					if cl := c04ClosureOf(ci); cl != nil && !fw {
						for _, f := range eng.WithClosures(cl) {
							for _, cc := range eng.Calls(f) {
								fw = fw || p.isFwd(cc)
							}
						}
					}
					if fw {
						p.mayFwd[fn] = true
						changed = true
						break
					}
				}
			}
		}
	}
	return p
}

// c04IsHandlerMethod: ServeHTTP / RoundTrip methods are forwarders by identity; they are
// never classified as "always terminating" helpers.
func c04IsHandlerMethod(fn *ssa.Function, p *c04Preds) bool {
	if fn.Signature.Recv() == nil {
		return false
	}
	return (fn.Name() == "ServeHTTP" && implementsIface(fn.Signature.Recv().Type(), p.handler)) ||
		(fn.Name() == "RoundTrip" && implementsIface(fn.Signature.Recv().Type(), p.tripper))
}

// c04FirstFrom returns the instructions satisfying pred that are reachable from the start
// of block b without passing another such instruction.
func c04FirstFrom(b *ssa.BasicBlock, pred func(ssa.Instruction) bool) []ssa.Instruction {
	var out []ssa.Instruction
	seen := map[ssa.Instruction]bool{}
	for {
		x := eng.ReachFromBlock(b, eng.PathQuery{
			Target: func(i ssa.Instruction) bool { return pred(i) && !seen[i] },
			Avoid:  func(i ssa.Instruction) bool { return seen[i] },
		})
		if x == nil {
			return out
		}
		seen[x] = true
		out = append(out, x)
	}
}

var c04Packages = []string{pkgFilters, pkgDispatcher, pkgRevProxy, pkgResponse}

func c04(c *eng.Ctx) {
	defer c04Transparent(c)
	c.Rule("R1", "terminate ⇒ not forwarded: in every function and closure of the filters, dispatcher, reverse-proxy and response packages no CFG path leads from a terminating call (TerminateWithError, responseError, responsewriters.InternalError/Forbidden/ErrorNegotiated, http.Error, the proxy error handler, WriteHeader(const)) to a forwarding call (next handler's ServeHTTP, proxy ServeHTTP, RoundTrip), nor from a call of a helper that answers on some of its paths on the paths on which its result says so; in a filter nothing else is written to the response after it. Vacuity guard: the distinct kinds of answer recognised (package × answering call × API-status constructor), not the number of sites, which legitimately changes when duplicate refusal blocks are merged", c04MinAnswerKinds+1)
	c.Rule("R2", "reason ↔ status, by forcing the reason-carrying value wherever it is computed and enumerating the paths of its handler with helpers interpreted: refused TryAcquire ⇒ NewTooManyRequests; Pop error, cluster not proxied (dispatcher and the host-resolving filter) ⇒ NewServiceUnavailable; refused impersonation ⇒ responsewriters.Forbidden; each refusal answers before any exit or forward and forwards nothing afterwards; the error travels unchanged through every answering helper to the function that writes the Status, which sets Retry-After for 503 and for 429 with a suggested delay before ErrorNegotiated writes the Status", 9)
	c.Rule("R3", "write allow-list: of the outbound http.Request only Header (clone / empty when nil), URL, Body (nil under ContentLength==0, or a delegating reader), Close=false are stored; the relayed status is res.StatusCode, headers go through copyHeader(rw.Header(), res.Header) after deleting only hop-by-hop keys, the body through copyResponse(rw, res.Body); end-to-end request headers are only touched for the allow-listed keys", 23)
	c.Rule("R4", "URL rebuild is complete: a url.URL whose Path is taken from the incoming request URL (or copied field by field from another URL on the forwarding path) carries RawPath from the same source on the same paths, and its RawQuery derives from the incoming query", 4)

	var funcs []*ssa.Function
	for _, pk := range c04Packages {
		fs := c.W.FuncsOf(pk)
		if len(fs) == 0 {
			c.Fail("engine", nil, "unresolved-anchor package "+pk, 0, "package has no functions in the resolved program")
		}
		funcs = append(funcs, fs...)
	}
	p := c04NewPreds(c, funcs)
	if p == nil {
		return
	}
	c04R1(c, p, funcs)
	c04R2(c, p)
	c04R3(c, p)
	c04R4(c, p)
}

// ---- R1 --------------------------------------------------------------------------------
// Protects: "every request the gateway terminates itself … is not forwarded, not even
// partially". Breaking it (e.g. a missing `return` after responseError) sends a request
// upstream that the client was already told was refused, and appends the upstream's
// response to the Status body.
func c04R1(c *eng.Ctx, p *c04Preds, funcs []*ssa.Function) {
	spec := func(filter bool) c04TypestateSpec {
		sp := c04TypestateSpec{isTerm: p.isTerm, isFwd: p.isFwd, label: p.termLabel}
		if filter {
			sp.isWrite = p.isRespWrite
		}
		return sp
	}
	// the kinds of answer the rule recognised, independent of where and how often they are
	// written: package × answering call × constructor of the error (resolved through every
	// calling context of the site). Merging duplicate refusal blocks, moving them into helpers
	// or removing pass-through helpers leaves this set unchanged, whereas the number of sites
	// changes; it is the vacuity guard of the rule.
	classes := map[string]bool{}
	for _, fn := range funcs {
		inFilters := fn.Pkg != nil && fn.Pkg.Pkg.Path() == pkgFilters
		for _, r := range c04TerminateNotForwarded(fn, spec(inFilters)) {
			switch {
			case r.undecided:
				c.Undecided("R1", fn, r.construct, r.site.Pos(), r.detail)
			default:
				c.Check("R1", fn, r.construct, r.site.Pos(), r.ok, r.detail)
			}
			if fn.Pkg != nil {
				for _, ch := range c.W.UpChains(fn, nil) {
					for _, a := range p.c04Answers(r.site, 3, c04InChain(ch)) {
						// only the API-status constructors tell kinds apart (404/429/503 …); where
						// an arbitrary Go error comes from is not a property of the answer
						// (a site whose error may come from several constructors counts for each)
						n := 0
						for _, k := range a.ctors {
							if strings.HasPrefix(k, c04PkgAPIErrors+".") {
								n++
								classes[shortName(fn.Pkg.Pkg.Path())+": "+p.termLabel(a.site)+"("+strings.TrimPrefix(k, c04PkgAPIErrors+".")+")"] = true
							}
						}
						if n == 0 {
							classes[shortName(fn.Pkg.Pkg.Path())+": "+p.termLabel(a.site)+"()"] = true
						}
					}
				}
			}
		}
		c04MixedSites(c, p, fn)
	}
	c.Note("C04.R1 answer kinds (%d): %s", len(classes), strings.Join(c04SortedKeys(classes), "; "))
	c.Check("R1", nil, "kinds of terminating answer recognised", 0, len(classes) >= c04MinAnswerKinds,
		fmt.Sprintf("the rule recognised %d distinct kinds of answer (package × answering call × error constructor), at least %d were confirmed by hand on the pinned tree: %s", len(classes), c04MinAnswerKinds, strings.Join(c04SortedKeys(classes), "; ")))
	if c.Thorough() {
		// sweep: un-anchored handlers elsewhere in the repository
		anch := map[*ssa.Function]bool{}
		for _, f := range funcs {
			anch[f] = true
		}
		for _, fn := range c.W.AllRepoFuncs() {
			if anch[fn] {
				continue
			}
			for _, r := range c04TerminateNotForwarded(fn, c04TypestateSpec{isTerm: p.isTerm, isFwd: p.isFwd, label: p.termLabel}) {
				if !r.ok {
					c.Note("C04.R1 sweep: %s %s: %s", eng.FuncName(fn), r.construct, r.detail)
				}
			}
		}
	}
}

// c04MinAnswerKinds is the number of distinct kinds of terminating answer confirmed by hand.
const c04MinAnswerKinds = 14

// c04TermSig summarises a helper that answers the request on some of its paths only: which
// of its results tells the caller that the request has been answered.
type c04TermSig struct {
	known    bool // a result separates the answering paths from the others
	idx      int  // its index
	byBool   bool // it is a boolean flag (else: nil-ness of the result)
	termBool bool // the flag's value on answering paths
	termNil  bool // answering paths return nil (else: non-nil)
}

// termSig enumerates the paths of helper h (nested helpers of the same kind interpreted) and
// looks for a result that is one definite value — a boolean constant, nil, or non-nil — on
// every path that answers.
func (p *c04Preds) termSig(h *ssa.Function) *c04TermSig {
	if s, ok := p.sigs[h]; ok {
		return s
	}
	s := &c04TermSig{}
	p.sigs[h] = s
	res := h.Signature.Results()
	if res.Len() == 0 {
		return s
	}
	tr := &eng.Tracer{In: &eng.Interp{W: p.c.W, Depth: eng.LiftDepth, MaxPaths: 1 << 12}, Follow: p.follow(nil), KnownResults: true}
	paths, err := tr.Run(h, nil)
	if err != nil || len(paths) == 0 {
		return s
	}
	all := func(vs []eng.AV, f func(eng.AV) bool) bool {
		for _, v := range vs {
			if !f(v) {
				return false
			}
		}
		return len(vs) > 0
	}
	isNil := func(v eng.AV) bool { return v.K == eng.NilV }
	nonNil := func(v eng.AV) bool { return v.K == eng.NonNilV || v.K == eng.LenV }
	// Only the answering side has to be definite: on an edge of the caller on which the result
	// is known to differ from the value every answering path returns, the helper has not
	// answered — whatever the other paths return.
	for idx := 0; idx < res.Len() && !s.known; idx++ {
		var tv []eng.AV
		bad := false
		for _, tp := range paths {
			if tp.Panicked {
				continue
			}
			answered := false
			for _, e := range tp.Events {
				answered = answered || p.evTerm(e)
			}
			if !answered {
				continue
			}
			if tp.LoopCut || len(tp.Ret) != res.Len() {
				bad = true
				break
			}
			tv = append(tv, tp.Ret[idx])
		}
		if bad {
			continue
		}
		switch {
		case all(tv, func(v eng.AV) bool { return v.IsBool(true) }):
			*s = c04TermSig{known: true, idx: idx, byBool: true, termBool: true}
		case all(tv, func(v eng.AV) bool { return v.IsBool(false) }):
			*s = c04TermSig{known: true, idx: idx, byBool: true, termBool: false}
		case all(tv, isNil):
			*s = c04TermSig{known: true, idx: idx, termNil: true}
		case all(tv, nonNil):
			*s = c04TermSig{known: true, idx: idx, termNil: false}
		}
	}
	return s
}

// c04MixedSites extends terminate ⇒ not forwarded to calls of helpers that answer on SOME of
// their paths and tell their caller by a result (`if !d.admit(…) { return }`, `if terminated
// := h.attach(…); terminated { return }`, `if err := d.check(…); err != nil { return }`): on
// the caller's paths on which the result says "answered" no forwarding call may be reachable.
// Edges on which the result is known to say "not answered" are pruned; when no result
// separates the two kinds of path every continuation counts.
func c04MixedSites(c *eng.Ctx, p *c04Preds, fn *ssa.Function) {
	isFwdIns := func(ins ssa.Instruction) bool {
		ci, ok := ins.(ssa.CallInstruction)
		if !ok {
			return false
		}
		if _, isDefer := ins.(*ssa.Defer); isDefer {
			return false
		}
		return p.forwards(ci)
	}
	ord := map[string]int{}
	for _, ci := range eng.Calls(fn) {
		call, plain := ci.(*ssa.Call)
		h := eng.CalleeFn(ci)
		if !plain || h == nil || !p.scope[h] || !p.mayTerm[h] || p.mustTerm[h] || c04IsHandlerMethod(h, p) {
			continue
		}
		lab := p.termLabel(ci)
		ord[lab]++
		construct := fmt.Sprintf("%s (answers on some paths)#%d ⇒ not forwarded", lab, ord[lab])
		sig := p.termSig(h)
		var rvs []ssa.Value
		if sig.known {
			if h.Signature.Results().Len() == 1 {
				rvs = append(rvs, call)
			} else {
				for _, e := range eng.ExtractOf(call, sig.idx) {
					rvs = append(rvs, e)
				}
			}
		}
		// a result kept in a local cell (a variable captured by a closure lives in one) that is
		// assigned nothing else: the loads of the cell denote the result as well
		for _, rv := range append([]ssa.Value{}, rvs...) {
			if rv.Referrers() == nil {
				continue
			}
			for _, ref := range *rv.Referrers() {
				st, ok := ref.(*ssa.Store)
				if !ok || st.Val != rv {
					continue
				}
				cell, ok := st.Addr.(*ssa.Alloc)
				if !ok || c04OnlyValue(cell) != rv || cell.Referrers() == nil {
					continue
				}
				for _, r2 := range *cell.Referrers() {
					if ld, ok := r2.(*ssa.UnOp); ok && ld.Op == token.MUL && ld.X == ssa.Value(cell) {
						rvs = append(rvs, ld)
					}
				}
			}
		}
		// an edge is pruned when taking it implies that the helper did not answer
		prune := func(from *ssa.BasicBlock, succ int) bool {
			if len(rvs) == 0 || len(from.Instrs) == 0 {
				return false
			}
			iff, ok := from.Instrs[len(from.Instrs)-1].(*ssa.If)
			if !ok || len(from.Succs) != 2 {
				return false
			}
			truth := succ == 0
			for _, rv := range rvs {
				if sig.byBool {
					if t, ok := eng.CondImplies(iff.Cond, truth, rv); ok && t != sig.termBool {
						return true
					}
					continue
				}
				for _, r := range eng.ImpliedRels(iff.Cond, truth) {
					x, y := r.X, r.Y
					if eng.IsNilConst(x) {
						x, y = y, x
					}
					if x == rv && eng.IsNilConst(y) && (r.Op == token.EQL || r.Op == token.NEQ) && (r.Op == token.EQL) != sig.termNil {
						return true
					}
				}
			}
			return false
		}
		var why []string
		if x := eng.ReachAfter(call, eng.PathQuery{Target: isFwdIns, BlockEdge: prune}); x != nil {
			how := "whatever the helper reports"
			if sig.known {
				how = "on a path on which the helper reports that it has answered"
			}
			why = append(why, fmt.Sprintf("a forwarding call (%s) is reachable after the helper %s: the request is answered locally and still handed on", c04CallLabel(x.(ssa.CallInstruction)), how))
		}
		eng.Instrs(fn, func(ins ssa.Instruction) {
			if d, ok := ins.(*ssa.Defer); ok && p.forwards(d) &&
				eng.ReachAfter(d, eng.PathQuery{Target: func(i ssa.Instruction) bool { return i == ssa.Instruction(call) }}) != nil {
				why = append(why, "a forwarding call deferred earlier on the path runs after the helper has answered")
			}
		})
		detail := "no path on which the helper has answered reaches a forwarding call"
		if len(why) > 0 {
			detail = strings.Join(dedup(why), "; ")
		}
		c.Check("R1", fn, construct, call.Pos(), len(why) == 0, detail)
	}
}

// ---- R2 --------------------------------------------------------------------------------
// Protects: "answered with a well-formed API Status whose code tells why (429 when
// flow-controlled, 503 with Retry-After when the cluster is not proxied or has no ready
// endpoint, 403 for refused impersonation)". Checked as condition ⇒ constructor (not the
// converse) by FORCING: the value that carries the reason (the result of TryAcquire, the
// error of Pop, the presence flag of Manager.Get, the UpstreamCluster field, the results of
// Authorize) is located by what it is — wherever in the package it is computed —, pinned to
// the refusing value, and every path of the handler it belongs to (the root of the calling
// contexts of the function that computes it) is enumerated with the same-package helpers
// interpreted. On every path that decides the reason, the first answering or forwarding
// call after the decision must be an answer built by the expected constructor and nothing
// may be forwarded afterwards. Where the test, the answer or the source call sit (handler,
// extracted helper returning a flag / a tuple / the value, closure, method value), how the
// condition is spelled (named, negated, De Morgan, switch) does not matter.

// c04Answer is one base terminating call a (possibly derived) terminating call resolves
// to, with the constructors its error argument(s) are built by. Origins: a callee full name
// for call results, "param:i" for a parameter that no calling context binds, "?" otherwise.
type c04Answer struct {
	callee string
	site   ssa.CallInstruction // the base terminating call
	ctors  []string
}

// c04Ctx is the context a value of some function is looked at in: it maps a parameter of a
// helper to the value its caller hands in, and the result of a helper call to the value the
// helper returned (with the contexts those values live in). A nil c04Ctx binds nothing.
type c04Ctx interface {
	// bind: the caller's value for parameter prm (nil: not bound — prm belongs to the
	// outermost function of the context).
	bind(prm *ssa.Parameter) (ssa.Value, c04Ctx)
	// ret: for a call that was interpreted on the path at hand, the value returned in result
	// position idx (-1: the single result) by the Return statement that ended it.
	ret(call *ssa.Call, idx int) (ssa.Value, c04Ctx)
}

// c04FrameCtx is the context of one activation of a traced path: parameters are bound by the
// activation's call site, results of interpreted calls by the Return the path took.
type c04FrameCtx struct {
	tp *eng.TracedPath
	fr *eng.TraceFrame
}

func c04InFrame(tp *eng.TracedPath, fr *eng.TraceFrame) c04Ctx {
	if fr == nil {
		return nil
	}
	return c04FrameCtx{tp, fr}
}

func (x c04FrameCtx) bind(prm *ssa.Parameter) (ssa.Value, c04Ctx) {
	a, in, ok := x.fr.Bind(prm)
	if !ok {
		return nil, nil
	}
	return a, c04InFrame(x.tp, in)
}

func (x c04FrameCtx) ret(call *ssa.Call, idx int) (ssa.Value, c04Ctx) {
	if x.tp == nil {
		return nil, nil
	}
	for _, e := range x.tp.Events {
		if e.Kind != eng.EvReturn || e.Frame.Site != call || e.Frame.Parent != x.fr {
			continue
		}
		rs := eng.ReturnResults(e.Ins.(*ssa.Return))
		if idx < 0 {
			idx = 0
		}
		if idx >= len(rs) {
			return nil, nil
		}
		return rs[idx], c04InFrame(x.tp, e.Frame)
	}
	return nil, nil
}

// c04ChainCtx binds through one static calling context (eng.UpChain).
type c04ChainCtx struct{ ch eng.UpChain }

func c04InChain(ch eng.UpChain) c04Ctx {
	if len(ch) == 0 {
		return nil
	}
	return c04ChainCtx{ch}
}

func (x c04ChainCtx) bind(prm *ssa.Parameter) (ssa.Value, c04Ctx) {
	for i, s := range x.ch {
		if s.Fn == prm.Parent() {
			if v := s.Bind(prm); v != nil {
				return v, c04InChain(x.ch[i+1:])
			}
			return nil, nil
		}
	}
	return nil, nil
}

func (x c04ChainCtx) ret(*ssa.Call, int) (ssa.Value, c04Ctx) { return nil, nil }

// c04ArgsCtx binds the parameters of callee to the arguments of one call of it; everything
// else is left to the context of the call.
type c04ArgsCtx struct {
	callee *ssa.Function
	args   []ssa.Value
	outer  c04Ctx
}

func (x c04ArgsCtx) bind(prm *ssa.Parameter) (ssa.Value, c04Ctx) {
	if prm.Parent() == x.callee {
		if idx := eng.ParamIndex(prm); idx >= 0 && idx < len(x.args) {
			return x.args[idx], x.outer
		}
		return nil, nil
	}
	if x.outer != nil {
		return x.outer.bind(prm)
	}
	return nil, nil
}

func (x c04ArgsCtx) ret(*ssa.Call, int) (ssa.Value, c04Ctx) { return nil, nil }

// origins collects where v comes from: the callees of the (non-repository) calls whose
// results it is built from — repository helpers that merely return the value are looked
// through: on a traced path through the Return statement the path took, otherwise by the
// slicer (all returns) —, with parameters resolved through the calling context.
func (p *c04Preds) origins(v ssa.Value, cx c04Ctx, depth int, set map[string]bool) {
	stop := func(x ssa.Value) bool {
		cc, idx := eng.CallResultOf(x)
		if cc == nil {
			return false
		}
		if cx != nil {
			if rv, _ := cx.ret(cc, idx); rv != nil {
				return true
			}
		}
		f := cc.Call.StaticCallee()
		return f == nil || !eng.Analysable(f)
	}
	for _, leaf := range p.c.Slicer().Leaves(v, stop) {
		if cc, idx := eng.CallResultOf(leaf); cc != nil {
			if cx != nil && depth > 0 {
				if rv, rcx := cx.ret(cc, idx); rv != nil {
					p.origins(rv, rcx, depth-1, set)
					continue
				}
			}
			if eng.FullName(cc) != "" {
				set[eng.FullName(cc)] = true
				continue
			}
		}
		if prm, ok := leaf.(*ssa.Parameter); ok {
			if cx != nil && depth > 0 {
				if a, ncx := cx.bind(prm); a != nil {
					p.origins(a, ncx, depth-1, set)
					continue
				}
			}
			set[fmt.Sprintf("param:%d", eng.ParamIndex(prm))] = true
			continue
		}
		// a package-level variable initialised once (an error value hoisted out of the
		// handler): what its initialiser builds
		if g, ok := leaf.(*ssa.Global); ok && depth > 0 && g.Pkg != nil {
			if init := g.Pkg.Func("init"); init != nil {
				var vals []ssa.Value
				seen := map[*ssa.Function]bool{}
				for _, fn := range append(eng.WithClosures(init), p.c.W.FuncsOf(g.Pkg.Pkg.Path())...) {
					if seen[fn] {
						continue
					}
					seen[fn] = true
					eng.Instrs(fn, func(i ssa.Instruction) {
						if st, ok := i.(*ssa.Store); ok && st.Addr == ssa.Value(g) {
							vals = append(vals, st.Val)
						}
					})
				}
				if len(vals) == 1 {
					p.origins(vals[0], nil, depth-1, set)
					continue
				}
			}
		}
		set["?"] = true
	}
}

// derives is Slicer.DerivesFrom in a context: parameters that the slice ends in are
// continued in the values the context binds them to.
func (p *c04Preds) derives(sl *eng.Slicer, v ssa.Value, cx c04Ctx, depth int, pred func(ssa.Value) bool) bool {
	if sl.DerivesFrom(v, pred) {
		return true
	}
	if cx == nil || depth == 0 {
		return false
	}
	for _, leaf := range sl.Leaves(v, nil) {
		if prm, ok := leaf.(*ssa.Parameter); ok {
			if a, ncx := cx.bind(prm); a != nil && p.derives(sl, a, ncx, depth-1, pred) {
				return true
			}
		}
	}
	return false
}

func c04SortedKeys(set map[string]bool) []string {
	var out []string
	for k := range set {
		out = append(out, k)
	}
	sort.Strings(out)
	return out
}

// c04Answers resolves terminating call t to the base terminating calls that actually
// write the answer: t itself, or — when t calls a same-package helper / closure every path
// of which terminates — the first terminating calls inside it, with the helper's
// parameters bound to t's arguments and the parameters of t's own function bound by bind
// (so neither extracting a helper around the answer nor extracting the block that contains
// t changes the verdict).
func (p *c04Preds) c04Answers(t ssa.CallInstruction, depth int, cx c04Ctx) []c04Answer {
	callee, bound := c04Callee(p.c.W, t)
	if p.baseTerm(t) || callee == nil || !p.mustTerm[callee] || depth == 0 || len(callee.Blocks) == 0 {
		a := c04Answer{callee: eng.FullName(t), site: t}
		set := map[string]bool{}
		for _, arg := range t.Common().Args {
			if eng.TypeName(arg.Type()) == c04PkgAPIErrors+".StatusError" || arg.Type().String() == "error" {
				p.origins(arg, cx, 4, set)
			}
		}
		a.ctors = c04SortedKeys(set)
		return []c04Answer{a}
	}
	inner := c04ArgsCtx{callee: callee, args: bound, outer: cx}
	var out []c04Answer
	for _, u := range c04FirstFrom(callee.Blocks[0], p.termIns) {
		out = append(out, p.c04Answers(u.(ssa.CallInstruction), depth-1, inner)...)
	}
	return out
}

// forwards: the call hands the request on, directly or through a closure invoked in place.
func (p *c04Preds) forwards(ci ssa.CallInstruction) bool {
	if p.isFwd(ci) {
		return true
	}
	if cl := c04ClosureOf(ci); cl != nil {
		for _, f := range eng.WithClosures(cl) {
			for _, cc := range eng.Calls(f) {
				if p.isFwd(cc) {
					return true
				}
			}
		}
	}
	return false
}

// follow selects the callees a traced run interprets: functions of the forwarding packages
// (never the Handler / RoundTripper methods, which are forwarders by identity) that answer on
// some path — unless they answer on every path and never forward, in which case the call is
// an atomic answer — plus whatever the rule at hand needs (extra).
func (p *c04Preds) follow(extra func(*ssa.Function) bool) func(*ssa.Call, *ssa.Function, *eng.TraceFrame) bool {
	return func(_ *ssa.Call, callee *ssa.Function, _ *eng.TraceFrame) bool {
		if !p.scope[callee] || c04IsHandlerMethod(callee, p) {
			return false
		}
		if extra != nil && extra(callee) {
			return true
		}
		return p.mayTerm[callee] && !(p.mustTerm[callee] && !p.mayFwd[callee])
	}
}

// evTerm: the event is an answer written to the client (a call that was not interpreted).
func (p *c04Preds) evTerm(e eng.TraceEvent) bool {
	ci, ok := e.Ins.(*ssa.Call)
	return e.Kind == eng.EvCall && ok && !e.Followed && p.isTerm(ci)
}

// evFwd: the event hands the request on (deferred: when the activation ends).
func (p *c04Preds) evFwd(e eng.TraceEvent) (fwd, deferred bool) {
	if e.Kind != eng.EvCall || e.Followed {
		return false, false
	}
	ci, ok := e.Ins.(ssa.CallInstruction)
	if !ok || !p.forwards(ci) {
		return false, false
	}
	_, deferred = e.Ins.(*ssa.Defer)
	return true, deferred
}

func c04FrameActive(outer, at *eng.TraceFrame) bool {
	for x := at; x != nil; x = x.Parent {
		if x == outer {
			return true
		}
	}
	return false
}

// c04AnswerAfter decides one path on which the reason was decided at event i: the first
// answering or forwarding event after it must be an answer accepted by accept, and nothing
// is forwarded once the answer is written.
func (p *c04Preds) c04AnswerAfter(tp *eng.TracedPath, i int, accept func(t *ssa.Call, cx c04Ctx) (bool, string)) (bool, string) {
	evs := tp.Events
	for j := i + 1; j < len(evs); j++ {
		e := evs[j]
		if fwd, deferred := p.evFwd(e); fwd && !deferred {
			return false, fmt.Sprintf("a forwarding call (%s) is reached on the refusal path before any terminating answer", c04CallLabel(e.Ins.(ssa.CallInstruction)))
		}
		if !p.evTerm(e) {
			continue
		}
		if ok, why := accept(e.Ins.(*ssa.Call), c04InFrame(tp, e.Frame)); !ok {
			return false, why
		}
		for k := j + 1; k < len(evs); k++ {
			if fwd, _ := p.evFwd(evs[k]); fwd {
				return false, fmt.Sprintf("the refusal is answered and the request is still handed on (%s)", c04CallLabel(evs[k].Ins.(ssa.CallInstruction)))
			}
		}
		for k := 0; k < j; k++ {
			if fwd, deferred := p.evFwd(evs[k]); fwd && deferred && c04FrameActive(evs[k].Frame, e.Frame) {
				return false, "a forwarding call deferred earlier runs after the refusal was answered"
			}
		}
		return true, ""
	}
	switch {
	case tp.LoopCut:
		return false, "the refusal path runs into a loop before any terminating answer (undecided)"
	case tp.Panicked:
		return false, "the refusal path panics before any terminating answer"
	}
	return false, "an exit is reachable on the refusal path without any terminating answer"
}

// c04Forcing is one assignment of the reason-carrying values under which the reason holds.
type c04Forcing struct {
	label   string
	pinCall func(c *ssa.Call, idx int) (eng.AV, bool)
	pinLoad func(ld *ssa.UnOp) (eng.AV, bool)
	// decided reports the event at which the reason is decided on a path: the source call
	// executes, or a pinned load is consumed by a test.
	decided func(e eng.TraceEvent) bool
}

// c04Reason is one reason ⇒ status pair.
type c04Reason struct {
	construct string
	pkg       string // the package whose functions are searched for the reason-carrying value
	missing   string
	sources   func(fn *ssa.Function) []ssa.Instruction
	forcings  func(src ssa.Instruction) []c04Forcing
	accept    func(t *ssa.Call, cx c04Ctx) (bool, string)
}

// c04Roots returns the functions in which the calling contexts of fn end (fn itself when
// its callers are not completely known): the handlers fn runs as a part of.
func c04Roots(c *eng.Ctx, fn *ssa.Function) []*ssa.Function {
	var out []*ssa.Function
	seen := map[*ssa.Function]bool{}
	for _, ch := range c.W.UpChains(fn, nil) {
		if r := ch.Top(fn); r != nil && !seen[r] {
			seen[r] = true
			out = append(out, r)
		}
	}
	if len(out) == 0 {
		out = append(out, fn)
	}
	return out
}

// c04ReachesAny returns the functions of the scope from which one of the target functions is
// reached through static calls (the helpers on the way from a root to the reason's source).
func (p *c04Preds) c04ReachesAny(targets map[*ssa.Function]bool) map[*ssa.Function]bool {
	out := map[*ssa.Function]bool{}
	for f := range targets {
		out[f] = true
	}
	for changed := true; changed; {
		changed = false
		for fn := range p.scope {
			if out[fn] {
				continue
			}
			for _, ci := range eng.Calls(fn) {
				if _, plain := ci.(*ssa.Call); !plain {
					continue
				}
				if f := eng.CalleeFn(ci); f != nil && out[f] {
					out[fn] = true
					changed = true
					break
				}
			}
		}
	}
	return out
}

func (p *c04Preds) c04Trace(root *ssa.Function, f c04Forcing, extra func(*ssa.Function) bool) ([]eng.TracedPath, error) {
	in := &eng.Interp{W: p.c.W, Depth: eng.LiftDepth + 1, MaxPaths: 1 << 14}
	if f.pinLoad != nil {
		in.PinLoad = func(ld *ssa.UnOp, _ string) (eng.AV, bool) { return f.pinLoad(ld) }
	}
	tr := &eng.Tracer{In: in, Follow: p.follow(extra), KnownResults: true}
	if f.pinCall != nil {
		tr.Pin = func(c *ssa.Call, idx int, _ *eng.TraceFrame, _ *eng.State) (eng.AV, bool) { return f.pinCall(c, idx) }
	}
	return tr.Run(root, nil)
}

// c04CheckReason evaluates one reason ⇒ status pair on every handler the reason is decided in.
func c04CheckReason(c *eng.Ctx, p *c04Preds, r c04Reason) {
	type job struct {
		root *ssa.Function
		srcs []ssa.Instruction
	}
	var jobs []*job
	byRoot := map[*ssa.Function]*job{}
	holders := map[*ssa.Function]bool{}
	for _, fn := range c.W.FuncsOf(r.pkg) {
		srcs := r.sources(fn)
		if len(srcs) == 0 {
			continue
		}
		holders[fn] = true
		for _, root := range c04Roots(c, fn) {
			// only functions that take part in handling a request — they answer or hand it on
			// on some path — are subjects; a reader of the value with unknown callers that does
			// neither (a logging or metrics helper) decides nothing
			if !p.mayTerm[root] && !p.mayFwd[root] {
				continue
			}
			j := byRoot[root]
			if j == nil {
				j = &job{root: root}
				byRoot[root] = j
				jobs = append(jobs, j)
			}
			j.srcs = append(j.srcs, srcs...)
		}
	}
	if len(jobs) == 0 {
		c.Fail("R2", nil, r.construct, 0, r.missing)
		return
	}
	onWay := p.c04ReachesAny(holders)
	for _, j := range jobs {
		ok, undecided, why := true, false, ""
		for _, src := range j.srcs {
			for _, f := range r.forcings(src) {
				paths, err := p.c04Trace(j.root, f, func(fn *ssa.Function) bool { return onWay[fn] })
				if err != nil {
					ok, undecided, why = false, true, "forcing "+f.label+": "+err.Error()
					continue
				}
				decided := 0
				for pi := range paths {
					tp := &paths[pi]
					at := -1
					for i, e := range tp.Events {
						if f.decided(e) {
							at = i
							break
						}
					}
					if at < 0 {
						continue
					}
					decided++
					if o, w := p.c04AnswerAfter(tp, at, r.accept); !o {
						ok = false
						why = w
						if f.label != "" {
							why = "with " + f.label + ": " + w
						}
					}
				}
				c.Note("C04.R2 %s [%s] on %s: %d paths enumerated, %d decide the reason", r.construct, f.label, eng.FuncName(j.root), len(paths), decided)
				if decided == 0 {
					ok, why = false, "no path of the handler decides the reason ("+f.label+"): the refusing value is never tested"
				}
			}
		}
		switch {
		case undecided:
			c.Undecided("R2", j.root, r.construct, j.root.Pos(), why)
		default:
			if ok {
				why = "every path on which the reason holds answers through the expected constructor before any exit or forwarding call, and forwards nothing afterwards"
			}
			c.Check("R2", j.root, r.construct, j.root.Pos(), ok, why)
		}
	}
}

func (p *c04Preds) acceptCtor(ctor string) func(t *ssa.Call, cx c04Ctx) (bool, string) {
	return func(t *ssa.Call, cx c04Ctx) (bool, string) {
		for _, a := range p.c04Answers(t, 3, cx) {
			if len(a.ctors) != 1 || a.ctors[0] != c04PkgAPIErrors+"."+ctor {
				return false, fmt.Sprintf("the answer on this path is built by %v, want errors.%s (the client is told the wrong reason / retry policy)", a.ctors, ctor)
			}
		}
		return true, ""
	}
}

// c04CallSources: the plain calls of fn satisfying match.
func c04CallSources(match func(ci ssa.CallInstruction) bool) func(fn *ssa.Function) []ssa.Instruction {
	return func(fn *ssa.Function) []ssa.Instruction {
		var out []ssa.Instruction
		for _, ci := range eng.Calls(fn) {
			if _, plain := ci.(*ssa.Call); plain && match(ci) {
				out = append(out, ci)
			}
		}
		return out
	}
}

// c04PinResults forces results of the source call: vals maps a result index (-1: the single
// result) to its value.
func c04PinResults(label string, src ssa.Instruction, vals map[int]eng.AV) c04Forcing {
	return c04Forcing{
		label: label,
		pinCall: func(c *ssa.Call, idx int) (eng.AV, bool) {
			if ssa.Instruction(c) != src {
				return eng.AV{}, false
			}
			av, ok := vals[idx]
			return av, ok
		},
		decided: func(e eng.TraceEvent) bool { return e.Kind == eng.EvCall && e.Ins == src },
	}
}

// c04ConstsOfType returns the package-level constants of pkg whose type is the named type.
func c04ConstsOfType(c *eng.Ctx, pkg, typ string) map[string]int64 {
	out := map[string]int64{}
	p, ok := c.W.All[pkg]
	if !ok || p.Types == nil {
		return out
	}
	sc := p.Types.Scope()
	for _, n := range sc.Names() {
		k, ok := sc.Lookup(n).(*types.Const)
		if !ok || eng.TypeName(k.Type()) != pkg+"."+typ {
			continue
		}
		if v, ok := eng.IntConst(ssa.NewConst(k.Val(), k.Type())); ok {
			out[n] = v
		}
	}
	return out
}

func c04R2(c *eng.Ctx, p *c04Preds) {
	tExtra := pkgRequest + ".ExtraRequestInfo"
	isLoadOf := func(v ssa.Value, field string) bool {
		ld, ok := v.(*ssa.UnOp)
		return ok && ld.Op == token.MUL && eng.FieldLoadOf(ld, tExtra, field)
	}
	var reasons []c04Reason

	// ---- dispatcher: 429 / 503 / 503
	if iface := fcIface(c); iface != nil {
		reasons = append(reasons, c04Reason{
			construct: "refused TryAcquire ⇒ 429 TooManyRequests", pkg: pkgDispatcher,
			missing: "no call of FlowControl.TryAcquire found in the dispatcher package",
			sources: c04CallSources(func(ci ssa.CallInstruction) bool { return isFCCall(ci, iface, "TryAcquire") }),
			forcings: func(src ssa.Instruction) []c04Forcing {
				return []c04Forcing{c04PinResults("TryAcquire()=false", src, map[int]eng.AV{-1: eng.AVBool(false)})}
			},
			accept: p.acceptCtor("NewTooManyRequests"),
		})
	}
	reasons = append(reasons, c04Reason{
		construct: "Pop error ⇒ 503 ServiceUnavailable", pkg: pkgDispatcher,
		missing: "no call of EndpointPicker.Pop found in the dispatcher package",
		sources: c04CallSources(func(ci ssa.CallInstruction) bool { return eng.IsCall(ci, "("+pkgClusters+".EndpointPicker).Pop") }),
		forcings: func(src ssa.Instruction) []c04Forcing {
			return []c04Forcing{c04PinResults("Pop() error non-nil", src, map[int]eng.AV{1: {K: eng.NonNilV}})}
		},
		accept: p.acceptCtor("NewServiceUnavailable"),
	})
	reasons = append(reasons, c04Reason{
		construct: "cluster not proxied ⇒ 503 ServiceUnavailable", pkg: pkgDispatcher,
		missing: "ExtraRequestInfo.UpstreamCluster is never read in the dispatcher package",
		sources: func(fn *ssa.Function) []ssa.Instruction {
			var out []ssa.Instruction
			eng.Instrs(fn, func(ins ssa.Instruction) {
				if v, ok := ins.(ssa.Value); ok && isLoadOf(v, "UpstreamCluster") {
					out = append(out, ins)
				}
			})
			if len(out) > 1 {
				out = out[:1] // the forcing pins every read of the field: one run per function
			}
			return out
		},
		forcings: func(ssa.Instruction) []c04Forcing {
			return []c04Forcing{{
				label: "IsProxyRequest=true, UpstreamCluster=nil",
				pinLoad: func(ld *ssa.UnOp) (eng.AV, bool) {
					switch {
					case isLoadOf(ld, "UpstreamCluster"):
						return eng.AV{K: eng.NilV}, true
					case isLoadOf(ld, "IsProxyRequest"):
						return eng.AVBool(true), true
					}
					return eng.AV{}, false
				},
				decided: func(e eng.TraceEvent) bool {
					v, ok := e.Ins.(ssa.Value)
					return e.Kind == eng.EvPinned && ok && isLoadOf(v, "UpstreamCluster")
				},
			}}
		},
		accept: p.acceptCtor("NewServiceUnavailable"),
	})

	// ---- the filter that resolves the host: unknown host ⇒ 503
	reasons = append(reasons, c04Reason{
		construct: "cluster not proxied ⇒ 503 ServiceUnavailable", pkg: pkgFilters,
		missing: "no call of clusters.Manager.Get found in the filters package",
		sources: c04CallSources(func(ci ssa.CallInstruction) bool { return eng.IsCall(ci, "("+pkgClusters+".Manager).Get") }),
		forcings: func(src ssa.Instruction) []c04Forcing {
			return []c04Forcing{c04PinResults("Manager.Get() found=false", src, map[int]eng.AV{1: eng.AVBool(false)})}
		},
		accept: p.acceptCtor("NewServiceUnavailable"),
	})

	// ---- impersonation: err != nil or decision != Allow ⇒ 403 Forbidden
	acceptForbidden := func(t *ssa.Call, cx c04Ctx) (bool, string) {
		for _, a := range p.c04Answers(t, 3, cx) {
			if a.callee != c04PkgRespWriters+".Forbidden" {
				return false, "a refused impersonation is answered by " + shortName(a.callee) + ", want responsewriters.Forbidden (403)"
			}
		}
		return true, ""
	}
	isAuthorize := func(ci ssa.CallInstruction) bool {
		return eng.IsCall(ci, "("+c04PkgAuthorizer+".Authorizer).Authorize")
	}
	reasons = append(reasons, c04Reason{
		construct: "impersonation authorizer error ⇒ 403 Forbidden", pkg: pkgFilters,
		missing: "no call of Authorizer.Authorize found in the filters package",
		sources: c04CallSources(isAuthorize),
		forcings: func(src ssa.Instruction) []c04Forcing {
			return []c04Forcing{c04PinResults("Authorize() error non-nil", src, map[int]eng.AV{2: {K: eng.NonNilV}})}
		},
		accept: acceptForbidden,
	})
	decisions := c04ConstsOfType(c, c04PkgAuthorizer, "Decision")
	allow, haveAllow := decisions["DecisionAllow"]
	if !haveAllow || len(decisions) < 2 {
		c.Fail("engine", nil, "unresolved-anchor const authorizer.DecisionAllow", 0, "constant not found")
	}
	reasons = append(reasons, c04Reason{
		construct: "impersonation not allowed ⇒ 403 Forbidden", pkg: pkgFilters,
		missing: "no call of Authorizer.Authorize found in the filters package",
		sources: c04CallSources(isAuthorize),
		forcings: func(src ssa.Instruction) []c04Forcing {
			var out []c04Forcing
			for _, name := range c04SortedKeys(func() map[string]bool {
				m := map[string]bool{}
				for n := range decisions {
					m[n] = true
				}
				return m
			}()) {
				if k := decisions[name]; k != allow {
					out = append(out, c04PinResults("Authorize()="+name+", nil error", src, map[int]eng.AV{0: eng.AVInt(k), 2: {K: eng.NilV}}))
				}
			}
			return out
		},
		accept: acceptForbidden,
	})
	for _, r := range reasons {
		c04CheckReason(c, p, r)
	}

	// ---- the error travels unchanged down to the function that writes the Status: every
	// answering helper of the gateway (a function that takes the *StatusError and answers on
	// every path by calling another function of the forwarding packages) hands on the very
	// error, writer and request it was given. The helpers are found by this role, not by name.
	var helpers []*ssa.Function
	for _, pk := range []string{pkgDispatcher, pkgFilters, pkgResponse} {
		helpers = append(helpers, c.W.FuncsOf(pk)...)
	}
	for _, fn := range helpers {
		if !p.mustTerm[fn] {
			continue
		}
		hasErr := false
		for _, prm := range fn.Params {
			if eng.TypeName(prm.Type()) == c04PkgAPIErrors+".StatusError" {
				hasErr = true
			}
		}
		if !hasErr {
			continue
		}
		for _, ci := range eng.Calls(fn) {
			callee := eng.CalleeFn(ci)
			if _, plain := ci.(*ssa.Call); !plain || callee == nil || !p.scope[callee] || !p.isTerm(ci) {
				continue
			}
			ok := true
			// every parameter of type *StatusError, ResponseWriter, *Request must be handed on as is
			for _, prm := range fn.Params {
				tn := eng.TypeName(prm.Type())
				if tn != c04PkgAPIErrors+".StatusError" && tn != "net/http.ResponseWriter" && tn != c04TRequest {
					continue
				}
				handed := false
				for _, a := range ci.Common().Args {
					if a == ssa.Value(prm) {
						handed = true
					}
				}
				ok = ok && handed
			}
			c.Check("R2", fn, "error handed on unchanged", ci.Pos(), ok, "the status error, the response writer and the request given to this helper must be the ones handed to "+shortName(eng.FullName(ci)))
		}
	}

	c04RetryAfter(c, p)
}

// c04StatusWriter locates the function that writes the Status: response.TerminateWithError,
// or — should it have been renamed — the function of the response package that takes the
// error, the writer and the request and passes ErrorNegotiated on every path.
func c04StatusWriter(c *eng.Ctx, p *c04Preds) *ssa.Function {
	if f := c.W.Func(pkgResponse, "TerminateWithError"); f != nil && f.Blocks != nil {
		return f
	}
	for _, fn := range c.W.FuncsOf(pkgResponse) {
		if !p.mustTerm[fn] || fn.Parent() != nil {
			continue
		}
		n := 0
		for _, prm := range fn.Params {
			switch eng.TypeName(prm.Type()) {
			case c04PkgAPIErrors + ".StatusError", "net/http.ResponseWriter", c04TRequest:
				n++
			}
		}
		if n == 3 {
			for _, rf := range c.W.Region(fn) {
				if len(eng.CallsTo(rf, c04PkgRespWriters+".ErrorNegotiated")) > 0 {
					return fn
				}
			}
		}
	}
	c.Fail("engine", nil, "unresolved-anchor func "+pkgResponse+".TerminateWithError", 0, "no function of the response package writes a Status through ErrorNegotiated for a given (*StatusError, ResponseWriter, *Request)")
	return nil
}

// c04RetryAfter: the function that writes the Status sets Retry-After first — for a 503, and
// for a 429 that suggests a delay — and writes the Status through the codec exactly once.
// Decided by forcing the classification of the error (IsServiceUnavailable /
// IsTooManyRequests / SuggestsClientDelay of the given error) and enumerating every path
// with the helpers of the response package interpreted, so it does not matter whether the
// header value is chosen inline, by a helper returning (seconds, ok), or in a switch.
func c04RetryAfter(c *eng.Ctx, p *c04Preds) {
	tw := c04StatusWriter(c, p)
	if tw == nil {
		return
	}
	var errP, wP, reqP *ssa.Parameter
	for _, prm := range tw.Params {
		switch eng.TypeName(prm.Type()) {
		case c04PkgAPIErrors + ".StatusError":
			errP = prm
		case "net/http.ResponseWriter":
			wP = prm
		case c04TRequest:
			reqP = prm
		}
	}
	if errP == nil || wP == nil || reqP == nil {
		c.Fail("R2", tw, "TerminateWithError signature", tw.Pos(), "expected parameters (*StatusError, ResponseWriter, *Request)")
		return
	}
	is := func(v ssa.Value, fr *eng.TraceFrame, prm *ssa.Parameter) bool {
		r, _ := fr.Resolve(v)
		return r == ssa.Value(prm)
	}
	isEN := func(e eng.TraceEvent) bool {
		return e.Kind == eng.EvCall && eng.IsPlainCall(e.Ins, c04PkgRespWriters+".ErrorNegotiated")
	}
	isSetRA := func(e eng.TraceEvent) bool {
		if e.Kind != eng.EvCall || !eng.IsPlainCall(e.Ins, "(net/http.Header).Set") {
			return false
		}
		ci := e.Ins.(ssa.CallInstruction)
		k, ok := eng.StringConst(eng.Args(ci)[0])
		if !ok || !strings.EqualFold(k, "Retry-After") {
			return false
		}
		hv, _ := e.Frame.Resolve(eng.Receiver(ci))
		hc, _ := eng.CallResultOf(hv)
		return hc != nil && eng.IsCall(hc, "(net/http.ResponseWriter).Header") && is(eng.Receiver(hc), e.Frame, wP)
	}
	classify := func(vals map[string]map[int]eng.AV) func(*ssa.Call, int, *eng.TraceFrame, *eng.State) (eng.AV, bool) {
		return func(cc *ssa.Call, idx int, fr *eng.TraceFrame, _ *eng.State) (eng.AV, bool) {
			m, ok := vals[eng.FullName(cc)]
			if !ok || len(cc.Call.Args) != 1 || !is(cc.Call.Args[0], fr, errP) {
				return eng.AV{}, false
			}
			av, ok := m[idx]
			return av, ok
		}
	}
	run := func(pin func(*ssa.Call, int, *eng.TraceFrame, *eng.State) (eng.AV, bool)) ([]eng.TracedPath, error) {
		tr := &eng.Tracer{
			In:  &eng.Interp{W: c.W, Depth: eng.LiftDepth + 1, MaxPaths: 1 << 12},
			Pin: pin,
			Follow: func(_ *ssa.Call, callee *ssa.Function, _ *eng.TraceFrame) bool {
				return p.scope[callee] && callee.Pkg == tw.Pkg
			},
			WantArgs: func(ci ssa.CallInstruction) bool { return eng.IsCall(ci, "strconv.Itoa") },
		}
		return tr.Run(tw, nil)
	}
	// (a) the Status is written on every path, last, with the same error/writer/request
	paths, err := run(nil)
	okEN := err == nil && len(paths) > 0
	for _, tp := range paths {
		n := 0
		for i, e := range tp.Events {
			if !isEN(e) {
				continue
			}
			n++
			a := e.Ins.(ssa.CallInstruction).Common().Args
			okEN = okEN && len(a) == 5 && is(a[0], e.Frame, errP) && is(a[3], e.Frame, wP) && is(a[4], e.Frame, reqP)
			for _, later := range tp.Events[i+1:] {
				okEN = okEN && !isSetRA(later)
			}
		}
		okEN = okEN && n == 1 && !tp.LoopCut && !tp.Panicked
	}
	c.Check("R2", tw, "Status written through ErrorNegotiated on every path, after the headers", tw.Pos(), okEN, "ErrorNegotiated(err, codecs, gv, w, req) must run exactly once on every path with the given error, writer and request, and no Retry-After may be set after it (headers are flushed by then)")

	// every path under the forcing sets Retry-After (a value accepted by val) before the Status
	sets := func(pin func(*ssa.Call, int, *eng.TraceFrame, *eng.State) (eng.AV, bool), val func(tp *eng.TracedPath, at int, v ssa.Value) bool) bool {
		paths, err := run(pin)
		if err != nil || len(paths) == 0 {
			return false
		}
		for pi := range paths {
			tp := &paths[pi]
			set := false
			for i, e := range tp.Events {
				if isEN(e) {
					break
				}
				if isSetRA(e) {
					if !val(tp, i, eng.Args(e.Ins.(ssa.CallInstruction))[1]) {
						return false
					}
					set = true
				}
			}
			if !set {
				return false
			}
		}
		return true
	}
	const (
		is503   = c04PkgAPIErrors + ".IsServiceUnavailable"
		is429   = c04PkgAPIErrors + ".IsTooManyRequests"
		suggest = c04PkgAPIErrors + ".SuggestsClientDelay"
	)
	// (b) 503 ⇒ Retry-After: <positive constant>
	ok503 := sets(classify(map[string]map[int]eng.AV{is503: {-1: eng.AVBool(true)}, is429: {-1: eng.AVBool(false)}}),
		func(tp *eng.TracedPath, at int, v ssa.Value) bool {
			// the value is strconv.Itoa(k) with k a positive constant on this path
			rv, rf := tp.Events[at].Frame.Resolve(v)
			for j := at - 1; j >= 0; j-- {
				e := tp.Events[j]
				if iv, isIns := rv.(ssa.Instruction); e.Kind == eng.EvCall && isIns && e.Ins == iv && e.Frame == rf {
					if !eng.IsCall(e.Ins, "strconv.Itoa") || len(e.Args) != 1 || e.Args[0].K != eng.ConstV {
						return false
					}
					k, isInt := constant.Int64Val(e.Args[0].C)
					return isInt && k > 0
				}
			}
			return false
		})
	c.Check("R2", tw, "503 ⇒ Retry-After set before the Status is written", tw.Pos(), ok503, "for an error that IsServiceUnavailable every path must set Retry-After (a positive number of seconds) on w.Header() before ErrorNegotiated")
	// (c) 429 with a suggested delay ⇒ Retry-After: that delay
	sa := c.Slicer().WithArgs()
	ok429 := sets(classify(map[string]map[int]eng.AV{is429: {-1: eng.AVBool(true)}, is503: {-1: eng.AVBool(false)}, suggest: {1: eng.AVBool(true)}}),
		func(tp *eng.TracedPath, at int, v ssa.Value) bool {
			return p.derives(sa, v, c04InFrame(tp, tp.Events[at].Frame), 4, func(x ssa.Value) bool {
				cc, idx := eng.CallResultOf(x)
				return cc != nil && idx == 0 && eng.IsCall(cc, suggest)
			})
		})
	c.Check("R2", tw, "429 with suggested delay ⇒ Retry-After set before the Status is written", tw.Pos(), ok429, "for an error that IsTooManyRequests and SuggestsClientDelay, Retry-After must be set to the suggested delay before ErrorNegotiated")
}

// ---- R3 --------------------------------------------------------------------------------
// Protects: "reaches the chosen upstream with the same method, path, query parameters, body
// and end-to-end headers … and the upstream's status code, headers and body are relayed to
// the client unchanged". Decided as a who-may-write table over the forwarding packages.

// c04DelegatingBody reports whether the value stored into req.Body is a reader that wraps
// the previous body of the same request and hands its bytes on unchanged: a struct with an
// embedded io.ReadCloser initialised from req.Body whose Read returns exactly what the
// embedded reader's Read(p) returned and whose Close is the promoted one.
func c04DelegatingBody(c *eng.Ctx, st *ssa.Store, reqBase ssa.Value) (bool, string) {
	// the wrapper may be built in place or by a constructor helper of the same package that is
	// handed the previous body: resolve through the helper's return into its body, keeping the
	// calling context so that the helper's parameter is the caller's argument
	samePkg := func(f *ssa.Function) bool { return f.Pkg != nil && f.Pkg == st.Parent().Pkg }
	rv := c04ResolveIn(st.Val, nil, samePkg)
	al, ok := rv.v.(*ssa.Alloc)
	if !ok {
		return false, "the new body is not a wrapper built in place"
	}
	named, _ := al.Type().(*types.Pointer).Elem().(*types.Named)
	if named == nil {
		return false, "the new body is not a named wrapper type"
	}
	stt, ok := named.Underlying().(*types.Struct)
	if !ok {
		return false, "the new body is not a struct wrapper"
	}
	emb := ""
	for i := 0; i < stt.NumFields(); i++ {
		if f := stt.Field(i); f.Embedded() && f.Type().String() == "io.ReadCloser" {
			emb = f.Name()
		}
	}
	if emb == "" {
		return false, "the wrapper does not embed the io.ReadCloser it replaces"
	}
	tn := eng.TypeName(named)
	inited := false
	for _, s2 := range eng.StoresToField([]*ssa.Function{al.Parent()}, tn, emb) {
		if fa := s2.Addr.(*ssa.FieldAddr); fa.X == ssa.Value(al) {
			src := c04ResolveIn(s2.Val, rv.ch, samePkg).v
			inited = eng.FieldLoadOf(src, c04TRequest, "Body") && c04SameObj(c04LoadBase(src), reqBase)
		}
	}
	if !inited {
		return false, "the wrapper's embedded reader is not the previous Body of the same request"
	}
	if c.W.DeclaredMethod(named, "Close") != nil {
		return false, "the wrapper overrides Close"
	}
	rd := c.W.DeclaredMethod(named, "Read")
	if rd == nil {
		return true, "" // Read is promoted as well
	}
	if rd.Blocks == nil || len(rd.Params) != 2 {
		return false, "the wrapper's Read cannot be analysed"
	}
	okRead := true
	eng.Instrs(rd, func(ins ssa.Instruction) {
		r, isR := ins.(*ssa.Return)
		if !isR {
			return
		}
		if len(r.Results) != 2 {
			okRead = false
			return
		}
		c0, i0 := eng.CallResultOf(r.Results[0])
		c1, i1 := eng.CallResultOf(r.Results[1])
		if c0 == nil || c0 != c1 || i0 != 0 || i1 != 1 || !eng.MethodNameIs(c0, "Read") ||
			!eng.FieldLoadOf(eng.Receiver(c0), tn, emb) || len(eng.Args(c0)) != 1 || eng.Args(c0)[0] != ssa.Value(rd.Params[1]) {
			okRead = false
		}
	})
	if !okRead {
		return false, "the wrapper's Read does not return exactly what the wrapped reader's Read(p) returned"
	}
	return true, ""
}

// c04LoadBase returns the object a field load / field address is taken from.
func c04LoadBase(v ssa.Value) ssa.Value {
	switch n := v.(type) {
	case *ssa.UnOp:
		if fa, ok := n.X.(*ssa.FieldAddr); ok {
			return fa.X
		}
	case *ssa.FieldAddr:
		return n.X
	case *ssa.Field:
		return n.X
	}
	return nil
}

// c04SameObj: same SSA value or two loads of the same access path (req.URL read twice).
func c04SameObj(a, b ssa.Value) bool {
	if a == nil || b == nil {
		return false
	}
	return a == b || sameLoad(a, b) || c04SameCellLoad(a, b) || c04SameCellLoad(b, a)
}

// c04SameCellLoad: a and b are two loads of the same local cell (a variable captured by a
// closure lives in one) and the cell is not written between a and b, nor by any closure.
func c04SameCellLoad(a, b ssa.Value) bool {
	la, ok1 := a.(*ssa.UnOp)
	lb, ok2 := b.(*ssa.UnOp)
	if !ok1 || !ok2 || la.Op != token.MUL || lb.Op != token.MUL || la.X != lb.X {
		return false
	}
	cell, ok := la.X.(*ssa.Alloc)
	if !ok || cell.Referrers() == nil {
		return false
	}
	for _, r := range *cell.Referrers() {
		if mc, ok := r.(*ssa.MakeClosure); ok {
			// a capturing closure must not write the cell
			fn, _ := mc.Fn.(*ssa.Function)
			for i, bnd := range mc.Bindings {
				if bnd != ssa.Value(cell) || fn == nil || i >= len(fn.FreeVars) {
					continue
				}
				if refs := fn.FreeVars[i].Referrers(); refs != nil {
					for _, rr := range *refs {
						if st, ok := rr.(*ssa.Store); ok && st.Addr == ssa.Value(fn.FreeVars[i]) {
							return false
						}
						if _, ok := rr.(*ssa.MakeClosure); ok {
							return false
						}
					}
				}
			}
		}
	}
	isStore := func(i ssa.Instruction) bool { st, ok := i.(*ssa.Store); return ok && st.Addr == ssa.Value(cell) }
	reaches := eng.ReachAfter(la, eng.PathQuery{Target: func(i ssa.Instruction) bool { return i == ssa.Instruction(lb) }}) != nil
	return reaches && eng.ReachAfter(la, eng.PathQuery{Target: isStore, Avoid: func(i ssa.Instruction) bool { return i == ssa.Instruction(lb) }}) == nil
}

// c04Val is a value together with the calling context (innermost first) of the function it
// belongs to.
type c04Val struct {
	v  ssa.Value
	ch eng.UpChain
}

// c04ResolveIn rewrites v — a value of the function whose calling context is ch — towards
// the value it denotes: conversions are stripped, a spilled value (local with one store) is
// the stored value, a parameter bound by the context is the caller's argument (continued in
// the caller's context), and the result of a helper (accepted by inRegion) all of whose
// non-nil returns yield one and the same value is that value (continued inside the helper).
func c04ResolveIn(v ssa.Value, ch eng.UpChain, inRegion func(*ssa.Function) bool) c04Val {
	for i := 0; i < 32 && v != nil; i++ {
		switch x := v.(type) {
		case *ssa.MakeInterface:
			v = x.X
			continue
		case *ssa.ChangeInterface:
			v = x.X
			continue
		case *ssa.ChangeType:
			v = x.X
			continue
		case *ssa.Parameter:
			bound := false
			for k, s := range ch {
				if s.Fn == x.Parent() {
					if b := s.Bind(x); b != nil {
						v, ch, bound = b, ch[k+1:], true
					}
					break
				}
			}
			if bound {
				continue
			}
		case *ssa.UnOp:
			if x.Op == token.MUL {
				if cell, ok := x.X.(*ssa.Alloc); ok {
					if sv := c04SingleStore(cell); sv != nil {
						v = sv
						continue
					}
				}
			}
		case *ssa.Call, *ssa.Extract:
			cc, idx := eng.CallResultOf(v)
			if cc == nil {
				break
			}
			callee := cc.Call.StaticCallee()
			if callee == nil || callee.Blocks == nil || inRegion == nil || !inRegion(callee) {
				break
			}
			if idx < 0 {
				idx = 0
			}
			var same ssa.Value
			ok := true
			eng.Instrs(callee, func(ins ssa.Instruction) {
				r, isR := ins.(*ssa.Return)
				if !isR || r.Block() == callee.Recover {
					return
				}
				rs := eng.ReturnResults(r)
				if idx >= len(rs) {
					ok = false
					return
				}
				rv := rs[idx]
				if eng.IsNilConst(rv) {
					return
				}
				if same != nil && same != rv {
					ok = false
				}
				same = rv
			})
			if ok && same != nil {
				v = same
				ch = append(eng.UpChain{{Fn: callee, Call: cc, Direct: true}}, ch...)
				continue
			}
		}
		break
	}
	return c04Val{v, ch}
}

// c04SingleStore returns the value stored into a local cell that is written exactly once
// (and never handed out by address), nil otherwise.
func c04SingleStore(a *ssa.Alloc) ssa.Value {
	if a.Referrers() == nil {
		return nil
	}
	var val ssa.Value
	for _, r := range *a.Referrers() {
		switch u := r.(type) {
		case *ssa.Store:
			if u.Addr != ssa.Value(a) || val != nil {
				return nil
			}
			val = u.Val
		case *ssa.UnOp, *ssa.DebugRef:
		default:
			return nil
		}
	}
	return val
}

// c04MayReachUp: some path from ins reaches an instruction satisfying pred — in ins's own
// function (a call of a helper in which pred is reachable counts), or, when that function is
// a helper, after one of its call sites (recursively up to the anchor).
func c04MayReachUp(c *eng.Ctx, anchor *ssa.Function, ins ssa.Instruction, pred func(ssa.Instruction) bool) bool {
	px := eng.LiftMay(pred)
	var rec func(i ssa.Instruction, depth int) bool
	rec = func(i ssa.Instruction, depth int) bool {
		if eng.ReachAfter(i, eng.PathQuery{Target: px}) != nil {
			return true
		}
		if i.Parent() == anchor || depth <= 0 {
			return false
		}
		sites := c.W.GuardSites(i.Parent())
		if len(sites) == 0 {
			return true // callers unknown: assume it can
		}
		for _, s := range sites {
			if rec(s, depth-1) {
				return true
			}
		}
		return false
	}
	return rec(ins, eng.LiftDepth)
}

// c04AlwaysAfterUp: every path from ins to the exit of the anchor passes pred — inside ins's
// own function, or, when that function is a helper of the anchor's region and some path
// through it ends without pred, after each of its call sites (recursively).
func c04AlwaysAfterUp(c *eng.Ctx, anchor *ssa.Function, ins ssa.Instruction, pred func(ssa.Instruction) bool) bool {
	var rec func(i ssa.Instruction, depth int) bool
	rec = func(i ssa.Instruction, depth int) bool {
		if eng.AlwaysAfter(i, pred) {
			return true
		}
		if i.Parent() == anchor || depth <= 0 {
			return false
		}
		sites := c.W.GuardSites(i.Parent())
		if len(sites) == 0 {
			return false
		}
		for _, s := range sites {
			if _, plain := s.(*ssa.Call); !plain || !rec(s, depth-1) {
				return false
			}
		}
		return true
	}
	return rec(ins, eng.LiftDepth)
}

func c04R3(c *eng.Ctx, p *c04Preds) {
	// ---- (a) stores into http.Request fields in the forwarding packages
	n := map[string]int{}
	for _, pk := range []string{pkgDispatcher, pkgRevProxy, pkgFilters} {
		for _, fn := range c.W.FuncsOf(pk) {
			eng.Instrs(fn, func(ins ssa.Instruction) {
				st, ok := ins.(*ssa.Store)
				if !ok {
					return
				}
				fa, ok := st.Addr.(*ssa.FieldAddr)
				if !ok || eng.TypeName(fa.X.Type()) != c04TRequest {
					return
				}
				field := ""
				if stt, ok := fa.X.Type().Underlying().(*types.Pointer).Elem().Underlying().(*types.Struct); ok {
					field = stt.Field(fa.Field).Name()
				}
				n[eng.FuncName(fn)+field]++
				construct := fmt.Sprintf("store Request.%s#%d", field, n[eng.FuncName(fn)+field])
				okSt, why := false, ""
				switch field {
				case "Header":
					cc, _ := eng.CallResultOf(st.Val)
					switch {
					case cc != nil && eng.IsCall(cc, "k8s.io/apimachinery/pkg/util/net.CloneHeader", "(net/http.Header).Clone"):
						src := cc.Call.Args[0]
						okSt = eng.FieldLoadOf(src, c04TRequest, "Header")
						why = "the outbound header must be a clone of a request's header"
					default:
						_, isMk := st.Val.(*ssa.MakeMap)
						okSt = isMk && eng.GuardedByNil(st, func(v ssa.Value) bool {
							return eng.FieldLoadOf(v, c04TRequest, "Header") && c04SameObj(c04LoadBase(v), fa.X)
						}, true)
						why = "Header may only be replaced by a clone, or by an empty map when it is nil"
					}
				case "URL":
					okSt = true // the content of the URL is R4's subject
					why = "the URL pointer may be replaced; what the new URL carries is decided by R4"
				case "Close":
					okSt = eng.IsBoolConst(st.Val, false)
					why = "Close may only be cleared"
				case "Body":
					if eng.IsNilConst(st.Val) {
						okSt = eng.GuardedBy(st, func(r eng.Rel) bool {
							z, isK := eng.IntConst(r.Y)
							return r.Op == token.EQL && isK && z == 0 && eng.FieldLoadOf(r.X, c04TRequest, "ContentLength")
						})
						why = "Body may be dropped only when ContentLength == 0"
					} else {
						okSt, why = c04DelegatingBody(c, st, fa.X)
					}
				default:
					why = "field " + field + " of the request must reach the upstream as received (Method, Host, ContentLength, … are never written)"
				}
				c.Check("R3", fn, construct, st.Pos(), okSt, why)
				// a store that sits in a helper shared by several callers (duplicate request
				// preparation merged into one function) stands for one store per calling context:
				// the rule's instance count follows the contexts, not the source lines
				for k := 2; k <= len(c.W.UpChains(fn, nil)); k++ {
					c.Check("R3", fn, fmt.Sprintf("%s @context#%d", construct, k), st.Pos(), okSt, why)
				}
			})
		}
	}

	// ---- (b) the relay in ReverseProxy.ServeHTTP. The body of ServeHTTP may be spread over
	// helpers (header preparation, hop-by-hop stripping, the relay tail …): every construct is
	// looked for in the Region of ServeHTTP and its operands are resolved through the calling
	// context of the helper they sit in (a parameter is the caller's argument, the result of a
	// helper that hands a value through is that value), so "the response of RoundTrip", "the
	// outbound request", "the client's writer" keep their identity wherever they are used.
	sh := c.MustMethod(pkgRevProxy, "ReverseProxy", "ServeHTTP")
	if sh == nil {
		return
	}
	var rwP, reqP *ssa.Parameter
	for _, prm := range sh.Params {
		switch eng.TypeName(prm.Type()) {
		case "net/http.ResponseWriter":
			rwP = prm
		case c04TRequest:
			reqP = prm
		}
	}
	region := c.W.Region(sh)
	inRegion := map[*ssa.Function]bool{}
	for _, f := range region {
		inRegion[f] = true
	}
	// the calling contexts of a function of the region that end in ServeHTTP
	chainMemo := map[*ssa.Function][]eng.UpChain{}
	chainsOf := func(fn *ssa.Function) []eng.UpChain {
		if chs, ok := chainMemo[fn]; ok {
			return chs
		}
		var out []eng.UpChain
		if fn == sh {
			out = []eng.UpChain{nil}
		} else {
			for _, ch := range c.W.UpChains(fn, func(f *ssa.Function) bool { return f == sh }) {
				if ch.Top(fn) == sh {
					out = append(out, ch)
				}
			}
		}
		chainMemo[fn] = out
		return out
	}
	resolveV := func(v ssa.Value, ch eng.UpChain) c04Val {
		return c04ResolveIn(v, ch, func(f *ssa.Function) bool { return inRegion[f] })
	}
	resolve := func(v ssa.Value, ch eng.UpChain) ssa.Value { return resolveV(v, ch).v }
	// all: pred holds for ins's operands in every context of its function (at least one)
	all := func(ins ssa.Instruction, pred func(ch eng.UpChain) bool) bool {
		chs := chainsOf(ins.Parent())
		for _, ch := range chs {
			if !pred(ch) {
				return false
			}
		}
		return len(chs) > 0
	}
	var rts []ssa.CallInstruction
	for _, fn := range region {
		rts = append(rts, eng.CallsTo(fn, "(net/http.RoundTripper).RoundTrip")...)
	}
	single := len(rts) == 1 && rwP != nil && reqP != nil && !eng.InLoop(rts[0].Block()) && len(chainsOf(rts[0].Parent())) == 1
	if single {
		for _, s := range chainsOf(rts[0].Parent())[0] {
			single = single && !eng.InLoop(s.Call.Block())
		}
	}
	if !single {
		c.Fail("R3", sh, "single RoundTrip", sh.Pos(), fmt.Sprintf("expected exactly one RoundTrip outside loops, found %d", len(rts)))
		return
	}
	rt := rts[0].(*ssa.Call)
	rtCh := chainsOf(rt.Parent())[0]
	var res ssa.Value
	for _, e := range eng.ExtractOf(rt, 0) {
		res = e
	}
	outreq := resolve(eng.Args(rt)[0], rtCh)
	cl, _ := eng.CallResultOf(outreq)
	outV := resolveV(eng.Args(rt)[0], rtCh)
	c.Check("R3", sh, "outbound request = incoming.Clone(ctx)", rt.Pos(), cl != nil && eng.IsCall(cl, "(*net/http.Request).Clone") && resolve(eng.Receiver(cl), outV.ch) == ssa.Value(reqP),
		"the request given to RoundTrip must be a Clone of the incoming request (method, host, body, headers copied by net/http)")
	if res == nil {
		c.Fail("R3", sh, "response of RoundTrip used", rt.Pos(), "the response of RoundTrip is dropped")
		return
	}
	isRes := func(v ssa.Value, ch eng.UpChain) bool { return v != nil && resolve(v, ch) == res }
	// ofRes / ofOutreq: v (in context ch) denotes field `field` of the response / of the outbound request
	ofRes := func(v ssa.Value, field string, ch eng.UpChain) bool {
		r := resolveV(v, ch)
		return eng.FieldLoadOf(r.v, c04TResponse, field) && isRes(c04LoadBase(r.v), r.ch)
	}
	ofOutreq := func(v ssa.Value, field string, ch eng.UpChain) bool {
		r := resolveV(v, ch)
		return eng.FieldLoadOf(r.v, c04TRequest, field) && c04LoadBase(r.v) != nil && resolve(c04LoadBase(r.v), r.ch) == outreq
	}
	isRWHeader := func(v ssa.Value, ch eng.UpChain) bool {
		r := resolveV(v, ch)
		cc, _ := eng.CallResultOf(r.v)
		return cc != nil && eng.IsCall(cc, "(net/http.ResponseWriter).Header") && resolve(eng.Receiver(cc), r.ch) == ssa.Value(rwP)
	}
	isCopyHdr := func(i ssa.Instruction) bool {
		if !eng.IsPlainCall(i, pkgRevProxy+".copyHeader") {
			return false
		}
		a := eng.Args(i.(ssa.CallInstruction))
		return len(a) == 2 && all(i, func(ch eng.UpChain) bool { return isRWHeader(a[0], ch) && ofRes(a[1], "Header", ch) })
	}
	isCopyBody := func(i ssa.Instruction) bool {
		if !eng.IsPlainCall(i, "(*"+c04TRevProxy+").copyResponse") {
			return false
		}
		a := eng.Args(i.(ssa.CallInstruction))
		sl := c.Slicer()
		return len(a) == 3 && all(i, func(ch eng.UpChain) bool {
			return ch.DerivesFrom(sl, a[0], func(v ssa.Value) bool { return v == ssa.Value(rwP) }) &&
				ch.DerivesFrom(sl, a[1], func(v ssa.Value) bool {
					return eng.FieldLoadOf(v, c04TResponse, "Body") && (c04LoadBase(v) == res || isRes(c04LoadBase(v), ch))
				})
		})
	}
	// status
	nWH := 0
	for _, fn := range region {
		for _, ci := range eng.CallsTo(fn, "(net/http.ResponseWriter).WriteHeader") {
			if !all(ci, func(ch eng.UpChain) bool { return resolve(eng.Receiver(ci), ch) == ssa.Value(rwP) }) {
				continue
			}
			nWH++
			a := eng.Args(ci)
			c.Check("R3", sh, fmt.Sprintf("relayed status#%d = res.StatusCode", nWH), ci.Pos(), len(a) == 1 && all(ci, func(ch eng.UpChain) bool { return ofRes(a[0], "StatusCode", ch) }),
				"the status written to the client must be the upstream's StatusCode")
			c.Check("R3", sh, fmt.Sprintf("relayed status#%d after copyHeader(rw.Header(), res.Header)", nWH), ci.Pos(), eng.AlwaysBefore(fn, ci, isCopyHdr), "every path to WriteHeader must first copy the upstream's headers into the client response")
			c.Check("R3", sh, fmt.Sprintf("relayed status#%d followed by copyResponse(rw, res.Body)", nWH), ci.Pos(), c04AlwaysAfterUp(c, sh, ci, isCopyBody), "after the status every path must stream the upstream's body to the client")
		}
	}
	if nWH == 0 {
		c.Fail("R3", sh, "relayed status = res.StatusCode", sh.Pos(), "the upstream's status is never written to the client")
	}
	c04CopyHeader(c)
	// no store into the response, header mutations only for hop-by-hop keys
	// (a store from which no relaying write is reachable any more — the upgrade path nils the
	// body it has taken over and returns — cannot change what the client receives)
	isRelay := func(i ssa.Instruction) bool {
		if isCopyHdr(i) || isCopyBody(i) {
			return true
		}
		ci, ok := i.(*ssa.Call)
		return ok && eng.IsCall(ci, "(net/http.ResponseWriter).WriteHeader", "(net/http.ResponseWriter).Write") &&
			all(ci, func(ch eng.UpChain) bool { return resolve(eng.Receiver(ci), ch) == ssa.Value(rwP) })
	}
	okStore := true
	for _, fn := range region {
		eng.Instrs(fn, func(ins ssa.Instruction) {
			if st, ok := ins.(*ssa.Store); ok {
				if fa, ok := st.Addr.(*ssa.FieldAddr); ok && eng.TypeName(fa.X.Type()) == c04TResponse {
					for _, ch := range chainsOf(fn) {
						if isRes(fa.X, ch) && c04MayReachUp(c, sh, st, isRelay) {
							okStore = false
						}
					}
				}
			}
		})
	}
	c.Check("R3", sh, "no field of the upstream response is overwritten before the relay", rt.Pos(), okStore, "res.StatusCode/Header/Body must be relayed as received")
	rch := c.W.Func(pkgRevProxy, "removeConnectionHeaders")
	hdrMut := func(base func(v ssa.Value, ch eng.UpChain) bool, what string, allowed map[string]bool) {
		k := 0
		for _, fn := range region {
			if fn == rch {
				continue // decided by its own rule below: only Connection-listed tokens
			}
			for _, ci := range eng.CallsTo(fn, "(net/http.Header).Del", "(net/http.Header).Set", "(net/http.Header).Add") {
				// one obligation per context in which the mutated header is the one in question
				for _, ch := range chainsOf(fn) {
					if !base(eng.Receiver(ci), ch) {
						continue
					}
					k++
					key := eng.Args(ci)[0]
					ks, isK := eng.StringConst(resolve(key, ch))
					hop := func() bool {
						sl := c.Slicer()
						return ch.DerivesFrom(sl, key, func(v ssa.Value) bool {
							g, ok := v.(*ssa.Global)
							return ok && g.Name() == "hopHeaders" && g.Pkg != nil && g.Pkg.Pkg.Path() == pkgRevProxy
						})
					}
					ok := (isK && allowed[ks]) || (!isK && eng.IsCall(ci, "(net/http.Header).Del") && hop())
					c.Check("R3", sh, fmt.Sprintf("%s header mutation#%d is hop-by-hop / allow-listed", what, k), ci.Pos(), ok, "only hop-by-hop headers (hopHeaders table) may be deleted and only the allow-listed keys set; any other end-to-end header must cross the gateway unchanged")
				}
			}
		}
		if k == 0 {
			c.Fail("R3", sh, what+" header mutation is hop-by-hop / allow-listed", sh.Pos(), "no hop-by-hop header removal found")
		}
	}
	hdrMut(func(v ssa.Value, ch eng.UpChain) bool { return ofRes(v, "Header", ch) }, "response", map[string]bool{})
	hdrMut(func(v ssa.Value, ch eng.UpChain) bool { return ofOutreq(v, "Header", ch) }, "request",
		map[string]bool{"Te": true, "Connection": true, "Upgrade": true, "X-Forwarded-For": true})
	// functions that receive the response header as a whole: the helpers of the region are
	// covered by the scan above (their body is part of it); anything else must be on the list
	for _, fn := range region {
		for _, ci := range eng.Calls(fn) {
			for i, a := range ci.Common().Args {
				hit := false
				for _, ch := range chainsOf(fn) {
					hit = hit || ofRes(a, "Header", ch)
				}
				if !hit {
					continue
				}
				callee := eng.CalleeFn(ci)
				ok := eng.IsCall(ci, pkgRevProxy+".removeConnectionHeaders") || (eng.IsCall(ci, pkgRevProxy+".copyHeader") && i == 1) ||
					eng.IsCall(ci, "(net/http.Header).Del", "(net/http.Header).Get", "(net/http.Header).Values") ||
					(callee != nil && inRegion[callee] && callee != sh)
				if !ok {
					c.Fail("R3", sh, "res.Header handed to "+c04CallLabel(ci), ci.Pos(), "the upstream's header may only be read, stripped of hop-by-hop keys and copied to the client")
				}
			}
		}
	}
	// removeConnectionHeaders deletes only tokens of the Connection header
	if rc := c.MustFunc(pkgRevProxy, "removeConnectionHeaders"); rc != nil {
		sa := c.Slicer().WithArgs()
		k := 0
		for _, ci := range eng.CallsTo(rc, "(net/http.Header).Del", "(net/http.Header).Set", "(net/http.Header).Add") {
			k++
			ok := eng.IsCall(ci, "(net/http.Header).Del") && sa.DerivesFrom(eng.Args(ci)[0], func(v ssa.Value) bool {
				lk, isL := v.(*ssa.Lookup)
				if !isL {
					return false
				}
				ks, isK := eng.StringConst(lk.Index)
				return isK && ks == "Connection" && lk.X == ssa.Value(rc.Params[0])
			})
			c.Check("R3", rc, fmt.Sprintf("Connection-listed header removal#%d", k), ci.Pos(), ok, "only the tokens listed in the message's own Connection header may be deleted")
		}
	}
	// no response-modifying hook is installed anywhere
	sts := eng.StoresToField(c.W.AllRepoFuncs(), c04TRevProxy, "ModifyResponse")
	c.Check("R3", sh, "no ModifyResponse hook installed", sh.Pos(), len(sts) == 0, "a ModifyResponse hook could rewrite status, headers or body of every relayed response")
	// the dispatcher does not ask for the CORS-stripping/URL-rewriting transport wrapper: every
	// construction of the proxy handler — wherever in the repository it is written — passes
	// wrapTransport=false and upgradeRequired=false (reported against the handler the
	// constructing function runs as a part of)
	nUA := 0
	for _, fn := range c.W.AllRepoFuncs() {
		for _, ci := range eng.CallsTo(fn, pkgDispatcher+".NewUpgradeAwareHandler") {
			nUA++
			a := eng.Args(ci)
			isFalse := func(v ssa.Value) bool { return eng.IsBoolConst(c.W.ResolveUp(v), false) }
			c.Check("R3", c04Roots(c, fn)[0], "proxy handler built without transport wrapping", ci.Pos(), len(a) == 6 && isFalse(a[3]) && isFalse(a[4]),
				"wrapTransport=true routes responses through corsRemovingTransport/proxy.Transport which delete CORS headers and rewrite bodies; upgradeRequired=true refuses plain requests")
		}
	}
	if nUA == 0 {
		c.Fail("R3", nil, "proxy handler built without transport wrapping", 0, "NewUpgradeAwareHandler is not called anywhere in the repository")
	}
}

// ---- R4 --------------------------------------------------------------------------------
// Protects: "for every URL path (including escaped bytes) and query string". url.URL keeps
// the decoded Path and, when the original encoding is not the canonical one, RawPath; a
// URL rebuilt from Path alone re-encodes "%2F" as "/" (F04).
func c04R4(c *eng.Ctx, p *c04Preds) {
	sa := c.Slicer().WithArgs().WithUp() // the URL may be rebuilt in a helper that is handed req.URL
	fromReqURL := func(v ssa.Value) bool {
		return sa.DerivesFrom(v, func(x ssa.Value) bool { return eng.FieldLoadOf(x, c04TRequest, "URL") })
	}
	total := 0
	for _, pk := range []string{pkgDispatcher, pkgRevProxy} {
		for _, fn := range c.W.FuncsOf(pk) {
			stores := func(field string) []*ssa.Store { return eng.StoresToField([]*ssa.Function{fn}, c04TURL, field) }
			k := 0
			var seenBases []ssa.Value
			for _, ps := range stores("Path") {
				incoming := fromReqURL(ps.Val)
				// copied from ANOTHER url.URL (an in-place edit of the same URL's Path is not a rebuild)
				self := c04LoadBase(ps.Addr)
				copied := sa.DerivesFrom(ps.Val, func(x ssa.Value) bool {
					return eng.FieldLoadOf(x, c04TURL, "Path") && !c04SameObj(c04LoadBase(x), self)
				})
				if !incoming && !copied {
					continue // neither taken from an incoming request nor copied from another URL
				}
				base := c04LoadBase(ps.Addr)
				dup := false
				for _, b := range seenBases {
					dup = dup || c04SameObj(b, base)
				}
				if dup {
					continue
				}
				seenBases = append(seenBases, base)
				k++
				total++
				onBase := func(st *ssa.Store) bool { return c04SameObj(c04LoadBase(st.Addr), base) }
				// RawPath travels with Path
				isRaw := func(i ssa.Instruction) bool {
					st, ok := i.(*ssa.Store)
					if !ok || !eng.FieldAddrOf(st.Addr, c04TURL, "RawPath") || !onBase(st) {
						return false
					}
					return (fromReqURL(st.Val) || !incoming) && sa.DerivesFrom(st.Val, func(x ssa.Value) bool {
						return eng.FieldLoadOf(x, c04TURL, "RawPath") || eng.IsResultOf(x, "(*net/url.URL).EscapedPath")
					})
				}
				okRaw := eng.AlwaysAfter(ps, isRaw) || eng.AlwaysBefore(fn, ps, isRaw)
				c.Check("R4", fn, fmt.Sprintf("forward URL#%d: RawPath travels with Path", k), ps.Pos(), okRaw,
					"Path is taken from the incoming request URL but RawPath (the original escaping) is not set from the same URL on every path: a request for /…/a%2Fb is forwarded as /…/a/b")
				if !incoming {
					continue // a copy of a URL that is not the request's: only the escaping must travel
				}
				// RawQuery from the incoming query
				okQ := false
				for _, qs := range stores("RawQuery") {
					if onBase(qs) && fromReqURL(qs.Val) && sa.DerivesFrom(qs.Val, func(x ssa.Value) bool {
						return eng.FieldLoadOf(x, c04TURL, "RawQuery") || eng.IsResultOf(x, "(*net/url.URL).Query")
					}) {
						okQ = true
					}
				}
				c.Check("R4", fn, fmt.Sprintf("forward URL#%d: RawQuery from the incoming query", k), ps.Pos(), okQ,
					"the rebuilt URL must carry the query of the incoming request URL")
			}
		}
	}
	if total == 0 {
		c.Fail("R4", nil, "forward URL", 0, "no url.URL whose Path is taken from an incoming request was found in the forwarding packages")
	}
}

// ---------------------------------------------------------------------------------------
// fixtures for the R1 template

const c04FxSrc = `package fx
type W struct{}
type R struct{}
type H interface{ Serve(w *W, r *R) }
func fail(w *W, code int) {}
func cleanup() {}
func logf() {}

func goodEarlyReturn(h H, w *W, r *R, bad bool) {
	if bad { fail(w, 500); return }
	h.Serve(w, r)
}
func goodSwitch(h H, w *W, r *R, k int) {
	switch {
	case k == 0:
		fail(w, 400)
	case k == 1:
		fail(w, 403)
	default:
		h.Serve(w, r)
	}
}
func goodDeferredCleanup(h H, w *W, r *R, bad bool) {
	defer cleanup()
	if bad { fail(w, 500); return }
	h.Serve(w, r)
}
func goodOtherBranch(h H, w *W, r *R, a, b bool) {
	if a { h.Serve(w, r); return }
	if b { fail(w, 429); logf(); return }
	h.Serve(w, r)
}
func goodLoop(h H, w *W, r *R, xs []int) {
	for _, x := range xs {
		if x < 0 { fail(w, 403); return }
	}
	h.Serve(w, r)
}
func goodFlag(h H, w *W, r *R, bad bool) {
	ok := true
	if bad { fail(w, 500); ok = false }
	if ok { h.Serve(w, r) }
}
func goodForwardThenFail(h H, w *W, r *R, bad bool) {
	h.Serve(w, r)
	if bad { fail(w, 502) }
}
func badMissingReturn(h H, w *W, r *R, bad bool) {
	if bad { fail(w, 500) }
	h.Serve(w, r)
}
func badBreak(h H, w *W, r *R, xs []int) {
	for _, x := range xs {
		if x < 0 { fail(w, 403); break }
	}
	h.Serve(w, r)
}
func badDeferredForward(h H, w *W, r *R, bad bool) {
	defer h.Serve(w, r)
	if bad { fail(w, 500); return }
}
func badClosure(h H, w *W, r *R, bad bool) {
	if bad { fail(w, 500) }
	func() { h.Serve(w, r) }()
}
func badSecondWrite(h H, w *W, r *R, bad bool) {
	if bad { fail(w, 500); fail(w, 503); return }
	h.Serve(w, r)
}

// shapes for the traced forcing (eng.Tracer): the refusal sits in a helper that reports it
// by a flag, by a sentinel error, by a nil value, or hands the error to answer with back
type E struct{ code int }
var errAnswered = mkErr(0)
func mkErr(code int) *E { return &E{code} }
func admit(w *W, ok bool) bool {
	if ok { return true }
	fail(w, 429)
	return false
}
func admitErr(w *W, ok bool) *E {
	if !ok { fail(w, 429); return errAnswered }
	return nil
}
func pick(ok bool) (*R, *E) {
	if !ok { return nil, mkErr(503) }
	return &R{}, nil
}
func traceFlag(h H, w *W, r *R, ok bool) {
	if admitted := admit(w, ok); !admitted { return }
	h.Serve(w, r)
}
func traceFlagBad(h H, w *W, r *R, ok bool) {
	admit(w, ok)
	h.Serve(w, r)
}
func traceSentinel(h H, w *W, r *R, ok bool) {
	if err := admitErr(w, ok); err != nil { return }
	h.Serve(w, r)
}
func traceTuple(h H, w *W, ok bool) {
	r, e := pick(ok)
	switch {
	case e != nil:
		fail(w, e.code)
		return
	}
	h.Serve(w, r)
}
func traceTupleBad(h H, w *W, ok bool) {
	r, e := pick(ok)
	if e != nil && r != nil { fail(w, e.code); return }
	h.Serve(w, r)
}
`

func c04Fixtures(c *eng.Ctx) {
	p, _, err := eng.BuildFixture(c04FxSrc)
	if err != nil {
		c.Fixture("C04.typestate/build", "ok", err.Error())
		return
	}
	isFail := func(ci ssa.CallInstruction) bool { return eng.IsCall(ci, "fx.fail") }
	sp := c04TypestateSpec{
		isTerm:  isFail,
		isFwd:   func(ci ssa.CallInstruction) bool { return eng.IsCall(ci, "(fx.H).Serve") },
		isWrite: func(i ssa.Instruction) bool { ci, ok := i.(*ssa.Call); return ok && isFail(ci) },
	}
	cases := []struct {
		name  string
		sites int
		want  bool
	}{
		{"goodEarlyReturn", 1, true}, {"goodSwitch", 2, true}, {"goodDeferredCleanup", 1, true},
		{"goodOtherBranch", 1, true}, {"goodLoop", 1, true}, {"goodFlag", 1, true}, {"goodForwardThenFail", 1, true},
		{"badMissingReturn", 1, false}, {"badBreak", 1, false}, {"badDeferredForward", 1, false},
		{"badClosure", 1, false}, {"badSecondWrite", 2, false},
	}
	for _, tc := range cases {
		rs := c04TerminateNotForwarded(p.Func(tc.name), sp)
		// the template must match the expected number of terminating sites in both
		// variants; a bad variant must have at least one violated site
		got := fmt.Sprintf("matched %d sites", len(rs))
		if len(rs) == tc.sites {
			all := true
			for _, r := range rs {
				all = all && r.ok
			}
			got = fmt.Sprint(all)
		}
		c.Fixture("C04.typestate/"+tc.name, fmt.Sprint(tc.want), got)
	}
	// traced forcing: with ok=false every path answers and then forwards nothing — wherever the
	// refusal sits and however it is reported to the caller
	isServe := func(ci ssa.CallInstruction) bool { return eng.IsCall(ci, "(fx.H).Serve") }
	for _, tc := range []struct {
		name  string
		okArg int
		want  string
	}{
		{"traceFlag", 3, "answered"}, {"traceFlagBad", 3, "answered then forwarded"}, {"traceSentinel", 3, "answered"},
		{"traceTuple", 2, "answered"}, {"traceTupleBad", 2, "forwarded unanswered"},
	} {
		fn := p.Func(tc.name)
		args := make([]eng.AV, len(fn.Params))
		args[tc.okArg] = eng.AVBool(false)
		tr := &eng.Tracer{
			In:           &eng.Interp{Depth: 3, MaxPaths: 256},
			Follow:       func(_ *ssa.Call, callee *ssa.Function, _ *eng.TraceFrame) bool { return callee.Name() != "fail" },
			KnownResults: true,
		}
		paths, err := tr.Run(fn, args)
		got := "answered"
		if err != nil || len(paths) == 0 {
			got = fmt.Sprintf("no paths (%v)", err)
		}
		for _, tp := range paths {
			answered := false
			for _, e := range tp.Events {
				ci := e.Call()
				if ci == nil || e.Followed {
					continue
				}
				switch {
				case isFail(ci):
					answered = true
				case isServe(ci) && answered:
					got = "answered then forwarded"
				case isServe(ci):
					got = "forwarded unanswered"
				}
			}
			if !answered && got == "answered" {
				got = "not answered"
			}
		}
		c.Fixture("C04.trace/"+tc.name, tc.want, got)
	}
}

// ---------------------------------------------------------------------------------------
// R5 (added after seeded change C04-2): I/O wrappers on the relay path are transparent.

// c04Transparent checks every type of the forwarding packages that wraps an io.Writer /
// io.Reader / http.ResponseWriter delegate in a field: Write/Read hand the caller's own
// slice to the delegate on every path and return the delegate's results; WriteHeader hands
// on the caller's status.
func c04Transparent(c *eng.Ctx) {
	c.Rule("R5", "I/O wrappers on the relay path are transparent: Write(b)/Read(p) of every wrapper in the filter, dispatcher and reverse-proxy packages call the delegate with the caller's own slice on every path and return the delegate's (n, err); WriteHeader passes the caller's status on", 6)
	n := 0
	for _, pkg := range []string{pkgFilters, pkgDispatcher, pkgRevProxy} {
		p := c.W.Pkg(pkg)
		if p == nil {
			continue
		}
		sc := p.Pkg.Scope()
		for _, name := range sc.Names() {
			tn, ok := sc.Lookup(name).(*types.TypeName)
			if !ok {
				continue
			}
			named, ok := tn.Type().(*types.Named)
			if !ok {
				continue
			}
			st, ok := named.Underlying().(*types.Struct)
			if !ok {
				continue
			}
			for _, mn := range []string{"Write", "Read", "WriteHeader"} {
				m := c.W.DeclaredMethod(named, mn)
				if m == nil || m.Blocks == nil || len(m.Params) != 2 {
					continue
				}
				// delegate fields: interface-typed fields whose method set has the same method
				var delegates []string
				for i := 0; i < st.NumFields(); i++ {
					ft := st.Field(i).Type()
					if _, isI := ft.Underlying().(*types.Interface); !isI {
						continue
					}
					if obj, _, _ := types.LookupFieldOrMethod(ft, false, nil, mn); obj != nil {
						delegates = append(delegates, st.Field(i).Name())
					}
				}
				if len(delegates) == 0 {
					continue
				}
				n++
				tname := eng.TypeName(named)
				// Decided on every enumerated path of the method with the helpers of its own package
				// interpreted, operands resolved through the calling context: it does not matter
				// whether the delegate is called in the method itself or in a helper it hands the
				// slice to, nor whether the results travel through a helper's return.
				isDelegCall := func(ci ssa.CallInstruction) bool {
					if _, plain := ci.(*ssa.Call); !plain || !eng.MethodNameIs(ci, mn) {
						return false
					}
					for _, d := range delegates {
						if eng.FieldLoadOf(eng.Receiver(ci), tname, d) {
							return true
						}
					}
					return false
				}
				tr := &eng.Tracer{
					In: &eng.Interp{W: c.W, Depth: eng.LiftDepth, MaxPaths: 1 << 12},
					Follow: func(_ *ssa.Call, callee *ssa.Function, _ *eng.TraceFrame) bool {
						return callee.Pkg == m.Pkg
					},
				}
				paths, err := tr.Run(m, nil)
				good := err == nil && len(paths) > 0
				detail := "a path returns without handing the caller's own argument to the delegate (data is dropped, truncated or replaced on the way through the gateway)"
				if err != nil {
					detail = err.Error()
				}
				for pi := range paths {
					tp := &paths[pi]
					if tp.Panicked {
						continue
					}
					if tp.LoopCut {
						good, detail = false, "a path loops before the method returns: undecided"
						continue
					}
					var deleg *eng.TraceEvent
					calls := 0
					for ei := range tp.Events {
						e := &tp.Events[ei]
						ci := e.Call()
						if ci == nil || !isDelegCall(ci) {
							continue
						}
						calls++
						a := eng.Args(ci)
						if rv, _ := e.Frame.Resolve(a[0]); len(a) != 1 || rv != ssa.Value(m.Params[1]) {
							good, detail = false, "the delegate is called with something else than the caller's own argument (a re-sliced, copied or rewritten buffer / another status)"
							continue
						}
						deleg = e
					}
					switch {
					case calls > 1:
						good, detail = false, "the delegate is called twice on a path"
					case deleg == nil:
						good = false
					case mn != "WriteHeader":
						// results are the delegate's
						r, isRet := tp.Exit.(*ssa.Return)
						if !isRet || len(r.Results) != 2 {
							good = false
							break
						}
						for i, v := range c04Returned(r) {
							rv := c04ResolveOnPath(v, c04InFrame(tp, deleg.Frame.Root()))
							cc, idx := eng.CallResultOf(rv)
							if cc == nil || ssa.Instruction(cc) != deleg.Ins || idx != i {
								good, detail = false, "the count/error returned to the caller is not the delegate's (a short or padded count makes the copier stop or continue wrongly)"
							}
						}
					}
				}
				c.Check("R5", m, shortName(tname)+"."+mn+" is transparent", m.Pos(), good, detail)
			}
		}
	}
	if n < 6 {
		c.Fail("R5", nil, "I/O wrappers on the relay path", 0, fmt.Sprintf("expected the response-writer, body-reader and flush wrappers, found %d wrapper methods", n))
	}
}

// c04ResolveOnPath rewrites v towards the value it denotes on one traced path: conversions
// are stripped, a cell assigned once is the assigned value, a parameter is the caller's
// argument, the result of a helper that was interpreted is what the Return the path took
// yields.
func c04ResolveOnPath(v ssa.Value, cx c04Ctx) ssa.Value {
	for i := 0; i < 32 && v != nil; i++ {
		switch x := v.(type) {
		case *ssa.MakeInterface:
			v = x.X
			continue
		case *ssa.ChangeInterface:
			v = x.X
			continue
		case *ssa.ChangeType:
			v = x.X
			continue
		case *ssa.Parameter:
			if cx != nil {
				if a, ncx := cx.bind(x); a != nil {
					v, cx = a, ncx
					continue
				}
			}
		case *ssa.UnOp:
			if x.Op == token.MUL {
				if cell, ok := x.X.(*ssa.Alloc); ok {
					if sv := c04OnlyValue(cell); sv != nil {
						v = sv
						continue
					}
				}
			}
		case *ssa.Call, *ssa.Extract:
			if cc, idx := eng.CallResultOf(v); cc != nil && cx != nil {
				if rv, rcx := cx.ret(cc, idx); rv != nil {
					v, cx = rv, rcx
					continue
				}
			}
		}
		break
	}
	return v
}

// c04OnlyValue returns the one value ever stored into a local cell (several stores of the
// same value count as one), nil otherwise.
func c04OnlyValue(a *ssa.Alloc) ssa.Value {
	if a.Referrers() == nil {
		return nil
	}
	var val ssa.Value
	for _, ref := range *a.Referrers() {
		switch u := ref.(type) {
		case *ssa.Store:
			if u.Addr == ssa.Value(a) {
				if val != nil && val != u.Val {
					return nil
				}
				val = u.Val
			}
		case *ssa.MakeClosure:
			// a closure capturing the cell must only read it
			fn, _ := u.Fn.(*ssa.Function)
			for j, b := range u.Bindings {
				if b != ssa.Value(a) || fn == nil || j >= len(fn.FreeVars) || fn.FreeVars[j].Referrers() == nil {
					continue
				}
				for _, rr := range *fn.FreeVars[j].Referrers() {
					if ld, isLd := rr.(*ssa.UnOp); !isLd || ld.Op != token.MUL {
						if _, isDbg := rr.(*ssa.DebugRef); !isDbg {
							return nil
						}
					}
				}
			}
		}
	}
	return val
}

// c04Returned resolves the values a Return yields, through result cells (named results and
// defer spills): a cell that is only ever assigned one value yields that value.
func c04Returned(r *ssa.Return) []ssa.Value {
	out := eng.ReturnResults(r)
	for i, v := range out {
		u, ok := v.(*ssa.UnOp)
		if !ok {
			continue
		}
		a, ok := u.X.(*ssa.Alloc)
		if !ok || a.Referrers() == nil {
			continue
		}
		var val ssa.Value
		same := true
		for _, ref := range *a.Referrers() {
			if st, ok := ref.(*ssa.Store); ok && st.Addr == ssa.Value(a) {
				if val != nil && val != st.Val {
					same = false
				}
				val = st.Val
			}
		}
		if same && val != nil {
			out[i] = val
		}
	}
	return out
}

// c04CopyHeader: the header copy relays every line. copyHeader(dst, src) must Add, for every key of
// src and every value under it, that value under that key to dst; and nowhere on the relay
// path is a header Set once per value with a key that does not change in the innermost loop
// (only the last value would survive).
func c04CopyHeader(c *eng.Ctx) {
	if ch := c.MustFunc(pkgRevProxy, "copyHeader"); ch != nil && len(ch.Params) == 2 {
		dst, src := ssa.Value(ch.Params[0]), ssa.Value(ch.Params[1])
		sl := c.Slicer()
		ok := false
		for _, ci := range eng.CallsTo(ch, "(net/http.Header).Add") {
			a := eng.Args(ci)
			if eng.Receiver(ci) != dst || len(a) != 2 {
				continue
			}
			l := eng.InnermostLoop(ci.Block())
			if l == nil {
				continue
			}
			fromSrc := func(v ssa.Value) bool { return sl.DerivesFrom(v, func(x ssa.Value) bool { return x == src }) }
			if fromSrc(a[0]) && fromSrc(a[1]) && eng.LoopInvariant(a[0], l) && !eng.LoopInvariant(a[1], l) {
				ok = true
			}
		}
		c.Check("R3", ch, "copyHeader adds every value of every key", ch.Pos(), ok,
			"copyHeader(dst, src) must dst.Add(k, v) for each key k of src and each value v under it: headers that span several lines (Warning, Set-Cookie, Link) are relayed completely")
	}
	for _, pk := range []string{pkgRevProxy, pkgDispatcher, pkgResponse} {
		for _, fn := range c.W.FuncsOf(pk) {
			for _, ci := range eng.CallsTo(fn, "(net/http.Header).Set") {
				a := eng.Args(ci)
				l := eng.InnermostLoop(ci.Block())
				if l == nil || len(a) != 2 {
					continue
				}
				if eng.LoopInvariant(a[0], l) && !eng.LoopInvariant(a[1], l) {
					c.Fail("R3", fn, "Header.Set once per value", ci.Pos(), "inside a loop over values the key is the same on every iteration: Set keeps only the last value, the other lines of the header are lost")
				}
			}
		}
	}
}
