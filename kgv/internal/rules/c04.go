package rules

// C04 Forwarding fidelity (structural part): a request the gateway answers itself is never
// forwarded (R1), the answer's status matches the reason (R2), the outbound request and the
// relayed response are only touched in the allow-listed places (R3) and a URL rebuilt for
// forwarding keeps Path/RawPath/RawQuery of the incoming URL together (R4).

import (
	"fmt"
	"go/token"
	"go/types"
	"strings"

	"golang.org/x/tools/go/ssa"

	"kgv/internal/eng"
)

func init() {
	Register("C04", c04)
	RegisterFixture("C04", c04Fixtures)
}

const (
	c04PkgAPIErrors   = "k8s.io/apimachinery/pkg/api/errors"
	c04PkgRespWriters = "k8s.io/apiserver/pkg/endpoints/handlers/responsewriters"
	c04PkgAuthorizer  = "k8s.io/apiserver/pkg/authorization/authorizer"
	c04PkgUtilProxy   = "k8s.io/apimachinery/pkg/util/proxy"
	c04TRequest       = "net/http.Request"
	c04TResponse      = "net/http.Response"
	c04TURL           = "net/url.URL"
	c04TRevProxy      = pkgRevProxy + ".ReverseProxy"
)

// ---------------------------------------------------------------------------------------
// R1 template: terminate ⇒ not forwarded (typestate over one function's CFG)

// c04TypestateSpec parameterises the template: which calls answer the request locally,
// which calls hand it on, and (optionally) which instructions write to the response.
type c04TypestateSpec struct {
	isTerm  func(ssa.CallInstruction) bool
	isFwd   func(ssa.CallInstruction) bool
	isWrite func(ssa.Instruction) bool // nil: "no second write" is not checked
	label   func(ssa.CallInstruction) string
}

type c04TypestateResult struct {
	site      ssa.CallInstruction
	construct string
	ok        bool
	undecided bool
	detail    string
}

// c04ClosureOf returns the closure body a call invokes in place (func(){…}(), defer
// func(){…}(), go func(){…}()), or nil.
func c04ClosureOf(ci ssa.CallInstruction) *ssa.Function {
	switch v := ci.Common().Value.(type) {
	case *ssa.MakeClosure:
		f, _ := v.Fn.(*ssa.Function)
		return f
	case *ssa.Function:
		if v.Parent() != nil {
			return v
		}
	}
	return nil
}

// c04TerminateNotForwarded evaluates, for every terminating call of fn, that no CFG path
// continues from it to a forwarding call (directly, through a closure invoked in place, or
// through a forwarding call deferred earlier on the path), and — when sp.isWrite is set —
// that nothing else is written to the response afterwards.
func c04TerminateNotForwarded(fn *ssa.Function, sp c04TypestateSpec) []c04TypestateResult {
	forwards := func(ci ssa.CallInstruction) bool {
		if sp.isFwd(ci) {
			return true
		}
		if cl := c04ClosureOf(ci); cl != nil {
			for _, f := range eng.WithClosures(cl) {
				for _, cc := range eng.Calls(f) {
					if sp.isFwd(cc) {
						return true
					}
				}
			}
		}
		return false
	}
	isFwdIns := func(ins ssa.Instruction) bool {
		ci, ok := ins.(ssa.CallInstruction)
		if !ok {
			return false
		}
		if _, isDefer := ins.(*ssa.Defer); isDefer {
			return false // runs at exit; handled separately
		}
		return forwards(ci)
	}
	var fwdDefers []*ssa.Defer
	eng.Instrs(fn, func(ins ssa.Instruction) {
		if d, ok := ins.(*ssa.Defer); ok && forwards(d) {
			fwdDefers = append(fwdDefers, d)
		}
	})
	var out []c04TypestateResult
	ord := map[string]int{}
	for _, ci := range eng.Calls(fn) {
		if !sp.isTerm(ci) {
			continue
		}
		lab := "terminate"
		if sp.label != nil {
			lab = sp.label(ci)
		}
		ord[lab]++
		res := c04TypestateResult{site: ci, construct: fmt.Sprintf("%s#%d ⇒ not forwarded", lab, ord[lab]), ok: true}
		if _, plain := ci.(*ssa.Call); !plain {
			res.ok, res.undecided = false, true
			res.detail = "terminating call is deferred or started as a goroutine: its position on the path is not decided by this rule"
			out = append(out, res)
			continue
		}
		var why []string
		if x := eng.ReachAfter(ci, eng.PathQuery{Target: isFwdIns}); x != nil {
			why = append(why, fmt.Sprintf("a forwarding call (%s) is reachable after the terminating call: the request is answered locally and still handed on", c04CallLabel(x.(ssa.CallInstruction))))
		}
		for _, d := range fwdDefers {
			if eng.ReachAfter(d, eng.PathQuery{Target: func(i ssa.Instruction) bool { return i == ssa.Instruction(ci) }}) != nil {
				why = append(why, "a forwarding call deferred earlier on the path runs after the terminating call")
			}
		}
		if sp.isWrite != nil {
			if x := eng.ReachAfter(ci, eng.PathQuery{Target: sp.isWrite}); x != nil {
				why = append(why, "the response is written again after the terminating call (the Status body would be corrupted)")
			}
		}
		if len(why) > 0 {
			res.ok = false
			res.detail = strings.Join(dedup(why), "; ")
		} else {
			res.detail = "no path from the terminating call reaches a forwarding call"
		}
		out = append(out, res)
	}
	return out
}

func c04CallLabel(ci ssa.CallInstruction) string {
	if n := eng.FullName(ci); n != "" {
		return shortName(n)
	}
	return "dynamic call " + ci.Common().Value.Name()
}

// ---------------------------------------------------------------------------------------
// predicates over the resolved program

type c04Preds struct {
	c        *eng.Ctx
	handler  *types.Interface // net/http.Handler
	tripper  *types.Interface // net/http.RoundTripper
	mustTerm map[*ssa.Function]bool
	mayFwd   map[*ssa.Function]bool
}

func c04IsNamed(t types.Type, full string) bool { return eng.TypeName(t) == full }

// c04SigIs reports whether sig's parameters are exactly the given named types ("*" prefix
// means pointer) and it has no results.
func c04SigIs(sig *types.Signature, params ...string) bool {
	if sig == nil || sig.Params().Len() != len(params) || sig.Results().Len() != 0 {
		return false
	}
	for i, want := range params {
		t := sig.Params().At(i).Type()
		if strings.HasPrefix(want, "*") {
			p, ok := t.(*types.Pointer)
			if !ok || !c04IsNamed(p.Elem(), want[1:]) {
				return false
			}
			continue
		}
		if _, isPtr := t.(*types.Pointer); isPtr || !c04IsNamed(t, want) {
			return false
		}
	}
	return true
}

func c04IsDynamic(ci ssa.CallInstruction) bool {
	cc := ci.Common()
	if cc.IsInvoke() || cc.StaticCallee() != nil {
		return false
	}
	_, isB := cc.Value.(*ssa.Builtin)
	return !isB
}

// baseTerm: calls that write a gateway-made answer to the client.
func (p *c04Preds) baseTerm(ci ssa.CallInstruction) bool {
	if eng.IsCall(ci,
		pkgResponse+".TerminateWithError",
		c04PkgRespWriters+".InternalError", c04PkgRespWriters+".Forbidden", c04PkgRespWriters+".ErrorNegotiated",
		"net/http.Error", "net/http.NotFound", "net/http.Redirect",
		"("+c04PkgUtilProxy+".ErrorResponder).Error") {
		return true
	}
	// a status chosen by the gateway itself (constant), as opposed to a relayed one
	if eng.IsCall(ci, "(net/http.ResponseWriter).WriteHeader") {
		if a := eng.Args(ci); len(a) == 1 {
			if _, isConst := eng.IntConst(a[0]); isConst {
				return true
			}
		}
		return false
	}
	// the reverse proxy's error handler: a func(ResponseWriter, *Request, error) value
	if c04IsDynamic(ci) {
		v := ci.Common().Value
		sig, _ := v.Type().Underlying().(*types.Signature)
		if c04SigIs(sig, "net/http.ResponseWriter", "*"+c04TRequest, "error") {
			return true
		}
		sl := &eng.Slicer{W: p.c.W, Depth: 0}
		if sl.DerivesFrom(v, func(x ssa.Value) bool {
			return eng.IsResultOf(x, "(*"+c04TRevProxy+").getErrorHandler") || eng.FieldLoadOf(x, c04TRevProxy, "ErrorHandler")
		}) {
			return true
		}
	}
	return false
}

func (p *c04Preds) isTerm(ci ssa.CallInstruction) bool {
	if p.baseTerm(ci) {
		return true
	}
	if f := eng.CalleeFn(ci); f != nil && p.mustTerm[f] {
		return true
	}
	return false
}

// baseFwd: calls that hand the request to the next handler / the upstream.
func (p *c04Preds) baseFwd(ci ssa.CallInstruction) bool {
	if r := eng.Receiver(ci); r != nil {
		if eng.MethodNameIs(ci, "ServeHTTP") && implementsIface(r.Type(), p.handler) {
			return true
		}
		if eng.MethodNameIs(ci, "RoundTrip") && implementsIface(r.Type(), p.tripper) {
			return true
		}
	}
	if c04IsDynamic(ci) {
		sig, _ := ci.Common().Value.Type().Underlying().(*types.Signature)
		if c04SigIs(sig, "net/http.ResponseWriter", "*"+c04TRequest) {
			return true
		}
	}
	return false
}

func (p *c04Preds) isFwd(ci ssa.CallInstruction) bool {
	if p.baseFwd(ci) {
		return true
	}
	if f := eng.CalleeFn(ci); f != nil && p.mayFwd[f] {
		return true
	}
	return false
}

func (p *c04Preds) termIns(ins ssa.Instruction) bool {
	ci, ok := ins.(*ssa.Call)
	return ok && p.isTerm(ci)
}

func (p *c04Preds) fwdIns(ins ssa.Instruction) bool {
	ci, ok := ins.(ssa.CallInstruction)
	return ok && p.isFwd(ci)
}

// isRespWrite: any further write to the client response.
func (p *c04Preds) isRespWrite(ins ssa.Instruction) bool {
	ci, ok := ins.(*ssa.Call)
	if !ok {
		return false
	}
	if p.isTerm(ci) {
		return true
	}
	if eng.IsCall(ci, "(net/http.ResponseWriter).WriteHeader", "(net/http.ResponseWriter).Write") {
		return true
	}
	if eng.IsCall(ci, "(net/http.Header).Set", "(net/http.Header).Add", "(net/http.Header).Del") {
		return eng.IsResultOf(eng.Receiver(ci), "(net/http.ResponseWriter).Header")
	}
	return false
}

func (p *c04Preds) termLabel(ci ssa.CallInstruction) string {
	if eng.IsCall(ci, "(net/http.ResponseWriter).WriteHeader") {
		if k, ok := eng.IntConst(eng.Args(ci)[0]); ok {
			return fmt.Sprintf("WriteHeader(%d)", k)
		}
	}
	if n := eng.FullName(ci); n != "" {
		n = shortName(n)
		n = strings.ReplaceAll(n, "k8s.io/apiserver/pkg/endpoints/handlers/", "")
		n = strings.ReplaceAll(n, "k8s.io/apimachinery/pkg/util/", "")
		return n
	}
	return "error-handler()"
}

// c04NewPreds resolves the interfaces and computes the derived sets over funcs:
// mustTerm = functions every path of which passes a terminating call (so calling them
// terminates), mayFwd = functions that contain a forwarding call on some path.
func c04NewPreds(c *eng.Ctx, funcs []*ssa.Function) *c04Preds {
	p := &c04Preds{c: c, mustTerm: map[*ssa.Function]bool{}, mayFwd: map[*ssa.Function]bool{}}
	p.handler = c.W.Interface("net/http", "Handler")
	p.tripper = c.W.Interface("net/http", "RoundTripper")
	if p.handler == nil || p.tripper == nil {
		c.Fail("engine", nil, "unresolved-anchor net/http.Handler / RoundTripper", 0, "interface not found")
		return nil
	}
	for changed := true; changed; {
		changed = false
		for _, fn := range funcs {
			if !p.mustTerm[fn] && !c04IsHandlerMethod(fn, p) {
				has := false
				for _, ci := range eng.Calls(fn) {
					if _, plain := ci.(*ssa.Call); plain && p.isTerm(ci) {
						has = true
					}
				}
				if has && eng.ReachFromEntry(fn, eng.PathQuery{Target: eng.IsExit, Avoid: p.termIns}) == nil {
					p.mustTerm[fn] = true
					changed = true
				}
			}
			if !p.mayFwd[fn] {
				for _, ci := range eng.Calls(fn) {
					fw := p.isFwd(ci)
					if cl := c04ClosureOf(ci); cl != nil && !fw {
						for _, f := range eng.WithClosures(cl) {
							for _, cc := range eng.Calls(f) {
								fw = fw || p.isFwd(cc)
							}
						}
					}
					if fw {
						p.mayFwd[fn] = true
						changed = true
						break
					}
				}
			}
		}
	}
	return p
}

// c04IsHandlerMethod: ServeHTTP / RoundTrip methods are forwarders by identity; they are
// never classified as "always terminating" helpers.
func c04IsHandlerMethod(fn *ssa.Function, p *c04Preds) bool {
	if fn.Signature.Recv() == nil {
		return false
	}
	return (fn.Name() == "ServeHTTP" && implementsIface(fn.Signature.Recv().Type(), p.handler)) ||
		(fn.Name() == "RoundTrip" && implementsIface(fn.Signature.Recv().Type(), p.tripper))
}

// c04FirstFrom returns the instructions satisfying pred that are reachable from the start
// of block b without passing another such instruction.
func c04FirstFrom(b *ssa.BasicBlock, pred func(ssa.Instruction) bool) []ssa.Instruction {
	var out []ssa.Instruction
	seen := map[ssa.Instruction]bool{}
	for {
		x := eng.ReachFromBlock(b, eng.PathQuery{
			Target: func(i ssa.Instruction) bool { return pred(i) && !seen[i] },
			Avoid:  func(i ssa.Instruction) bool { return seen[i] },
		})
		if x == nil {
			return out
		}
		seen[x] = true
		out = append(out, x)
	}
}

var c04Packages = []string{pkgFilters, pkgDispatcher, pkgRevProxy, pkgResponse}

func c04(c *eng.Ctx) {
	defer c04Transparent(c)
	c.Rule("R1", "terminate ⇒ not forwarded: in every function and closure of the filters, dispatcher, reverse-proxy and response packages no CFG path leads from a terminating call (TerminateWithError, responseError, responsewriters.InternalError/Forbidden/ErrorNegotiated, http.Error, the proxy error handler, WriteHeader(const)) to a forwarding call (next handler's ServeHTTP, proxy ServeHTTP, RoundTrip); in a filter nothing else is written to the response after it", 41)
	c.Rule("R2", "reason ↔ status: refused TryAcquire ⇒ NewTooManyRequests; Pop error, cluster not proxied (dispatcher and WithUpstreamInfo) ⇒ NewServiceUnavailable; refused impersonation ⇒ responsewriters.Forbidden; each refusal edge answers before any exit or forward; the error travels unchanged to TerminateWithError, which sets Retry-After for 503 and for 429 with a suggested delay before ErrorNegotiated writes the Status", 11)
	c.Rule("R3", "write allow-list: of the outbound http.Request only Header (clone / empty when nil), URL, Body (nil under ContentLength==0, or a delegating reader), Close=false are stored; the relayed status is res.StatusCode, headers go through copyHeader(rw.Header(), res.Header) after deleting only hop-by-hop keys, the body through copyResponse(rw, res.Body); end-to-end request headers are only touched for the allow-listed keys", 23)
	c.Rule("R4", "URL rebuild is complete: a url.URL whose Path is taken from the incoming request URL (or copied field by field from another URL on the forwarding path) carries RawPath from the same source on the same paths, and its RawQuery derives from the incoming query", 4)

	var funcs []*ssa.Function
	for _, pk := range c04Packages {
		fs := c.W.FuncsOf(pk)
		if len(fs) == 0 {
			c.Fail("engine", nil, "unresolved-anchor package "+pk, 0, "package has no functions in the resolved program")
		}
		funcs = append(funcs, fs...)
	}
	p := c04NewPreds(c, funcs)
	if p == nil {
		return
	}
	c04R1(c, p, funcs)
	c04R2(c, p)
	c04R3(c, p)
	c04R4(c, p)
}

// ---- R1 --------------------------------------------------------------------------------
// Protects: "every request the gateway terminates itself … is not forwarded, not even
// partially". Breaking it (e.g. a missing `return` after responseError) sends a request
// upstream that the client was already told was refused, and appends the upstream's
// response to the Status body.
func c04R1(c *eng.Ctx, p *c04Preds, funcs []*ssa.Function) {
	spec := func(filter bool) c04TypestateSpec {
		sp := c04TypestateSpec{isTerm: p.isTerm, isFwd: p.isFwd, label: p.termLabel}
		if filter {
			sp.isWrite = p.isRespWrite
		}
		return sp
	}
	for _, fn := range funcs {
		inFilters := fn.Pkg != nil && fn.Pkg.Pkg.Path() == pkgFilters
		for _, r := range c04TerminateNotForwarded(fn, spec(inFilters)) {
			switch {
			case r.undecided:
				c.Undecided("R1", fn, r.construct, r.site.Pos(), r.detail)
			default:
				c.Check("R1", fn, r.construct, r.site.Pos(), r.ok, r.detail)
			}
		}
	}
	if c.Thorough() {
		// sweep: un-anchored handlers elsewhere in the repository
		anch := map[*ssa.Function]bool{}
		for _, f := range funcs {
			anch[f] = true
		}
		for _, fn := range c.W.AllRepoFuncs() {
			if anch[fn] {
				continue
			}
			for _, r := range c04TerminateNotForwarded(fn, c04TypestateSpec{isTerm: p.isTerm, isFwd: p.isFwd, label: p.termLabel}) {
				if !r.ok {
					c.Note("C04.R1 sweep: %s %s: %s", eng.FuncName(fn), r.construct, r.detail)
				}
			}
		}
	}
}

// ---- R2 --------------------------------------------------------------------------------
// Protects: "answered with a well-formed API Status whose code tells why (429 when
// flow-controlled, 503 with Retry-After when the cluster is not proxied or has no ready
// endpoint, 403 for refused impersonation)". Checked as condition ⇒ constructor on the
// refusal edge of each condition (not the converse).

// c04Answer is one base terminating call a (possibly derived) terminating call resolves
// to, with the constructors its error argument(s) are built by. Origins: a callee full name
// for call results, "param:i" for parameter i of the enclosing function (substituted at
// the call site by c04Answers), "?" otherwise.
type c04Answer struct {
	callee string
	ctors  []string
}

func c04Origins(c *eng.Ctx, v ssa.Value) []string {
	sl := c.Slicer()
	set := map[string]bool{}
	for _, leaf := range sl.Leaves(v, func(x ssa.Value) bool { cc, _ := eng.CallResultOf(x); return cc != nil }) {
		if cc, _ := eng.CallResultOf(leaf); cc != nil && eng.FullName(cc) != "" {
			set[eng.FullName(cc)] = true
			continue
		}
		if prm, ok := leaf.(*ssa.Parameter); ok {
			for i, q := range prm.Parent().Params {
				if q == prm {
					set[fmt.Sprintf("param:%d", i)] = true
				}
			}
			continue
		}
		set["?"] = true
	}
	var out []string
	for k := range set {
		out = append(out, k)
	}
	return out
}

// c04Answers resolves terminating call t to the base terminating calls that actually
// write the answer: t itself, or — when t calls a same-package helper / closure every path
// of which terminates — the first terminating calls inside it, with the helper's
// parameters replaced by t's arguments (so extracting a helper does not change the verdict).
func (p *c04Preds) c04Answers(t ssa.CallInstruction, depth int) []c04Answer {
	callee := eng.CalleeFn(t)
	if p.baseTerm(t) || callee == nil || !p.mustTerm[callee] || depth == 0 || len(callee.Blocks) == 0 {
		a := c04Answer{callee: eng.FullName(t)}
		set := map[string]bool{}
		for _, arg := range t.Common().Args {
			if eng.TypeName(arg.Type()) == c04PkgAPIErrors+".StatusError" || arg.Type().String() == "error" {
				for _, o := range c04Origins(p.c, arg) {
					set[o] = true
				}
			}
		}
		for k := range set {
			a.ctors = append(a.ctors, k)
		}
		return []c04Answer{a}
	}
	var out []c04Answer
	for _, u := range c04FirstFrom(callee.Blocks[0], p.termIns) {
		for _, in := range p.c04Answers(u.(ssa.CallInstruction), depth-1) {
			set := map[string]bool{}
			for _, o := range in.ctors {
				var idx int
				if n, _ := fmt.Sscanf(o, "param:%d", &idx); n == 1 && idx < len(t.Common().Args) {
					for _, oo := range c04Origins(p.c, t.Common().Args[idx]) {
						set[oo] = true
					}
					continue
				}
				set[o] = true
			}
			r := c04Answer{callee: in.callee}
			for k := range set {
				r.ctors = append(r.ctors, k)
			}
			out = append(out, r)
		}
	}
	return out
}

// c04EdgeAnswers decides one reason↔status pair: every path that leaves through block b
// (the refusal edge) reaches a terminating call before any exit or forwarding call, and
// each first terminating call on it is accepted by `accept`.
func c04EdgeAnswers(p *c04Preds, b *ssa.BasicBlock, accept func(ssa.CallInstruction) (bool, string)) (bool, string) {
	if x := eng.ReachFromBlock(b, eng.PathQuery{
		Target: func(i ssa.Instruction) bool { return eng.IsExit(i) || p.fwdIns(i) },
		Avoid:  p.termIns,
	}); x != nil {
		if eng.IsExit(x) {
			return false, "an exit is reachable on the refusal edge without any terminating answer"
		}
		return false, "a forwarding call is reachable on the refusal edge before any terminating answer"
	}
	firsts := c04FirstFrom(b, p.termIns)
	if len(firsts) == 0 {
		return false, "no terminating call on the refusal edge"
	}
	for _, t := range firsts {
		if ok, why := accept(t.(ssa.CallInstruction)); !ok {
			return false, why
		}
	}
	return true, ""
}

func c04AcceptCtor(p *c04Preds, ctor string) func(ssa.CallInstruction) (bool, string) {
	return func(t ssa.CallInstruction) (bool, string) {
		for _, a := range p.c04Answers(t, 3) {
			if len(a.ctors) != 1 || a.ctors[0] != c04PkgAPIErrors+"."+ctor {
				return false, fmt.Sprintf("the answer on this edge is built by %v, want errors.%s (the client is told the wrong reason / retry policy)", a.ctors, ctor)
			}
		}
		return true, ""
	}
}

// c04IfEdges returns, for every If of fn whose normalised condition satisfies match, the
// successor block on which the relation `want(rel)` says the refusal holds.
// match returns (matched, refusalOnTrueEdge).
func c04IfEdges(fn *ssa.Function, match func(r eng.Rel) (bool, bool)) []*ssa.BasicBlock {
	var out []*ssa.BasicBlock
	for _, b := range fn.Blocks {
		if len(b.Instrs) == 0 {
			continue
		}
		iff, ok := b.Instrs[len(b.Instrs)-1].(*ssa.If)
		if !ok {
			continue
		}
		if m, onTrue := match(eng.RelOf(iff.Cond, true)); m {
			if onTrue {
				out = append(out, b.Succs[0])
			} else {
				out = append(out, b.Succs[1])
			}
		}
	}
	return out
}

// c04NilRel matches `X == nil` / `X != nil` for X identified by isX; the returned flag says
// whether the true edge is the edge with wantNil.
func c04NilRel(isX func(ssa.Value) bool, wantNil bool) func(eng.Rel) (bool, bool) {
	return func(r eng.Rel) (bool, bool) {
		var other ssa.Value
		switch {
		case isX(r.X):
			other = r.Y
		case isX(r.Y):
			other = r.X
		default:
			return false, false
		}
		if !eng.IsNilConst(other) || (r.Op != token.EQL && r.Op != token.NEQ) {
			return false, false
		}
		return true, (r.Op == token.EQL) == wantNil
	}
}

func c04BoolEdges(v ssa.Value, want bool) []*ssa.BasicBlock {
	var out []*ssa.BasicBlock
	for _, br := range eng.BranchesOn(v) {
		if want {
			out = append(out, br.OnTrue)
		} else {
			out = append(out, br.OnFalse)
		}
	}
	return out
}

func c04R2(c *eng.Ctx, p *c04Preds) {
	pair := func(fn *ssa.Function, construct string, edges []*ssa.BasicBlock, accept func(ssa.CallInstruction) (bool, string), missing string) {
		if len(edges) == 0 {
			c.Fail("R2", fn, construct, fn.Pos(), missing)
			return
		}
		ok, why := true, ""
		for _, e := range edges {
			if o, w := c04EdgeAnswers(p, e, accept); !o {
				ok, why = false, w
			}
		}
		if ok {
			why = "every path on the refusal edge answers through the expected constructor before any exit or forwarding call"
		}
		c.Check("R2", fn, construct, fn.Pos(), ok, why)
	}

	// ---- dispatcher: 429 / 503 / 503
	if sh := c.MustMethod(pkgDispatcher, "dispatcher", "ServeHTTP"); sh != nil {
		if iface := fcIface(c); iface != nil {
			var edges []*ssa.BasicBlock
			for _, ci := range eng.Calls(sh) {
				if isFCCall(ci, iface, "TryAcquire") {
					if v := eng.ResultValue(ci); v != nil {
						edges = append(edges, c04BoolEdges(v, false)...)
					}
				}
			}
			pair(sh, "refused TryAcquire ⇒ 429 TooManyRequests", edges, c04AcceptCtor(p, "NewTooManyRequests"), "no branch on the result of FlowControl.TryAcquire found")
		}
		isPopErr := func(v ssa.Value) bool {
			cc, idx := eng.CallResultOf(v)
			return cc != nil && idx == 1 && eng.IsCall(cc, "("+pkgClusters+".EndpointPicker).Pop")
		}
		pair(sh, "Pop error ⇒ 503 ServiceUnavailable", c04IfEdges(sh, c04NilRel(isPopErr, false)), c04AcceptCtor(p, "NewServiceUnavailable"), "no test of the error returned by EndpointPicker.Pop found")
		isCluster := func(v ssa.Value) bool { return eng.FieldLoadOf(v, pkgRequest+".ExtraRequestInfo", "UpstreamCluster") }
		pair(sh, "cluster not proxied ⇒ 503 ServiceUnavailable", c04IfEdges(sh, c04NilRel(isCluster, true)), c04AcceptCtor(p, "NewServiceUnavailable"), "no nil test of ExtraRequestInfo.UpstreamCluster found")
	}

	// ---- WithUpstreamInfo: unknown host ⇒ 503
	if wu := c.MustFunc(pkgFilters, "WithUpstreamInfo"); wu != nil {
		found := false
		for _, fn := range eng.WithClosures(wu) {
			var edges []*ssa.BasicBlock
			for _, ci := range eng.CallsTo(fn, "("+pkgClusters+".Manager).Get") {
				for _, e := range eng.ExtractOf(eng.ResultValue(ci), 1) {
					edges = append(edges, c04BoolEdges(e, false)...)
				}
			}
			if len(edges) > 0 {
				found = true
				pair(fn, "cluster not proxied ⇒ 503 ServiceUnavailable", edges, c04AcceptCtor(p, "NewServiceUnavailable"), "")
			}
		}
		if !found {
			c.Fail("R2", wu, "cluster not proxied ⇒ 503 ServiceUnavailable", wu.Pos(), "no branch on the presence flag of clusters.Manager.Get found")
		}
	}

	// ---- impersonation: err != nil or decision != Allow ⇒ 403 Forbidden
	if wi := c.MustFunc(pkgFilters, "WithNoLoggingImpersonation"); wi != nil {
		allow, haveAllow := c04ConstInt(c, c04PkgAuthorizer, "DecisionAllow")
		if !haveAllow {
			c.Fail("engine", nil, "unresolved-anchor const authorizer.DecisionAllow", 0, "constant not found")
		}
		found := false
		for _, fn := range eng.WithClosures(wi) {
			for _, ci := range eng.CallsTo(fn, "("+c04PkgAuthorizer+".Authorizer).Authorize") {
				found = true
				res := eng.ResultValue(ci)
				isErr := func(v ssa.Value) bool {
					cc, i := eng.CallResultOf(v)
					return cc != nil && ssa.Value(cc) == res && i == 2
				}
				isDec := func(v ssa.Value) bool {
					cc, i := eng.CallResultOf(v)
					return cc != nil && ssa.Value(cc) == res && i == 0
				}
				acceptForbidden := func(t ssa.CallInstruction) (bool, string) {
					for _, a := range p.c04Answers(t, 3) {
						if a.callee != c04PkgRespWriters+".Forbidden" {
							return false, "a refused impersonation is answered by " + shortName(a.callee) + ", want responsewriters.Forbidden (403)"
						}
					}
					return true, ""
				}
				pair(fn, "impersonation authorizer error ⇒ 403 Forbidden", c04IfEdges(fn, c04NilRel(isErr, false)), acceptForbidden, "the error of Authorize is not tested")
				undecided := ""
				decEdges := c04IfEdges(fn, func(r eng.Rel) (bool, bool) {
					if !isDec(r.X) || (r.Op != token.EQL && r.Op != token.NEQ) {
						return false, false
					}
					k, isK := eng.IntConst(r.Y)
					if !isK || k != allow {
						undecided = "the refusal test compares the decision with something other than DecisionAllow"
						return false, false
					}
					return true, r.Op == token.NEQ
				})
				if undecided != "" {
					c.Undecided("R2", fn, "impersonation not allowed ⇒ 403 Forbidden", ci.Pos(), undecided)
				} else {
					pair(fn, "impersonation not allowed ⇒ 403 Forbidden", decEdges, acceptForbidden, "the decision of Authorize is not compared with DecisionAllow")
				}
			}
		}
		if !found {
			c.Fail("R2", wi, "impersonation not allowed ⇒ 403 Forbidden", wi.Pos(), "no call of Authorizer.Authorize found")
		}
	}

	// ---- the error travels unchanged down to TerminateWithError
	passThrough := func(fn *ssa.Function, callee string, construct string) {
		if fn == nil {
			return
		}
		calls := eng.CallsTo(fn, callee)
		if len(calls) == 0 {
			c.Fail("R2", fn, construct, fn.Pos(), "does not call "+shortName(callee))
			return
		}
		for _, ci := range calls {
			ok := true
			// every parameter of type *StatusError, ResponseWriter, *Request must be handed on as is
			for _, prm := range fn.Params {
				tn := eng.TypeName(prm.Type())
				if tn != c04PkgAPIErrors+".StatusError" && tn != "net/http.ResponseWriter" && tn != c04TRequest {
					continue
				}
				handed := false
				for _, a := range ci.Common().Args {
					if a == ssa.Value(prm) {
						handed = true
					}
				}
				ok = ok && handed
			}
			c.Check("R2", fn, construct, ci.Pos(), ok, "the status error, the response writer and the request given to this helper must be the ones handed to "+shortName(callee))
		}
	}
	passThrough(c.MustMethod(pkgDispatcher, "dispatcher", "responseError"), pkgDispatcher+".responseError", "error handed on unchanged")
	passThrough(c.MustFunc(pkgDispatcher, "responseError"), pkgResponse+".TerminateWithError", "error handed on unchanged")

	// ---- TerminateWithError: Retry-After, then the Status through the codec
	if tw := c.MustFunc(pkgResponse, "TerminateWithError"); tw != nil {
		var errP, wP, reqP *ssa.Parameter
		for _, prm := range tw.Params {
			switch eng.TypeName(prm.Type()) {
			case c04PkgAPIErrors + ".StatusError":
				errP = prm
			case "net/http.ResponseWriter":
				wP = prm
			case c04TRequest:
				reqP = prm
			}
		}
		if errP == nil || wP == nil || reqP == nil {
			c.Fail("R2", tw, "TerminateWithError signature", tw.Pos(), "expected parameters (*StatusError, ResponseWriter, *Request)")
			return
		}
		ofErr := func(v ssa.Value) bool {
			if mi, ok := v.(*ssa.MakeInterface); ok {
				v = mi.X
			}
			return v == ssa.Value(errP)
		}
		isEN := func(i ssa.Instruction) bool { return eng.IsPlainCall(i, c04PkgRespWriters+".ErrorNegotiated") }
		isSetRA := func(i ssa.Instruction) bool {
			if !eng.IsPlainCall(i, "(net/http.Header).Set") {
				return false
			}
			ci := i.(ssa.CallInstruction)
			k, ok := eng.StringConst(eng.Args(ci)[0])
			if !ok || !strings.EqualFold(k, "Retry-After") {
				return false
			}
			hc, _ := eng.CallResultOf(eng.Receiver(ci))
			return hc != nil && eng.IsCall(hc, "(net/http.ResponseWriter).Header") && eng.Receiver(hc) == ssa.Value(wP)
		}
		// (a) the Status is written on every path, last, with the same error/writer/request
		ens := eng.CallsTo(tw, c04PkgRespWriters+".ErrorNegotiated")
		okEN := len(ens) == 1 && eng.ReachFromEntry(tw, eng.PathQuery{Target: eng.IsExit, Avoid: isEN}) == nil
		if okEN {
			a := ens[0].Common().Args
			okEN = len(a) == 5 && ofErr(a[0]) && a[3] == ssa.Value(wP) && a[4] == ssa.Value(reqP) && eng.NeverAfter(ens[0], isSetRA)
		}
		c.Check("R2", tw, "Status written through ErrorNegotiated on every path, after the headers", tw.Pos(), okEN, "ErrorNegotiated(err, codecs, gv, w, req) must run exactly once on every path with the given error, writer and request, and no Retry-After may be set after it (headers are flushed by then)")

		edgeSets := func(edges []*ssa.BasicBlock, val func(v ssa.Value) bool) bool {
			if len(edges) == 0 {
				return false
			}
			for _, e := range edges {
				if eng.ReachFromBlock(e, eng.PathQuery{Target: func(i ssa.Instruction) bool { return isEN(i) || eng.IsExit(i) }, Avoid: isSetRA}) != nil {
					return false
				}
				for _, s := range c04FirstFrom(e, isSetRA) {
					if !val(eng.Args(s.(ssa.CallInstruction))[1]) {
						return false
					}
				}
			}
			return true
		}
		// (b) 503 ⇒ Retry-After: <positive constant>
		var e503 []*ssa.BasicBlock
		for _, ci := range eng.CallsTo(tw, c04PkgAPIErrors+".IsServiceUnavailable") {
			if a := eng.Args(ci); len(a) == 1 && ofErr(a[0]) {
				e503 = append(e503, c04BoolEdges(eng.ResultValue(ci), true)...)
			}
		}
		ok503 := edgeSets(e503, func(v ssa.Value) bool {
			cc, _ := eng.CallResultOf(v)
			if cc == nil || !eng.IsCall(cc, "strconv.Itoa") {
				return false
			}
			k, isK := eng.IntConst(eng.Args(cc)[0])
			return isK && k > 0
		})
		c.Check("R2", tw, "503 ⇒ Retry-After set before the Status is written", tw.Pos(), ok503, "on the IsServiceUnavailable(err) edge every path must set Retry-After (a positive number of seconds) on w.Header() before ErrorNegotiated")
		// (c) 429 with a suggested delay ⇒ Retry-After: that delay
		var e429 []*ssa.BasicBlock
		var delay ssa.Value
		for _, ci := range eng.CallsTo(tw, c04PkgAPIErrors+".SuggestsClientDelay") {
			if a := eng.Args(ci); len(a) == 1 && ofErr(a[0]) {
				is429 := func(v ssa.Value) bool {
					cc, _ := eng.CallResultOf(v)
					return cc != nil && eng.IsCall(cc, c04PkgAPIErrors+".IsTooManyRequests") && ofErr(eng.Args(cc)[0])
				}
				for _, e := range eng.ExtractOf(eng.ResultValue(ci), 1) {
					for _, b := range c04BoolEdges(e, true) {
						// the delay branch must itself sit on the IsTooManyRequests edge
						under := false
						for _, g := range eng.GuardsOfBlock(b) {
							r := g.Rel()
							if is429(r.X) && ((r.Op == token.EQL && eng.IsBoolConst(r.Y, true)) || (r.Op == token.NEQ && eng.IsBoolConst(r.Y, false))) {
								under = true
							}
						}
						if under {
							e429 = append(e429, b)
						}
					}
				}
				for _, e := range eng.ExtractOf(eng.ResultValue(ci), 0) {
					delay = e
				}
			}
		}
		sa := c.Slicer().WithArgs()
		ok429 := delay != nil && edgeSets(e429, func(v ssa.Value) bool {
			return sa.DerivesFrom(v, func(x ssa.Value) bool { return x == delay })
		})
		c.Check("R2", tw, "429 with suggested delay ⇒ Retry-After set before the Status is written", tw.Pos(), ok429, "on the IsTooManyRequests(err) ∧ SuggestsClientDelay(err) edge Retry-After must be set to the suggested delay before ErrorNegotiated")
	}
}

// c04ConstInt returns the integer value of a package-level constant.
func c04ConstInt(c *eng.Ctx, pkg, name string) (int64, bool) {
	p, ok := c.W.All[pkg]
	if !ok || p.Types == nil {
		return 0, false
	}
	k, ok := p.Types.Scope().Lookup(name).(*types.Const)
	if !ok {
		return 0, false
	}
	return eng.IntConst(ssa.NewConst(k.Val(), k.Type()))
}

// ---- R3 --------------------------------------------------------------------------------
// Protects: "reaches the chosen upstream with the same method, path, query parameters, body
// and end-to-end headers … and the upstream's status code, headers and body are relayed to
// the client unchanged". Decided as a who-may-write table over the forwarding packages.

// c04HopKey reports whether a header key value ranges over the hopHeaders table or is a
// token taken from the message's own Connection header (RFC 7230 §6.1).
func c04HopKey(c *eng.Ctx, key ssa.Value) bool {
	return c.Slicer().DerivesFrom(key, func(v ssa.Value) bool {
		g, ok := v.(*ssa.Global)
		return ok && g.Name() == "hopHeaders" && g.Pkg != nil && g.Pkg.Pkg.Path() == pkgRevProxy
	})
}

// c04DelegatingBody reports whether the value stored into req.Body is a reader that wraps
// the previous body of the same request and hands its bytes on unchanged: a struct with an
// embedded io.ReadCloser initialised from req.Body whose Read returns exactly what the
// embedded reader's Read(p) returned and whose Close is the promoted one.
func c04DelegatingBody(c *eng.Ctx, st *ssa.Store, reqBase ssa.Value) (bool, string) {
	v := st.Val
	if mi, ok := v.(*ssa.MakeInterface); ok {
		v = mi.X
	}
	al, ok := v.(*ssa.Alloc)
	if !ok {
		return false, "the new body is not a wrapper built in place"
	}
	named, _ := al.Type().(*types.Pointer).Elem().(*types.Named)
	if named == nil {
		return false, "the new body is not a named wrapper type"
	}
	stt, ok := named.Underlying().(*types.Struct)
	if !ok {
		return false, "the new body is not a struct wrapper"
	}
	emb := ""
	for i := 0; i < stt.NumFields(); i++ {
		if f := stt.Field(i); f.Embedded() && f.Type().String() == "io.ReadCloser" {
			emb = f.Name()
		}
	}
	if emb == "" {
		return false, "the wrapper does not embed the io.ReadCloser it replaces"
	}
	tn := eng.TypeName(named)
	inited := false
	for _, s2 := range eng.StoresToField([]*ssa.Function{st.Parent()}, tn, emb) {
		if fa := s2.Addr.(*ssa.FieldAddr); fa.X == ssa.Value(al) {
			inited = eng.FieldLoadOf(s2.Val, c04TRequest, "Body") && c04SameObj(c04LoadBase(s2.Val), reqBase)
		}
	}
	if !inited {
		return false, "the wrapper's embedded reader is not the previous Body of the same request"
	}
	if c.W.DeclaredMethod(named, "Close") != nil {
		return false, "the wrapper overrides Close"
	}
	rd := c.W.DeclaredMethod(named, "Read")
	if rd == nil {
		return true, "" // Read is promoted as well
	}
	if rd.Blocks == nil || len(rd.Params) != 2 {
		return false, "the wrapper's Read cannot be analysed"
	}
	okRead := true
	eng.Instrs(rd, func(ins ssa.Instruction) {
		r, isR := ins.(*ssa.Return)
		if !isR {
			return
		}
		if len(r.Results) != 2 {
			okRead = false
			return
		}
		c0, i0 := eng.CallResultOf(r.Results[0])
		c1, i1 := eng.CallResultOf(r.Results[1])
		if c0 == nil || c0 != c1 || i0 != 0 || i1 != 1 || !eng.MethodNameIs(c0, "Read") ||
			!eng.FieldLoadOf(eng.Receiver(c0), tn, emb) || len(eng.Args(c0)) != 1 || eng.Args(c0)[0] != ssa.Value(rd.Params[1]) {
			okRead = false
		}
	})
	if !okRead {
		return false, "the wrapper's Read does not return exactly what the wrapped reader's Read(p) returned"
	}
	return true, ""
}

// c04LoadBase returns the object a field load / field address is taken from.
func c04LoadBase(v ssa.Value) ssa.Value {
	switch n := v.(type) {
	case *ssa.UnOp:
		if fa, ok := n.X.(*ssa.FieldAddr); ok {
			return fa.X
		}
	case *ssa.FieldAddr:
		return n.X
	case *ssa.Field:
		return n.X
	}
	return nil
}

// c04SameObj: same SSA value or two loads of the same access path (req.URL read twice).
func c04SameObj(a, b ssa.Value) bool {
	if a == nil || b == nil {
		return false
	}
	return a == b || sameLoad(a, b) || c04SameCellLoad(a, b) || c04SameCellLoad(b, a)
}

// c04SameCellLoad: a and b are two loads of the same local cell (a variable captured by a
// closure lives in one) and the cell is not written between a and b, nor by any closure.
func c04SameCellLoad(a, b ssa.Value) bool {
	la, ok1 := a.(*ssa.UnOp)
	lb, ok2 := b.(*ssa.UnOp)
	if !ok1 || !ok2 || la.Op != token.MUL || lb.Op != token.MUL || la.X != lb.X {
		return false
	}
	cell, ok := la.X.(*ssa.Alloc)
	if !ok || cell.Referrers() == nil {
		return false
	}
	for _, r := range *cell.Referrers() {
		if mc, ok := r.(*ssa.MakeClosure); ok {
			// a capturing closure must not write the cell
			fn, _ := mc.Fn.(*ssa.Function)
			for i, bnd := range mc.Bindings {
				if bnd != ssa.Value(cell) || fn == nil || i >= len(fn.FreeVars) {
					continue
				}
				if refs := fn.FreeVars[i].Referrers(); refs != nil {
					for _, rr := range *refs {
						if st, ok := rr.(*ssa.Store); ok && st.Addr == ssa.Value(fn.FreeVars[i]) {
							return false
						}
						if _, ok := rr.(*ssa.MakeClosure); ok {
							return false
						}
					}
				}
			}
		}
	}
	isStore := func(i ssa.Instruction) bool { st, ok := i.(*ssa.Store); return ok && st.Addr == ssa.Value(cell) }
	reaches := eng.ReachAfter(la, eng.PathQuery{Target: func(i ssa.Instruction) bool { return i == ssa.Instruction(lb) }}) != nil
	return reaches && eng.ReachAfter(la, eng.PathQuery{Target: isStore, Avoid: func(i ssa.Instruction) bool { return i == ssa.Instruction(lb) }}) == nil
}

func c04R3(c *eng.Ctx, p *c04Preds) {
	// ---- (a) stores into http.Request fields in the forwarding packages
	n := map[string]int{}
	for _, pk := range []string{pkgDispatcher, pkgRevProxy, pkgFilters} {
		for _, fn := range c.W.FuncsOf(pk) {
			eng.Instrs(fn, func(ins ssa.Instruction) {
				st, ok := ins.(*ssa.Store)
				if !ok {
					return
				}
				fa, ok := st.Addr.(*ssa.FieldAddr)
				if !ok || eng.TypeName(fa.X.Type()) != c04TRequest {
					return
				}
				field := ""
				if stt, ok := fa.X.Type().Underlying().(*types.Pointer).Elem().Underlying().(*types.Struct); ok {
					field = stt.Field(fa.Field).Name()
				}
				n[eng.FuncName(fn)+field]++
				construct := fmt.Sprintf("store Request.%s#%d", field, n[eng.FuncName(fn)+field])
				okSt, why := false, ""
				switch field {
				case "Header":
					cc, _ := eng.CallResultOf(st.Val)
					switch {
					case cc != nil && eng.IsCall(cc, "k8s.io/apimachinery/pkg/util/net.CloneHeader", "(net/http.Header).Clone"):
						src := cc.Call.Args[0]
						okSt = eng.FieldLoadOf(src, c04TRequest, "Header")
						why = "the outbound header must be a clone of a request's header"
					default:
						_, isMk := st.Val.(*ssa.MakeMap)
						okSt = isMk && eng.GuardedByNil(st, func(v ssa.Value) bool {
							return eng.FieldLoadOf(v, c04TRequest, "Header") && c04SameObj(c04LoadBase(v), fa.X)
						}, true)
						why = "Header may only be replaced by a clone, or by an empty map when it is nil"
					}
				case "URL":
					okSt = true // the content of the URL is R4's subject
					why = "the URL pointer may be replaced; what the new URL carries is decided by R4"
				case "Close":
					okSt = eng.IsBoolConst(st.Val, false)
					why = "Close may only be cleared"
				case "Body":
					if eng.IsNilConst(st.Val) {
						okSt = eng.GuardedBy(st, func(r eng.Rel) bool {
							z, isK := eng.IntConst(r.Y)
							return r.Op == token.EQL && isK && z == 0 && eng.FieldLoadOf(r.X, c04TRequest, "ContentLength")
						})
						why = "Body may be dropped only when ContentLength == 0"
					} else {
						okSt, why = c04DelegatingBody(c, st, fa.X)
					}
				default:
					why = "field " + field + " of the request must reach the upstream as received (Method, Host, ContentLength, … are never written)"
				}
				c.Check("R3", fn, construct, st.Pos(), okSt, why)
			})
		}
	}

	// ---- (b) the relay in ReverseProxy.ServeHTTP
	sh := c.MustMethod(pkgRevProxy, "ReverseProxy", "ServeHTTP")
	if sh == nil {
		return
	}
	var rwP, reqP *ssa.Parameter
	for _, prm := range sh.Params {
		switch eng.TypeName(prm.Type()) {
		case "net/http.ResponseWriter":
			rwP = prm
		case c04TRequest:
			reqP = prm
		}
	}
	rts := eng.CallsTo(sh, "(net/http.RoundTripper).RoundTrip")
	if len(rts) != 1 || rwP == nil || reqP == nil || eng.InLoop(rts[0].Block()) {
		c.Fail("R3", sh, "single RoundTrip", sh.Pos(), fmt.Sprintf("expected exactly one RoundTrip outside loops, found %d", len(rts)))
		return
	}
	rt := rts[0].(*ssa.Call)
	var res ssa.Value
	for _, e := range eng.ExtractOf(rt, 0) {
		res = e
	}
	outreq := eng.Args(rt)[0]
	cl, _ := eng.CallResultOf(outreq)
	c.Check("R3", sh, "outbound request = incoming.Clone(ctx)", rt.Pos(), cl != nil && eng.IsCall(cl, "(*net/http.Request).Clone") && eng.Receiver(cl) == ssa.Value(reqP),
		"the request given to RoundTrip must be a Clone of the incoming request (method, host, body, headers copied by net/http)")
	if res == nil {
		c.Fail("R3", sh, "response of RoundTrip used", rt.Pos(), "the response of RoundTrip is dropped")
		return
	}
	ofRes := func(v ssa.Value, field string) bool {
		return eng.FieldLoadOf(v, c04TResponse, field) && c04LoadBase(v) == res
	}
	isRWHeader := func(v ssa.Value) bool {
		cc, _ := eng.CallResultOf(v)
		return cc != nil && eng.IsCall(cc, "(net/http.ResponseWriter).Header") && eng.Receiver(cc) == ssa.Value(rwP)
	}
	isCopyHdr := func(i ssa.Instruction) bool {
		if !eng.IsPlainCall(i, pkgRevProxy+".copyHeader") {
			return false
		}
		a := eng.Args(i.(ssa.CallInstruction))
		return len(a) == 2 && isRWHeader(a[0]) && ofRes(a[1], "Header")
	}
	isCopyBody := func(i ssa.Instruction) bool {
		if !eng.IsPlainCall(i, "(*"+c04TRevProxy+").copyResponse") {
			return false
		}
		a := eng.Args(i.(ssa.CallInstruction))
		sl := c.Slicer()
		return len(a) == 3 && sl.DerivesFrom(a[0], func(v ssa.Value) bool { return v == ssa.Value(rwP) }) &&
			sl.DerivesFrom(a[1], func(v ssa.Value) bool { return ofRes(v, "Body") })
	}
	// status
	nWH := 0
	for _, ci := range eng.CallsTo(sh, "(net/http.ResponseWriter).WriteHeader") {
		if eng.Receiver(ci) != ssa.Value(rwP) {
			continue
		}
		nWH++
		a := eng.Args(ci)
		c.Check("R3", sh, fmt.Sprintf("relayed status#%d = res.StatusCode", nWH), ci.Pos(), len(a) == 1 && ofRes(a[0], "StatusCode"), "the status written to the client must be the upstream's StatusCode")
		c.Check("R3", sh, fmt.Sprintf("relayed status#%d after copyHeader(rw.Header(), res.Header)", nWH), ci.Pos(), eng.AlwaysBefore(sh, ci, isCopyHdr), "every path to WriteHeader must first copy the upstream's headers into the client response")
		c.Check("R3", sh, fmt.Sprintf("relayed status#%d followed by copyResponse(rw, res.Body)", nWH), ci.Pos(), eng.AlwaysAfter(ci, isCopyBody), "after the status every path must stream the upstream's body to the client")
	}
	if nWH == 0 {
		c.Fail("R3", sh, "relayed status = res.StatusCode", sh.Pos(), "the upstream's status is never written to the client")
	}
	c04CopyHeader(c)
	// no store into the response, header mutations only for hop-by-hop keys
	okStore := true
	eng.Instrs(sh, func(ins ssa.Instruction) {
		if st, ok := ins.(*ssa.Store); ok {
			if fa, ok := st.Addr.(*ssa.FieldAddr); ok && fa.X == res {
				okStore = false
			}
		}
	})
	c.Check("R3", sh, "no field of the upstream response is overwritten before the relay", rt.Pos(), okStore, "res.StatusCode/Header/Body must be relayed as received")
	hdrMut := func(base func(v ssa.Value) bool, what string, allowed map[string]bool) {
		k := 0
		for _, ci := range eng.CallsTo(sh, "(net/http.Header).Del", "(net/http.Header).Set", "(net/http.Header).Add") {
			if !base(eng.Receiver(ci)) {
				continue
			}
			k++
			key := eng.Args(ci)[0]
			ks, isK := eng.StringConst(key)
			ok := (isK && allowed[ks]) || (!isK && eng.IsCall(ci, "(net/http.Header).Del") && c04HopKey(c, key))
			c.Check("R3", sh, fmt.Sprintf("%s header mutation#%d is hop-by-hop / allow-listed", what, k), ci.Pos(), ok, "only hop-by-hop headers (hopHeaders table) may be deleted and only the allow-listed keys set; any other end-to-end header must cross the gateway unchanged")
		}
		if k == 0 {
			c.Fail("R3", sh, what+" header mutation is hop-by-hop / allow-listed", sh.Pos(), "no hop-by-hop header removal found")
		}
	}
	hdrMut(func(v ssa.Value) bool { return ofRes(v, "Header") }, "response", map[string]bool{})
	hdrMut(func(v ssa.Value) bool { return eng.FieldLoadOf(v, c04TRequest, "Header") && c04LoadBase(v) == outreq }, "request",
		map[string]bool{"Te": true, "Connection": true, "Upgrade": true, "X-Forwarded-For": true})
	// functions that receive the response header as a whole
	for _, ci := range eng.Calls(sh) {
		for i, a := range ci.Common().Args {
			if !ofRes(a, "Header") {
				continue
			}
			ok := eng.IsCall(ci, pkgRevProxy+".removeConnectionHeaders") || (eng.IsCall(ci, pkgRevProxy+".copyHeader") && i == 1) ||
				eng.IsCall(ci, "(net/http.Header).Del", "(net/http.Header).Get", "(net/http.Header).Values")
			if !ok {
				c.Fail("R3", sh, "res.Header handed to "+c04CallLabel(ci), ci.Pos(), "the upstream's header may only be read, stripped of hop-by-hop keys and copied to the client")
			}
		}
	}
	// removeConnectionHeaders deletes only tokens of the Connection header
	if rc := c.MustFunc(pkgRevProxy, "removeConnectionHeaders"); rc != nil {
		sa := c.Slicer().WithArgs()
		k := 0
		for _, ci := range eng.CallsTo(rc, "(net/http.Header).Del", "(net/http.Header).Set", "(net/http.Header).Add") {
			k++
			ok := eng.IsCall(ci, "(net/http.Header).Del") && sa.DerivesFrom(eng.Args(ci)[0], func(v ssa.Value) bool {
				lk, isL := v.(*ssa.Lookup)
				if !isL {
					return false
				}
				ks, isK := eng.StringConst(lk.Index)
				return isK && ks == "Connection" && lk.X == ssa.Value(rc.Params[0])
			})
			c.Check("R3", rc, fmt.Sprintf("Connection-listed header removal#%d", k), ci.Pos(), ok, "only the tokens listed in the message's own Connection header may be deleted")
		}
	}
	// no response-modifying hook is installed anywhere
	sts := eng.StoresToField(c.W.AllRepoFuncs(), c04TRevProxy, "ModifyResponse")
	c.Check("R3", sh, "no ModifyResponse hook installed", sh.Pos(), len(sts) == 0, "a ModifyResponse hook could rewrite status, headers or body of every relayed response")
	// the dispatcher does not ask for the CORS-stripping/URL-rewriting transport wrapper
	if dsh := c.MustMethod(pkgDispatcher, "dispatcher", "ServeHTTP"); dsh != nil {
		calls := eng.CallsTo(dsh, pkgDispatcher+".NewUpgradeAwareHandler")
		if len(calls) == 0 {
			c.Fail("R3", dsh, "proxy handler built without transport wrapping", dsh.Pos(), "NewUpgradeAwareHandler is not called")
		}
		for _, ci := range calls {
			a := eng.Args(ci)
			c.Check("R3", dsh, "proxy handler built without transport wrapping", ci.Pos(), len(a) == 6 && eng.IsBoolConst(a[3], false) && eng.IsBoolConst(a[4], false),
				"wrapTransport=true routes responses through corsRemovingTransport/proxy.Transport which delete CORS headers and rewrite bodies; upgradeRequired=true refuses plain requests")
		}
	}
}

// ---- R4 --------------------------------------------------------------------------------
// Protects: "for every URL path (including escaped bytes) and query string". url.URL keeps
// the decoded Path and, when the original encoding is not the canonical one, RawPath; a
// URL rebuilt from Path alone re-encodes "%2F" as "/" (F04).
func c04R4(c *eng.Ctx, p *c04Preds) {
	sa := c.Slicer().WithArgs().WithUp() // the URL may be rebuilt in a helper that is handed req.URL
	fromReqURL := func(v ssa.Value) bool {
		return sa.DerivesFrom(v, func(x ssa.Value) bool { return eng.FieldLoadOf(x, c04TRequest, "URL") })
	}
	total := 0
	for _, pk := range []string{pkgDispatcher, pkgRevProxy} {
		for _, fn := range c.W.FuncsOf(pk) {
			stores := func(field string) []*ssa.Store { return eng.StoresToField([]*ssa.Function{fn}, c04TURL, field) }
			k := 0
			var seenBases []ssa.Value
			for _, ps := range stores("Path") {
				incoming := fromReqURL(ps.Val)
				// copied from ANOTHER url.URL (an in-place edit of the same URL's Path is not a rebuild)
				self := c04LoadBase(ps.Addr)
				copied := sa.DerivesFrom(ps.Val, func(x ssa.Value) bool {
					return eng.FieldLoadOf(x, c04TURL, "Path") && !c04SameObj(c04LoadBase(x), self)
				})
				if !incoming && !copied {
					continue // neither taken from an incoming request nor copied from another URL
				}
				base := c04LoadBase(ps.Addr)
				dup := false
				for _, b := range seenBases {
					dup = dup || c04SameObj(b, base)
				}
				if dup {
					continue
				}
				seenBases = append(seenBases, base)
				k++
				total++
				onBase := func(st *ssa.Store) bool { return c04SameObj(c04LoadBase(st.Addr), base) }
				// RawPath travels with Path
				isRaw := func(i ssa.Instruction) bool {
					st, ok := i.(*ssa.Store)
					if !ok || !eng.FieldAddrOf(st.Addr, c04TURL, "RawPath") || !onBase(st) {
						return false
					}
					return (fromReqURL(st.Val) || !incoming) && sa.DerivesFrom(st.Val, func(x ssa.Value) bool {
						return eng.FieldLoadOf(x, c04TURL, "RawPath") || eng.IsResultOf(x, "(*net/url.URL).EscapedPath")
					})
				}
				okRaw := eng.AlwaysAfter(ps, isRaw) || eng.AlwaysBefore(fn, ps, isRaw)
				c.Check("R4", fn, fmt.Sprintf("forward URL#%d: RawPath travels with Path", k), ps.Pos(), okRaw,
					"Path is taken from the incoming request URL but RawPath (the original escaping) is not set from the same URL on every path: a request for /…/a%2Fb is forwarded as /…/a/b")
				if !incoming {
					continue // a copy of a URL that is not the request's: only the escaping must travel
				}
				// RawQuery from the incoming query
				okQ := false
				for _, qs := range stores("RawQuery") {
					if onBase(qs) && fromReqURL(qs.Val) && sa.DerivesFrom(qs.Val, func(x ssa.Value) bool {
						return eng.FieldLoadOf(x, c04TURL, "RawQuery") || eng.IsResultOf(x, "(*net/url.URL).Query")
					}) {
						okQ = true
					}
				}
				c.Check("R4", fn, fmt.Sprintf("forward URL#%d: RawQuery from the incoming query", k), ps.Pos(), okQ,
					"the rebuilt URL must carry the query of the incoming request URL")
			}
		}
	}
	if total == 0 {
		c.Fail("R4", nil, "forward URL", 0, "no url.URL whose Path is taken from an incoming request was found in the forwarding packages")
	}
}

// ---------------------------------------------------------------------------------------
// fixtures for the R1 template

const c04FxSrc = `package fx
type W struct{}
type R struct{}
type H interface{ Serve(w *W, r *R) }
func fail(w *W, code int) {}
func cleanup() {}
func logf() {}

func goodEarlyReturn(h H, w *W, r *R, bad bool) {
	if bad { fail(w, 500); return }
	h.Serve(w, r)
}
func goodSwitch(h H, w *W, r *R, k int) {
	switch {
	case k == 0:
		fail(w, 400)
	case k == 1:
		fail(w, 403)
	default:
		h.Serve(w, r)
	}
}
func goodDeferredCleanup(h H, w *W, r *R, bad bool) {
	defer cleanup()
	if bad { fail(w, 500); return }
	h.Serve(w, r)
}
func goodOtherBranch(h H, w *W, r *R, a, b bool) {
	if a { h.Serve(w, r); return }
	if b { fail(w, 429); logf(); return }
	h.Serve(w, r)
}
func goodLoop(h H, w *W, r *R, xs []int) {
	for _, x := range xs {
		if x < 0 { fail(w, 403); return }
	}
	h.Serve(w, r)
}
func goodFlag(h H, w *W, r *R, bad bool) {
	ok := true
	if bad { fail(w, 500); ok = false }
	if ok { h.Serve(w, r) }
}
func goodForwardThenFail(h H, w *W, r *R, bad bool) {
	h.Serve(w, r)
	if bad { fail(w, 502) }
}
func badMissingReturn(h H, w *W, r *R, bad bool) {
	if bad { fail(w, 500) }
	h.Serve(w, r)
}
func badBreak(h H, w *W, r *R, xs []int) {
	for _, x := range xs {
		if x < 0 { fail(w, 403); break }
	}
	h.Serve(w, r)
}
func badDeferredForward(h H, w *W, r *R, bad bool) {
	defer h.Serve(w, r)
	if bad { fail(w, 500); return }
}
func badClosure(h H, w *W, r *R, bad bool) {
	if bad { fail(w, 500) }
	func() { h.Serve(w, r) }()
}
func badSecondWrite(h H, w *W, r *R, bad bool) {
	if bad { fail(w, 500); fail(w, 503); return }
	h.Serve(w, r)
}
`

func c04Fixtures(c *eng.Ctx) {
	p, _, err := eng.BuildFixture(c04FxSrc)
	if err != nil {
		c.Fixture("C04.typestate/build", "ok", err.Error())
		return
	}
	isFail := func(ci ssa.CallInstruction) bool { return eng.IsCall(ci, "fx.fail") }
	sp := c04TypestateSpec{
		isTerm:  isFail,
		isFwd:   func(ci ssa.CallInstruction) bool { return eng.IsCall(ci, "(fx.H).Serve") },
		isWrite: func(i ssa.Instruction) bool { ci, ok := i.(*ssa.Call); return ok && isFail(ci) },
	}
	cases := []struct {
		name  string
		sites int
		want  bool
	}{
		{"goodEarlyReturn", 1, true}, {"goodSwitch", 2, true}, {"goodDeferredCleanup", 1, true},
		{"goodOtherBranch", 1, true}, {"goodLoop", 1, true}, {"goodFlag", 1, true}, {"goodForwardThenFail", 1, true},
		{"badMissingReturn", 1, false}, {"badBreak", 1, false}, {"badDeferredForward", 1, false},
		{"badClosure", 1, false}, {"badSecondWrite", 2, false},
	}
	for _, tc := range cases {
		rs := c04TerminateNotForwarded(p.Func(tc.name), sp)
		// the template must match the expected number of terminating sites in both
		// variants; a bad variant must have at least one violated site
		got := fmt.Sprintf("matched %d sites", len(rs))
		if len(rs) == tc.sites {
			all := true
			for _, r := range rs {
				all = all && r.ok
			}
			got = fmt.Sprint(all)
		}
		c.Fixture("C04.typestate/"+tc.name, fmt.Sprint(tc.want), got)
	}
}

// ---------------------------------------------------------------------------------------
// R5 (added after seeded change C04-2): I/O wrappers on the relay path are transparent.

// c04Transparent checks every type of the forwarding packages that wraps an io.Writer /
// io.Reader / http.ResponseWriter delegate in a field: Write/Read hand the caller's own
// slice to the delegate on every path and return the delegate's results; WriteHeader hands
// on the caller's status.
func c04Transparent(c *eng.Ctx) {
	c.Rule("R5", "I/O wrappers on the relay path are transparent: Write(b)/Read(p) of every wrapper in the filter, dispatcher and reverse-proxy packages call the delegate with the caller's own slice on every path and return the delegate's (n, err); WriteHeader passes the caller's status on", 6)
	n := 0
	for _, pkg := range []string{pkgFilters, pkgDispatcher, pkgRevProxy} {
		p := c.W.Pkg(pkg)
		if p == nil {
			continue
		}
		sc := p.Pkg.Scope()
		for _, name := range sc.Names() {
			tn, ok := sc.Lookup(name).(*types.TypeName)
			if !ok {
				continue
			}
			named, ok := tn.Type().(*types.Named)
			if !ok {
				continue
			}
			st, ok := named.Underlying().(*types.Struct)
			if !ok {
				continue
			}
			for _, mn := range []string{"Write", "Read", "WriteHeader"} {
				m := c.W.DeclaredMethod(named, mn)
				if m == nil || m.Blocks == nil || len(m.Params) != 2 {
					continue
				}
				// delegate fields: interface-typed fields whose method set has the same method
				var delegates []string
				for i := 0; i < st.NumFields(); i++ {
					ft := st.Field(i).Type()
					if _, isI := ft.Underlying().(*types.Interface); !isI {
						continue
					}
					if obj, _, _ := types.LookupFieldOrMethod(ft, false, nil, mn); obj != nil {
						delegates = append(delegates, st.Field(i).Name())
					}
				}
				if len(delegates) == 0 {
					continue
				}
				n++
				tname := eng.TypeName(named)
				isDeleg := func(ins ssa.Instruction) bool {
					ci, ok := ins.(*ssa.Call)
					if !ok || !eng.MethodNameIs(ci, mn) {
						return false
					}
					for _, d := range delegates {
						if eng.FieldLoadOf(eng.Receiver(ci), tname, d) {
							a := eng.Args(ci)
							return len(a) == 1 && a[0] == ssa.Value(m.Params[1])
						}
					}
					return false
				}
				good := eng.ReachFromEntry(m, eng.PathQuery{Target: eng.IsExit, Avoid: isDeleg}) == nil
				detail := "a path returns without handing the caller's own argument to the delegate (data is dropped, truncated or replaced on the way through the gateway)"
				// exactly once
				eng.Instrs(m, func(ins ssa.Instruction) {
					if isDeleg(ins) && eng.ReachAfter(ins, eng.PathQuery{Target: isDeleg}) != nil {
						good, detail = false, "the delegate is called twice on a path"
					}
				})
				// any other call of the delegate's method with a different argument
				eng.Instrs(m, func(ins ssa.Instruction) {
					ci, ok := ins.(*ssa.Call)
					if !ok || !eng.MethodNameIs(ci, mn) || isDeleg(ins) {
						return
					}
					for _, d := range delegates {
						if eng.FieldLoadOf(eng.Receiver(ci), tname, d) {
							good, detail = false, "the delegate is called with something else than the caller's own argument (a re-sliced, copied or rewritten buffer / another status)"
						}
					}
				})
				// results are the delegate's
				if good && mn != "WriteHeader" {
					eng.Instrs(m, func(ins ssa.Instruction) {
						r, ok := ins.(*ssa.Return)
						if !ok || r.Block() == m.Recover || len(r.Results) != 2 {
							return
						}
						for i, v := range c04Returned(r) {
							cc, idx := eng.CallResultOf(v)
							if cc == nil || !isDeleg(cc) || idx != i {
								good, detail = false, "the count/error returned to the caller is not the delegate's (a short or padded count makes the copier stop or continue wrongly)"
							}
						}
					})
				}
				c.Check("R5", m, shortName(tname)+"."+mn+" is transparent", m.Pos(), good, detail)
			}
		}
	}
	if n < 6 {
		c.Fail("R5", nil, "I/O wrappers on the relay path", 0, fmt.Sprintf("expected the response-writer, body-reader and flush wrappers, found %d wrapper methods", n))
	}
}

// c04Returned resolves the values a Return yields, through result cells (named results and
// defer spills): a cell that is only ever assigned one value yields that value.
func c04Returned(r *ssa.Return) []ssa.Value {
	out := eng.ReturnResults(r)
	for i, v := range out {
		u, ok := v.(*ssa.UnOp)
		if !ok {
			continue
		}
		a, ok := u.X.(*ssa.Alloc)
		if !ok || a.Referrers() == nil {
			continue
		}
		var val ssa.Value
		same := true
		for _, ref := range *a.Referrers() {
			if st, ok := ref.(*ssa.Store); ok && st.Addr == ssa.Value(a) {
				if val != nil && val != st.Val {
					same = false
				}
				val = st.Val
			}
		}
		if same && val != nil {
			out[i] = val
		}
	}
	return out
}

// c04CopyHeader: the header copy relays every line. copyHeader(dst, src) must Add, for every key of
// src and every value under it, that value under that key to dst; and nowhere on the relay
// path is a header Set once per value with a key that does not change in the innermost loop
// (only the last value would survive).
func c04CopyHeader(c *eng.Ctx) {
	if ch := c.MustFunc(pkgRevProxy, "copyHeader"); ch != nil && len(ch.Params) == 2 {
		dst, src := ssa.Value(ch.Params[0]), ssa.Value(ch.Params[1])
		sl := c.Slicer()
		ok := false
		for _, ci := range eng.CallsTo(ch, "(net/http.Header).Add") {
			a := eng.Args(ci)
			if eng.Receiver(ci) != dst || len(a) != 2 {
				continue
			}
			l := eng.InnermostLoop(ci.Block())
			if l == nil {
				continue
			}
			fromSrc := func(v ssa.Value) bool { return sl.DerivesFrom(v, func(x ssa.Value) bool { return x == src }) }
			if fromSrc(a[0]) && fromSrc(a[1]) && eng.LoopInvariant(a[0], l) && !eng.LoopInvariant(a[1], l) {
				ok = true
			}
		}
		c.Check("R3", ch, "copyHeader adds every value of every key", ch.Pos(), ok,
			"copyHeader(dst, src) must dst.Add(k, v) for each key k of src and each value v under it: headers that span several lines (Warning, Set-Cookie, Link) are relayed completely")
	}
	for _, pk := range []string{pkgRevProxy, pkgDispatcher, pkgResponse} {
		for _, fn := range c.W.FuncsOf(pk) {
			for _, ci := range eng.CallsTo(fn, "(net/http.Header).Set") {
				a := eng.Args(ci)
				l := eng.InnermostLoop(ci.Block())
				if l == nil || len(a) != 2 {
					continue
				}
				if eng.LoopInvariant(a[0], l) && !eng.LoopInvariant(a[1], l) {
					c.Fail("R3", fn, "Header.Set once per value", ci.Pos(), "inside a loop over values the key is the same on every iteration: Set keeps only the last value, the other lines of the header are lost")
				}
			}
		}
	}
}
