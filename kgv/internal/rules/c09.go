package rules

import (
	"fmt"
	"go/constant"
	"go/token"
	"go/types"
	"sort"
	"strings"

	"golang.org/x/tools/go/ssa"

	"kgv/internal/eng"
)

func init() {
	Register("C09", c09)
}

const (
	tUpstreamLimiter = pkgFCRoot + ".upstreamLimiter"
	tFCCache         = pkgFCRemote + ".FlowControlCache"
	tRemoteWrapper   = pkgFCRemote + ".remoteWrapper"
	tMaxInflightW    = pkgFCRemote + ".maxInflightWrapper"
	tTokenBucketW    = pkgFCRemote + ".tokenBucketWrapper"
	tLimitItem       = pkgV1alpha1 + ".RateLimitItemConfiguration"
	tAcquireResult   = pkgV1alpha1 + ".RateLimitAcquireResult"
)

// c09PathTypes lists the named types traversed by the access path of v (bases of the
// field selections), outermost first.
func c09PathTypes(v ssa.Value) []string {
	var out []string
	cur := v
	for i := 0; i < 20; i++ {
		switch n := cur.(type) {
		case *ssa.UnOp:
			if n.Op != token.MUL {
				return out
			}
			cur = n.X
		case *ssa.FieldAddr:
			out = append(out, eng.TypeName(n.X.Type()))
			cur = n.X
		case *ssa.Field:
			out = append(out, eng.TypeName(n.X.Type()))
			cur = n.X
		case *ssa.Alloc:
			// spilled value: follow the single store
			var val ssa.Value
			cnt := 0
			if n.Referrers() != nil {
				for _, r := range *n.Referrers() {
					if st, ok := r.(*ssa.Store); ok && st.Addr == ssa.Value(n) {
						val = st.Val
						cnt++
					}
				}
			}
			if cnt != 1 {
				return out
			}
			cur = val
		case *ssa.Call, *ssa.Extract, *ssa.Parameter, *ssa.Phi:
			out = append(out, eng.TypeName(cur.Type()))
			return out
		default:
			return out
		}
	}
	return out
}

func c09HasType(ts []string, names ...string) bool {
	for _, t := range ts {
		for _, n := range names {
			if t == n {
				return true
			}
		}
	}
	return false
}

// c09LeafField returns the last field name of v's access path.
func c09LeafField(v ssa.Value) string {
	_, p := eng.AccessPath(v)
	if len(p) == 0 {
		return ""
	}
	return p[len(p)-1]
}

func isUnsigned(t types.Type) bool {
	b, ok := t.Underlying().(*types.Basic)
	return ok && b.Info()&types.IsUnsigned != 0
}

func isSignedOrFloat(t types.Type) bool {
	b, ok := t.Underlying().(*types.Basic)
	return ok && (b.Info()&types.IsFloat != 0 || (b.Info()&types.IsInteger != 0 && b.Info()&types.IsUnsigned == 0))
}

// c09Ctx carries the facts established per run.
type c09Ctx struct {
	c         *eng.Ctx
	sanitized map[*ssa.Function]bool // functions whose limit-item inputs are sanitized server data
	reserveOK bool
	globalsOK map[*ssa.Global]bool
	up        int // helper levels crossed by the current trustedLeaf query
}

// trustedLeaf reports whether v is known non-negative without looking at guards: an unsigned
// value, a validated local configuration limit, the reserve field (checked invariant), a
// never-reassigned package floor, or a limit read from a sanitized item.
func (x *c09Ctx) trustedLeaf(v ssa.Value, in *ssa.Function) bool {
	v = convOf(v)
	if isUnsigned(v.Type()) {
		return true
	}
	if k, ok := v.(*ssa.Const); ok && k.Value != nil {
		if f, ok2 := constant.Float64Val(constant.ToFloat(k.Value)); ok2 || true {
			return f >= 0
		}
	}
	if u, ok := v.(*ssa.UnOp); ok && u.Op == token.MUL {
		if g, ok := u.X.(*ssa.Global); ok {
			return x.trustedGlobal(g)
		}
	}
	// a parameter of an extracted helper: trusted when the argument bound to it is proven
	// non-negative at every call site of the helper
	if p, ok := v.(*ssa.Parameter); ok && x.up < eng.LiftDepth {
		if ups := x.c.W.UpArgSites(p); len(ups) > 0 {
			x.up++
			defer func() { x.up-- }()
			for _, u := range ups {
				if good, _ := x.nonNeg(u.Arg, u.Site.Parent()); !good {
					return false
				}
			}
			return true
		}
	}
	switch c09LeafField(v) {
	case "Max", "QPS", "Burst":
		// the access path may start at a parameter of a helper that receives a member of the
		// configuration (or of the item): it is continued into every call site, all must agree
		ups := x.c.W.AccessPathsUp(v)
		if len(ups) == 0 {
			return false
		}
		for _, up := range ups {
			var ts []string
			for _, h := range up.Hops {
				ts = append(ts, c09PathTypes(h)...)
			}
			where := in
			if len(up.Hops) > 1 && up.Fn != nil {
				where = up.Fn
			}
			switch {
			case c09HasType(ts, pkgV1alpha1+".FlowControlSchema", pkgV1alpha1+".FlowControlSchemaConfiguration"):
				// validated local configuration (C16.R5)
			case c09HasType(ts, tLimitItem, pkgV1alpha1+".LimitItemDetail") && x.sanitizedFn(where, eng.LiftDepth):
			default:
				return false
			}
		}
		return true
	case "reserve":
		ts := c09PathTypes(v)
		return x.reserveOK && c09HasType(ts, tMaxInflightW, tTokenBucketW)
	case "max":
		// maxInflightWrapper.max: stored only from unsigned sizes / sanitized items (checked in R3)
		return c09HasType(c09PathTypes(v), tMaxInflightW)
	}
	return false
}

// sanitizedFn: the limit-item inputs of fn are sanitized server data — established for fn
// itself, or fn is a helper with a completely known set of callers all of which are.
func (x *c09Ctx) sanitizedFn(fn *ssa.Function, depth int) bool {
	if fn == nil {
		return false
	}
	if x.sanitized[fn] {
		return true
	}
	if depth <= 0 {
		return false
	}
	sites := x.c.W.LiftSites(fn)
	if len(sites) == 0 {
		return false
	}
	for _, s := range sites {
		if !x.sanitizedFn(s.Parent(), depth-1) {
			return false
		}
	}
	return true
}

// trustedGlobal: a package variable that is assigned only by the package initialiser with a
// non-negative constant.
func (x *c09Ctx) trustedGlobal(g *ssa.Global) bool {
	if r, ok := x.globalsOK[g]; ok {
		return r
	}
	ok := true
	n := 0
	for _, fn := range x.c.W.FuncsOf(g.Pkg.Pkg.Path()) {
		eng.Instrs(fn, func(ins ssa.Instruction) {
			st, isSt := ins.(*ssa.Store)
			if !isSt || st.Addr != ssa.Value(g) {
				return
			}
			n++
			if fn.Name() != "init" || fn.Parent() != nil || fn.Synthetic == "" {
				ok = false
			}
			k, isK := convOf(st.Val).(*ssa.Const)
			if !isK || k.Value == nil || constant.Sign(k.Value) < 0 {
				ok = false
			}
		})
	}
	x.globalsOK[g] = ok && n > 0
	return x.globalsOK[g]
}

func (x *c09Ctx) nonNegTerm(t *eng.Term, in *ssa.Function) bool {
	switch t.K {
	case eng.TConst:
		return t.C >= 0
	case eng.TVal:
		return x.trustedLeaf(t.V, in)
	case eng.TMax:
		return x.nonNegTerm(t.A, in) || x.nonNegTerm(t.B, in)
	case eng.TMin, eng.TAdd, eng.TMul:
		return x.nonNegTerm(t.A, in) && x.nonNegTerm(t.B, in)
	}
	return false
}

func (x *c09Ctx) nonNeg(v ssa.Value, in *ssa.Function) (bool, string) {
	return x.nonNegAt(v, nil, in, eng.LiftDepth)
}

// nonNegAt: v (a value of function in) is ≥ 0 — at instruction at, when given: the bounds are
// then refined by the branch conditions under which at executes. The bounds see through the
// numeric helpers in calls (clamps, max/min written as functions with several returns). The
// result of a helper that merely selects among values (`if a < b { return b }; return a`) is
// ≥ 0 when the value yielded by every return statement of the helper is, judged in the helper
// with the conditions guarding that return.
func (x *c09Ctx) nonNegAt(v ssa.Value, at ssa.Instruction, in *ssa.Function, depth int) (bool, string) {
	b := eng.NewBounderIn(in)
	var f eng.BoundFacts
	if at != nil {
		f = b.FactsAt(v, at)
	} else {
		f = b.Facts(v)
	}
	for _, l := range f.L {
		if x.nonNegTerm(l, in) {
			return true, ""
		}
	}
	if depth > 0 {
		if alts := eng.ResultAlts(convOf(v)); len(alts) > 0 {
			all := true
			for _, alt := range alts {
				if good, _ := x.nonNegAt(alt.Val, alt.Ret, alt.Callee, depth-1); !good {
					all = false
					break
				}
			}
			if all {
				return true, ""
			}
		}
	}
	return false, f.String()
}

func c09(c *eng.Ctx) {
	defer c09Extra(c)
	c.Rule("R1", "fallback: upstreamLimiter.Load hands out the remote limiter only when the limiter type is remote, the schema's strategy is global, the client set exists and is ready, and the remote limiter is synced; pinning any one of these the other way forces the local limiter", 6)
	c.Rule("R2", "sign-safe conversions: every signed/float→unsigned conversion in pkg/flowcontrols has an operand proven ≥ 0 (branch-refined bounds; validated configuration; the reserve invariant; unsigned sources; limits read from sanitized server items)", 15)
	c.Rule("R2s", "server quotas are sanitized at entry: in remoteWrapper.Sync the answered item passes through a sanitizer whose result replaces it before any other use; the sanitizer clamps every numeric member into [0, the schema's configured global limit]; functions taking limit items are called only with sanitized items", 5)
	c.Rule("R2i", "reserve invariant: every function storing maxInflightWrapper.reserve / tokenBucketWrapper.reserve leaves it ≥ its never-reassigned package floor", 2)
	c.Rule("R4", "a Resize of a global wrapper records the requested size (and the reserve derived from it) on every path, also while the server is unavailable, so that recovery restores the current configuration", 5)
	c.Rule("R3", "global-count replies are clamped: every limiter size or acquired limit derived from an AcquireResult is ≥ 0 and ≤ the wrapper's max, itself stored only from sanitized/unsigned sizes; on the error branch the size is at least the local limit", 5)

	x := &c09Ctx{c: c, sanitized: map[*ssa.Function]bool{}, globalsOK: map[*ssa.Global]bool{}}
	c09R1(c)
	x.reserveInvariant()
	x.sanitizer()
	x.conversions()
	x.setLimit()
	x.resizeRecords()
}

// resizeRecords (R4): the global wrappers remember the size they were last asked for and
// restore it when the server comes back; a Resize must record the requested size on every
// path, also while the server is unavailable.
func (x *c09Ctx) resizeRecords() {
	c := x.c
	type rec struct {
		typ    string
		fields []string
	}
	for _, r := range []rec{{"maxInflightWrapper", []string{"max", "reserve"}}, {"tokenBucketWrapper", []string{"qps", "burst", "reserve"}}} {
		fn := c.MustMethod(pkgFCRemote, r.typ, "Resize")
		if fn == nil {
			continue
		}
		tn := pkgFCRemote + "." + r.typ
		for _, f := range r.fields {
			// a call of a helper that records the field on every path counts as the record
			isStore := eng.LiftMust(func(i ssa.Instruction) bool {
				st, ok := i.(*ssa.Store)
				return ok && eng.FieldAddrOf(st.Addr, tn, f)
			})
			miss := eng.ReachFromEntry(fn, eng.PathQuery{Target: eng.IsExit, Avoid: isStore})
			c.Check("R4", fn, r.typ+".Resize records "+f+" on every path", fn.Pos(), miss == nil,
				"a limit change that arrives while the limiter server is unavailable must still be remembered: the size restored on recovery (and the clamps derived from it) would otherwise be the one from before the change — e.g. a global limit lowered during an outage is forgotten")
		}
	}
}

// ---- R1 -------------------------------------------------------------------------------

// Tags carried by the abstract non-nil values that stand for the remote and the local limiter
// (the interpreter copies abstract values through phis, interface changes, helper results).
var (
	c09TagRemote = constant.MakeString("remote limiter")
	c09TagLocal  = constant.MakeString("local limiter")
)

func c09R1(c *eng.Ctx) {
	ld := c.MustMethod(pkgFCRoot, "upstreamLimiter", "Load")
	if ld == nil {
		return
	}
	strConst := func(name string) (constant.Value, bool) {
		p := c.W.All[pkgV1alpha1]
		if p == nil {
			return nil, false
		}
		o, ok := p.Types.Scope().Lookup(name).(*types.Const)
		if !ok {
			return nil, false
		}
		return o.Val(), true
	}
	local, ok1 := strConst("LocalLimit")
	global, ok2 := strConst("GlobalCountLimit")
	if !ok1 || !ok2 {
		c.Fail("engine", nil, "unresolved-anchor const LocalLimit/GlobalCountLimit", 0, "")
		return
	}
	type pin struct {
		name      string
		rl        string // rateLimiter value
		strategy  constant.Value
		clientNil bool
		ready     bool
		fcNil     bool
		wantLocal bool
	}
	base := pin{rl: "remote", strategy: global, ready: true}
	mk := func(name string, f func(p *pin)) pin { p := base; p.name = name; p.wantLocal = true; f(&p); return p }
	pins := []pin{
		{name: "all conditions hold ⇒ remote limiter", rl: "remote", strategy: global, ready: true, wantLocal: false},
		mk("limiter type not remote ⇒ local limiter", func(p *pin) { p.rl = "local" }),
		mk("strategy empty ⇒ local limiter", func(p *pin) { p.strategy = constant.MakeString("") }),
		mk("strategy local ⇒ local limiter", func(p *pin) { p.strategy = local }),
		mk("no client set ⇒ local limiter", func(p *pin) { p.clientNil = true }),
		mk("client set not ready ⇒ local limiter", func(p *pin) { p.ready = false }),
		mk("remote limiter not synced ⇒ local limiter", func(p *pin) { p.fcNil = true }),
	}
	sl := c.Slicer()
	for _, p := range pins {
		p := p
		// the decision may have been spread over helpers of Load: same-package static callees are
		// interpreted too (their parameters alias the caller's cells, so the pins below still apply)
		in := &eng.Interp{W: c.W, Depth: eng.LiftDepth, FollowCall: func(callee *ssa.Function) bool { return callee.Pkg == ld.Pkg }}
		rn := ld.Params[0].Name() // receiver name: memory cells are "<receiver>.<field>"
		in.PinPath = func(path string) (eng.AV, bool) {
			switch path {
			case rn + ".rateLimiter":
				return eng.AV{K: eng.ConstV, C: constant.MakeString(p.rl)}, true
			case rn + ".clientSets":
				if p.clientNil {
					return eng.AV{K: eng.NilV}, true
				}
				return eng.AV{K: eng.NonNilV}, true
			}
			return eng.AV{}, false
		}
		in.PinCall = func(cc *ssa.Call, idx int, st *eng.State) (eng.AV, bool) {
			switch {
			case eng.IsCall(cc, "(*"+pkgFCRemote+".FlowControlMap).Load"):
				if idx == 1 {
					return eng.AVBool(true), true
				}
				if idx == 0 {
					return eng.AV{K: eng.NonNilV}, true
				}
			case eng.IsCall(cc, "("+tFCCache+").Strategy"):
				return eng.AV{K: eng.ConstV, C: p.strategy}, true
			case eng.IsCall(cc, "("+pkgClientsets+".ClientSets).IsReady"):
				return eng.AVBool(p.ready), true
			case eng.IsCall(cc, "("+tFCCache+").FlowControl"):
				if p.fcNil {
					return eng.AV{K: eng.NilV}, true
				}
				return eng.AV{K: eng.NonNilV, C: c09TagRemote}, true
			case eng.IsCall(cc, "("+tFCCache+").LocalFlowControl"):
				return eng.AV{K: eng.NonNilV, C: c09TagLocal}, true
			}
			return eng.AV{}, false
		}
		paths, err := in.Run(ld, nil)
		ok := err == nil && len(paths) > 0
		detail := ""
		for _, pr := range paths {
			ret, isR := pr.Exit.(*ssa.Return)
			if pr.LoopCut || pr.Panicked || !isR {
				ok = false
				detail = "path not decided"
				continue
			}
			res := eng.ReturnResults(ret)
			var fromRemote, fromLocal bool
			if len(pr.Ret) > 0 && pr.Ret[0].K == eng.NonNilV && pr.Ret[0].C != nil && pr.Ret[0].C.Kind() == constant.String {
				// the value returned on this very path is the (tagged) answer of one of the two getters
				fromRemote = constant.Compare(pr.Ret[0].C, token.EQL, c09TagRemote)
				fromLocal = constant.Compare(pr.Ret[0].C, token.EQL, c09TagLocal)
			} else {
				// not tracked by the interpreter: fall back to the static origin of the returned value
				fromRemote = sl.DerivesFrom(res[0], func(v ssa.Value) bool {
					cc, _ := eng.CallResultOf(v)
					return cc != nil && eng.IsCall(cc, "("+tFCCache+").FlowControl")
				})
				fromLocal = sl.DerivesFrom(res[0], func(v ssa.Value) bool {
					cc, _ := eng.CallResultOf(v)
					return cc != nil && eng.IsCall(cc, "("+tFCCache+").LocalFlowControl")
				})
			}
			if p.wantLocal && (fromRemote || !fromLocal) {
				ok = false
				detail = "a path returns something else than the locally sized limiter"
			}
			if !p.wantLocal && (!fromRemote || fromLocal) {
				ok = false
				detail = "the remote limiter is not returned although every condition holds"
			}
		}
		c.Check("R1", ld, p.name, ld.Pos(), ok, "while the limiter server is unknown, not ready or not yet synced the schema's local limit must be enforced rather than none; "+detail)
	}
}

// ---- R2i ------------------------------------------------------------------------------

func (x *c09Ctx) reserveInvariant() {
	c := x.c
	x.reserveOK = true
	for _, typ := range []string{"maxInflightWrapper", "tokenBucketWrapper"} {
		tn := pkgFCRemote + "." + typ
		stores := eng.StoresToField(c.W.FuncsOf(pkgFCRemote), tn, "reserve")
		funcs := map[*ssa.Function]bool{}
		for _, st := range stores {
			funcs[st.Parent()] = true
		}
		if len(stores) == 0 {
			c.Fail("R2i", nil, typ+".reserve ≥ floor", 0, "no store of reserve found")
			x.reserveOK = false
			continue
		}
		for fn := range funcs {
			// the last store on every path to an exit must be of a value ≥ a trusted floor
			ok := true
			detail := ""
			for _, st := range stores {
				if st.Parent() != fn {
					continue
				}
				// is this store possibly the last one before an exit?
				last := eng.ReachAfter(st, eng.PathQuery{Target: eng.IsExit, Avoid: func(i ssa.Instruction) bool {
					s2, isSt := i.(*ssa.Store)
					return isSt && eng.FieldAddrOf(s2.Addr, tn, "reserve")
				}}) != nil
				if !last {
					continue
				}
				// value must be a trusted floor itself, guarded by reserve < floor — or bounded below
				if good, why := x.floorStore(st, tn, fn); !good {
					ok = false
					detail = why
				}
			}
			c.Check("R2i", fn, typ+".reserve ≥ floor at exit", fn.Pos(), ok, "reserve is converted to unsigned and used as the lower clamp of server limits; it must stay ≥ 1: "+detail)
			if !ok {
				x.reserveOK = false
			}
		}
	}
}

// floorStore: the final value of the field on the path through st is ≥ a trusted global floor.
// Recognises  `f = expr; if f < Floor { f = Floor }`: either st stores the floor itself under
// the guard (then fine), or st is the unconditional store and every path from it to an exit
// on which f < Floor passes the floor store.
func (x *c09Ctx) floorStore(st *ssa.Store, tn string, fn *ssa.Function) (bool, string) {
	var isFloorAt func(v ssa.Value, depth int) bool
	isFloorAt = func(v ssa.Value, depth int) bool {
		// the floor handed to a parameterised helper: a floor at every call site of the helper
		if p, isP := v.(*ssa.Parameter); isP && depth > 0 {
			ups := x.c.W.UpArgSites(p)
			if len(ups) == 0 {
				return false
			}
			for _, u := range ups {
				if !isFloorAt(convOf(u.Arg), depth-1) {
					return false
				}
			}
			return true
		}
		u, ok := v.(*ssa.UnOp)
		if !ok || u.Op != token.MUL {
			return false
		}
		g, ok := u.X.(*ssa.Global)
		return ok && x.trustedGlobal(g) && x.globalAtLeast(g, 1)
	}
	isFloorVal := func(v ssa.Value) bool { return isFloorAt(v, eng.LiftDepth) }
	if isFloorVal(st.Val) {
		return true, ""
	}
	// the value stored is itself bounded below by the floor: `reserve = max(x, Floor)` written as
	// a phi, or computed by a helper every return of which yields a value ≥ Floor
	if ok, _ := x.bounded(st.Val, st, fn, func(f eng.BoundFacts, _ ssa.Value, _ ssa.Instruction, _ *ssa.Function) bool {
		return f.HasL(func(t *eng.Term) bool { return t.K == eng.TVal && isFloorVal(t.V) })
	}, eng.LiftDepth); ok {
		return true, ""
	}
	// unconditional store: the very next reads compare with the floor and repair
	var floorIf *ssa.If
	for _, b := range fn.Blocks {
		iff, ok := b.Instrs[len(b.Instrs)-1].(*ssa.If)
		if !ok {
			continue
		}
		r := eng.RelOf(iff.Cond, true)
		if eng.FieldLoadOf(r.X, tn, "reserve") && isFloorVal(r.Y) && r.Op == token.LSS {
			floorIf = iff
		}
	}
	if floorIf == nil {
		return false, "no `reserve < floor` repair follows the assignment"
	}
	// the repair store on the true edge
	repaired := false
	for _, ins := range floorIf.Block().Succs[0].Instrs {
		if s2, ok := ins.(*ssa.Store); ok && eng.FieldAddrOf(s2.Addr, tn, "reserve") && isFloorVal(s2.Val) {
			repaired = true
		}
	}
	// every path from st to an exit passes the floor test
	through := eng.AlwaysAfter(st, func(i ssa.Instruction) bool { return i == ssa.Instruction(floorIf) })
	if repaired && through {
		return true, ""
	}
	return false, "the floor test does not follow the assignment on every path"
}

func (x *c09Ctx) globalAtLeast(g *ssa.Global, n int64) bool {
	ok := false
	for _, fn := range x.c.W.FuncsOf(g.Pkg.Pkg.Path()) {
		eng.Instrs(fn, func(ins ssa.Instruction) {
			if st, isSt := ins.(*ssa.Store); isSt && st.Addr == ssa.Value(g) {
				if k, isK := eng.IntConst(convOf(st.Val)); isK && k >= n {
					ok = true
				}
			}
		})
	}
	return ok
}

// ---- R2s ------------------------------------------------------------------------------

func (x *c09Ctx) sanitizer() {
	c := x.c
	// the entry point of server answers: Sync of the type implementing RemoteFlowControlWrapper
	var sync *ssa.Function
	for _, m := range wrapperSyncAnchors(c, "RemoteFlowControlWrapper") {
		if sync == nil || eng.FuncName(m) == "(*pkg/flowcontrols/remote.remoteWrapper).Sync" {
			sync = m
		}
	}
	if sync == nil || len(sync.Params) != 2 {
		return
	}
	item := sync.Params[1]
	// the cell holding the item (captured by the deferred closure) or the parameter itself
	var cell *ssa.Alloc
	if item.Referrers() != nil {
		for _, r := range *item.Referrers() {
			if st, ok := r.(*ssa.Store); ok && st.Val == ssa.Value(item) {
				if a, ok := st.Addr.(*ssa.Alloc); ok {
					cell = a
				}
			}
		}
	}
	// candidate sanitizer: a call taking the raw item whose result is stored back into the cell
	var sanCall *ssa.Call
	var sanStore *ssa.Store
	for _, ci := range eng.Calls(sync) {
		call, ok := ci.(*ssa.Call)
		if !ok || eng.TypeName(call.Type()) != tLimitItem {
			continue
		}
		raw := false
		for _, a := range eng.Args(call) {
			if a == ssa.Value(item) {
				raw = true
			}
			if u, ok := a.(*ssa.UnOp); ok && cell != nil && u.X == ssa.Value(cell) {
				raw = true
			}
		}
		if !raw || call.Referrers() == nil {
			continue
		}
		for _, r := range *call.Referrers() {
			if st, ok := r.(*ssa.Store); ok && cell != nil && st.Addr == ssa.Value(cell) && st.Val == ssa.Value(call) {
				sanCall, sanStore = call, st
			}
		}
	}
	if sanCall == nil && cell == nil {
		// the item does not live in a cell (no function literal captures it): `item = san(item)`
		// is then a plain SSA value, and the raw parameter must have no other use at all
		for _, ci := range eng.Calls(sync) {
			call, ok := ci.(*ssa.Call)
			if !ok || eng.TypeName(call.Type()) != tLimitItem {
				continue
			}
			for _, a := range eng.Args(call) {
				if a == ssa.Value(item) && sanCall == nil {
					sanCall = call
				}
			}
		}
		if sanCall != nil {
			ok, detail := true, ""
			if item.Referrers() != nil {
				for _, r := range *item.Referrers() {
					if _, isDbg := r.(*ssa.DebugRef); isDbg || r == ssa.Instruction(sanCall) {
						continue
					}
					ok, detail = false, "the raw item is used besides being handed to the sanitizer"
				}
			}
			c.Check("R2s", sync, "answered item sanitized before use", sanCall.Pos(), ok, detail)
			san := sanCall.Call.StaticCallee()
			if ok && san != nil && x.certify(san) {
				x.sanitized[sync] = true
			}
			x.limitItemTakers(sync, san, sanCall, nil, nil)
			return
		}
	}
	if sanCall == nil {
		c.Fail("R2s", sync, "answered item sanitized before use", sync.Pos(),
			"the quotas answered by the limiter server are used as they are: a negative quota becomes a huge unsigned limit (−300 → 4294966996), an oversized one sizes the limiter beyond the configured global limit")
		return
	}
	// (1) dominance: every other read of the cell, and every closure capturing it, comes after the store
	ok := true
	detail := ""
	isSan := func(i ssa.Instruction) bool { return i == ssa.Instruction(sanStore) }
	for _, r := range *cell.Referrers() {
		switch n := r.(type) {
		case *ssa.UnOp:
			feeds := false
			for _, a := range eng.Args(sanCall) {
				if a == ssa.Value(n) {
					feeds = true
				}
			}
			if !feeds && !eng.AlwaysBefore(sync, n, isSan) {
				ok, detail = false, "the raw item is read before it is sanitized"
			}
		case *ssa.MakeClosure:
			if !eng.AlwaysBefore(sync, n, isSan) {
				ok, detail = false, "a closure captures the item before it is sanitized"
			}
		case *ssa.FieldAddr:
			if !eng.AlwaysBefore(sync, n, isSan) {
				ok, detail = false, "a member of the raw item is read before it is sanitized"
			}
		case *ssa.Store:
			if n != sanStore && n.Val != ssa.Value(item) {
				ok, detail = false, "the item is overwritten after sanitizing"
			}
		}
	}
	c.Check("R2s", sync, "answered item sanitized before use", sanCall.Pos(), ok, detail)
	// (2) certification of the sanitizer
	san := sanCall.Call.StaticCallee()
	certified := san != nil && x.certify(san)
	if ok && certified {
		x.sanitized[sync] = true
	}
	x.limitItemTakers(sync, san, sanCall, cell, isSan)
}

// limitItemTakers implements part (3) of R2s.
func (x *c09Ctx) limitItemTakers(sync, san *ssa.Function, sanCall *ssa.Call, cell *ssa.Alloc, isSan func(ssa.Instruction) bool) {
	c := x.c
	// (3) who may call the functions that take limit items. The takers are found by their role —
	// every function of the package with a parameter of the limit-item type, except the entry
	// point Sync (which receives the raw answer) and the sanitizer — so renaming one, turning a
	// method into a function or extracting another helper that receives the item keeps the rule.
	// A taker may be called only by Sync, with its sanitized item, or by another taker handing
	// on its own parameter.
	var takers []*ssa.Function
	isTaker := map[*ssa.Function]bool{}
	// Forwarders upstream of the entry point are not takers: a function whose limit-item
	// parameter is only handed on to the entry Sync (or to another forwarder) and read for its
	// identification (Name) sits BEFORE the sanitizer — it carries the raw answer to the place
	// where it is sanitized.
	fwdMemo := map[*ssa.Function]int{}
	var isForwarder func(fn *ssa.Function) bool
	isForwarder = func(fn *ssa.Function) bool {
		if v, ok := fwdMemo[fn]; ok {
			return v != 2
		}
		fwdMemo[fn] = 1 // assumed while recursing
		ok := true
		var useOK func(v ssa.Value, depth int) bool
		useOK = func(v ssa.Value, depth int) bool {
			if v.Referrers() == nil || depth > 4 {
				return false
			}
			for _, r := range *v.Referrers() {
				switch u := r.(type) {
				case *ssa.DebugRef:
				case *ssa.Store:
					if u.Addr == v {
						continue // the spill that initialises the cell
					}
					if u.Val != v {
						return false
					}
					al, isAl := u.Addr.(*ssa.Alloc)
					if !isAl || !useOK(al, depth+1) {
						return false
					}
				case *ssa.UnOp:
					if u.Op != token.MUL || !useOK(u, depth+1) {
						return false
					}
				case *ssa.FieldAddr:
					if fieldNameOf(u.X.Type(), u.Field) != "Name" {
						return false
					}
				case *ssa.Field:
					if fieldNameOf(u.X.Type(), u.Field) != "Name" {
						return false
					}
				case ssa.CallInstruction:
					cc := u.Common()
					switch {
					case cc.IsInvoke() && cc.Method.Name() == "Sync":
					case cc.StaticCallee() == sync:
					case cc.StaticCallee() != nil && cc.StaticCallee().Pkg == fn.Pkg && isForwarder(cc.StaticCallee()):
					default:
						return false
					}
				default:
					return false
				}
			}
			return true
		}
		n := 0
		for _, p := range fn.Params {
			if eng.TypeName(p.Type()) == tLimitItem {
				n++
				if !useOK(p, 0) {
					ok = false
				}
			}
		}
		if n == 0 {
			ok = false
		}
		if ok {
			fwdMemo[fn] = 1
		} else {
			fwdMemo[fn] = 2
		}
		return ok
	}
	for _, fn := range c.W.FuncsOf(pkgFCRemote) {
		if fn.Parent() != nil || fn == sync || fn == san || fn.Synthetic != "" {
			continue
		}
		if isForwarder(fn) {
			continue
		}
		for _, p := range fn.Params {
			if eng.TypeName(p.Type()) == tLimitItem && !isTaker[fn] {
				isTaker[fn] = true
				takers = append(takers, fn)
			}
		}
	}
	sort.Slice(takers, func(a, b int) bool { return eng.FuncName(takers[a]) < eng.FuncName(takers[b]) })
	for _, fn := range takers {
		good := true
		n := 0
		for _, caller := range c.W.AllRepoFuncs() {
			for _, ci := range eng.CallsToFn(caller, fn) {
				n++
				if caller != sync && !isTaker[caller] {
					good = false
				}
				// the item argument is the caller's own (sanitized) item
				for _, a := range ci.Common().Args {
					if eng.TypeName(a.Type()) != tLimitItem {
						continue
					}
					src := false
					if u, isU := a.(*ssa.UnOp); isU {
						if cell != nil && u.X == ssa.Value(cell) && caller == sync {
							src = eng.AlwaysBefore(sync, ci.(ssa.Instruction), isSan)
						}
						if al, isA := u.X.(*ssa.Alloc); isA && al != cell {
							// spilled parameter of the caller
							for _, p := range caller.Params {
								if eng.TypeName(p.Type()) == tLimitItem {
									if sv := singleStoreOf(al); sv == ssa.Value(p) {
										src = true
									}
								}
							}
						}
					}
					if caller != sync {
						for _, p := range caller.Params {
							if a == ssa.Value(p) {
								src = true
							}
						}
					} else if a == ssa.Value(sanCall) {
						src = true // the sanitizer's result handed on directly
					}
					if !src {
						good = false
					}
				}
			}
		}
		c.Check("R2s", fn, "limit-item taker "+fn.Name()+" called only with sanitized items", fn.Pos(), good && n > 0, "a new caller could pass an unsanitized server item")
		if good && n > 0 && x.sanitized[sync] {
			x.sanitized[fn] = true
		}
	}
}

// c09OnlyCompared reports whether a loaded item is used only as an operand of DeepEqual
// (the no-change test): comparing the raw item cannot size a limiter.
func c09OnlyCompared(v ssa.Value) bool {
	refs := v.Referrers()
	if refs == nil || len(*refs) == 0 {
		return false
	}
	for _, r := range *refs {
		mi, ok := r.(*ssa.MakeInterface)
		if !ok || mi.Referrers() == nil {
			return false
		}
		for _, rr := range *mi.Referrers() {
			if !eng.IsCall(rr, "reflect.DeepEqual") {
				return false
			}
		}
	}
	return true
}

func singleStoreOf(a *ssa.Alloc) ssa.Value {
	var v ssa.Value
	n := 0
	if a.Referrers() != nil {
		for _, r := range *a.Referrers() {
			if st, ok := r.(*ssa.Store); ok && st.Addr == ssa.Value(a) {
				v = st.Val
				n++
			}
		}
	}
	if n == 1 {
		return v
	}
	return nil
}

// certify checks that san stores, into each numeric member of the item it returns, a value
// in [0, configured global limit], under no other condition than the member's parent being set.
func (x *c09Ctx) certify(san *ssa.Function) bool {
	c := x.c
	all := true
	members := []struct{ typ, field, global, gfield string }{
		{pkgV1alpha1 + ".MaxRequestsInflightFlowControlSchema", "Max", "GlobalMaxRequestsInflight", "Max"},
		{pkgV1alpha1 + ".TokenBucketFlowControlSchema", "QPS", "GlobalTokenBucket", "QPS"},
		{pkgV1alpha1 + ".TokenBucketFlowControlSchema", "Burst", "GlobalTokenBucket", "Burst"},
	}
	// the clamping stores may sit in san or in the helpers its body was spread over
	region := c.W.Region(san)
	for _, m := range members {
		stores := eng.StoresToField(region, m.typ, m.field)
		ok := len(stores) > 0
		detail := ""
		if !ok {
			detail = "member is not overwritten by the sanitizer"
		}
		for _, st := range stores {
			b := eng.NewBounderIn(st.Parent())
			f := b.Facts(st.Val)
			lo := f.HasL(func(t *eng.Term) bool { return t.K == eng.TConst && t.C >= 0 })
			hi := f.HasU(func(t *eng.Term) bool { return x.capTerm(t, m.global, m.gfield) })
			if !lo {
				ok, detail = false, "no lower clamp at 0: "+f.String()
			}
			if !hi {
				ok, detail = false, "no upper clamp at the schema's configured "+m.global+"."+m.gfield+": "+f.String()
			}
			// guards: only nil tests of item members
			gs, complete := c.W.GuardsUp(st, san)
			if !complete {
				ok, detail = false, "the conditions under which the clamp runs cannot be enumerated (helper with several callers)"
			}
			for _, g := range gs {
				r := g.Rel()
				if !(eng.IsNilConst(r.Y) || eng.IsNilConst(r.X)) {
					ok, detail = false, "the clamp is conditional on something else than the member being set"
				}
			}
		}
		c.Check("R2s", san, "sanitizer clamps "+m.field+" into [0, "+m.global+"."+m.gfield+"]", san.Pos(), ok, detail)
		if !ok {
			all = false
		}
	}
	return all
}

// capTerm: t is bounded by the configured global limit: the limit itself, 0, or max() of such.
func (x *c09Ctx) capTerm(t *eng.Term, global, field string) bool {
	switch t.K {
	case eng.TConst:
		return t.C == 0
	case eng.TMax:
		return x.capTerm(t.A, global, field) && x.capTerm(t.B, global, field)
	case eng.TMin:
		return x.capTerm(t.A, global, field) || x.capTerm(t.B, global, field)
	case eng.TVal:
		return x.capValue(t.V, global, field, map[ssa.Value]bool{})
	}
	return false
}

func (x *c09Ctx) capValue(v ssa.Value, global, field string, seen map[ssa.Value]bool) bool {
	v = convOf(v)
	if seen[v] {
		return true
	}
	seen[v] = true
	if p, ok := v.(*ssa.Phi); ok {
		for _, e := range p.Edges {
			if !x.capValue(e, global, field, seen) {
				return false
			}
		}
		return true
	}
	if k, ok := eng.IntConst(v); ok {
		return k == 0
	}
	// "the global limit or zero" computed by a helper returning the value: every return of the
	// helper must yield the configured global limit or 0
	if alts := eng.ResultAlts(v); len(alts) > 0 && len(seen) < 16 {
		for _, alt := range alts {
			if !x.capValue(alt.Val, global, field, seen) {
				return false
			}
		}
		return true
	}
	if c09LeafField(v) == field && pathHas(v, global) && c09HasType(c09PathTypes(v), pkgV1alpha1+".FlowControlSchema", pkgV1alpha1+".FlowControlSchemaConfiguration") {
		return true
	}
	return false
}

// ---- R2 -------------------------------------------------------------------------------

func (x *c09Ctx) conversions() {
	c := x.c
	n := 0
	for _, pkg := range []string{pkgFC, pkgFCRoot, pkgFCRemote} {
		for _, fn := range c.W.FuncsOf(pkg) {
			k := 0
			eng.Instrs(fn, func(ins ssa.Instruction) {
				cv, ok := ins.(*ssa.Convert)
				if !ok || !isUnsigned(cv.Type()) || !isSignedOrFloat(cv.X.Type()) {
					return
				}
				if _, isConst := cv.X.(*ssa.Const); isConst {
					return
				}
				k++
				n++
				good, why := x.nonNeg(cv.X, fn)
				what := eng.PathString(cv.X)
				if strings.HasPrefix(what, "<") {
					what = "value"
					if cc, _ := eng.CallResultOf(cv.X); cc != nil {
						what = shortName(eng.FullName(cc)) + "()"
					}
				}
				c.Check("R2", fn, fmt.Sprintf("unsigned(%s)#%d", what, k), cv.Pos(), good,
					"a negative operand wraps around to a huge unsigned limit; no lower bound ≥ 0 could be derived: "+why)
			})
		}
	}
	if n == 0 {
		c.Fail("R2", nil, "signed→unsigned conversions", 0, "none found")
	}
}

// c09BoundPred judges the bounds f of value v at instruction at of function fn.
type c09BoundPred func(f eng.BoundFacts, v ssa.Value, at ssa.Instruction, fn *ssa.Function) bool

// bounded: bounds of a value, robust to where the value is computed: the facts at the
// instruction (refined by the branch conditions there, seeing through numeric helpers); the
// result of a helper that selects / clamps with early returns is bounded when the value of
// every return statement is (judged in the helper, with the conditions guarding that return);
// a parameter of a helper the use was moved into is bounded when the argument is at every call
// site of the helper.
func (x *c09Ctx) bounded(v ssa.Value, at ssa.Instruction, fn *ssa.Function, pred c09BoundPred, depth int) (bool, string) {
	v = convOf(v)
	f := eng.NewBounderIn(fn).FactsAt(v, at)
	if pred(f, v, at, fn) {
		return true, f.String()
	}
	if depth <= 0 {
		return false, f.String()
	}
	if alts := eng.ResultAlts(v); len(alts) > 0 {
		for _, alt := range alts {
			if ok, _ := x.bounded(alt.Val, alt.Ret, alt.Callee, pred, depth-1); !ok {
				return false, f.String()
			}
		}
		return true, f.String()
	}
	if p, isP := v.(*ssa.Parameter); isP {
		ups := x.c.W.UpArgSites(p)
		if len(ups) == 0 {
			return false, f.String()
		}
		for _, u := range ups {
			if ok, _ := x.bounded(u.Arg, u.Site, u.Site.Parent(), pred, depth-1); !ok {
				return false, f.String()
			}
		}
		return true, f.String()
	}
	return false, f.String()
}

// ---- R3 -------------------------------------------------------------------------------

func (x *c09Ctx) setLimit() {
	c := x.c
	sl := c.MustMethod(pkgFCRemote, "maxInflightWrapper", "SetLimit")
	if sl == nil {
		return
	}
	iface := fcIface(c)
	fromServer := func(v ssa.Value) bool {
		return c.Slicer().DerivesFrom(v, func(y ssa.Value) bool {
			return eng.FieldLoadOf(y, tAcquireResult, "Limit")
		})
	}
	var isMax func(t *eng.Term) bool
	isMax = func(t *eng.Term) bool {
		switch t.K {
		case eng.TVal:
			return eng.FieldLoadOf(t.V, tMaxInflightW, "max")
		case eng.TMax:
			zero := func(u *eng.Term) bool { return u.K == eng.TConst && u.C == 0 }
			return (isMax(t.A) && (zero(t.B) || isMax(t.B))) || (isMax(t.B) && zero(t.A))
		}
		return false
	}
	bounded := x.bounded
	fromServerUp := func(v ssa.Value) bool {
		return c.Slicer().WithUp().DerivesFrom(v, func(y ssa.Value) bool {
			return eng.FieldLoadOf(y, tAcquireResult, "Limit")
		})
	}
	n := 0
	kinds := map[string]bool{}
	check := func(at ssa.Instruction, v ssa.Value, what string) {
		v = convOf(v)
		n++
		fn := at.Parent()
		if fromServer(v) || fromServerUp(v) {
			kinds[what+" from the reply"] = true
			lo, _ := bounded(v, at, fn, func(_ eng.BoundFacts, w ssa.Value, a ssa.Instruction, g *ssa.Function) bool {
				good, _ := x.nonNegAt(w, a, g, 0)
				return good
			}, eng.LiftDepth)
			hi, facts := bounded(v, at, fn, func(f eng.BoundFacts, _ ssa.Value, _ ssa.Instruction, _ *ssa.Function) bool { return f.HasU(isMax) }, eng.LiftDepth)
			c.Check("R3", sl, fmt.Sprintf("%s#%d from the reply ∈ [0, max]", what, n), at.Pos(), lo && hi,
				"a limit answered by the limiter server is applied without being clamped into [0, configured global max]: "+facts)
		} else {
			// error branch: at least the local limit
			kinds[what+" on server failure"] = true
			lo, facts := bounded(v, at, fn, func(f eng.BoundFacts, _ ssa.Value, _ ssa.Instruction, _ *ssa.Function) bool {
				return f.HasL(func(t *eng.Term) bool {
					return t.K == eng.TVal && c09LeafField(t.V) == "Max" && pathHas(t.V, "MaxRequestsInflight") && !pathHas(t.V, "GlobalMaxRequestsInflight") &&
						c09HasType(c09PathTypes(t.V), pkgV1alpha1+".FlowControlSchema", pkgV1alpha1+".FlowControlSchemaConfiguration")
				})
			}, eng.LiftDepth)
			c.Check("R3", sl, fmt.Sprintf("%s#%d on server failure ≥ local limit", what, n), at.Pos(), lo,
				"while the server is failing the limiter must be sized from the locally configured limit (or the observed in-flight level if higher): "+facts)
		}
	}
	// the sinks may sit in SetLimit or in the helpers its body was spread over
	for _, fn := range c.W.Region(sl) {
		if fn != sl && !c.W.OwnedBy(fn, sl) {
			continue
		}
		for _, ci := range eng.Calls(fn) {
			if iface != nil && isFCCall(ci, iface, "Resize") {
				check(ci, eng.Args(ci)[0], "Resize")
			}
			if eng.IsCall(ci, "sync/atomic.StoreInt32") && eng.FieldAddrOf(eng.Args(ci)[0], tMaxInflightW, "acquiredMaxInflight") {
				check(ci, eng.Args(ci)[1], "acquired limit")
			}
		}
	}
	// no vacuous pass: each kind of sink must exist, however many sites the branches were merged
	// into (accept and refuse may share one store + Resize fed by a helper returning the limit)
	for _, k := range []string{"Resize from the reply", "acquired limit from the reply", "Resize on server failure"} {
		if !kinds[k] {
			c.Fail("R3", sl, "limit sinks in SetLimit", sl.Pos(), fmt.Sprintf("no sink of kind %q found in SetLimit (%d sinks in all): expected the limiter to be resized and the grant recorded from the reply, and the limiter resized on server failure", k, n))
		}
	}
	// max is stored only from unsigned sizes or sanitized items
	for i, st := range eng.StoresToField(c.W.FuncsOf(pkgFCRemote), tMaxInflightW, "max") {
		fn := st.Parent()
		v := convOf(st.Val)
		ok := isUnsigned(v.Type()) || x.trustedLeaf(v, fn)
		c.Check("R3", fn, fmt.Sprintf("store max#%d from a trusted size", i+1), st.Pos(), ok, "maxInflightWrapper.max is the upper clamp of server limits: it must come from the (sanitized) configured global max")
	}
}
