package rules

// C11 Hot reload converges to the latest object's config, whatever the history.
// Structural necessary conditions: ClusterInfo.Sync applies every sub-syncer on every
// successful path and feeds each from the object (R1); feature gates are a function of the
// object alone (R2); the controller applies the lister's latest object, not the dequeued
// one (R3); the diff-based syncers visit every new element and delete every stale one (R4).

import (
	"fmt"
	"go/constant"
	"go/token"
	"go/types"
	"strings"

	"golang.org/x/tools/go/ssa"

	"kgv/internal/eng"
)

func init() {
	Register("C11", c11)
	RegisterFixture("C11", c11Fixtures)
}

const (
	c11TObjectMeta  = "k8s.io/apimachinery/pkg/apis/meta/v1.ObjectMeta"
	c11TClusterSpec = pkgV1alpha1 + ".UpstreamClusterSpec"
	c11TCluster     = pkgV1alpha1 + ".UpstreamCluster"
	c11TSchema      = pkgV1alpha1 + ".FlowControlSchema"
	c11TFlowControl = pkgV1alpha1 + ".FlowControl"
	c11TServer      = pkgV1alpha1 + ".UpstreamClusterServer"
	c11TGate        = "k8s.io/component-base/featuregate.MutableFeatureGate"
	c11TSet         = "github.com/zoumo/goset.Set"
	c11TLimiter     = pkgFCRoot + ".upstreamLimiter"
	c11TFCMap       = pkgFCRemote + ".FlowControlMap"
)

// ---------------------------------------------------------------------------------------
// template: "every successful path passes P"

// c11MaybeNilReturns returns the Return instructions of fn on which the error result (the
// last result, when fn returns an error) may be nil: a constant nil, or a value the return
// is not control-dependent on being non-nil. Functions without an error result: every Return.
func c11MaybeNilReturns(fn *ssa.Function) []*ssa.Return {
	var out []*ssa.Return
	res := fn.Signature.Results()
	hasErr := res.Len() > 0 && res.At(res.Len()-1).Type().String() == "error"
	eng.Instrs(fn, func(ins ssa.Instruction) {
		r, ok := ins.(*ssa.Return)
		if !ok || ins.Block() == fn.Recover {
			return
		}
		if !hasErr {
			out = append(out, r)
			return
		}
		v := r.Results[len(r.Results)-1]
		if eng.IsNilConst(v) {
			out = append(out, r)
			return
		}
		if eng.GuardedByNil(r, func(x ssa.Value) bool { return x == v }, false) {
			return // definitely an error path
		}
		out = append(out, r)
	})
	return out
}

// c11EverySuccessPathPasses reports the first maybe-nil Return of fn (not exempted) that is
// reachable from the entry without executing an instruction satisfying passes; nil if none.
func c11EverySuccessPathPasses(fn *ssa.Function, passes func(ssa.Instruction) bool, exempt func(*ssa.Return) bool) *ssa.Return {
	res := fn.Signature.Results()
	hasErr := res.Len() > 0 && res.At(res.Len()-1).Type().String() == "error"
	for _, r := range c11MaybeNilReturns(fn) {
		if exempt != nil && exempt(r) {
			continue
		}
		// a single exit `return err` serves the failing and the successful paths: the paths on
		// which the returned error is known to be non-nil are not successful paths
		var cut func(from *ssa.BasicBlock, succIdx int) bool
		if rr := eng.ReturnResults(r); hasErr && len(rr) > 0 && !eng.IsNilConst(rr[len(rr)-1]) {
			v := rr[len(rr)-1]
			cut = func(from *ssa.BasicBlock, succIdx int) bool { return c11EdgeMakesNonNil(from, succIdx, v) }
		}
		cut0, r := cut, r
		cut = func(from *ssa.BasicBlock, succIdx int) bool {
			return (cut0 != nil && cut0(from, succIdx)) || c11ChainedErrEdge(from, succIdx, r)
		}
		if eng.ReachFromEntry(fn, eng.PathQuery{Target: func(i ssa.Instruction) bool { return i == ssa.Instruction(r) }, Avoid: passes, BlockEdge: cut}) != nil {
			return r
		}
	}
	return nil
}

// c11ChainedErrEdge recognises the chained-error idiom
//
//	err := a(); if err == nil { err = b() }; if err != nil { return err }; …; return nil
//
// The edge from → B (= from.Succs[succIdx]) carries a value known non-nil on that edge into a
// phi of B, B branches on that phi being nil, and the return r under consideration cannot be
// reached from B's non-nil successor: every path over this edge continues on the non-nil side,
// so no path over it reaches r and the edge can be cut for r (the path "a failed, b skipped,
// success returned" is infeasible).
func c11ChainedErrEdge(from *ssa.BasicBlock, succIdx int, r *ssa.Return) bool {
	if succIdx < 0 || succIdx >= len(from.Succs) {
		return false
	}
	b := from.Succs[succIdx]
	if len(b.Succs) != 2 {
		return false
	}
	pi, n := -1, 0
	for i, p := range b.Preds {
		if p == from {
			pi, n = i, n+1
		}
	}
	if n != 1 {
		return false
	}
	isNonNilOn := func(blk *ssa.BasicBlock, k int, x ssa.Value) bool {
		for _, rel := range eng.EdgeRels(blk, k) {
			if rel.Op == token.NEQ && ((rel.X == x && eng.IsNilConst(rel.Y)) || (rel.Y == x && eng.IsNilConst(rel.X))) {
				return true
			}
		}
		return false
	}
	for _, ins := range b.Instrs {
		phi, ok := ins.(*ssa.Phi)
		if !ok {
			break
		}
		if pi >= len(phi.Edges) || eng.IsNilConst(phi.Edges[pi]) || !isNonNilOn(from, succIdx, phi.Edges[pi]) {
			continue
		}
		for k := 0; k < 2; k++ {
			if !isNonNilOn(b, k, phi) {
				continue
			}
			// the other successor is the nil side; r must be unreachable from the non-nil side
			if eng.ReachFromBlock(b.Succs[k], eng.PathQuery{Target: func(i ssa.Instruction) bool { return i == ssa.Instruction(r) }}) == nil {
				return true
			}
		}
	}
	return false
}

// c11EdgeMakesNonNil reports whether taking the CFG edge from → from.Succs[succIdx] establishes
// that v is non-nil when it is returned: the edge is the branch `v != nil` (however the
// condition is written), or v is a phi at the edge's target whose value flowing in over this
// edge is known non-nil on it.
func c11EdgeMakesNonNil(from *ssa.BasicBlock, succIdx int, v ssa.Value) bool {
	if succIdx < 0 || succIdx >= len(from.Succs) {
		return false
	}
	nonNil := func(x ssa.Value) bool {
		for _, r := range eng.EdgeRels(from, succIdx) {
			if r.Op != token.NEQ {
				continue
			}
			if (r.X == x && eng.IsNilConst(r.Y)) || (r.Y == x && eng.IsNilConst(r.X)) {
				return true
			}
		}
		return false
	}
	if _, isPhi := v.(*ssa.Phi); !isPhi {
		// v is defined once: the fact, established on an edge v's definition dominates, still holds at the return
		return nonNil(v)
	}
	phi := v.(*ssa.Phi)
	to := from.Succs[succIdx]
	if to == phi.Block() {
		for i, p := range to.Preds {
			if p == from && i < len(phi.Edges) && !eng.IsNilConst(phi.Edges[i]) && nonNil(phi.Edges[i]) {
				return true
			}
		}
		return false
	}
	// an edge below the phi (the phi's block dominates it) testing the phi itself
	return nonNil(v)
}

// c11Passes lifts a call predicate through same-package helpers: an instruction passes P
// if it is a P call, or a plain call to a function of package pkg every successful path of
// which passes P (bounded depth) — so extracting a block into a helper changes nothing.
func c11Passes(pkg string, is func(ssa.CallInstruction) bool, depth int) func(ssa.Instruction) bool {
	var rec func(d int) func(ssa.Instruction) bool
	rec = func(d int) func(ssa.Instruction) bool {
		return func(ins ssa.Instruction) bool {
			ci, ok := ins.(*ssa.Call)
			if !ok {
				return false
			}
			if is(ci) {
				return true
			}
			f := eng.CalleeFn(ci)
			if d == 0 || f == nil || f.Blocks == nil || f.Pkg == nil || f.Pkg.Pkg.Path() != pkg {
				return false
			}
			return len(c11MaybeNilReturns(f)) > 0 && c11EverySuccessPathPasses(f, rec(d-1), nil) == nil
		}
	}
	return rec(depth)
}

// c11FindCalls returns the calls satisfying is in fn and, to the given depth, in the
// same-package functions fn calls.
func c11FindCalls(fn *ssa.Function, pkg string, is func(ssa.CallInstruction) bool, depth int, seen map[*ssa.Function]bool) []ssa.CallInstruction {
	if seen[fn] {
		return nil
	}
	seen[fn] = true
	var out []ssa.CallInstruction
	for _, f := range eng.WithClosures(fn) {
		for _, ci := range eng.Calls(f) {
			if is(ci) {
				out = append(out, ci)
				continue
			}
			if g := eng.CalleeFn(ci); depth > 0 && g != nil && g.Blocks != nil && g.Pkg != nil && g.Pkg.Pkg.Path() == pkg {
				out = append(out, c11FindCalls(g, pkg, is, depth-1, seen)...)
			}
		}
	}
	return out
}

func c11(c *eng.Ctx) {
	defer c11Extra(c)
	c.Rule("R1", "no conditional skipping: every path through ClusterInfo.Sync that may return nil (the name-mismatch return excepted) passes all seven sub-syncers — feature gates, ResetLimiter, flow-control Sync, secure serving, endpoints, policy store, logging store — each fed from the synced object (gates before ResetLimiter)", 15)
	c.Rule("R2", "gates are a function of the object: every MutableFeatureGate.Set reachable from Sync acts on a fresh DeepCopy() of the defaults created in the same call and installed afterwards; every stored gate is such a copy; an absent annotation resets to the defaults", 5)
	c.Rule("R3", "the latest object is applied: the object the queue's sync handler passes to ClusterInfo.Sync / CreateClusterInfo derives from the lister's Get result, not from the dequeued item (the pass-through queue requeues the same pointer after a failure)", 2)
	c.Rule("R4", "diff-based syncers are complete: LocalFlowControl().Sync(newSchema) runs on every iteration over the new schemas for the limiter registered under that name; every name in old∖new is deleted; syncEndpoints calls addOrUpdateEndpoint for every wanted endpoint with its disabled flag and returns its error; the skip flag is fixed at creation", 9)

	c11R1(c)
	c11R2(c)
	c11R3(c)
	c11R4(c)
}

// The sub-syncers of ClusterInfo.Sync, by name and — after a rename or a method → function
// conversion — by role: the function of the package working on a ClusterInfo (receiver or
// parameter) that takes the part of the object it applies (the annotations map, the
// SecureServing section, the server list) and does not merely forward it.
func c11SubSyncer(c *eng.Ctx, name string, match func(types.Type) bool, also func(*ssa.Function) bool) *ssa.Function {
	return roleAnchor(c, c.W.Method(pkgClusters, "ClusterInfo", name), "method ("+pkgClusters+".ClusterInfo)."+name, func() []*ssa.Function {
		var cs []*ssa.Function
		for _, f := range funcsWithParam(c, pkgClusters, match) {
			if hasSelf(f, tClusterInfo) && (also == nil || also(f)) {
				cs = append(cs, f)
			}
		}
		return deepest(cs)
	})
}

func c11GateSyncer(c *eng.Ctx) *ssa.Function {
	isAnnotations := func(t types.Type) bool {
		m, ok := t.Underlying().(*types.Map)
		if !ok {
			return false
		}
		k, ok1 := m.Key().Underlying().(*types.Basic)
		v, ok2 := m.Elem().Underlying().(*types.Basic)
		return ok1 && ok2 && k.Kind() == types.String && v.Kind() == types.String
	}
	return c11SubSyncer(c, "syncFeatureGate", isAnnotations, func(f *ssa.Function) bool {
		// … that applies gates: a MutableFeatureGate.Set / SetFromMap is reachable in its region
		for _, g := range c.W.Region(f) {
			if len(eng.CallsTo(g, "("+c11TGate+").Set", "("+c11TGate+").SetFromMap")) > 0 {
				return true
			}
		}
		return false
	})
}

func c11SecureSyncer(c *eng.Ctx) *ssa.Function {
	return c11SubSyncer(c, "syncSecureServingConfigLocked", namedOrPtrTo(pkgV1alpha1+".SecureServing"), nil)
}

func c11EndpointSyncer(c *eng.Ctx) *ssa.Function {
	isServers := func(t types.Type) bool {
		sl, ok := t.Underlying().(*types.Slice)
		return ok && eng.TypeName(sl.Elem()) == c11TServer
	}
	return c11SubSyncer(c, "syncEndpoints", isServers, nil)
}

// paramOfType returns the first parameter of fn (receiver included) whose type satisfies match;
// the parameter at position dflt when none does.
func paramOfType(fn *ssa.Function, match func(types.Type) bool, dflt int) *ssa.Parameter {
	for _, p := range fn.Params {
		if match(p.Type()) {
			return p
		}
	}
	if dflt < len(fn.Params) {
		return fn.Params[dflt]
	}
	return nil
}

// c11EndpointAdder: ClusterInfo.addOrUpdateEndpoint — by role the function working on a
// ClusterInfo with the signature (endpoint string, disabled bool) error.
func c11EndpointAdder(c *eng.Ctx) *ssa.Function {
	return roleAnchor(c, c.W.Method(pkgClusters, "ClusterInfo", "addOrUpdateEndpoint"), "method ("+pkgClusters+".ClusterInfo).addOrUpdateEndpoint", func() []*ssa.Function {
		var cs []*ssa.Function
		for _, f := range c.W.FuncsOf(pkgClusters) {
			if f.Parent() != nil || f.Synthetic != "" || f.Blocks == nil || !hasSelf(f, tClusterInfo) {
				continue
			}
			ps, rs := f.Signature.Params(), f.Signature.Results()
			var str, bl int
			for i := 0; i < ps.Len(); i++ {
				if b, ok := ps.At(i).Type().Underlying().(*types.Basic); ok {
					switch b.Kind() {
					case types.String:
						str++
					case types.Bool:
						bl++
					}
				}
			}
			if str == 1 && bl == 1 && rs.Len() == 1 && rs.At(0).Type().String() == "error" {
				cs = append(cs, f)
			}
		}
		return cs
	})
}

// ---- R1 --------------------------------------------------------------------------------
// Protects: "each cluster's effective … are those of its latest object". A sub-syncer that
// is skipped on some successful path leaves that part of the state at the previous
// version (F11a: no annotations ⇒ gates of the previous object stay switched on).
func c11R1(c *eng.Ctx) {
	sync := c.MustMethod(pkgClusters, "ClusterInfo", "Sync")
	gates, secure, endpoints := c11GateSyncer(c), c11SecureSyncer(c), c11EndpointSyncer(c)
	if sync == nil || gates == nil || secure == nil || endpoints == nil {
		return
	}
	callTo := func(f *ssa.Function) func(ssa.CallInstruction) bool {
		return func(ci ssa.CallInstruction) bool { return eng.CalleeFn(ci) == f }
	}
	limiterCall := func(method string) func(ssa.CallInstruction) bool {
		return func(ci ssa.CallInstruction) bool {
			return eng.IsCall(ci, "("+pkgFCRoot+".UpstreamLimiter)."+method) && eng.FieldLoadOf(eng.Receiver(ci), tClusterInfo, "flowcontrol")
		}
	}
	atomicStore := func(field string) func(ssa.CallInstruction) bool {
		return func(ci ssa.CallInstruction) bool {
			return eng.IsCall(ci, "(*sync/atomic.Value).Store") && eng.FieldAddrOf(eng.Receiver(ci), tClusterInfo, field)
		}
	}
	sl := c.Slicer()
	sa := sl.WithArgs()
	// fromObject: the value derives from field `field` of struct type `typ` of an
	// *UpstreamCluster parameter (a helper of Sync may receive a part of the object, e.g. a
	// pointer to its Spec: parameters of such helpers are traced into their call sites).
	fromObject := func(typ, field string) func(ssa.Value) bool {
		return func(v ssa.Value) bool {
			sl := sl.WithUp()
			viaField := sl.DerivesFrom(v, func(x ssa.Value) bool { return eng.FieldAddrOf(x, typ, field) || eng.FieldLoadOf(x, typ, field) })
			viaParam := sl.DerivesFrom(v, func(x ssa.Value) bool {
				prm, ok := x.(*ssa.Parameter)
				return ok && eng.TypeName(prm.Type()) == c11TCluster
			})
			return viaField && viaParam
		}
	}
	type sub struct {
		name  string
		is    func(ssa.CallInstruction) bool
		input func(ssa.Value) bool
		what  string
	}
	subs := []sub{
		{"feature gates", callTo(gates), fromObject(c11TObjectMeta, "Annotations"), "the object's annotations"},
		{"ResetLimiter", limiterCall("ResetLimiter"), func(v ssa.Value) bool {
			return sa.DerivesFrom(v, func(x ssa.Value) bool { return eng.FieldLoadOf(x, tClusterInfo, "featuregate") })
		}, "the gates just synced (ClusterInfo.featuregate)"},
		{"flow-control Sync", limiterCall("Sync"), fromObject(c11TClusterSpec, "FlowControl"), "Spec.FlowControl"},
		{"secure serving", callTo(secure), fromObject(c11TClusterSpec, "SecureServing"), "Spec.SecureServing"},
		{"endpoints", callTo(endpoints), fromObject(c11TClusterSpec, "Servers"), "Spec.Servers"},
		{"policy store", atomicStore("currentDispatchPolicies"), fromObject(c11TClusterSpec, "DispatchPolicies"), "Spec.DispatchPolicies"},
		{"logging store", atomicStore("currentLoggingConfig"), fromObject(c11TClusterSpec, "Logging"), "Spec.Logging"},
	}
	nameMismatch := func(r *ssa.Return) bool {
		return eng.GuardedBy(r, func(rel eng.Rel) bool {
			return rel.Op == token.NEQ && (eng.FieldLoadOf(rel.X, tClusterInfo, "Cluster") || eng.FieldLoadOf(rel.Y, tClusterInfo, "Cluster"))
		})
	}
	for _, s := range subs {
		passes := c11Passes(pkgClusters, s.is, 2)
		bad := c11EverySuccessPathPasses(sync, passes, nameMismatch)
		pos := sync.Pos()
		if bad != nil {
			pos = bad.Pos()
		}
		c.Check("R1", sync, "sub-syncer "+s.name+" on every successful path", pos, bad == nil,
			"a path through Sync returns nil without running this sub-syncer: that part of the cluster's state keeps the previous object's value (history-dependent)")
		sites := c11FindCalls(sync, pkgClusters, s.is, 2, map[*ssa.Function]bool{})
		if len(sites) == 0 {
			c.Fail("R1", sync, "sub-syncer "+s.name+" fed from the object", sync.Pos(), "the sub-syncer is never called from Sync")
			continue
		}
		ok := true
		for _, ci := range sites {
			// the input is the first argument that is not the ClusterInfo itself (a sub-syncer
			// turned into a function takes the ClusterInfo as an ordinary argument)
			var in ssa.Value
			for _, a := range eng.Args(ci) {
				if in == nil && !namedOrPtrTo(tClusterInfo)(a.Type()) {
					in = a
				}
			}
			ok = ok && in != nil && s.input(in)
		}
		c.Check("R1", sync, "sub-syncer "+s.name+" fed from the object", sites[0].Pos(), ok, "the sub-syncer's input must be "+s.what)
	}
	// ordering: the limiter type depends on the GlobalRateLimiter gate
	okOrder := true
	for _, ci := range eng.Calls(sync) {
		if limiterCall("ResetLimiter")(ci) && !eng.NeverAfter(ci, func(i ssa.Instruction) bool { cc, ok := i.(*ssa.Call); return ok && callTo(gates)(cc) }) {
			okOrder = false
		}
	}
	c.Check("R1", sync, "feature gates are not synced after ResetLimiter", sync.Pos(), okOrder, "ResetLimiter reads the GlobalRateLimiter gate: syncing the gates afterwards leaves the limiter type one version behind")
}

// ---- R2 --------------------------------------------------------------------------------
// Protects: history independence of the gates. featuregate.Set merges the given map into
// the receiver, so a gate named by an earlier version and omitted by the latest one stays
// at the earlier value unless the receiver is a fresh copy of the defaults (F11b).
func c11R2(c *eng.Ctx) {
	sync := c.MustMethod(pkgClusters, "ClusterInfo", "Sync")
	if sync == nil {
		return
	}
	sl := c.Slicer()
	isDefaultsCopy := func(v ssa.Value) bool {
		cc, _ := eng.CallResultOf(v)
		// DeepCopy is declared by the embedded featuregate.FeatureGate interface
		if cc == nil || !eng.MethodNameIs(cc, "DeepCopy") || eng.TypeName(cc.Type()) != c11TGate {
			return false
		}
		return sl.DerivesFrom(eng.Receiver(cc), func(x ssa.Value) bool {
			g, ok := x.(*ssa.Global)
			return ok && g.Name() == "DefaultMutableFeatureGate" && g.Pkg != nil && g.Pkg.Pkg.Path() == pkgFeatures
		})
	}
	isKept := func(v ssa.Value) bool { return eng.FieldLoadOf(v, tClusterInfo, "featuregate") }
	// origins of a gate value: fresh copies, the kept gate, anything else
	classify := func(v ssa.Value) (fresh []ssa.Value, kept, other bool) {
		for _, leaf := range sl.Leaves(v, func(x ssa.Value) bool { cc, _ := eng.CallResultOf(x); return cc != nil || isKept(x) }) {
			switch {
			case isDefaultsCopy(leaf):
				fresh = append(fresh, leaf)
			case isKept(leaf):
				kept = true
			default:
				other = true
			}
		}
		return
	}
	isGateStore := func(i ssa.Instruction) bool {
		st, ok := i.(*ssa.Store)
		return ok && eng.FieldAddrOf(st.Addr, tClusterInfo, "featuregate")
	}

	// (a) every Set / SetFromMap reachable from Sync
	isSet := func(ci ssa.CallInstruction) bool {
		return eng.IsCall(ci, "("+c11TGate+").Set", "("+c11TGate+").SetFromMap")
	}
	sets := c11FindCalls(sync, pkgClusters, isSet, 3, map[*ssa.Function]bool{})
	if len(sets) == 0 {
		c.Fail("R2", sync, "MutableFeatureGate.Set#1 on a fresh copy of the defaults", sync.Pos(), "no Set on a feature gate is reachable from Sync: the feature-gate annotation is never applied")
	}
	for k, ci := range sets {
		fn := ci.Parent()
		fresh, kept, other := classify(eng.Receiver(ci))
		ok, why := true, "the receiver of Set is a DeepCopy() of the default gates made in this call and stored into ClusterInfo.featuregate afterwards"
		switch {
		case kept:
			ok, why = false, "Set is applied to the gate kept from the previous version (ClusterInfo.featuregate): Set merges, so a gate switched on by an earlier object and no longer listed by the latest one stays on"
		case other || len(fresh) == 0:
			ok, why = false, "the receiver of Set is not a fresh DeepCopy() of features.DefaultMutableFeatureGate"
		default:
			// the fresh gate must be installed on the path after Set
			installed := eng.ReachAfter(ci, eng.PathQuery{Target: func(i ssa.Instruction) bool {
				st, isSt := i.(*ssa.Store)
				if !isSt || !isGateStore(i) {
					return false
				}
				for _, f := range fresh {
					if sl.DerivesFrom(st.Val, func(x ssa.Value) bool { return x == f }) {
						return true
					}
				}
				return false
			}}) != nil
			if !installed {
				ok, why = false, "the fresh gate Set was applied to is never stored into ClusterInfo.featuregate: the annotation has no effect"
			}
		}
		if !ok {
			// the gate may travel through helper results before it is installed (a helper returning
			// the gate with a `changed` flag): decide on the paths of the gate syncer
			if g := c11GateSyncer(c); g != nil && c11GatesInstalledFresh(c, g) {
				ok, why = true, "on every successful path that applies the annotation, Set acts on a fresh DeepCopy() of the defaults which is the gate left in ClusterInfo.featuregate (decided by forcing)"
			}
		}
		c.Check("R2", fn, fmt.Sprintf("MutableFeatureGate.Set#%d on a fresh copy of the defaults", k+1), ci.Pos(), ok, why)
		// the argument is the object's annotation value (possibly handed down to a helper)
		a := eng.Args(ci)
		slu := sl.WithUp()
		okArg := len(a) == 1 && slu.DerivesFrom(a[0], func(x ssa.Value) bool {
			lk, isL := x.(*ssa.Lookup)
			if !isL {
				return false
			}
			return slu.DerivesFrom(lk.Index, func(y ssa.Value) bool {
				g, isG := y.(*ssa.Global)
				return isG && g.Name() == "FeatureGateAnnotationKey"
			})
		})
		c.Check("R2", fn, fmt.Sprintf("MutableFeatureGate.Set#%d argument is the feature-gate annotation", k+1), ci.Pos(), okArg, "the gates must be parsed from annotations[features.FeatureGateAnnotationKey] of the synced object")
	}

	// (b) every gate ever stored into a ClusterInfo is a fresh copy of the defaults
	stores := eng.StoresToField(c.W.AllRepoFuncs(), tClusterInfo, "featuregate")
	if len(stores) == 0 {
		c.Fail("R2", nil, "store ClusterInfo.featuregate", 0, "the gate field is never initialised")
	}
	n := map[string]int{}
	for _, st := range stores {
		fn := st.Parent()
		n[eng.FuncName(fn)]++
		fresh, kept, other := classify(st.Val)
		okStore := len(fresh) > 0 && !kept && !other
		if !okStore {
			// which value is stored may depend on the path (a helper returning the gate together
			// with a flag that guards the store): decide on the paths of the storing function
			okStore = c11GateStoresFresh(c, c06Outermost(fn))
		}
		c.Check("R2", fn, fmt.Sprintf("store ClusterInfo.featuregate#%d is a fresh copy of the defaults", n[eng.FuncName(fn)]), st.Pos(), okStore,
			"a cluster's gates must start from a private copy of the defaults (sharing the default gate or another cluster's gate couples clusters and histories)")
	}

	// (c) absent / empty annotation ⇒ defaults: in the gate syncer, on the edge where the
	// annotation value is empty every path stores a fresh copy or has established
	// IsDefault(current) == true.
	gates := c11GateSyncer(c)
	if gates == nil {
		return
	}
	isLenOfAnnotation := func(v ssa.Value) bool {
		cc, ok := v.(*ssa.Call)
		if !ok || !isBuiltin(cc, "len") {
			return false
		}
		_, isL := cc.Call.Args[0].(*ssa.Lookup)
		return isL
	}
	var emptyEdges []*ssa.BasicBlock
	for _, b := range gates.Blocks {
		iff, ok := b.Instrs[len(b.Instrs)-1].(*ssa.If)
		if !ok {
			continue
		}
		r := eng.RelOf(iff.Cond, true)
		z, isK := eng.IntConst(r.Y)
		if !isLenOfAnnotation(r.X) || !isK || z != 0 {
			continue
		}
		switch r.Op {
		case token.EQL, token.LEQ:
			emptyEdges = append(emptyEdges, b.Succs[0])
		case token.NEQ, token.GTR:
			emptyEdges = append(emptyEdges, b.Succs[1])
		}
	}
	isDefaultTrueEdge := func(from *ssa.BasicBlock, succ int) bool {
		iff, ok := from.Instrs[len(from.Instrs)-1].(*ssa.If)
		if !ok {
			return false
		}
		r := eng.RelOf(iff.Cond, true)
		cc, _ := eng.CallResultOf(r.X)
		if cc == nil || !eng.IsCall(cc, pkgFeatures+".IsDefault") || !sl.DerivesFrom(eng.Args(cc)[0], isKept) {
			return false
		}
		condTrueMeansDefault := (r.Op == token.EQL && eng.IsBoolConst(r.Y, true)) || (r.Op == token.NEQ && eng.IsBoolConst(r.Y, false))
		return (succ == 0) == condTrueMeansDefault
	}
	isFreshStore := func(i ssa.Instruction) bool {
		st, ok := i.(*ssa.Store)
		if !ok || !isGateStore(i) {
			return false
		}
		fresh, kept, other := classify(st.Val)
		return len(fresh) > 0 && !kept && !other
	}
	if len(emptyEdges) == 0 {
		// no special case for the empty value: then every successful path must install a fresh gate
		bad := c11EverySuccessPathPasses(gates, isFreshStore, nil)
		c.Check("R2", gates, "absent annotation ⇒ default gates", gates.Pos(), bad == nil || c11GatesResetWhenAbsent(c, gates), "without a feature-gate annotation the gates must be reset to a fresh copy of the defaults")
	} else {
		ok := true
		for _, e := range emptyEdges {
			if eng.ReachFromBlock(e, eng.PathQuery{Target: eng.IsExit, Avoid: isFreshStore, BlockEdge: isDefaultTrueEdge}) != nil {
				ok = false
			}
		}
		c.Check("R2", gates, "absent annotation ⇒ default gates", gates.Pos(), ok || c11GatesResetWhenAbsent(c, gates), "on the empty-annotation edge every path must store a fresh copy of the defaults unless IsDefault(current gates) holds: otherwise gates of a previous version survive the removal of the annotation")
	}
}

// c11GateForce decides the R2 clauses by forcing when the structural reading fails, i.e. when a
// refactoring spread the gate syncer over helpers that return the gate together with flags
// (`gates, changed, err := gatesFor(value, c.featuregate)`): which gate is stored then depends
// on the path. The paths of root (same-package callees followed) are enumerated with
//
//   - the gate currently kept in ClusterInfo.featuregate tagged "kept",
//   - every DeepCopy() of the default gates tagged "fresh@<site>",
//   - Set / SetFromMap answering nil (the success path) and recording the tag of its receiver,
//   - optionally len(<annotation value>) and features.IsDefault(…) pinned.
//
// The tags travel with the abstract values through phis, tuple results and parameters.
type c11GatePath struct {
	stored   []string // tags of the values found in cells named …featuregate at the end of the path ("" = untagged)
	setOn    []string // tags of the receivers of the Set calls executed
	maybeNil bool     // the path may return a nil error
}

func c11GateForce(c *eng.Ctx, root *ssa.Function, pinLen *int64, pinIsDefault *bool) ([]c11GatePath, error) {
	sl := c.Slicer().WithUp()
	isDefaults := func(v ssa.Value) bool {
		return sl.DerivesFrom(v, func(x ssa.Value) bool {
			g, ok := x.(*ssa.Global)
			return ok && g.Name() == "DefaultMutableFeatureGate" && g.Pkg != nil && g.Pkg.Pkg.Path() == pkgFeatures
		})
	}
	isAnnotationValue := func(v ssa.Value) bool {
		return sl.DerivesFrom(v, func(x ssa.Value) bool {
			lk, isL := x.(*ssa.Lookup)
			return isL && sl.DerivesFrom(lk.Index, func(y ssa.Value) bool {
				g, isG := y.(*ssa.Global)
				return isG && g.Name() == "FeatureGateAnnotationKey"
			})
		})
	}
	tagOf := func(av eng.AV) string {
		if av.K == eng.NonNilV && av.C != nil && av.C.Kind() == constant.String {
			return constant.StringVal(av.C)
		}
		return ""
	}
	in := &eng.Interp{W: c.W, Depth: eng.LiftDepth, FollowCall: func(callee *ssa.Function) bool { return callee.Pkg == root.Pkg }}
	nSet := 0
	in.PinCall = func(cc *ssa.Call, idx int, st *eng.State) (eng.AV, bool) {
		switch {
		case eng.MethodNameIs(cc, "DeepCopy") && eng.TypeName(cc.Type()) == c11TGate && isDefaults(eng.Receiver(cc)):
			return eng.AV{K: eng.NonNilV, C: constant.MakeString(fmt.Sprintf("fresh@%d", cc.Pos()))}, true
		case eng.IsCall(cc, "("+c11TGate+").Set", "("+c11TGate+").SetFromMap"):
			if idx < 0 {
				// a note that travels with the path: the tag of the gate Set acts on
				nSet++
				st.SetMem(fmt.Sprintf("note:set#%d", nSet), eng.AV{K: eng.NonNilV, C: constant.MakeString("on:" + tagOf(in.Eval(eng.Receiver(cc), st)))})
			}
			return eng.AV{K: eng.NilV}, true
		case pinIsDefault != nil && eng.IsCall(cc, pkgFeatures+".IsDefault"):
			return eng.AVBool(*pinIsDefault), true
		case pinLen != nil && isBuiltin(cc, "len") && len(cc.Call.Args) == 1 && isAnnotationValue(cc.Call.Args[0]):
			return eng.AVInt(*pinLen), true
		}
		return eng.AV{}, false
	}
	in.PinLoad = func(ld *ssa.UnOp, path string) (eng.AV, bool) {
		if eng.FieldLoadOf(ld, tClusterInfo, "featuregate") {
			return eng.AV{K: eng.NonNilV, C: constant.MakeString("kept")}, true // a store on the path overrides the pin
		}
		return eng.AV{}, false
	}
	paths, err := in.Run(root, nil)
	if err != nil {
		return nil, err
	}
	var out []c11GatePath
	for _, pr := range paths {
		if pr.Panicked || pr.Final == nil {
			continue
		}
		gp := c11GatePath{maybeNil: true}
		if n, res := len(pr.Ret), root.Signature.Results(); n > 0 && res.Len() > 0 && res.At(res.Len()-1).Type().String() == "error" {
			gp.maybeNil = pr.Ret[n-1].K != eng.NonNilV
		}
		for _, k := range pr.Final.MemKeys() {
			av, _ := pr.Final.Mem(k)
			switch {
			case strings.HasPrefix(k, "note:set#"):
				gp.setOn = append(gp.setOn, strings.TrimPrefix(tagOf(av), "on:"))
			case strings.HasSuffix(k, ".featuregate"):
				if tagOf(av) == "" && (av.K == eng.NilV || av.K == eng.NonNilV) {
					continue // refined by a nil comparison, not stored
				}
				gp.stored = append(gp.stored, tagOf(av))
			}
		}
		out = append(out, gp)
	}
	return out, nil
}

// c11GatesInstalledFresh (forcing form of R2 a): with a non-empty annotation and a successful
// Set, on every successful path that applies the annotation the gate Set acted on is a fresh
// copy of the defaults and is the gate found in ClusterInfo.featuregate at the end.
func c11GatesInstalledFresh(c *eng.Ctx, root *ssa.Function) bool {
	one := int64(1)
	paths, err := c11GateForce(c, root, &one, nil)
	if err != nil {
		return false
	}
	n := 0
	for _, p := range paths {
		if !p.maybeNil || len(p.setOn) == 0 {
			continue
		}
		n++
		for _, t := range p.setOn {
			if !strings.HasPrefix(t, "fresh@") {
				return false
			}
			installed := false
			for _, s := range p.stored {
				installed = installed || s == t
			}
			if !installed {
				return false
			}
		}
	}
	return n > 0
}

// c11GatesResetWhenAbsent (forcing form of R2 c): with an empty annotation value and current
// gates that are not the defaults, every successful path leaves a fresh copy of the defaults in
// ClusterInfo.featuregate.
func c11GatesResetWhenAbsent(c *eng.Ctx, root *ssa.Function) bool {
	zero, no := int64(0), false
	paths, err := c11GateForce(c, root, &zero, &no)
	if err != nil {
		return false
	}
	n := 0
	for _, p := range paths {
		if !p.maybeNil {
			continue
		}
		n++
		fresh := false
		for _, s := range p.stored {
			if !strings.HasPrefix(s, "fresh@") {
				return false
			}
			fresh = true
		}
		if !fresh {
			return false
		}
	}
	return n > 0
}

// c11GateStoresFresh (forcing form of R2 b): on every path through root every gate stored into
// a featuregate cell is a fresh copy of the defaults.
func c11GateStoresFresh(c *eng.Ctx, root *ssa.Function) bool {
	paths, err := c11GateForce(c, root, nil, nil)
	if err != nil {
		return false
	}
	n := 0
	for _, p := range paths {
		for _, s := range p.stored {
			n++
			if !strings.HasPrefix(s, "fresh@") {
				return false
			}
		}
	}
	return n > 0
}

// ---- R3 --------------------------------------------------------------------------------
// Protects: "including failed attempts and retried deliveries of superseded versions".
// The pass-through queue's key is the object pointer itself; AddRateLimited/AddAfter put
// the same pointer back, so a handler that applies its parameter re-applies a superseded
// version after a newer one was synced (F11c).
func c11R3(c *eng.Ctx) {
	handlers := c11SyncHandlers(c, pkgCtrl)
	if len(handlers) == 0 {
		c.Fail("R3", nil, "sync handler of the upstream-cluster queue", 0, "no function value passed to a syncqueue constructor found in "+shortName(pkgCtrl))
		return
	}
	// the handler's body may be spread over helpers (bootstrap / update branch extracted): scan its
	// region and trace a helper's parameter into the arguments at its call sites. The handler itself
	// is handed to the queue as a value, so its own parameter (the dequeued item) stays a leaf.
	sl := c.Slicer().WithUp()
	isListerGet := func(v ssa.Value) bool {
		cc, idx := eng.CallResultOf(v)
		return cc != nil && idx == 0 && eng.MethodNameIs(cc, "Get") && eng.TypeName(eng.Receiver(cc).Type()) == mod+"/pkg/client/listers/proxy/v1alpha1.UpstreamClusterLister"
	}
	for _, h := range handlers {
		n := 0
		for _, fn := range c.W.Region(h) {
			for _, ci := range eng.Calls(fn) {
				var obj ssa.Value
				what := ""
				switch {
				case eng.IsCall(ci, "(*"+tClusterInfo+").Sync"):
					obj, what = eng.Args(ci)[0], "ClusterInfo.Sync"
				case eng.IsCall(ci, pkgClusters+".CreateClusterInfo"):
					obj, what = eng.Args(ci)[0], "CreateClusterInfo"
				default:
					continue
				}
				n++
				fromLister, fromParam, other := false, false, false
				for _, leaf := range sl.Leaves(obj, isListerGet) {
					switch {
					case isListerGet(leaf):
						fromLister = true
					default:
						if _, isP := leaf.(*ssa.Parameter); isP {
							fromParam = true
						} else if !eng.IsNilConst(leaf) {
							other = true
						}
					}
				}
				ok := fromLister && !fromParam && !other
				why := "the applied object is the lister's current version"
				if fromParam {
					why = "the object applied is (or may be) the dequeued item: after a failed attempt the queue requeues that same pointer, so a superseded version is re-applied over a newer one (e.g. v1 fails, v2 is synced, the retry of v1 regresses the cluster to v1)"
				} else if !ok {
					why = "the applied object does not derive from lister.Get"
				}
				c.Check("R3", h, "object applied via "+what+" is the lister's latest", ci.Pos(), ok, why)
			}
		}
		if n == 0 {
			c.Fail("R3", h, "object applied via ClusterInfo.Sync is the lister's latest", h.Pos(), "the sync handler never applies the object")
		}
	}
	if c.Thorough() {
		for _, h := range c11SyncHandlers(c, pkgLimiter+"/controller") {
			c.Note("C11.R3 scope: the limiter's controller has the same queue hand-off (%s); it is outside this property's anchors", eng.FuncName(h))
		}
	}
}

// c11SyncHandlers resolves the function values passed as SyncHandler to the syncqueue
// constructors by functions of package pkg (bound methods are unwrapped).
func c11SyncHandlers(c *eng.Ctx, pkg string) []*ssa.Function {
	var out []*ssa.Function
	for _, fn := range c.W.FuncsOf(pkg) {
		for _, ci := range eng.CallsTo(fn, pkgSyncQueue+".NewPassthroughSyncQueue", pkgSyncQueue+".NewSyncQueue", pkgSyncQueue+".NewCustomSyncQueue") {
			a := eng.Args(ci)
			if len(a) < 2 {
				continue
			}
			var h *ssa.Function
			hv := a[1]
			for {
				if ct, ok := hv.(*ssa.ChangeType); ok { // func value converted to syncqueue.SyncHandler
					hv = ct.X
					continue
				}
				break
			}
			switch v := hv.(type) {
			case *ssa.MakeClosure:
				h, _ = v.Fn.(*ssa.Function)
			case *ssa.Function:
				h = v
			}
			if h == nil {
				continue
			}
			if h.Synthetic != "" && h.Syntax() == nil {
				// bound-method thunk: the method it calls
				for _, cc := range eng.Calls(h) {
					if f := eng.CalleeFn(cc); f != nil && f.Blocks != nil {
						h = f
					}
				}
			}
			out = append(out, h)
		}
	}
	return out
}

// ---- R4 --------------------------------------------------------------------------------
// Protects: "flow-control schemas and limits, endpoint set and disabled flags are those of
// the latest object" for the two diff-based syncers. A new element that is not visited
// keeps the old limit/flag; a stale element that is not deleted keeps limiting/serving.

func c11SetCall(ci ssa.CallInstruction, name string) bool {
	r := eng.Receiver(ci)
	return r != nil && eng.MethodNameIs(ci, name) && eng.TypeName(r.Type()) == c11TSet
}

// c11Set identifies a goset.Set by the call that created it (NewSet, NewSetFromStrings, Diff,
// a helper returning the set …) and, for a call with several results, the result position
// (`wanted, disabled := split(servers)`: two sets of one call); idx is -1 for a single result.
type c11Set struct {
	call *ssa.Call
	idx  int
}

func (a *c11Set) same(b *c11Set) bool {
	return a != nil && b != nil && a.call == b.call && a.idx == b.idx
}

// c11SetOrigin resolves a goset.Set value to the single call (and result position) that created
// it, through local cells and closure captures; nil if ambiguous.
func c11SetOrigin(c *eng.Ctx, v ssa.Value) *c11Set {
	var out *c11Set
	n := 0
	// a set handed to an extracted helper as a parameter is the set created at the helper's call site
	for _, leaf := range c.Slicer().WithUp().Leaves(v, func(x ssa.Value) bool { cc, _ := eng.CallResultOf(x); return cc != nil }) {
		if eng.IsNilConst(leaf) {
			continue
		}
		cc, idx := eng.CallResultOf(leaf)
		if cc == nil {
			return nil
		}
		if o := (&c11Set{cc, idx}); !o.same(out) {
			n++
			out = o
		}
	}
	if n != 1 {
		return nil
	}
	return out
}

// c11InnerSet follows a set that is the result of a same-repository helper (`names :=
// namesOf(list)`, `wanted, disabled := split(servers)`) into the helper: every return of the
// helper must yield, in that result position, one set created by the helper itself. It returns
// the innermost creating call, the function it sits in (the anchor for loop queries), that
// function's region, and the slice predicate translated into the helper (the helper's slice
// parameter stands for the argument of the call). why is non-empty when a helper was met
// whose result cannot be resolved.
func c11InnerSet(c *eng.Ctx, anchor *ssa.Function, fns []*ssa.Function, origin *c11Set, isSlice func(ssa.Value) bool) (*ssa.Function, []*ssa.Function, *c11Set, func(ssa.Value) bool, string) {
	for d := 0; d < eng.LiftDepth && origin != nil; d++ {
		h := origin.call.Call.StaticCallee()
		if h == nil || !eng.Analysable(h) || origin.call.Call.IsInvoke() || h == anchor {
			break
		}
		pos := origin.idx
		if pos < 0 {
			pos = 0
		}
		res := h.Signature.Results()
		if pos >= res.Len() || eng.TypeName(res.At(pos).Type()) != c11TSet {
			break
		}
		var inner *c11Set
		nRet, same := 0, true
		eng.Instrs(h, func(ins ssa.Instruction) {
			if r, ok := ins.(*ssa.Return); ok && ins.Block() != h.Recover && pos < len(eng.ReturnResults(r)) {
				nRet++
				o := c11SetOrigin(c, eng.ReturnResults(r)[pos])
				if o == nil || o.call.Parent() != h || (inner != nil && !o.same(inner)) {
					same = false
				}
				inner = o
			}
		})
		if nRet == 0 || !same || inner == nil {
			return anchor, fns, origin, isSlice, "the helper building the set does not return one set created by itself"
		}
		call, outerSlice := origin.call, isSlice
		isSlice = func(v ssa.Value) bool {
			for i, prm := range h.Params {
				if ssa.Value(prm) == v && i < len(call.Call.Args) {
					return outerSlice(call.Call.Args[i])
				}
			}
			return false
		}
		anchor, fns, origin = h, c.W.Region(h), inner
	}
	return anchor, fns, origin, isSlice, ""
}

// c11LoopSite finds the loop an instruction of anchor's region runs in: the innermost loop
// around the instruction itself or — outwards, while its function is an extracted helper with a
// single call site — around the call through which it runs. It returns the instruction of that
// loop's function standing for ins (ins itself or the helper call), the loop, and whether every
// path through each helper crossed executes the inner instruction, i.e. whether "the site
// runs" implies "the instruction runs". site is nil when no enclosing loop is found before
// anchor (or a function with unknown callers) is left.
func c11LoopSite(c *eng.Ctx, anchor *ssa.Function, ins ssa.Instruction) (site ssa.Instruction, loop *eng.Loop, always bool) {
	own := map[*ssa.Function]bool{}
	for _, f := range eng.WithClosures(anchor) {
		own[f] = true
	}
	site, always = ins, true
	for d := 0; d <= eng.LiftDepth; d++ {
		if l := eng.InnermostLoop(site.Block()); l != nil {
			return site, l, always
		}
		h := site.Parent()
		if own[h] {
			return nil, nil, false
		}
		sites := c.W.LiftSites(h)
		if len(sites) != 1 {
			return nil, nil, false
		}
		if _, plain := sites[0].(*ssa.Call); !plain {
			return nil, nil, false // go / defer: does not run at the site
		}
		cur := site
		if !c11EveryPathPasses(h, func(i ssa.Instruction) bool { return i == cur }) {
			always = false
		}
		site = sites[0]
	}
	return nil, nil, false
}

// c11RangeCallback resolves the function set.Range(ci) runs for every element: a function
// literal, a function, or the method behind a method value (x.Range(r.method)). It returns the
// function, its element parameter (the last one) and — for a method value — the receiver the
// method was bound to (nil otherwise).
func c11RangeCallback(ci ssa.CallInstruction) (cb *ssa.Function, elem *ssa.Parameter, bound ssa.Value) {
	a := eng.Args(ci)
	if len(a) != 1 {
		return nil, nil, nil
	}
	v := a[0]
	for {
		if ct, ok := v.(*ssa.ChangeType); ok {
			v = ct.X
			continue
		}
		break
	}
	switch x := v.(type) {
	case *ssa.MakeClosure:
		cb, _ = x.Fn.(*ssa.Function)
		if cb != nil && cb.Synthetic != "" && cb.Syntax() == nil {
			// bound-method thunk: the method it calls, bound to Bindings[0]
			var m *ssa.Function
			for _, cc := range eng.Calls(cb) {
				if f := eng.CalleeFn(cc); f != nil && f.Blocks != nil {
					m = f
				}
			}
			cb = m
			if len(x.Bindings) == 1 {
				bound = x.Bindings[0]
			}
		}
	case *ssa.Function:
		cb = x
	}
	if cb == nil || cb.Blocks == nil || cb.Signature.Params().Len() != 2 || len(cb.Params) < 2 {
		return nil, nil, nil
	}
	return cb, cb.Params[len(cb.Params)-1], bound
}

// c11EveryPathPasses reports whether every path through fn, from the entry to any exit,
// executes an instruction satisfying pred (directly or in a helper that always does).
func c11EveryPathPasses(fn *ssa.Function, pred func(ssa.Instruction) bool) bool {
	ok := true
	eng.Instrs(fn, func(ins ssa.Instruction) {
		if ins.Block() == fn.Recover || !eng.IsExit(ins) || pred(ins) {
			return
		}
		if !eng.AlwaysBefore(fn, ins, pred) {
			ok = false
		}
	})
	return ok
}

// c11SetFilled decides that set `origin` receives, via Add, field `field` of every
// element of a slice identified by isSlice: each Add on that set sits in a loop every
// iteration of which passes it (or, when guarded, see guardOK), the loop is left only
// through its header, and the added value is elem.<field> of that slice. anchor is the
// function whose region fns is. A set built by a helper (`names := namesOf(list)`) is judged
// in the helper's body with the helper's slice parameter standing for the argument of that call.
func c11SetFilled(c *eng.Ctx, anchor *ssa.Function, fns []*ssa.Function, origin *c11Set, elemType, field string, isSlice func(ssa.Value) bool, everyIteration bool) (bool, string) {
	var why string
	if anchor, fns, origin, isSlice, why = c11InnerSet(c, anchor, fns, origin, isSlice); why != "" {
		return false, why
	}
	sl := c.Slicer().WithUp()
	n := 0
	for _, fn := range fns {
		for _, ci := range eng.Calls(fn) {
			if !c11SetCall(ci, "Add") || !c11SetOrigin(c, eng.Receiver(ci)).same(origin) {
				continue
			}
			n++
			a := eng.Args(ci)
			okVal := len(a) == 1 &&
				sl.DerivesFrom(a[0], func(x ssa.Value) bool {
					return eng.FieldAddrOf(x, elemType, field) || eng.FieldLoadOf(x, elemType, field)
				}) &&
				sl.DerivesFrom(a[0], func(x ssa.Value) bool { ia, ok := x.(*ssa.IndexAddr); return ok && isSlice(ia.X) })
			if !okVal {
				return false, "an element added to the set is not " + field + " of an element of the expected list"
			}
			site, l, always := c11LoopSite(c, anchor, ci)
			if site == nil || l == nil {
				return false, "the set is not filled in a loop over the list"
			}
			if !l.OnlyHeaderExits() {
				return false, "the loop filling the set can be left before the end of the list"
			}
			if everyIteration && !(always && l.EveryIterationPasses(func(i ssa.Instruction) bool { return i == site })) {
				return false, "an iteration over the list can skip adding its element to the set"
			}
		}
	}
	if n == 0 {
		return false, "nothing is added to the set"
	}
	return true, ""
}

func c11R4(c *eng.Ctx) {
	sl := c.Slicer()

	// ===== flow-control diff
	if fn := limiterSyncAnchor(c); fn != nil {
		fns := c.W.Region(fn)
		newObj := paramOfType(fn, namedOrPtrTo(c11TFlowControl), 1)
		// values are traced through the parameters of extracted helpers into their call sites
		up := sl.WithUp()
		isNewSchemas := func(v ssa.Value) bool {
			return eng.FieldLoadOf(v, c11TFlowControl, "Schemas") && up.DerivesFrom(v, func(x ssa.Value) bool { return x == ssa.Value(newObj) })
		}
		isOldSchemas := func(v ssa.Value) bool {
			return eng.FieldLoadOf(v, c11TFlowControl, "Schemas") && !up.DerivesFrom(v, func(x ssa.Value) bool { return x == ssa.Value(newObj) }) &&
				up.DerivesFrom(v, func(x ssa.Value) bool {
					// the previously applied spec: what the loader helper returns, i.e. (by role) what was
					// loaded from the limiter's currentFlowControlSpec cell
					if eng.IsResultOf(x, "(*"+c11TLimiter+").loadFlowControlSpec") {
						return true
					}
					cc, _ := eng.CallResultOf(x)
					return cc != nil && eng.IsCall(cc, "(*sync/atomic.Value).Load") && eng.FieldAddrOf(eng.Receiver(cc), c11TLimiter, "currentFlowControlSpec")
				})
		}
		ownMap := func(v ssa.Value) bool { return eng.FieldLoadOf(v, c11TLimiter, "flowControls") }

		// (a) every new schema is synced on every iteration (the loop body may have been moved into a
		// helper: the Sync call is then judged at the helper's call site in the loop)
		elemOfNewUp := func(v ssa.Value) bool {
			return up.DerivesFrom(v, func(x ssa.Value) bool { ia, ok := x.(*ssa.IndexAddr); return ok && isNewSchemas(ia.X) })
		}
		nameOfNewUp := func(v ssa.Value) bool {
			return elemOfNewUp(v) && up.DerivesFrom(v, func(x ssa.Value) bool {
				return eng.FieldAddrOf(x, c11TSchema, "Name") || eng.FieldLoadOf(x, c11TSchema, "Name")
			})
		}
		var syncs []ssa.CallInstruction
		for _, g := range fns {
			syncs = append(syncs, eng.CallsTo(g, "("+pkgFCRemote+".LocalFlowControlWrapper).Sync")...)
		}
		if len(syncs) == 0 {
			c.Fail("R4", fn, "LocalFlowControl().Sync(newSchema) on every iteration#1", fn.Pos(), "the new schemas are never handed to their local limiters")
		}
		for k, ci := range syncs {
			site, l, always := c11LoopSite(c, fn, ci)
			a := eng.Args(ci)
			ok, why := true, "every schema of the new object reaches its limiter's Sync"
			switch {
			case l == nil:
				ok, why = false, "Sync is not called inside the loop over the new schemas"
			case len(a) != 1 || !elemOfNewUp(a[0]):
				ok, why = false, "the schema given to Sync is not the iterated element of the new object's Schemas"
			case !l.OnlyHeaderExits():
				ok, why = false, "the loop over the new schemas can be left early: later schemas keep their old limits"
			case !always || !l.EveryIterationPasses(func(i ssa.Instruction) bool { return i == site }):
				ok, why = false, "an iteration over the new schemas can skip Sync (continue / conditional): that schema keeps its previous limit"
			}
			c.Check("R4", fn, fmt.Sprintf("LocalFlowControl().Sync(newSchema) on every iteration#%d", k+1), ci.Pos(), ok, why)
			// the limiter synced is the one registered under the schema's own name
			okRecv := false
			if lc, _ := eng.CallResultOf(eng.Receiver(ci)); lc != nil && eng.IsCall(lc, "("+pkgFCRemote+".FlowControlCache).LocalFlowControl") {
				okRecv = true
				nLeaves := 0
				// the cache may reach Sync through a helper returning it (lookup-or-create moved out of
				// the loop): the slice descends into such helpers and stops at the two legitimate
				// origins; any other origin (another call, a field, a parameter) fails the rule
				isOrigin := func(x ssa.Value) bool {
					cc, _ := eng.CallResultOf(x)
					return cc != nil && (eng.IsCall(cc, "(*"+c11TFCMap+").Load") || eng.IsCall(cc, pkgFCRemote+".NewFlowControlCache"))
				}
				for _, leaf := range up.Leaves(eng.Receiver(lc), isOrigin) {
					nLeaves++
					cc, idx := eng.CallResultOf(leaf)
					switch {
					case cc != nil && idx == 0 && eng.IsCall(cc, "(*"+c11TFCMap+").Load") && ownMap(eng.Receiver(cc)) && nameOfNewUp(eng.Args(cc)[0]):
					case cc != nil && eng.IsCall(cc, pkgFCRemote+".NewFlowControlCache") && len(eng.Args(cc)) >= 2 && nameOfNewUp(eng.Args(cc)[1]):
					default:
						okRecv = false
					}
				}
				okRecv = okRecv && nLeaves > 0
			}
			c.Check("R4", fn, fmt.Sprintf("synced limiter#%d is the one registered under the schema's name", k+1), ci.Pos(), okRecv, "the limiter must be the cache loaded from, or created for, the limiter map under the iterated schema's Name")
		}

		// (b) names in old∖new are deleted
		var del ssa.CallInstruction
		var delCl *ssa.Function
		var delElem *ssa.Parameter
		var delBound ssa.Value
		var rangeCall ssa.CallInstruction
		for _, g := range fns {
			for _, ci := range eng.Calls(g) {
				if !c11SetCall(ci, "Range") {
					continue
				}
				cl, elem, bound := c11RangeCallback(ci)
				if cl == nil {
					continue
				}
				for _, h := range c.W.Region(cl) {
					for _, d := range eng.CallsTo(h, "(*"+c11TFCMap+").Delete") {
						del, delCl, delElem, delBound, rangeCall = d, cl, elem, bound, ci
					}
				}
			}
		}
		if del == nil {
			c.Fail("R4", fn, "stale set = previous names ∖ new names", fn.Pos(), "no deletion of limiters over a set difference found")
			c.Fail("R4", fn, "every stale schema name is deleted", fn.Pos(), "no deletion of limiters over a set difference found")
		} else {
			diff := c11SetOrigin(c, eng.Receiver(rangeCall))
			ok, why := true, "the deleted names are exactly the names of the previous spec that the new spec no longer lists"
			if diff == nil || !c11SetCall(diff.call, "Diff") {
				ok, why = false, "the set ranged over is not a set difference"
			} else {
				oldSet := c11SetOrigin(c, eng.Receiver(diff.call))
				newSet := c11SetOrigin(c, eng.Args(diff.call)[0])
				if oldSet == nil || newSet == nil || oldSet.same(newSet) {
					ok, why = false, "the operands of the set difference cannot be resolved to two distinct sets"
				} else {
					if o, w := c11SetFilled(c, fn, fns, oldSet, c11TSchema, "Name", isOldSchemas, true); !o {
						ok, why = false, "left operand (previous names): "+w
					}
					if o, w := c11SetFilled(c, fn, fns, newSet, c11TSchema, "Name", isNewSchemas, true); !o {
						ok, why = false, "right operand (new names): "+w
					}
				}
			}
			c.Check("R4", fn, "stale set = previous names ∖ new names", rangeCall.Pos(), ok, why)
			isDel := func(i ssa.Instruction) bool { return i == ssa.Instruction(del) }
			// the map is the limiter's own: the callback reaches it through the receiver of
			// syncLocalFlowControls (captured by the literal, or bound into the method value)
			self := paramOfType(fn, namedOrPtrTo(c11TLimiter), 0)
			isRecv := func(x ssa.Value) bool { return x == ssa.Value(self) }
			ownRecv := up.DerivesFrom(eng.Receiver(del), isRecv)
			if delBound != nil {
				ownRecv = up.DerivesFrom(delBound, isRecv) &&
					up.DerivesFrom(eng.Receiver(del), func(x ssa.Value) bool { return x == ssa.Value(delCl.Params[0]) })
			}
			okDel := ownMap(eng.Receiver(del)) && ownRecv &&
				up.DerivesFrom(eng.Args(del)[0], func(x ssa.Value) bool { return x == ssa.Value(delElem) }) &&
				c11EveryPathPasses(delCl, isDel) && c11ReturnsTrue(delCl, nil)
			c.Check("R4", delCl, "every stale schema name is deleted", del.Pos(), okDel, "the Range callback must delete its element from the limiter's own map on every path and return true (returning false stops at the first stale name)")
		}
	}

	// ===== endpoints
	se := c11EndpointSyncer(c)
	au := c11EndpointAdder(c)
	if se == nil || au == nil {
		return
	}
	fns := c.W.Region(se)
	servers := paramOfType(se, func(t types.Type) bool {
		st, ok := t.Underlying().(*types.Slice)
		return ok && eng.TypeName(st.Elem()) == c11TServer
	}, 1)
	isServers := func(v ssa.Value) bool { return v == ssa.Value(servers) }
	var call ssa.CallInstruction
	var cl *ssa.Function
	var clElem *ssa.Parameter
	var rangeCall ssa.CallInstruction
	for _, g := range fns {
		for _, ci := range eng.Calls(g) {
			if !c11SetCall(ci, "Range") {
				continue
			}
			f, elem, _ := c11RangeCallback(ci)
			if f == nil {
				continue
			}
			for _, x := range eng.CallsToFn(f, au) {
				call, cl, clElem, rangeCall = x, f, elem, ci
			}
		}
	}
	if call == nil {
		c.Fail("R4", se, "addOrUpdateEndpoint(ep, disabled(ep)) for every wanted endpoint", se.Pos(), "addOrUpdateEndpoint is not called from a Range over the wanted endpoints")
		return
	}
	wanted := c11SetOrigin(c, eng.Receiver(rangeCall))
	okW, whyW := false, "the set ranged over cannot be resolved"
	if wanted != nil {
		okW, whyW = c11SetFilled(c, se, fns, wanted, c11TServer, "Endpoint", isServers, true)
	}
	if okW {
		whyW = "every server of the object contributes its Endpoint to the wanted set"
	}
	c.Check("R4", se, "wanted set = Endpoint of every server of the object", rangeCall.Pos(), okW, whyW)

	a := eng.Args(call)
	fromElem := func(v ssa.Value) bool {
		return sl.DerivesFrom(v, func(x ssa.Value) bool { return x == ssa.Value(clElem) })
	}
	isCall := func(i ssa.Instruction) bool { return i == ssa.Instruction(call) }
	var disabledSet *c11Set
	okCall, whyCall := true, "each wanted endpoint is added or updated with the flag computed for that endpoint"
	switch {
	case len(a) != 2 || !fromElem(a[0]):
		okCall, whyCall = false, "the endpoint given to addOrUpdateEndpoint is not the iterated element"
	case eng.ReachFromEntry(cl, eng.PathQuery{Target: eng.IsExit, Avoid: isCall}) != nil:
		okCall, whyCall = false, "a path through the Range callback skips addOrUpdateEndpoint: that endpoint keeps its previous disabled flag / is never created"
	default:
		cc, _ := eng.CallResultOf(a[1])
		if cc == nil || !c11SetCall(cc, "Contains") || !fromElem(eng.Args(cc)[0]) {
			okCall, whyCall = false, "the disabled flag is not `disabled.Contains(ep)` for the same endpoint"
		} else if disabledSet = c11SetOrigin(c, eng.Receiver(cc)); disabledSet == nil {
			okCall, whyCall = false, "the disabled set cannot be resolved"
		}
	}
	// the callback may stop the iteration only at a failure of addOrUpdateEndpoint (Sync then fails
	// and is retried): "the returned value is false ⇒ the error of the call is non-nil", however
	// it is written — `return err == nil`, a guard clause returning false, a named condition
	failed := &boolFact{w: c.W, atom: func(r eng.Rel, _ *callBind) bool {
		if r.Op != token.NEQ {
			return false
		}
		isErr := func(v ssa.Value) bool {
			return sl.DerivesFrom(v, func(x ssa.Value) bool { return x == eng.ResultValue(call) })
		}
		return (eng.IsNilConst(r.Y) && isErr(r.X)) || (eng.IsNilConst(r.X) && isErr(r.Y))
	}}
	if okCall && !c11FalseOnlyOn(cl, failed) {
		okCall, whyCall = false, "the Range callback may return false although addOrUpdateEndpoint succeeded: later endpoints are not synced"
	}
	c.Check("R4", cl, "addOrUpdateEndpoint(ep, disabled(ep)) for every wanted endpoint", call.Pos(), okCall, whyCall)

	// disabled set = endpoints of the servers whose Disabled is set and true
	if disabledSet != nil {
		ok, why := c11SetFilled(c, se, fns, disabledSet, c11TServer, "Endpoint", isServers, false)
		if ok {
			// the set may be built by a helper of syncEndpoints: the Adds are then judged there
			_, dfns, dset, _, _ := c11InnerSet(c, se, fns, disabledSet, isServers)
			for _, f := range dfns {
				for _, ci := range eng.Calls(f) {
					if !c11SetCall(ci, "Add") || !c11SetOrigin(c, eng.Receiver(ci)).same(dset) {
						continue
					}
					isPtr := func(v ssa.Value) bool { return eng.FieldLoadOf(v, c11TServer, "Disabled") }
					isFlag := func(v ssa.Value) bool {
						u, isU := v.(*ssa.UnOp)
						return isU && u.Op == token.MUL && isPtr(u.X)
					}
					if !eng.GuardedByNil(ci, isPtr, false) || !eng.GuardedByBool(ci, isFlag, true) {
						ok, why = false, "an endpoint is recorded as disabled without `server.Disabled != nil && *server.Disabled`"
					}
					// conversely: on the *Disabled == true edge the Add is not skipped
					l := eng.InnermostLoop(ci.Block())
					eng.Instrs(f, func(ins ssa.Instruction) {
						if v, isV := ins.(ssa.Value); isV && isFlag(v) && l != nil && l.Blocks[ins.Block()] {
							for _, br := range eng.BranchesOn(v) {
								if eng.ReachFromBlock(br.OnTrue, eng.PathQuery{
									Target: func(i ssa.Instruction) bool {
										return eng.IsExit(i) || (i.Block() == l.Header && i == l.Header.Instrs[0])
									},
									Avoid: func(i ssa.Instruction) bool { return i == ssa.Instruction(ci) },
								}) != nil {
									ok, why = false, "a server with Disabled=true may not be recorded in the disabled set"
								}
							}
						}
					})
				}
			}
		}
		if ok {
			why = "an endpoint is in the disabled set iff its server has Disabled set and true"
		}
		c.Check("R4", se, "disabled set = endpoints of the servers with Disabled=true", se.Pos(), ok, why)
	} else {
		c.Fail("R4", se, "disabled set = endpoints of the servers with Disabled=true", se.Pos(), "no disabled set found")
	}

	// the endpoint error is what syncEndpoints returns (so that Sync fails and is retried)
	okRet := false
	for _, r := range c11MaybeNilReturns(se) {
		if eng.IsNilConst(r.Results[0]) {
			continue
		}
		okRet = sl.DerivesFrom(r.Results[0], func(x ssa.Value) bool { return x == eng.ResultValue(call) })
	}
	c.Check("R4", se, "endpoint errors are returned", se.Pos(), okRet, "a failed addOrUpdateEndpoint must make syncEndpoints (and Sync) fail, otherwise the controller never retries the missing endpoint")

	// the early return on skipSyncEndpoints is history-independent only if the flag never changes
	okSkip := true
	ctor := c.MustFunc(pkgClusters, "NewEmptyClusterInfo")
	sts := eng.StoresToField(c.W.AllRepoFuncs(), tClusterInfo, "skipSyncEndpoints")
	for _, st := range sts {
		// the constructor, or a helper that runs only as part of it
		if st.Parent() != ctor && !(ctor != nil && c.W.OwnedBy(st.Parent(), ctor)) {
			okSkip = false
		}
	}
	c.Check("R4", se, "skipSyncEndpoints is fixed at creation", se.Pos(), okSkip && len(sts) > 0, "the flag that lets syncEndpoints return early may be written only by the constructor")
}

// c11FalseOnlyOn reports whether every Return of a Range callback yields false only when the
// fact holds: the returned value being false implies it, or the return is guarded by it.
func c11FalseOnlyOn(cl *ssa.Function, fact *boolFact) bool {
	ok := true
	eng.Instrs(cl, func(ins ssa.Instruction) {
		r, isR := ins.(*ssa.Return)
		if !isR || ins.Block() == cl.Recover {
			return
		}
		res := eng.ReturnResults(r)
		if len(res) != 1 {
			ok = false
			return
		}
		seen := map[ssa.Value]bool{}
		if fact.implies(res[0], false, nil, seen, eng.LiftDepth) || fact.anyGuard(eng.GuardsOf(r), nil, seen, eng.LiftDepth) {
			return
		}
		ok = false
	})
	return ok
}

// c11ReturnsTrue reports whether every Return of a Range callback returns the constant
// true, or a value accepted by alt.
func c11ReturnsTrue(cl *ssa.Function, alt func(ssa.Value) bool) bool {
	ok := true
	eng.Instrs(cl, func(ins ssa.Instruction) {
		r, isR := ins.(*ssa.Return)
		if !isR {
			return
		}
		if len(r.Results) != 1 || !(eng.IsBoolConst(r.Results[0], true) || (alt != nil && alt(r.Results[0]))) {
			ok = false
		}
	})
	return ok
}

// ---------------------------------------------------------------------------------------
// fixtures: the "every successful path passes P" template and the loop helpers

const c11FxSrc = `package fx
func a() error { return nil }
func b() {}
func c() error { return nil }

func goodAll(x bool) error {
	if err := a(); err != nil { return err }
	b()
	return c()
}
func goodHelper(x bool) error {
	if err := both(); err != nil { return err }
	return nil
}
func both() error {
	if err := a(); err != nil { return err }
	b()
	return nil
}
func goodSwitch(k int) error {
	switch {
	case k == 0:
		b()
	default:
		b()
	}
	return nil
}
func badConditional(x bool) error {
	if x { b() }
	return nil
}
func badEarlyNil(x bool) error {
	if x { return nil }
	b()
	return nil
}
func badTail(x bool) error {
	return c()
}
func loopGood(xs []int) {
	for _, x := range xs {
		if x < 0 { a() }
		b()
	}
}
func loopContinue(xs []int) {
	for _, x := range xs {
		if x < 0 { continue }
		b()
	}
}
func loopBreak(xs []int) {
	for _, x := range xs {
		b()
		if x < 0 { break }
	}
}
`

func c11Fixtures(c *eng.Ctx) {
	p, _, err := eng.BuildFixture(c11FxSrc)
	if err != nil {
		c.Fixture("C11.everypath/build", "ok", err.Error())
		return
	}
	isB := func(ci ssa.CallInstruction) bool { return eng.IsCall(ci, "fx.b") }
	for name, want := range map[string]bool{"goodAll": true, "goodHelper": true, "goodSwitch": true, "badConditional": false, "badEarlyNil": false, "badTail": false} {
		got := c11EverySuccessPathPasses(p.Func(name), c11Passes("fx", isB, 2), nil) == nil
		c.Fixture("C11.everypath/"+name, fmt.Sprint(want), fmt.Sprint(got))
	}
	for name, want := range map[string][2]bool{"loopGood": {true, true}, "loopContinue": {false, true}, "loopBreak": {true, false}} {
		fn := p.Func(name)
		var call ssa.CallInstruction
		for _, ci := range eng.Calls(fn) {
			if isB(ci) {
				call = ci
			}
		}
		l := eng.InnermostLoop(call.Block())
		got := [2]bool{}
		if l != nil {
			got[0] = l.EveryIterationPasses(func(i ssa.Instruction) bool { return i == ssa.Instruction(call) })
			got[1] = l.OnlyHeaderExits()
		}
		c.Fixture("C11.loop/"+name, fmt.Sprint(want), fmt.Sprint(got))
	}
}

// ---------------------------------------------------------------------------------------
// Added after seeded changes C11-1 / C11-2.
func c11Extra(c *eng.Ctx) {
	c.Rule("R5", "the last-applied flow-control spec is recorded whenever the limiter table is touched: in syncLocalFlowControls the (deferred) store of currentFlowControlSpec is established before any Store/Delete/Sync of a limiter, on every path — otherwise a history A → ∅ → A is short-circuited by the unchanged test and the schemas stay removed", 2)
	c.Rule("R6", "an object is applied only after its names were checked (see C10.R2p): a refused update must not have replaced the cluster's server-name list already", 2)
	if sl := limiterSyncAnchor(c); sl != nil {
		// the recording: a Store on the currentFlowControlSpec field, directly or in a deferred function
		// (function literal, method or helper — with whatever the literal's body was spread over)
		isRecordCall := func(ci ssa.CallInstruction) bool {
			return eng.IsCall(ci, "(*sync/atomic.Value).Store") && eng.FieldAddrOf(eng.Receiver(ci), pkgFCRoot+".upstreamLimiter", "currentFlowControlSpec")
		}
		records := func(f *ssa.Function) bool {
			for _, g := range c.W.Region(f) {
				for _, ci := range eng.Calls(g) {
					if isRecordCall(ci) {
						return true
					}
				}
			}
			return false
		}
		isRecord := func(ins ssa.Instruction) bool {
			switch n := ins.(type) {
			case *ssa.Defer:
				if isRecordCall(n) {
					return true
				}
				f := n.Call.StaticCallee()
				return f != nil && f != sl && eng.Analysable(f) && records(f)
			case *ssa.Call:
				return isRecordCall(n)
			}
			return false
		}
		n := 0
		own := map[*ssa.Function]bool{}
		for _, fn := range eng.WithClosures(sl) {
			own[fn] = true
		}
		// the limiter table may be touched in sl, in its closures, and in the helpers / method-value
		// callbacks its body was spread over
		for _, fn := range c.W.Region(sl) {
			for _, ci := range eng.Calls(fn) {
				mut := eng.IsCall(ci, "(*"+pkgFCRemote+".FlowControlMap).Store", "(*"+pkgFCRemote+".FlowControlMap).Delete", "("+pkgFCRemote+".LocalFlowControlWrapper).Sync")
				if !mut {
					continue
				}
				n++
				// in sl itself: the recording precedes the mutation. In an extracted helper or a callback handed
				// to an iterator: the recording precedes every site under whose control it runs (lifted).
				ok := eng.AlwaysBefore(fn, ci, isRecord)
				if !ok && fn != sl && own[fn] {
					// other closures run after the point where they are created in sl
					var site ssa.Instruction
					eng.Instrs(sl, func(ins ssa.Instruction) {
						if mc, isMC := ins.(*ssa.MakeClosure); isMC && mc.Fn == ssa.Value(fn) {
							site = mc
						}
					})
					ok = site != nil && eng.AlwaysBefore(sl, site, isRecord)
				}
				c.Check("R5", sl, fmt.Sprintf("limiter mutation#%d ⇒ applied spec recorded", n), ci.Pos(), ok,
					"a path changes the limiter table (delete/create/resize) without the last-applied spec being recorded (e.g. an early return before the deferred store): the next identical-to-recorded spec is skipped as unchanged although the table no longer matches it")
			}
		}
		if n < 2 {
			c.Fail("R5", sl, "limiter mutations", sl.Pos(), "Store/Delete/Sync of limiters not found")
		}
	}
	x := &c10x{c: c, sl: c.Slicer(), sa: c.Slicer().WithArgs(), ord: map[string]int{}}
	c10ApplyAfterNameCheck(x, "R6")
}
