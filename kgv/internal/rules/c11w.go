package rules

import (
	"fmt"
	"go/token"
	"go/types"
	"strings"

	"golang.org/x/tools/go/ssa"

	"kgv/internal/eng"
)

func init() { RegisterExtra("C11", c11MemoCoherence) }

// c11MemoCoherence (C11.R9, added for seeded C11-7; generalises R5 from the flow-control spec
// to any "last applied input" memo).
//
// Protects: "the effective configuration is that of the latest object, whatever the history".
// A config-applying method that remembers the input it applied last in a field M of its
// receiver and skips work when the new input equals M makes the state S it guards a function
// of (input, M). That is history-independent only while M really describes S: every path of
// the method that stores S must store M as well. If one path (typically the reset branch for
// an absent input) changes S and leaves M, the history A → ∅ → A ends with S = default and
// M = A, the third update is skipped and the gateway differs from a freshly started one.
//
// Decided per method of the cluster and flow-control packages, on SSA: a pair (M, S) of
// receiver fields is a memo pair when (a) some store `recv.S = …` is control-dependent on a
// comparison between a load of recv.M and a value derived from a non-receiver parameter, and
// (b) the method itself stores recv.M from a parameter-derived value. Obligation: no path
// entry → store of S → exit avoids every store of M. Field identity by (receiver parameter,
// field index); nothing depends on names. Does not cover memos kept outside the receiver or
// written by another method than the one that compares.
func c11MemoCoherence(c *eng.Ctx) {
	c.Rule("R9", "memo coherence: when a config-applying method of the cluster / flow-control packages skips a store of receiver state S under a comparison of the new input with a 'last applied' field M that the same method records, every path of that method that stores S also stores M (otherwise a history A → ∅ → A is short-circuited on stale M and the state depends on the history)", 0)
	sl := c.Slicer()
	methods, pairs := 0, 0
	var pkgs []string
	for _, p := range c.W.Prog.AllPackages() {
		if p.Pkg == nil {
			continue
		}
		pp := p.Pkg.Path()
		if pp == pkgClusters || pp == pkgFCRoot || strings.HasPrefix(pp, pkgFCRoot+"/") {
			pkgs = append(pkgs, pp)
		}
	}
	for _, pp := range pkgs {
		for _, fn := range c.W.FuncsOf(pp) {
			if fn.Blocks == nil || fn.Synthetic != "" || fn.Parent() != nil || fn.Signature.Recv() == nil || len(fn.Params) < 2 {
				continue
			}
			recv := fn.Params[0]
			if _, isPtr := recv.Type().Underlying().(*types.Pointer); !isPtr {
				continue
			}
			methods++
			fieldOf := func(addr ssa.Value) int {
				fa, ok := addr.(*ssa.FieldAddr)
				if !ok || fa.X != ssa.Value(recv) {
					return -1
				}
				return fa.Field
			}
			loadOf := func(v ssa.Value) int {
				u, ok := v.(*ssa.UnOp)
				if !ok || u.Op != token.MUL {
					return -1
				}
				return fieldOf(u.X)
			}
			fromParam := func(v ssa.Value) bool {
				return sl.DerivesFrom(v, func(x ssa.Value) bool {
					p, ok := x.(*ssa.Parameter)
					return ok && p != recv && p.Parent() == fn
				})
			}
			stores := map[int][]*ssa.Store{}
			eng.Instrs(fn, func(ins ssa.Instruction) {
				if st, ok := ins.(*ssa.Store); ok {
					if f := fieldOf(st.Addr); f >= 0 {
						stores[f] = append(stores[f], st)
					}
				}
			})
			if len(stores) < 2 {
				continue
			}
			// recorded memos: fields stored from a parameter-derived value
			recorded := map[int]bool{}
			for f, ss := range stores {
				for _, st := range ss {
					if fromParam(st.Val) {
						recorded[f] = true
					}
				}
			}
			st0 := recv.Type().Underlying().(*types.Pointer).Elem().Underlying()
			fname := func(i int) string {
				if s, ok := st0.(*types.Struct); ok && i < s.NumFields() {
					return s.Field(i).Name()
				}
				return fmt.Sprintf("#%d", i)
			}
			for s, ss := range stores {
				for m := range recorded {
					if m == s {
						continue
					}
					guarded := false
					for _, st := range ss {
						if eng.GuardedBy(st, func(r eng.Rel) bool {
							if r.Op != token.EQL && r.Op != token.NEQ {
								return false
							}
							return (loadOf(r.X) == m && fromParam(r.Y)) || (loadOf(r.Y) == m && fromParam(r.X))
						}) {
							guarded = true
						}
					}
					if !guarded {
						continue
					}
					pairs++
					isM := func(ins ssa.Instruction) bool {
						st, ok := ins.(*ssa.Store)
						return ok && fieldOf(st.Addr) == m
					}
					var bad *ssa.Store
					for _, st := range ss {
						st := st
						toS := eng.ReachFromEntry(fn, eng.PathQuery{Target: func(i ssa.Instruction) bool { return i == ssa.Instruction(st) }, Avoid: isM})
						if toS != nil && eng.ReachAfter(st, eng.PathQuery{Target: eng.IsExit, Avoid: isM}) != nil {
							bad = st
							break
						}
					}
					pos := fn.Pos()
					if bad != nil {
						pos = bad.Pos()
					}
					c.Check("R9", fn, fmt.Sprintf("state %s guarded by last-applied memo %s: stored together", fname(s), fname(m)), pos, bad == nil,
						"a path stores the state without recording the input it corresponds to, while another update is skipped when the input equals the recorded one: after the history A → (this path) → A the second A is skipped and the state differs from what a fresh gateway computes from the latest object")
				}
			}
		}
	}
	c.Pass("R9", nil, fmt.Sprintf("scanned %d pointer-receiver methods with parameters in %d packages; %d memo pair(s) found", methods, len(pkgs), pairs), 0, "")
	if methods < 20 {
		c.Fail("R9", nil, "methods scanned", 0, fmt.Sprintf("only %d methods scanned (package set shrank?)", methods))
	}
}
