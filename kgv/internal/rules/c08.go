package rules

import (
	"fmt"
	"go/constant"
	"go/token"
	"go/types"

	"golang.org/x/tools/go/ssa"

	"kgv/internal/eng"
)

func init() {
	Register("C08", c08)
	RegisterFixture("C08", c08Fixtures)
}

const (
	tGlobalMaxInflight = pkgRLStoreFC + ".globalMaxInflight"
	tInstanceState     = pkgRLStoreFC + ".instanceState"
	tGlobalTokenBucket = pkgRLStoreFC + ".globalTokenBucket"
	tGlobalFC          = pkgRLStoreFC + ".GlobalFlowControl"
)

// tableSpec parameterises the guarded-table template (A7): a map field guarded by a mutex
// field of the same struct, whose entries are pointers to records.
type tableSpec struct {
	isTable   func(v ssa.Value) bool // the map value (load of the map field)
	isMutex   func(v ssa.Value) bool // the mutex operand
	isRecord  func(t types.Type) bool
	tableName string
}

type tableFinding struct {
	construct string
	at        ssa.Instruction
	ok        bool
	detail    string
}

// tableChecker evaluates the guarded-table template over a set of functions. The lock state
// is computed with function summaries (eng.LockRegions), so that the template gives the same
// verdict when a critical section — or a part of it — is moved into a helper:
//
//   - a helper that returns with the lock held on its success path hands the lock (and the
//     record it looked up) to its caller;
//   - a helper all of whose callers are known (eng.LiftSites) starts in the lock state of its
//     call sites, and a record it receives as a parameter is bound where the callers bound it.
type tableChecker struct {
	sp     tableSpec
	ls     eng.LockSpec
	lr     *eng.LockRegions
	entry  map[*ssa.Function]eng.LockState
	states map[*ssa.Function]map[ssa.Instruction]eng.LockState
	busy   map[*ssa.Function]bool
}

func newTableChecker(sp tableSpec) *tableChecker {
	ls := eng.LockSpec{IsMutex: sp.isMutex}
	return &tableChecker{sp: sp, ls: ls, lr: eng.NewLockRegions(ls), entry: map[*ssa.Function]eng.LockState{},
		states: map[*ssa.Function]map[ssa.Instruction]eng.LockState{}, busy: map[*ssa.Function]bool{}}
}

// entryState is the lock state in which fn starts: that of its call sites when they are all
// known (the weaker one when it is called under the read lock here and the write lock there),
// "not held" for every other function.
func (t *tableChecker) entryState(fn *ssa.Function) eng.LockState {
	if s, ok := t.entry[fn]; ok {
		return s
	}
	if t.busy[fn] {
		return eng.LockNone
	}
	t.busy[fn] = true
	defer delete(t.busy, fn)
	st := eng.LockNone
	if sites := eng.Current.LiftSites(fn); len(sites) > 0 {
		for i, s := range sites {
			if _, plain := s.(*ssa.Call); !plain {
				st = eng.LockNone // go / defer: runs outside the caller's critical section
				break
			}
			cs := t.statesOf(s.Parent())[s]
			switch {
			case i == 0:
				st = cs
			case cs == st:
			case (cs == eng.LockShared || cs == eng.LockExcl) && (st == eng.LockShared || st == eng.LockExcl):
				st = eng.LockShared // called under the read lock here, under the write lock there: held at least shared
			default:
				st = eng.LockMixed
			}
		}
	}
	t.entry[fn] = st
	return st
}

func (t *tableChecker) statesOf(fn *ssa.Function) map[ssa.Instruction]eng.LockState {
	if m, ok := t.states[fn]; ok {
		return m
	}
	m := t.lr.States(fn, t.entryState(fn))
	t.states[fn] = m
	return m
}

// binding is the instruction that binds record value v to the table (nil: v is not known to
// be a record of the table): the lookup / iteration step it was read by, the update that
// published a fresh record, the call of a helper that returns a bound record, or — for a
// record parameter of a helper with known callers, all of which pass a bound record — the
// entry of the helper. bad is non-empty when the record reaches this point across a release
// of the lock.
func (t *tableChecker) binding(v ssa.Value, depth int) (def ssa.Instruction, bad string) {
	sp := t.sp
	switch n := v.(type) {
	case *ssa.Extract:
		if l, ok := n.Tuple.(*ssa.Lookup); ok && sp.isTable(l.X) {
			return l, ""
		}
		if nx, ok := n.Tuple.(*ssa.Next); ok {
			if rg, ok := nx.Iter.(*ssa.Range); ok && sp.isTable(rg.X) {
				return nx, ""
			}
		}
		if call, ok := n.Tuple.(*ssa.Call); ok && sp.isRecord(n.Type()) {
			return t.helperResult(call, n.Index, depth)
		}
	case *ssa.Lookup:
		if sp.isTable(n.X) {
			return n, ""
		}
	case *ssa.Call:
		if sp.isRecord(n.Type()) {
			return t.helperResult(n, 0, depth)
		}
	case *ssa.Alloc:
		// a fresh record published into the table
		var pub ssa.Instruction
		if n.Referrers() != nil {
			for _, r := range *n.Referrers() {
				if mu, ok := r.(*ssa.MapUpdate); ok && mu.Value == ssa.Value(n) && sp.isTable(mu.Map) {
					pub = mu
				}
			}
		}
		return pub, ""
	case *ssa.Parameter:
		fn := n.Parent()
		if depth <= 0 || !sp.isRecord(n.Type()) || fn == nil || len(fn.Blocks) == 0 || len(fn.Blocks[0].Instrs) == 0 {
			return nil, ""
		}
		sites := eng.Current.LiftSites(fn)
		idx := -1
		for i, p := range fn.Params {
			if p == n {
				idx = i
			}
		}
		if len(sites) == 0 || idx < 0 {
			return nil, ""
		}
		for _, s := range sites {
			args := s.Common().Args
			if idx >= len(args) {
				return nil, ""
			}
			if _, plain := s.(*ssa.Call); !plain {
				return nil, ""
			}
			b, why := t.boundValue(args[idx], s, depth-1)
			if !b {
				return nil, ""
			}
			if why != "" {
				bad = why
			}
		}
		return fn.Blocks[0].Instrs[0], bad
	}
	return nil, ""
}

// boundValue: record value v (possibly a phi) is bound to the table at instruction use of its
// function; why is non-empty when the lock can be released between the binding and use.
func (t *tableChecker) boundValue(v ssa.Value, use ssa.Instruction, depth int) (bound bool, why string) {
	var walk func(v ssa.Value, seen map[ssa.Value]bool)
	walk = func(v ssa.Value, seen map[ssa.Value]bool) {
		if seen[v] {
			return
		}
		seen[v] = true
		if p, ok := v.(*ssa.Phi); ok {
			for _, e := range p.Edges {
				walk(e, seen)
			}
			return
		}
		if d, bad := t.binding(v, depth); d != nil {
			bound = true
			if bad != "" {
				why = bad
			}
		}
	}
	walk(v, map[ssa.Value]bool{})
	if !bound {
		return false, ""
	}
	defOf := func(x ssa.Value) ssa.Instruction { d, _ := t.binding(x, depth); return d }
	if rel := t.lr.ReleasedBetween(v, use, defOf); rel != nil && why == "" {
		why = "the table's lock is released between looking the record up (or publishing it) and this use: a concurrent removal can take the entry away in between, so the count is subtracted twice or added to an orphan record"
	}
	return true, why
}

// helperResult: result idx of a call of a repository function is a record the callee bound to
// the table and returns without releasing the lock in between; the call is then the binding.
func (t *tableChecker) helperResult(call *ssa.Call, idx int, depth int) (ssa.Instruction, string) {
	g := eng.CalleeFn(call)
	if g == nil {
		if mc, ok := call.Call.Value.(*ssa.MakeClosure); ok {
			g, _ = mc.Fn.(*ssa.Function)
		}
	}
	if depth <= 0 || g == nil || g.Blocks == nil {
		return nil, ""
	}
	bound, bad := false, ""
	eng.Instrs(g, func(ins ssa.Instruction) {
		ret, ok := ins.(*ssa.Return)
		if !ok || ret.Block() == g.Recover {
			return
		}
		res := eng.ReturnResults(ret)
		if idx >= len(res) || eng.IsNilConst(res[idx]) {
			return
		}
		b, why := t.boundValue(res[idx], ret, depth-1)
		if b {
			bound = true
			if why != "" {
				bad = "the helper that looks the record up releases the table's lock before handing the record to its caller: a concurrent removal can take the entry away in between"
			}
		}
	})
	if !bound {
		return nil, ""
	}
	return call, bad
}

const tableLiftDepth = 3

// check evaluates one function: lookups/ranges need the mutex held, updates and deletes need
// it exclusively, and no release may happen between binding a record to the table (lookup, or
// the update that published it) and a dereference of the record (or handing it to a helper).
func (t *tableChecker) check(fn *ssa.Function) []tableFinding {
	sp := t.sp
	var out []tableFinding
	states := t.statesOf(fn)
	nLook, nUpd, nDel, nUse := 0, 0, 0, 0
	isUnlock := func(i ssa.Instruction) bool { return t.lr.MayRelease(i) }
	use := func(rec ssa.Value, ins ssa.Instruction, what string) {
		bound, why := t.boundValue(rec, ins, tableLiftDepth)
		if !bound {
			return // not a record of the table
		}
		nUse++
		st := states[ins]
		ok := why == "" && (st == eng.LockShared || st == eng.LockExcl)
		detail := "the record is " + what + " while the lock is " + st.String()
		if why != "" {
			detail = why
		}
		out = append(out, tableFinding{fmt.Sprintf("use#%d of a %s record in the critical section of its lookup", nUse, sp.tableName), ins, ok, detail})
	}
	eng.Instrs(fn, func(ins ssa.Instruction) {
		switch n := ins.(type) {
		case *ssa.Lookup:
			if sp.isTable(n.X) {
				nLook++
				st := states[ins]
				out = append(out, tableFinding{fmt.Sprintf("lookup#%d of %s under the lock", nLook, sp.tableName), ins, st == eng.LockShared || st == eng.LockExcl,
					"the table is read while its lock is " + st.String()})
			}
		case *ssa.Range:
			if sp.isTable(n.X) {
				nLook++
				st := states[ins]
				out = append(out, tableFinding{fmt.Sprintf("range#%d over %s under the lock", nLook, sp.tableName), ins, st == eng.LockShared || st == eng.LockExcl,
					"the table is iterated while its lock is " + st.String()})
			}
		case *ssa.MapUpdate:
			if sp.isTable(n.Map) {
				nUpd++
				st := states[ins]
				out = append(out, tableFinding{fmt.Sprintf("update#%d of %s under the write lock", nUpd, sp.tableName), ins, st == eng.LockExcl,
					"the table is written while its lock is " + st.String()})
				// registering a fresh record is check-and-insert in ONE exclusive hold: between the
				// Lock() that protects the insert and the insert the same key is looked up, and the
				// insert is conditional on that lookup. An unconditional insert replaces a record
				// that a racing first report has just registered and counted on.
				if _, fresh := n.Value.(*ssa.Alloc); fresh {
					isLookup := func(i ssa.Instruction) bool {
						if l, ok := i.(*ssa.Lookup); ok {
							return sp.isTable(l.X) && (l.Index == n.Key || sameLoad(l.Index, n.Key))
						}
						// a call of an accessor that looks the key up on every path
						if call, ok := i.(*ssa.Call); ok {
							return t.looksUp(call, n.Key)
						}
						return false
					}
					isIns := func(i ssa.Instruction) bool { return i == ins }
					okCheck := true
					nLocks := 0
					// the holds that reach the insert: exclusive acquisitions in this function (written in
					// place or performed by a helper that returns with the lock held) …
					eng.Instrs(fn, func(li ssa.Instruction) {
						lc, isCall := li.(*ssa.Call)
						if !isCall {
							return
						}
						if !(eng.MethodNameIs(lc, "Lock") && sp.isMutex(eng.Receiver(lc))) && !t.acquiresExcl(li) {
							return
						}
						// does this hold reach the insert at all?
						if eng.ReachAfter(li, eng.PathQuery{Target: isIns, Avoid: isUnlock}) == nil {
							return
						}
						nLocks++
						if eng.ReachAfter(li, eng.PathQuery{Target: isIns, Avoid: func(i ssa.Instruction) bool { return isUnlock(i) || isLookup(i) }}) != nil {
							okCheck = false
						}
					})
					// … or the hold in which a helper with known callers is entered
					if t.entryState(fn) == eng.LockExcl && eng.ReachFromEntry(fn, eng.PathQuery{Target: isIns, Avoid: isUnlock}) != nil {
						nLocks++
						if eng.ReachFromEntry(fn, eng.PathQuery{Target: isIns, Avoid: func(i ssa.Instruction) bool { return isUnlock(i) || isLookup(i) }}) != nil {
							okCheck = false
						}
					}
					// conditional on the lookup: some path from the lookup leaves the hold without inserting
					cond := false
					eng.Instrs(fn, func(li ssa.Instruction) {
						if isLookup(li) && states[li] == eng.LockExcl {
							if eng.ReachAfter(li, eng.PathQuery{Target: eng.IsExit, Avoid: isIns}) != nil {
								cond = true
							}
						}
					})
					out = append(out, tableFinding{fmt.Sprintf("insert#%d into %s is check-and-insert in one exclusive hold", nUpd, sp.tableName), ins, nLocks > 0 && okCheck && cond,
						"a fresh record is inserted without looking the key up again after taking the write lock (or regardless of that lookup): two racing first reports of one instance each insert, and the count booked on the replaced record stays in the total forever"})
				}
			}
		case *ssa.Call:
			if isBuiltin(n, "delete") && sp.isTable(n.Call.Args[0]) {
				nDel++
				st := states[ins]
				out = append(out, tableFinding{fmt.Sprintf("delete#%d from %s under the write lock", nDel, sp.tableName), ins, st == eng.LockExcl,
					"an entry is removed while the lock is " + st.String()})
				return
			}
			// a record handed to a repository function is used there
			if g := eng.CalleeFn(n); g != nil && g.Blocks != nil {
				for _, a := range n.Call.Args {
					if sp.isRecord(a.Type()) {
						use(a, ins, "handed to "+g.Name())
					}
				}
			}
		case *ssa.FieldAddr:
			if sp.isRecord(n.X.Type()) {
				use(n.X, ins, "dereferenced")
			}
		}
	})
	return out
}

// looksUp: call runs a repository function that, on every path, looks up the table under the
// parameter bound to key.
func (t *tableChecker) looksUp(call *ssa.Call, key ssa.Value) bool {
	g := eng.CalleeFn(call)
	if g == nil || len(g.Blocks) == 0 {
		return false
	}
	found := false
	eng.Instrs(g, func(i ssa.Instruction) {
		l, ok := i.(*ssa.Lookup)
		if !ok || !t.sp.isTable(l.X) {
			return
		}
		p, isP := l.Index.(*ssa.Parameter)
		if !isP {
			return
		}
		for k, q := range g.Params {
			if q == p && k < len(call.Call.Args) && (call.Call.Args[k] == key || sameLoad(call.Call.Args[k], key)) {
				if eng.ReachFromEntry(g, eng.PathQuery{Target: eng.IsExit, Avoid: func(x ssa.Instruction) bool { return x == i }}) == nil {
					found = true
				}
			}
		}
	})
	return found
}

// acquiresExcl: ins is a call of a helper that returns with the lock held exclusively (on
// some of its returns) when entered in the state before ins.
func (t *tableChecker) acquiresExcl(ins ssa.Instruction) bool {
	c, ok := ins.(*ssa.Call)
	if !ok {
		return false
	}
	g := eng.CalleeFn(c)
	if g == nil || g.Blocks == nil {
		return false
	}
	eff := t.lr.Effect(g, t.statesOf(ins.Parent())[ins])
	if eff == nil || !eff.Touches {
		return false
	}
	return (eff.Uniform && eff.State == eng.LockExcl) || (eff.Keyed && (eff.OnTrue == eng.LockExcl || eff.OnFalse == eng.LockExcl))
}

// checkGuardedTable evaluates the template on one function with a fresh checker.
func checkGuardedTable(fn *ssa.Function, sp tableSpec) []tableFinding {
	return newTableChecker(sp).check(fn)
}

func c08(c *eng.Ctx) {
	c.Rule("R1", "instance table atomicity (globalMaxInflight): every lookup/range of instanceStates executes with the lock held, every update/delete with it held exclusively, and no release separates the lookup (or publication) of a record from any dereference of it", 8)
	c.Rule("R1b", "exact accounting: every change of an instance's count by Δ is paired with add(Δ) on the running total on all paths (swap → add(current−old); rollback add(−δ) on both; removal → add(−count) of the removed record)", 3)
	c.Rule("R2", "rollback only undoes increases: a write to an instance's count after the swap adds −δ under δ > 0 (a report that lowers the count is always applied); an increase that overflows is undone, decided on the atomic add's own result", 2)
	c.Rule("R3", "request-id monotonicity and acceptance: an id not newer than the recorded one returns RequestIDTooOld without touching the counts; the recorded id only moves forward; accept=true only when the total does not exceed the limit", 4)
	c.Rule("R4", "negative token counts are refused before any state change in DoAcquire", 2)
	c.Rule("R5", "token grants: the amount granted is exactly the amount taken from the bucket, which is the amount asked or a halving of it", 2)
	c.Rule("R6", "server token bucket wiring: rate.NewLimiter(Limit(qps), burst) from the schema's global qps/burst in that order; TryAcquireN = AllowN(now, n); the limiter is replaced only when qps or burst changes", 5)

	named := c.W.Named(pkgRLStoreFC, "globalMaxInflight")
	if named == nil {
		c.Fail("engine", nil, "unresolved-anchor type globalMaxInflight", 0, "")
		return
	}
	sp := tableSpec{
		isTable:   func(v ssa.Value) bool { return eng.FieldLoadOf(v, tGlobalMaxInflight, "instanceStates") },
		isMutex:   func(v ssa.Value) bool { return eng.FieldAddrOf(v, tGlobalMaxInflight, "lock") },
		isRecord:  func(t types.Type) bool { return eng.TypeName(t) == tInstanceState },
		tableName: "instanceStates",
	}
	// ---- R1 over every function of the package that touches the table
	tc := newTableChecker(sp)
	for _, fn := range c.W.FuncsOf(pkgRLStoreFC) {
		if fn.Name() == "newMaxInflightFlowControl" {
			continue // constructor: the object is not shared yet
		}
		for _, f := range tc.check(fn) {
			c.Check("R1", fn, f.construct, f.at.Pos(), f.ok, f.detail)
		}
	}

	ss := c.MustMethod(pkgRLStoreFC, "globalMaxInflight", "SetState")
	if ss == nil {
		return
	}
	// SetState together with the helpers its body may have been spread over
	region := c.W.Region(ss)
	isCountAddr := func(v ssa.Value) bool { return eng.FieldAddrOf(v, tInstanceState, "count") }
	// the function that adds to the running total and answers count − max: `add` by name, or —
	// should it be renamed — whichever function of the package other than SetState does the
	// atomic add on the total with its own parameter
	addFn := c.W.Method(pkgRLStoreFC, "globalMaxInflight", "add")
	if addFn == nil || addFn.Blocks == nil {
		addFn = nil
		for _, fn := range c.W.FuncsOf(pkgRLStoreFC) {
			if fn == ss || fn.Parent() != nil {
				continue
			}
			for _, ci := range eng.CallsTo(fn, "sync/atomic.AddInt32") {
				if a := eng.Args(ci); eng.FieldAddrOf(a[0], tGlobalMaxInflight, "count") {
					if p, isP := a[1].(*ssa.Parameter); isP && p.Parent() == fn && addFn == nil {
						addFn = fn
					}
				}
			}
		}
	}
	// an adjustment of the total: a call of that function, or the atomic add written in place
	totalAmount := func(ins ssa.Instruction) (ssa.Value, bool) {
		ci, ok := ins.(ssa.CallInstruction)
		if !ok {
			return nil, false
		}
		if addFn != nil && eng.CalleeFn(ci) == addFn {
			return eng.Args(ci)[0], true
		}
		if eng.IsCall(ins, "sync/atomic.AddInt32") && ins.Parent() != addFn && eng.FieldAddrOf(eng.Args(ci)[0], tGlobalMaxInflight, "count") {
			return eng.Args(ci)[1], true
		}
		return nil, false
	}
	// removal: delete paired with add(−count of the removed record)
	for _, rf := range region {
		for _, ci := range eng.Calls(rf) {
			if !isBuiltin(ci, "delete") || !sp.isTable(ci.Common().Args[0]) {
				continue
			}
			ok := false
			key := ci.Common().Args[1]
			for _, af := range region {
				for _, ac := range eng.Calls(af) {
					amount, isTotal := totalAmount(ac)
					if !isTotal {
						continue
					}
					neg, isNeg := amount.(*ssa.UnOp)
					if !isNeg || neg.Op != token.SUB {
						continue
					}
					// −(count of a record looked up under the same key)
					fromRecord := c.Slicer().WithArgs().DerivesFrom(neg.X, func(v ssa.Value) bool {
						if e, isE := v.(*ssa.Extract); isE {
							if l, isL := e.Tuple.(*ssa.Lookup); isL && sp.isTable(l.X) && (l.Index == key || c08SameVal(l.Index, key)) {
								return true
							}
						}
						return false
					}) && c.Slicer().WithArgs().DerivesFrom(neg.X, func(v ssa.Value) bool { return isCountAddr(v) })
					// same exclusive region: no release between delete and add (either order)
					if fromRecord && c08SameHold(tc, ci, ac) {
						ok = true
					}
				}
			}
			c.Check("R1b", ss, "removal ⇒ add(−count of the removed record)", ci.Pos(), ok, "removing an instance subtracts exactly the count recorded for it, in the same exclusive section as the removal")
		}
	}

	// ---- the report path (current ≥ 0): R1b, R2, R3 decided by forcing
	c08Report(c, ss)

	// add() returns count − max of the atomically updated total
	if addFn != nil {
		ok := false
		eng.Instrs(addFn, func(ins ssa.Instruction) {
			if ret, isR := ins.(*ssa.Return); isR && len(ret.Results) == 1 {
				if d, isB := ret.Results[0].(*ssa.BinOp); isB && d.Op == token.SUB {
					cc, _ := eng.CallResultOf(d.X)
					mc, _ := eng.CallResultOf(d.Y)
					amountOK := false
					if cc != nil && eng.IsCall(cc, "sync/atomic.AddInt32") {
						p, isP := eng.Args(cc)[1].(*ssa.Parameter)
						amountOK = isP && p.Parent() == addFn && p != addFn.Params[0]
					}
					ok = amountOK && eng.FieldAddrOf(eng.Args(cc)[0], tGlobalMaxInflight, "count") &&
						mc != nil && eng.IsCall(mc, "sync/atomic.LoadInt32") && eng.FieldAddrOf(eng.Args(mc)[0], tGlobalMaxInflight, "max")
				}
			}
		})
		c.Check("R3", addFn, "add(n) = (count += n) − max", addFn.Pos(), ok, "the overflow is measured on the atomically updated total against the current limit")
	}

	c08Acquire(c)
	c08TokenBucket(c)
}

// ---------------------------------------------------------------------------------------
// The report path of SetState, decided by forcing.
//
// The rules about a report (current ≥ 0) are of the form "in situation X every path does Y":
// a stale id is refused before anything is touched, the swap is followed by add(current − old),
// an overflowing increase — and nothing else — is undone, accept is answered only when the
// total does not exceed the limit. They are decided on the paths of SetState enumerated by the
// abstract interpreter (eng.Interp) with the situation pinned to concrete values:
//
//	request id = 5, current = 3                         (parameters)
//	recorded id read by each site ∈ {3, 5, 9}           (fresh / equal / newer)
//	old count returned by the swap ∈ {1, 5}             (increase by 2 / decrease by 2)
//	atomic add on the total answers max + over, over ∈ {1, 0, −1}; the limit reads max
//
// The interpreter follows the functions of the package SetState calls, so the verdicts do not
// depend on which helper holds the id test, the swap or the roll-back, on how results travel
// (tuple results, boolean signals) or on the form of the branches. The atomic operations are
// recognised by callee and operand (field of instanceState / globalMaxInflight), never by
// position; a value the code reads in any other way (e.g. a second look at the total) stays
// unknown, so a decision based on it yields both outcomes and fails the rule.

const (
	c08Req    = 5
	c08Cur    = 3
	c08Max    = 100
	c08TooOld = 0x7e57 // stands for the error value RequestIDTooOld
)

type c08Ev struct {
	kind string
	call *ssa.Call
	val  eng.AV // the value operand (new id, new count, amount)
}

type c08Scenario struct {
	loads map[*ssa.Call]int64 // value each read of the recorded id answers
	old   int64
	over  int64
}

func (sc c08Scenario) String() string {
	ids := ""
	for _, v := range sc.loads {
		ids += fmt.Sprintf(" %d", v)
	}
	return fmt.Sprintf("request id %d, recorded id read as%s, count %d → %d, total − max = %d after the add", c08Req, ids, sc.old, c08Cur, sc.over)
}

type c08Path struct {
	sc  c08Scenario
	evs []c08Ev
	pr  eng.PathResult
}

// c08Classify names the atomic operation a call performs on the state of the flow control;
// arg is the index of its value operand (-1: none).
func c08Classify(call *ssa.Call) (kind string, arg int) {
	if call == nil || call.Call.IsInvoke() || call.Call.StaticCallee() == nil || call.Call.StaticCallee().Pkg == nil || call.Call.StaticCallee().Pkg.Pkg.Path() != "sync/atomic" {
		return "", -1
	}
	a := call.Call.Args
	if len(a) == 0 {
		return "", -1
	}
	name := call.Call.StaticCallee().Name()
	// the operand is the field's address, or — in a function that is handed the address (a method
	// turned into a function taking what it needs) — a parameter every call site binds to it
	isField := func(typ, field string) bool {
		return c13AllUp(eng.Current, a[0], eng.LiftDepth, func(v ssa.Value) bool { return eng.FieldAddrOf(v, typ, field) })
	}
	switch {
	case isField(tInstanceState, "requestId"):
		switch name {
		case "LoadInt64":
			return "idread", -1
		case "SwapInt64":
			return "idswap", 1
		case "StoreInt64":
			return "idwrite", 1
		}
		return "idother", -1
	case isField(tInstanceState, "count"):
		switch name {
		case "SwapInt32":
			return "swap", 1
		case "AddInt32":
			return "adj", 1
		case "LoadInt32":
			return "", -1
		}
		return "cntother", -1
	case isField(tGlobalMaxInflight, "count"):
		switch name {
		case "AddInt32":
			return "total", 1
		case "LoadInt32":
			return "", -1
		}
		return "totother", -1
	case isField(tGlobalMaxInflight, "max"):
		if name == "LoadInt32" {
			return "max", -1
		}
	}
	return "", -1
}

func c08Touches(kind string) bool {
	switch kind {
	case "idswap", "idwrite", "idother", "swap", "adj", "cntother", "total", "totother":
		return true
	}
	return false
}

// c08Run enumerates the paths of SetState in one scenario.
func c08Run(c *eng.Ctx, ss *ssa.Function, sc c08Scenario) ([]c08Path, error) {
	in := &eng.Interp{W: c.W, Depth: 4, MaxPaths: 1 << 14}
	in.FollowCall = func(f *ssa.Function) bool { return f.Pkg == ss.Pkg }
	in.PinPath = func(path string) (eng.AV, bool) {
		if path == "global:RequestIDTooOld" {
			return eng.AVInt(c08TooOld), true
		}
		return eng.AV{}, false
	}
	in.PinCall = func(call *ssa.Call, idx int, st *eng.State) (eng.AV, bool) {
		kind, arg := c08Classify(call)
		if kind == "" {
			return eng.AV{}, false
		}
		if idx == -1 && kind != "max" {
			v := eng.AV{}
			if arg >= 0 && arg < len(call.Call.Args) {
				v = in.Eval(call.Call.Args[arg], st)
			}
			st.NoteNext("c08", v)
		}
		switch kind {
		case "idread", "idswap":
			return eng.AVInt(sc.loads[call]), true
		case "swap":
			return eng.AVInt(sc.old), true
		case "total":
			return eng.AVInt(c08Max + sc.over), true
		case "max":
			return eng.AVInt(c08Max), true
		}
		return eng.AV{}, false
	}
	args := make([]eng.AV, len(ss.Params))
	args[0] = eng.AV{K: eng.NonNilV}
	args[2] = eng.AVInt(c08Req)
	args[3] = eng.AVInt(c08Cur)
	prs, err := in.Run(ss, args)
	if err != nil {
		return nil, err
	}
	var out []c08Path
	for _, pr := range prs {
		if pr.Panicked {
			continue
		}
		if pr.LoopCut || pr.Final == nil {
			return nil, fmt.Errorf("a path through SetState runs into a loop")
		}
		p := c08Path{sc: sc, pr: pr}
		seq := pr.Final.NotedSeq("c08")
		k := 0
		for _, ci := range pr.Calls {
			call, ok := ci.(*ssa.Call)
			if !ok {
				continue
			}
			kind, _ := c08Classify(call)
			if kind == "" || kind == "max" {
				continue
			}
			if k >= len(seq) {
				return nil, fmt.Errorf("inconsistent trace")
			}
			p.evs = append(p.evs, c08Ev{kind, call, seq[k]})
			k++
		}
		out = append(out, p)
	}
	return out, nil
}

func c08IntOf(a eng.AV) (int64, bool) {
	if a.K != eng.ConstV || a.C == nil || a.C.Kind() != constant.Int {
		return 0, false
	}
	return constant.Int64Val(a.C)
}

// c08Report decides R1b (swap/adjustment pairing), R2 and R3 for the report path of SetState.
func c08Report(c *eng.Ctx, ss *ssa.Function) {
	if len(ss.Params) != 4 || ss.Signature.Results().Len() != 3 {
		c.Undecided("R3", ss, "request-id test", ss.Pos(), "SetState no longer has the shape (instance, requestId, current) → (accept, limit, error)")
		return
	}
	// the sites that read the recorded id (anywhere in the package: the interpreter decides which run)
	var idSites []*ssa.Call
	hasSwap := false
	for _, fn := range c.W.FuncsOf(pkgRLStoreFC) {
		for _, ci := range eng.Calls(fn) {
			call, _ := ci.(*ssa.Call)
			switch kind, _ := c08Classify(call); kind {
			case "idread", "idswap":
				idSites = append(idSites, call)
			case "swap":
				hasSwap = true
			}
		}
	}
	if !hasSwap {
		c.Fail("R1b", ss, "swap of the instance count", ss.Pos(), "no atomic swap of instanceState.count found")
		return
	}
	if len(idSites) > 3 {
		c.Undecided("R3", ss, "request-id test", ss.Pos(), "the recorded request id is read at more than three sites")
		return
	}
	// group A: every combination of fresh / equal / newer recorded ids; group B: the outcomes of the add
	var groupA, groupB [][]c08Path
	var runErr error
	run := func(sc c08Scenario) []c08Path {
		ps, err := c08Run(c, ss, sc)
		if err != nil {
			runErr = err
		}
		return ps
	}
	combos := [][]int64{{}}
	for range idSites {
		var next [][]int64
		for _, cb := range combos {
			for _, v := range []int64{3, c08Req, 9} {
				next = append(next, append(append([]int64{}, cb...), v))
			}
		}
		combos = next
	}
	for _, cb := range combos {
		loads := map[*ssa.Call]int64{}
		for i, s := range idSites {
			loads[s] = cb[i]
		}
		groupA = append(groupA, run(c08Scenario{loads, 1, -1}))
	}
	fresh := map[*ssa.Call]int64{}
	for _, s := range idSites {
		fresh[s] = 3
	}
	for _, old := range []int64{1, 5} {
		for _, over := range []int64{1, 0, -1} {
			groupB = append(groupB, run(c08Scenario{fresh, old, over}))
		}
	}
	if runErr != nil {
		for _, k := range []string{"stale id ⇒ refused, nothing changed", "accept only when total ≤ limit"} {
			c.Undecided("R3", ss, k, ss.Pos(), "the paths of SetState cannot be enumerated: "+runErr.Error())
		}
		c.Undecided("R2", ss, "overflowing increase is rolled back on the add's own result", ss.Pos(), "the paths of SetState cannot be enumerated: "+runErr.Error())
		return
	}
	all := append(append([][]c08Path{}, groupA...), groupB...)
	firstOf := func(p c08Path, kinds ...string) int {
		for i, e := range p.evs {
			for _, k := range kinds {
				if e.kind == k {
					return i
				}
			}
		}
		return -1
	}
	describe := func(p c08Path) string {
		s := p.sc.String() + ": a path executes"
		if len(p.evs) == 0 {
			s += " nothing"
		}
		for _, e := range p.evs {
			s += " " + e.kind + "(" + e.val.String() + ")"
		}
		s += " and returns"
		for _, r := range p.pr.Ret {
			s += " " + r.String()
		}
		return s
	}
	var swapPos = ss.Pos()
	for _, g := range all {
		for _, p := range g {
			if i := firstOf(p, "swap"); i >= 0 {
				swapPos = p.evs[i].call.Pos()
			}
		}
	}

	// ---- R1b: swap ⇒ add(current − old); count adjusted ⇒ total adjusted by the same amount
	{
		ok, detail, n := true, "after the instance count is replaced the running total must be adjusted by exactly current − old on every path", 0
		ok2, detail2 := true, "an adjustment of the instance count must be followed on every path by add() of the same amount on the total"
		for _, g := range all {
			for _, p := range g {
				i := firstOf(p, "swap")
				if i >= 0 {
					n++
					nv, isK := c08IntOf(p.evs[i].val)
					good := false
					for _, e := range p.evs[i+1:] {
						if e.kind == "total" {
							good = isK && e.val.IsInt(nv-p.sc.old)
							break
						}
					}
					if !good && ok {
						ok, detail = false, detail+"; "+describe(p)
					}
				}
				for j, e := range p.evs {
					if e.kind != "adj" {
						continue
					}
					v, isK := c08IntOf(e.val)
					paired := false
					for _, f := range p.evs[j+1:] {
						if f.kind == "total" && isK && f.val.IsInt(v) {
							paired = true
						}
					}
					if !paired && ok2 {
						ok2, detail2 = false, detail2+"; "+describe(p)
					}
				}
			}
		}
		if n == 0 {
			ok, detail = false, "no path of a report replaces the instance count"
		}
		c.Check("R1b", ss, "swap ⇒ add(current − old)", swapPos, ok, detail)
		c.Check("R1b", ss, "count adjusted ⇒ total adjusted by the same amount", swapPos, ok2, detail2)
	}

	// ---- R2
	{
		okDec, dDec := true, "after the limit was lowered the total exceeds it: a rollback not restricted to δ > 0 also undoes every report that lowers an instance's count, so the total never comes down"
		okInc, dInc := true, "the decision to undo must use the value returned by the atomic add of this report; a separate read of the total (check-then-act) lets concurrent reports of different instances all pass and together exceed the limit"
		nInc := 0
		for _, g := range groupB {
			for _, p := range g {
				i := firstOf(p, "swap")
				if i < 0 {
					continue
				}
				var sum int64
				known, other := true, false
				for _, e := range p.evs[i+1:] {
					switch e.kind {
					case "adj":
						v, isK := c08IntOf(e.val)
						known = known && isK
						sum += v
					case "cntother", "swap":
						other = true
					}
				}
				delta := c08Cur - p.sc.old
				switch {
				case p.sc.over > 0 && delta > 0:
					nInc++
					if (other || !known || sum != -delta) && okInc {
						okInc, dInc = false, "an increase that pushed the total over the limit is not undone; "+dInc+"; "+describe(p)
					}
				case p.sc.over > 0:
					if (other || !known || sum != 0) && okDec {
						okDec, dDec = false, dDec+"; "+describe(p)
					}
				default:
					if (other || !known || sum != 0) && okInc {
						okInc, dInc = false, "the count is rolled back although the add of this report did not exceed the limit; "+dInc+"; "+describe(p)
					}
				}
			}
		}
		if nInc == 0 {
			okInc, dInc = false, "after swap+add no path undoes an increase that pushed the total over the limit: with concurrent reports (or a pre-check that raced) the accepted counts sum above the global limit"
		}
		c.Check("R2", ss, "rollback undoes increases only", swapPos, okDec, dDec)
		c.Check("R2", ss, "overflowing increase is rolled back on the add's own result", swapPos, okInc, dInc)
	}

	// ---- R3
	retIs := func(p c08Path, idx int, pred func(eng.AV) bool) bool {
		return idx < len(p.pr.Ret) && pred(p.pr.Ret[idx])
	}
	tooOld := func(a eng.AV) bool { return a.IsInt(c08TooOld) }
	{
		nRead := 0
		okStale, dStale := true, "a report whose request id is not newer than the recorded one returns (false, _, RequestIDTooOld) before the swap, the total and the recorded id are touched"
		okBefore, dBefore := true, "whenever a request id is given the swap is reached only through the id test"
		okFwd, dFwd, nWrite := true, "the recorded id is replaced only by the id of a report that was found newer than it", 0
		for gi, g := range all {
			inA := gi < len(groupA)
			for _, p := range g {
				allFresh := true
				for _, v := range p.sc.loads {
					if v >= c08Req {
						allFresh = false
					}
				}
				if !inA {
					// the outcomes of the add: a newer id that is processed is recorded whatever the
					// report's fate (also when the increase is rolled back)
					if allFresh && firstOf(p, "swap") >= 0 && firstOf(p, "idwrite", "idswap") < 0 && okFwd {
						okFwd, dFwd = false, "a newer id is processed without being recorded: the next report with the same id is processed again; "+describe(p)
					}
					continue
				}
				ir := firstOf(p, "idread", "idswap")
				if ir >= 0 {
					nRead++
				}
				// refused ⇒ nothing changed
				if retIs(p, 2, tooOld) {
					for _, e := range p.evs {
						if c08Touches(e.kind) && okStale {
							okStale, dStale = false, dStale+"; "+describe(p)
						}
					}
				}
				// stale ⇒ refused
				if ir >= 0 && p.sc.loads[p.evs[ir].call] >= c08Req {
					if !(retIs(p, 0, func(a eng.AV) bool { return a.IsBool(false) }) && retIs(p, 2, tooOld)) && okStale {
						okStale, dStale = false, dStale+"; "+describe(p)
					}
				}
				// the id test precedes the swap
				if is := firstOf(p, "swap"); is >= 0 && (ir < 0 || ir > is) && okBefore {
					okBefore, dBefore = false, dBefore+"; "+describe(p)
				}
				// the recorded id only moves forward
				last := int64(-1)
				seen := false
				wrote := false
				for _, e := range p.evs {
					switch e.kind {
					case "idread":
						last, seen = p.sc.loads[e.call], true
					case "idswap", "idwrite":
						nWrite++
						wrote = true
						if e.kind == "idswap" {
							last, seen = p.sc.loads[e.call], true
						}
						if !(seen && last < c08Req && e.val.IsInt(c08Req)) && okFwd {
							okFwd, dFwd = false, dFwd+"; "+describe(p)
						}
					case "idother":
						if okFwd {
							okFwd, dFwd = false, "the recorded id is written through an operation the rule does not classify; "+describe(p)
						}
					}
				}
				if allFresh && firstOf(p, "swap") >= 0 && !wrote && okFwd {
					okFwd, dFwd = false, "a newer id is processed without being recorded: the next report with the same id is processed again; "+describe(p)
				}
			}
		}
		if nRead == 0 {
			c.Fail("R3", ss, "request-id test", ss.Pos(), "the recorded request id is never read")
		} else {
			c.Check("R3", ss, "stale id ⇒ refused, nothing changed", swapPos, okStale, dStale)
			c.Check("R3", ss, "id test before the swap", swapPos, okBefore, dBefore)
			if nWrite == 0 {
				okFwd, dFwd = false, "the id of a processed report is never recorded"
			}
			c.Check("R3", ss, "recorded id only moves forward", swapPos, okFwd, dFwd)
		}
	}
	{
		ok, detail := true, "accept=true is returned only on the edge where add(δ) reports count − max ≤ 0"
		nAcc := 0
		for _, g := range groupB {
			for _, p := range g {
				if firstOf(p, "swap") < 0 {
					continue
				}
				isFalse := retIs(p, 0, func(a eng.AV) bool { return a.IsBool(false) })
				if !isFalse {
					nAcc++
				}
				if p.sc.over > 0 && !isFalse && ok {
					ok, detail = false, detail+"; "+describe(p)
				}
			}
		}
		if nAcc == 0 {
			c.Fail("R3", ss, "accept only when total ≤ limit", ss.Pos(), "no accepting return")
		} else {
			c.Check("R3", ss, "accept only when total ≤ limit", swapPos, ok, detail)
		}
	}
}

// sameExpr compares two values structurally (same SSA value, or the same unary/binary
// operator applied to the same operands).
func sameExpr(a, b ssa.Value) bool {
	if a == b {
		return true
	}
	ua, oka := a.(*ssa.UnOp)
	ub, okb := b.(*ssa.UnOp)
	if oka && okb {
		return ua.Op == ub.Op && sameExpr(ua.X, ub.X)
	}
	ba, oka := a.(*ssa.BinOp)
	bb, okb := b.(*ssa.BinOp)
	if oka && okb {
		return ba.Op == bb.Op && sameExpr(ba.X, bb.X) && sameExpr(ba.Y, bb.Y)
	}
	return sameLoad(a, b)
}

// c08Up resolves a value of a helper whose callers are all known to the value it stands for in
// the callers: a parameter that receives the same value at every call site (recursively).
func c08Up(v ssa.Value) ssa.Value {
	for d := 0; d < eng.LiftDepth; d++ {
		p, ok := v.(*ssa.Parameter)
		if !ok || p.Parent() == nil {
			return v
		}
		sites := eng.Current.LiftSites(p.Parent())
		idx := -1
		for i, q := range p.Parent().Params {
			if q == p {
				idx = i
			}
		}
		if len(sites) == 0 || idx < 0 {
			return v
		}
		var w ssa.Value
		for _, s := range sites {
			args := s.Common().Args
			if idx >= len(args) || (w != nil && w != args[idx]) {
				return v
			}
			w = args[idx]
		}
		v = w
	}
	return v
}

// c08SameVal: the same SSA value, possibly seen from inside a helper through its parameters.
func c08SameVal(a, b ssa.Value) bool {
	if a == nil || b == nil {
		return false
	}
	return a == b || c08Up(a) == c08Up(b)
}

// c08LiftTo returns the instructions of function fn that stand for ins: ins itself when it sits
// in fn, else the calls in fn of the helper (with known callers) that contains ins.
func c08LiftTo(ins ssa.Instruction, fn *ssa.Function, depth int) []ssa.Instruction {
	if ins.Parent() == fn {
		return []ssa.Instruction{ins}
	}
	if depth <= 0 {
		return nil
	}
	var out []ssa.Instruction
	for _, s := range eng.Current.GuardSites(ins.Parent()) {
		out = append(out, c08LiftTo(s, fn, depth-1)...)
	}
	return out
}

// c08SameHold: a and b execute in one hold of the table's lock — one follows the other without a
// release in between (a helper call during which the lock may be released counts as a release).
func c08SameHold(tc *tableChecker, a, b ssa.Instruction) bool {
	try := func(x, y ssa.Instruction) bool {
		for _, site := range c08LiftTo(y, x.Parent(), eng.LiftDepth) {
			site := site
			if eng.ReachAfter(x, eng.PathQuery{
				Target: func(i ssa.Instruction) bool { return i == site },
				Avoid:  func(i ssa.Instruction) bool { return i != site && tc.lr.MayRelease(i) },
			}) == nil {
				continue
			}
			if site != y {
				// y sits in a helper: no release between the helper's entry and y
				if tc.lr.ReleaseFromEntry(y.Parent(), y) != nil {
					continue
				}
			}
			return true
		}
		return false
	}
	return try(a, b) || try(b, a)
}

// c08Acquire: R4 and R5 in DoAcquire (its closures and extracted helpers).
func c08Acquire(c *eng.Ctx) {
	da := c.MustMethod(pkgLimiter, "rateLimiter", "DoAcquire")
	if da == nil {
		return
	}
	tokensField := func(v ssa.Value) bool {
		return eng.FieldLoadOf(v, pkgV1alpha1+".RateLimitAcquireRequest", "Tokens")
	}
	n := 0
	// DoAcquire with its closures and the helpers the per-item work may have been moved into
	for _, fn := range c.W.Region(da) {
		for _, ci := range eng.Calls(fn) {
			if !eng.IsCall(ci, "("+tGlobalFC+").SetState", "("+tGlobalFC+").TryAcquireN") {
				continue
			}
			n++
			ok := eng.HoldsAt(ci, func(r eng.Rel) bool {
				r = eng.NormRel(r)
				z, isZ := eng.IntConst(r.Y)
				return tokensField(c08Up(r.X)) && isZ && ((z == 0 && r.Op == token.GEQ) || (z == -1 && r.Op == token.GTR))
			})
			c.Check("R4", fn, "negative tokens refused before "+ci.Common().Method.Name(), ci.Pos(), ok, "a negative count would be taken for the removal of the instance (SetState) or refill the bucket (AllowN with a negative n)")
		}
		// R5: grant == amount taken from the bucket
		for _, ci := range eng.CallsTo(fn, "("+tGlobalFC+").TryAcquireN") {
			call, isC := ci.(*ssa.Call)
			if !isC {
				continue
			}
			amount := eng.Args(call)[1]
			// amount is the asked tokens or a halving of it
			shape := false
			if p, isP := amount.(*ssa.Phi); isP {
				shape = true
				for _, e := range p.Edges {
					if tokensField(c08Up(e)) {
						continue
					}
					if q, isQ := e.(*ssa.BinOp); isQ && q.Op == token.QUO && q.X == ssa.Value(p) {
						if k, isK := eng.IntConst(q.Y); isK && k >= 1 {
							continue
						}
					}
					shape = false
				}
			} else if tokensField(c08Up(amount)) {
				shape = true
			}
			c.Check("R5", fn, "amount tried ∈ {asked, asked/2ᵏ}", call.Pos(), shape, "each grant lies between 0 and the amount asked")
			// the Limit answered under accept is that same amount: some store into the result's Limit
			// — in DoAcquire or a helper — takes a value one definition of which is the amount of
			// this very call, and takes that definition only when the call succeeded (a guard of the
			// store, of the return statement through which a helper hands the amount out, or of the
			// join edge that selects it)
			okStore := false
			accepted := func(r eng.Rel) bool {
				return eng.IsBoolConst(r.Y, true) && r.Op == token.EQL && c.Slicer().DerivesFrom(r.X, func(v ssa.Value) bool { return v == ssa.Value(call) })
			}
			for _, st := range eng.StoresToField(c.W.Region(da), pkgV1alpha1+".RateLimitAcquireResult", "Limit") {
				guardedStore := eng.HoldsAt(st, accepted)
				eng.WalkDefs(st.Val, nil, func(d eng.EnvValue, via []eng.Via) bool {
					if d.V != amount {
						return !okStore
					}
					g := guardedStore
					for _, v := range via {
						if eng.HoldsAt(v.At, accepted) {
							g = true
						}
					}
					if g {
						okStore = true
					}
					return false
				})
			}
			c.Check("R5", fn, "granted amount = amount taken from the bucket", call.Pos(), okStore, "the Limit answered on accept must be the n passed to the TryAcquireN call that succeeded")
		}
	}
	if n < 2 {
		c.Fail("R4", da, "state-changing calls in DoAcquire", da.Pos(), "SetState / TryAcquireN calls not found")
	}
}

// c08TokenBucket: R6.
func c08TokenBucket(c *eng.Ctx) {
	// the constructor of the server bucket: by name, or the package-level function that builds the
	// rate limiter (Resize, which rebuilds it, is a method)
	ctor := c13Anchor(c, pkgRLStoreFC, "", "newTokenBucketFlowControl", func(fn *ssa.Function) bool {
		return fn.Signature.Recv() == nil && len(eng.CallsTo(fn, "golang.org/x/time/rate.NewLimiter")) > 0
	})
	if ctor != nil && len(ctor.Params) >= 2 {
		// (qps, burst) are the constructor's last two parameters
		qps, burst := ctor.Params[len(ctor.Params)-2], ctor.Params[len(ctor.Params)-1]
		for _, ci := range eng.CallsTo(ctor, "golang.org/x/time/rate.NewLimiter") {
			a := eng.Args(ci)
			ok := len(a) == 2 && convOf(a[0]) == ssa.Value(qps) && convOf(a[1]) == ssa.Value(burst)
			c.Check("R6", ctor, "NewLimiter(Limit(qps), burst)", ci.Pos(), ok, "rate and burst must not be swapped or replaced")
		}
	}
	if ng := c.MustFunc(pkgRLStoreFC, "NewGlobalFlowControl"); ng != nil {
		var ctorCalls []ssa.CallInstruction
		if ctor != nil {
			ctorCalls = eng.CallsToFn(ng, ctor)
		}
		for _, ci := range ctorCalls {
			a := eng.Args(ci)
			ok := len(a) == 4 && eng.FieldLoadOf(a[2], pkgV1alpha1+".TokenBucketFlowControlSchema", "QPS") && eng.FieldLoadOf(a[3], pkgV1alpha1+".TokenBucketFlowControlSchema", "Burst") &&
				pathHas(a[2], "GlobalTokenBucket") && pathHas(a[3], "GlobalTokenBucket")
			c.Check("R6", ng, "server bucket sized from the global qps/burst", ci.Pos(), ok, "")
		}
		for _, ci := range eng.CallsTo(ng, pkgRLStoreFC+".newMaxInflightFlowControl") {
			a := eng.Args(ci)
			ok := len(a) == 3 && eng.FieldLoadOf(a[2], pkgV1alpha1+".MaxRequestsInflightFlowControlSchema", "Max") && pathHas(a[2], "GlobalMaxRequestsInflight")
			c.Check("R6", ng, "server in-flight limit from the global max", ci.Pos(), ok, "")
		}
	}
	if ta := c.MustMethod(pkgRLStoreFC, "globalTokenBucket", "TryAcquireN"); ta != nil {
		ok := false
		eng.Instrs(ta, func(ins ssa.Instruction) {
			if ret, isR := ins.(*ssa.Return); isR {
				cc, _ := eng.CallResultOf(ret.Results[0])
				if cc != nil && eng.IsCall(cc, "(*golang.org/x/time/rate.Limiter).AllowN") && eng.FieldLoadOf(eng.Receiver(cc), tGlobalTokenBucket, "limiter") {
					a := eng.Args(cc)
					tc, _ := eng.CallResultOf(a[0])
					ok = tc != nil && eng.IsCall(tc, "time.Now") && convOf(a[1]) == ssa.Value(ta.Params[2])
				}
			}
		})
		c.Check("R6", ta, "TryAcquireN = limiter.AllowN(now, n)", ta.Pos(), ok, "every grant is drawn from the one server-side bucket of the schema")
	}
	if rs := c.MustMethod(pkgRLStoreFC, "globalTokenBucket", "Resize"); rs != nil {
		for _, st := range eng.StoresToField([]*ssa.Function{rs}, tGlobalTokenBucket, "limiter") {
			ok := eng.GuardsOf(st) != nil && len(eng.GuardsOf(st)) > 0
			// the replacement must be reachable only when qps or burst differ: the store block is not
			// reachable when both comparisons are equal
			eq := eng.ReachFromEntry(rs, eng.PathQuery{
				Target: func(i ssa.Instruction) bool { return i == ssa.Instruction(st) },
				BlockEdge: func(from *ssa.BasicBlock, idx int) bool {
					iff, isIf := from.Instrs[len(from.Instrs)-1].(*ssa.If)
					if !isIf {
						return false
					}
					r := eng.RelOf(iff.Cond, idx == 0)
					isCmp := (eng.FieldLoadOf(r.X, tGlobalTokenBucket, "qps") && r.Y == ssa.Value(rs.Params[1])) || (eng.FieldLoadOf(r.X, tGlobalTokenBucket, "burst") && r.Y == ssa.Value(rs.Params[2]))
					return isCmp && r.Op == token.NEQ // block the "differs" edges
				},
			})
			_ = ok
			c.Check("R6", rs, "limiter replaced only on change", st.Pos(), eq == nil, "an unchanged re-sync must not refill the server bucket")
			// new limiter from the new values
			cc, _ := eng.CallResultOf(st.Val)
			okNew := cc != nil && eng.IsCall(cc, "golang.org/x/time/rate.NewLimiter") && convOf(eng.Args(cc)[0]) == ssa.Value(rs.Params[1]) && convOf(eng.Args(cc)[1]) == ssa.Value(rs.Params[2])
			c.Check("R6", rs, "resized limiter = NewLimiter(Limit(n), burst)", st.Pos(), okNew, "")
		}
	}
}

// convOf strips conversions.
func convOf(v ssa.Value) ssa.Value {
	for {
		switch n := v.(type) {
		case *ssa.Convert:
			v = n.X
		case *ssa.ChangeType:
			v = n.X
		default:
			return v
		}
	}
}

// pathHas reports whether the access path of v contains field name.
func pathHas(v ssa.Value, name string) bool {
	_, p := eng.AccessPath(v)
	for _, x := range p {
		if x == name {
			return true
		}
	}
	return false
}

// ---------------------------------------------------------------------------------------

const c08FxSrc = `package fx
type Mu struct{}
func (*Mu) Lock() {}
func (*Mu) Unlock() {}
func (*Mu) RLock() {}
func (*Mu) RUnlock() {}
type rec struct{ n int }
type T struct { mu Mu; m map[string]*rec }

func (t *T) bad(k string) int {
	t.mu.RLock()
	r, ok := t.m[k]
	t.mu.RUnlock()
	if !ok { return 0 }
	t.mu.RLock()
	defer t.mu.RUnlock()
	return r.n
}
func (t *T) good(k string) int {
	t.mu.RLock()
	r, ok := t.m[k]
	if !ok {
		t.mu.RUnlock()
		t.mu.Lock()
		if _, ok := t.m[k]; !ok { t.m[k] = &rec{} }
		t.mu.Unlock()
		t.mu.RLock()
		r, ok = t.m[k]
		if !ok { t.mu.RUnlock(); return 0 }
	}
	defer t.mu.RUnlock()
	return r.n
}
func (t *T) badWrite(k string) {
	t.mu.RLock()
	t.m[k] = &rec{}
	t.mu.RUnlock()
}
func (t *T) rlockRec(k string) (*rec, bool) {
	t.mu.RLock()
	r, ok := t.m[k]
	if !ok { t.mu.RUnlock(); return nil, false }
	return r, true
}
func (t *T) goodHelper(k string) int {
	r, ok := t.rlockRec(k)
	if !ok { return 0 }
	defer t.mu.RUnlock()
	return r.n
}
func (t *T) rlockRecPtr(k string) *rec {
	t.mu.RLock()
	if r, ok := t.m[k]; ok && r != nil { return r }
	t.mu.RUnlock()
	return nil
}
func (t *T) goodHelperNil(k string) int {
	r := t.rlockRecPtr(k)
	if r == nil { return 0 }
	n := r.n
	t.mu.RUnlock()
	return n
}
func (t *T) lookupUnlocked(k string) (*rec, bool) {
	t.mu.RLock()
	r, ok := t.m[k]
	t.mu.RUnlock()
	if !ok { return nil, false }
	return r, true
}
func (t *T) badHelper(k string) int {
	r, ok := t.lookupUnlocked(k)
	if !ok { return 0 }
	t.mu.RLock()
	defer t.mu.RUnlock()
	return r.n
}
func (t *T) badHelperNoTest(k string) int {
	r, _ := t.rlockRec(k)
	defer t.mu.RUnlock()
	return r.n
}
func (t *T) badHelperReleased(k string) int {
	r, ok := t.rlockRec(k)
	if !ok { return 0 }
	t.mu.RUnlock()
	return r.n
}
func (t *T) badInsert(k string) int {
	t.mu.RLock()
	r, ok := t.m[k]
	if !ok {
		t.mu.RUnlock()
		t.mu.Lock()
		t.m[k] = &rec{}
		t.mu.Unlock()
		t.mu.RLock()
		r, ok = t.m[k]
		if !ok { t.mu.RUnlock(); return 0 }
	}
	defer t.mu.RUnlock()
	return r.n
}
`

func c08Fixtures(c *eng.Ctx) {
	p, _, err := eng.BuildFixture(c08FxSrc)
	if err != nil {
		c.Fixture("C08.table/build", "ok", err.Error())
		return
	}
	sp := tableSpec{
		isTable:   func(v ssa.Value) bool { return eng.FieldLoadOf(v, "fx.T", "m") },
		isMutex:   func(v ssa.Value) bool { return eng.FieldAddrOf(v, "fx.T", "mu") },
		isRecord:  func(t types.Type) bool { return eng.TypeName(t) == "fx.rec" },
		tableName: "m",
	}
	// the fixture mutex is fx.Mu, not sync.RWMutex: adapt through a wrapper spec
	for name, want := range map[string]bool{"bad": false, "good": true, "badWrite": false, "badInsert": false,
		// lock handed over by a helper (function summaries)
		"goodHelper": true, "goodHelperNil": true, "badHelper": false, "badHelperNoTest": false, "badHelperReleased": false} {
		fn := eng.FxMethod(p, "T", name)
		all := true
		n := 0
		for _, f := range checkGuardedTableFx(fn, sp) {
			n++
			if !f.ok {
				all = false
			}
		}
		c.Fixture("C08.table/"+name, fmt.Sprint(want), fmt.Sprint(all && n > 0))
	}
}

// checkGuardedTableFx runs the template with the fixture's own mutex type by temporarily
// aliasing its method names to the sync names understood by eng.LockSpec.
func checkGuardedTableFx(fn *ssa.Function, sp tableSpec) []tableFinding {
	eng.ExtraLockNames = map[string]eng.LockState{
		"(*fx.Mu).Lock": eng.LockExcl, "(*fx.Mu).RLock": eng.LockShared, "(*fx.Mu).Unlock": eng.LockNone, "(*fx.Mu).RUnlock": eng.LockNone,
	}
	defer func() { eng.ExtraLockNames = nil }()
	return checkGuardedTable(fn, sp)
}
