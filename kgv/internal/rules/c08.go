package rules

import (
	"fmt"
	"go/token"
	"go/types"

	"golang.org/x/tools/go/ssa"

	"kgv/internal/eng"
)

func init() {
	Register("C08", c08)
	RegisterFixture("C08", c08Fixtures)
}

const (
	tGlobalMaxInflight = pkgRLStoreFC + ".globalMaxInflight"
	tInstanceState     = pkgRLStoreFC + ".instanceState"
	tGlobalTokenBucket = pkgRLStoreFC + ".globalTokenBucket"
	tGlobalFC          = pkgRLStoreFC + ".GlobalFlowControl"
)

// tableSpec parameterises the guarded-table template (A7): a map field guarded by a mutex
// field of the same struct, whose entries are pointers to records.
type tableSpec struct {
	isTable   func(v ssa.Value) bool // the map value (load of the map field)
	isMutex   func(v ssa.Value) bool // the mutex operand
	isRecord  func(t types.Type) bool
	tableName string
}

type tableFinding struct {
	construct string
	at        ssa.Instruction
	ok        bool
	detail    string
}

// checkGuardedTable evaluates one function: lookups/ranges need the mutex held, updates and
// deletes need it exclusively, and no release may happen between binding a record to the
// table (lookup, or the update that published it) and a dereference of the record.
func checkGuardedTable(fn *ssa.Function, sp tableSpec) []tableFinding {
	var out []tableFinding
	ls := eng.LockSpec{IsMutex: sp.isMutex}
	states := eng.LockStates(fn, ls)
	nLook, nUpd, nDel, nUse := 0, 0, 0, 0
	defOf := func(v ssa.Value) ssa.Instruction {
		switch n := v.(type) {
		case *ssa.Extract:
			if l, ok := n.Tuple.(*ssa.Lookup); ok && sp.isTable(l.X) {
				return l
			}
			if nx, ok := n.Tuple.(*ssa.Next); ok {
				if rg, ok := nx.Iter.(*ssa.Range); ok && sp.isTable(rg.X) {
					return nx
				}
			}
		case *ssa.Lookup:
			if sp.isTable(n.X) {
				return n
			}
		case *ssa.Alloc:
			// a fresh record published into the table
			var pub ssa.Instruction
			if n.Referrers() != nil {
				for _, r := range *n.Referrers() {
					if mu, ok := r.(*ssa.MapUpdate); ok && mu.Value == ssa.Value(n) && sp.isTable(mu.Map) {
						pub = mu
					}
				}
			}
			return pub
		}
		return nil
	}
	eng.Instrs(fn, func(ins ssa.Instruction) {
		switch n := ins.(type) {
		case *ssa.Lookup:
			if sp.isTable(n.X) {
				nLook++
				st := states[ins]
				out = append(out, tableFinding{fmt.Sprintf("lookup#%d of %s under the lock", nLook, sp.tableName), ins, st == eng.LockShared || st == eng.LockExcl,
					"the table is read while its lock is " + st.String()})
			}
		case *ssa.Range:
			if sp.isTable(n.X) {
				nLook++
				st := states[ins]
				out = append(out, tableFinding{fmt.Sprintf("range#%d over %s under the lock", nLook, sp.tableName), ins, st == eng.LockShared || st == eng.LockExcl,
					"the table is iterated while its lock is " + st.String()})
			}
		case *ssa.MapUpdate:
			if sp.isTable(n.Map) {
				nUpd++
				st := states[ins]
				out = append(out, tableFinding{fmt.Sprintf("update#%d of %s under the write lock", nUpd, sp.tableName), ins, st == eng.LockExcl,
					"the table is written while its lock is " + st.String()})
				// registering a fresh record is check-and-insert in ONE exclusive hold: between the
				// Lock() that protects the insert and the insert the same key is looked up, and the
				// insert is conditional on that lookup. An unconditional insert replaces a record
				// that a racing first report has just registered and counted on.
				if _, fresh := n.Value.(*ssa.Alloc); fresh {
					isLookup := func(i ssa.Instruction) bool {
						l, ok := i.(*ssa.Lookup)
						return ok && sp.isTable(l.X) && (l.Index == n.Key || sameLoad(l.Index, n.Key))
					}
					okCheck := true
					nLocks := 0
					eng.Instrs(fn, func(li ssa.Instruction) {
						lc, isCall := li.(*ssa.Call)
						if !isCall || !eng.MethodNameIs(lc, "Lock") || !sp.isMutex(eng.Receiver(lc)) {
							return
						}
						isUnlock := func(i ssa.Instruction) bool {
							uc, ok := i.(*ssa.Call)
							return ok && eng.MethodNameIs(uc, "Unlock") && sp.isMutex(eng.Receiver(uc))
						}
						// does this hold reach the insert at all?
						if eng.ReachAfter(lc, eng.PathQuery{Target: func(i ssa.Instruction) bool { return i == ins }, Avoid: isUnlock}) == nil {
							return
						}
						nLocks++
						if eng.ReachAfter(lc, eng.PathQuery{Target: func(i ssa.Instruction) bool { return i == ins }, Avoid: func(i ssa.Instruction) bool { return isUnlock(i) || isLookup(i) }}) != nil {
							okCheck = false
						}
					})
					// conditional on the lookup: some path from the lookup leaves the hold without inserting
					cond := false
					eng.Instrs(fn, func(li ssa.Instruction) {
						if isLookup(li) && states[li] == eng.LockExcl {
							if eng.ReachAfter(li, eng.PathQuery{Target: eng.IsExit, Avoid: func(i ssa.Instruction) bool { return i == ins }}) != nil {
								cond = true
							}
						}
					})
					out = append(out, tableFinding{fmt.Sprintf("insert#%d into %s is check-and-insert in one exclusive hold", nUpd, sp.tableName), ins, nLocks > 0 && okCheck && cond,
						"a fresh record is inserted without looking the key up again after taking the write lock (or regardless of that lookup): two racing first reports of one instance each insert, and the count booked on the replaced record stays in the total forever"})
				}
			}
		case *ssa.Call:
			if isBuiltin(n, "delete") && sp.isTable(n.Call.Args[0]) {
				nDel++
				st := states[ins]
				out = append(out, tableFinding{fmt.Sprintf("delete#%d from %s under the write lock", nDel, sp.tableName), ins, st == eng.LockExcl,
					"an entry is removed while the lock is " + st.String()})
			}
		case *ssa.FieldAddr:
			if !sp.isRecord(n.X.Type()) {
				return
			}
			// only records that come from the table (directly or through phis)
			bound := false
			var walk func(v ssa.Value, seen map[ssa.Value]bool)
			walk = func(v ssa.Value, seen map[ssa.Value]bool) {
				if seen[v] {
					return
				}
				seen[v] = true
				if p, ok := v.(*ssa.Phi); ok {
					for _, e := range p.Edges {
						walk(e, seen)
					}
					return
				}
				if defOf(v) != nil {
					bound = true
				}
			}
			walk(n.X, map[ssa.Value]bool{})
			if !bound {
				return
			}
			nUse++
			st := states[ins]
			rel := eng.ReleasedBetween(n.X, ins, ls, defOf)
			ok := rel == nil && (st == eng.LockShared || st == eng.LockExcl)
			detail := "the record is dereferenced while the lock is " + st.String()
			if rel != nil {
				detail = "the table's lock is released between looking the record up (or publishing it) and this use: a concurrent removal can take the entry away in between, so the count is subtracted twice or added to an orphan record"
			}
			out = append(out, tableFinding{fmt.Sprintf("use#%d of a %s record in the critical section of its lookup", nUse, sp.tableName), ins, ok, detail})
		}
	})
	return out
}

func c08(c *eng.Ctx) {
	c.Rule("R1", "instance table atomicity (globalMaxInflight): every lookup/range of instanceStates executes with the lock held, every update/delete with it held exclusively, and no release separates the lookup (or publication) of a record from any dereference of it", 8)
	c.Rule("R1b", "exact accounting: every change of an instance's count by Δ is paired with add(Δ) on the running total on all paths (swap → add(current−old); rollback add(−δ) on both; removal → add(−count) of the removed record)", 3)
	c.Rule("R2", "rollback only undoes increases: a write to an instance's count after the swap adds −δ under δ > 0 (a report that lowers the count is always applied); an increase that overflows is undone, decided on the atomic add's own result", 2)
	c.Rule("R3", "request-id monotonicity and acceptance: an id not newer than the recorded one returns RequestIDTooOld without touching the counts; the recorded id only moves forward; accept=true only when the total does not exceed the limit", 4)
	c.Rule("R4", "negative token counts are refused before any state change in DoAcquire", 2)
	c.Rule("R5", "token grants: the amount granted is exactly the amount taken from the bucket, which is the amount asked or a halving of it", 2)
	c.Rule("R6", "server token bucket wiring: rate.NewLimiter(Limit(qps), burst) from the schema's global qps/burst in that order; TryAcquireN = AllowN(now, n); the limiter is replaced only when qps or burst changes", 5)

	named := c.W.Named(pkgRLStoreFC, "globalMaxInflight")
	if named == nil {
		c.Fail("engine", nil, "unresolved-anchor type globalMaxInflight", 0, "")
		return
	}
	sp := tableSpec{
		isTable:   func(v ssa.Value) bool { return eng.FieldLoadOf(v, tGlobalMaxInflight, "instanceStates") },
		isMutex:   func(v ssa.Value) bool { return eng.FieldAddrOf(v, tGlobalMaxInflight, "lock") },
		isRecord:  func(t types.Type) bool { return eng.TypeName(t) == tInstanceState },
		tableName: "instanceStates",
	}
	// ---- R1 over every function of the package that touches the table
	for _, fn := range c.W.FuncsOf(pkgRLStoreFC) {
		if fn.Name() == "newMaxInflightFlowControl" {
			continue // constructor: the object is not shared yet
		}
		for _, f := range checkGuardedTable(fn, sp) {
			c.Check("R1", fn, f.construct, f.at.Pos(), f.ok, f.detail)
		}
	}

	ss := c.MustMethod(pkgRLStoreFC, "globalMaxInflight", "SetState")
	if ss == nil {
		return
	}
	addFn := c.MustMethod(pkgRLStoreFC, "globalMaxInflight", "add")
	isCountAddr := func(v ssa.Value) bool { return eng.FieldAddrOf(v, tInstanceState, "count") }
	isAddTotal := func(ins ssa.Instruction) bool {
		ci, ok := ins.(ssa.CallInstruction)
		return ok && addFn != nil && eng.CalleeFn(ci) == addFn
	}
	// the swap
	var swap *ssa.Call
	for _, ci := range eng.CallsTo(ss, "sync/atomic.SwapInt32") {
		if isCountAddr(eng.Args(ci)[0]) {
			swap, _ = ci.(*ssa.Call)
		}
	}
	if swap == nil {
		c.Fail("R1b", ss, "swap of the instance count", ss.Pos(), "no atomic swap of instanceState.count found")
		return
	}
	cur := eng.Args(swap)[1]
	// ---- R1b
	{
		x := eng.ReachAfter(swap, eng.PathQuery{Target: eng.IsExit, Avoid: isAddTotal})
		var first ssa.Instruction = eng.ReachAfter(swap, eng.PathQuery{Target: isAddTotal})
		ok := x == nil && first != nil
		if ok {
			d, isB := eng.Args(first.(ssa.CallInstruction))[0].(*ssa.BinOp)
			ok = isB && d.Op == token.SUB && d.X == cur && d.Y == ssa.Value(swap)
		}
		c.Check("R1b", ss, "swap ⇒ add(current − old)", swap.Pos(), ok, "after the instance count is replaced the running total must be adjusted by exactly current − old on every path")
	}
	for _, ci := range eng.CallsTo(ss, "sync/atomic.AddInt32") {
		if !isCountAddr(eng.Args(ci)[0]) {
			continue
		}
		a := eng.Args(ci)[1]
		paired := false
		if nx := eng.ReachAfter(ci, eng.PathQuery{Target: isAddTotal}); nx != nil && eng.AlwaysAfter(ci, isAddTotal) {
			b := eng.Args(nx.(ssa.CallInstruction))[0]
			paired = sameExpr(a, b)
		}
		c.Check("R1b", ss, "count adjusted ⇒ total adjusted by the same amount", ci.Pos(), paired, "an adjustment of the instance count must be followed on every path by add() of the same amount on the total")
		// ---- R2
		if eng.ReachAfter(swap, eng.PathQuery{Target: func(i ssa.Instruction) bool { return i == ci.(ssa.Instruction) }}) != nil {
			neg, isNeg := a.(*ssa.UnOp)
			ok := isNeg && neg.Op == token.SUB && eng.GuardedBy(ci, func(r eng.Rel) bool {
				z, isZ := eng.IntConst(r.Y)
				return r.X == neg.X && isZ && ((z == 0 && r.Op == token.GTR) || (z == 1 && r.Op == token.GEQ))
			})
			c.Check("R2", ss, "rollback undoes increases only", ci.Pos(), ok, "after the limit was lowered the total exceeds it: a rollback not restricted to δ > 0 also undoes every report that lowers an instance's count, so the total never comes down")
		}
	}
	// an increase that overflows the limit must be undone: some rollback of the instance count exists after the swap
	nRollback := 0
	for _, ci := range eng.CallsTo(ss, "sync/atomic.AddInt32") {
		if isCountAddr(eng.Args(ci)[0]) && eng.ReachAfter(swap, eng.PathQuery{Target: func(i ssa.Instruction) bool { return i == ci.(ssa.Instruction) }}) != nil {
			nRollback++
			// the rollback is decided on the result of the atomic add (count − max after adding), not on a separate pre-check
			var addRes ssa.Value
			if x := eng.ReachAfter(swap, eng.PathQuery{Target: isAddTotal}); x != nil {
				addRes = eng.ResultValue(x.(ssa.CallInstruction))
			}
			onOverflow := addRes != nil && eng.GuardedBy(ci, func(r eng.Rel) bool {
				z, isZ := eng.IntConst(r.Y)
				return r.X == addRes && isZ && z == 0 && r.Op == token.GTR
			})
			c.Check("R2", ss, "overflowing increase is rolled back on the add's own result", ci.Pos(), onOverflow,
				"the decision to undo must use the value returned by the atomic add of this report; a separate read of the total (check-then-act) lets concurrent reports of different instances all pass and together exceed the limit")
		}
	}
	if nRollback == 0 {
		c.Fail("R2", ss, "overflowing increase is rolled back on the add's own result", swap.Pos(),
			"after swap+add no path undoes an increase that pushed the total over the limit: with concurrent reports (or a pre-check that raced) the accepted counts sum above the global limit")
	}
	// removal: delete paired with add(−count of the removed record)
	for _, ci := range eng.Calls(ss) {
		if !isBuiltin(ci, "delete") || !sp.isTable(ci.Common().Args[0]) {
			continue
		}
		ok := false
		key := ci.Common().Args[1]
		for _, ac := range eng.Calls(ss) {
			if !isAddTotal(ac) {
				continue
			}
			neg, isNeg := eng.Args(ac)[0].(*ssa.UnOp)
			if !isNeg || neg.Op != token.SUB {
				continue
			}
			// −(count of a record looked up under the same key)
			fromRecord := c.Slicer().WithArgs().DerivesFrom(neg.X, func(v ssa.Value) bool {
				if e, isE := v.(*ssa.Extract); isE {
					if l, isL := e.Tuple.(*ssa.Lookup); isL && sp.isTable(l.X) && l.Index == key {
						return true
					}
				}
				return false
			}) && c.Slicer().WithArgs().DerivesFrom(neg.X, func(v ssa.Value) bool { return isCountAddr(v) })
			// same exclusive region: no release between delete and add (either order)
			ls := eng.LockSpec{IsMutex: sp.isMutex}
			sameRegion := eng.ReachAfter(ci, eng.PathQuery{Target: func(i ssa.Instruction) bool { return i == ac.(ssa.Instruction) }, Avoid: ls.IsRelease}) != nil ||
				eng.ReachAfter(ac, eng.PathQuery{Target: func(i ssa.Instruction) bool { return i == ci.(ssa.Instruction) }, Avoid: ls.IsRelease}) != nil
			if fromRecord && sameRegion {
				ok = true
			}
		}
		c.Check("R1b", ss, "removal ⇒ add(−count of the removed record)", ci.Pos(), ok, "removing an instance subtracts exactly the count recorded for it, in the same exclusive section as the removal")
	}

	// ---- R3
	reqID := ssa.Value(ss.Params[2])
	var idLoad *ssa.Call
	for _, ci := range eng.CallsTo(ss, "sync/atomic.LoadInt64") {
		if eng.FieldAddrOf(eng.Args(ci)[0], tInstanceState, "requestId") {
			idLoad, _ = ci.(*ssa.Call)
		}
	}
	if idLoad == nil {
		c.Fail("R3", ss, "request-id test", ss.Pos(), "the recorded request id is never read")
	} else {
		found := false
		for _, b := range ss.Blocks {
			iff, ok := b.Instrs[len(b.Instrs)-1].(*ssa.If)
			if !ok {
				continue
			}
			r := eng.RelOf(iff.Cond, true)
			x, y, op := r.X, r.Y, r.Op
			if x == ssa.Value(idLoad) && y == reqID {
				x, y, op = y, x, eng.FlipOp(op)
			}
			if x != reqID || y != ssa.Value(idLoad) {
				continue
			}
			found = true
			// successor taken when requestId <= old
			var stale *ssa.BasicBlock
			switch op {
			case token.LEQ:
				stale = b.Succs[0]
			case token.GTR:
				stale = b.Succs[1]
			default:
				c.Fail("R3", ss, "request-id test", iff.Pos(), "the comparison must refuse ids that are not strictly newer (requestId <= recorded)")
				continue
			}
			touch := eng.ReachFromBlock(stale, eng.PathQuery{Target: func(i ssa.Instruction) bool {
				return i == ssa.Instruction(swap) || isAddTotal(i) || eng.IsCall(i, "sync/atomic.StoreInt64", "sync/atomic.AddInt32")
			}})
			retOK := false
			if x := eng.ReachFromBlock(stale, eng.PathQuery{Target: eng.IsExit}); x != nil {
				if ret, isR := x.(*ssa.Return); isR {
					res := eng.ReturnResults(ret)
					retOK = len(res) == 3 && eng.IsBoolConst(res[0], false) && c.Slicer().DerivesFrom(res[2], func(v ssa.Value) bool {
						g, isG := v.(*ssa.Global)
						return isG && g.Name() == "RequestIDTooOld"
					})
				}
			}
			c.Check("R3", ss, "stale id ⇒ refused, nothing changed", iff.Pos(), touch == nil && retOK, "a report whose request id is not newer than the recorded one returns (false, _, RequestIDTooOld) before the swap, the total and the recorded id are touched")
		}
		if !found {
			c.Fail("R3", ss, "request-id test", ss.Pos(), "no comparison of the request id with the recorded id")
		}
		// the id test precedes the swap whenever an id is given
		var idGiven *ssa.If
		for _, b := range ss.Blocks {
			if iff, ok := b.Instrs[len(b.Instrs)-1].(*ssa.If); ok {
				r := eng.RelOf(iff.Cond, true)
				if z, isZ := eng.IntConst(r.Y); r.X == reqID && isZ && z == 0 && r.Op == token.GTR {
					idGiven = iff
				}
			}
		}
		before := eng.ReachFromEntry(ss, eng.PathQuery{
			Target: func(i ssa.Instruction) bool { return i == ssa.Instruction(swap) },
			Avoid:  func(i ssa.Instruction) bool { return i == ssa.Instruction(idLoad) },
			BlockEdge: func(from *ssa.BasicBlock, idx int) bool {
				return idGiven != nil && from == idGiven.Block() && idx == 1
			},
		}) == nil
		c.Check("R3", ss, "id test before the swap", swap.Pos(), before, "whenever a request id is given the swap is reached only through the id test")
		// the stored id is the request's, stored only on the newer edge
		for _, ci := range eng.CallsTo(ss, "sync/atomic.StoreInt64") {
			if !eng.FieldAddrOf(eng.Args(ci)[0], tInstanceState, "requestId") {
				continue
			}
			ok := eng.Args(ci)[1] == reqID && eng.GuardedBy(ci, func(r eng.Rel) bool {
				return (r.X == reqID && r.Y == ssa.Value(idLoad) && r.Op == token.GTR) || (r.X == ssa.Value(idLoad) && r.Y == reqID && r.Op == token.LSS)
			})
			c.Check("R3", ss, "recorded id only moves forward", ci.Pos(), ok, "")
		}
	}
	// accept = true only when not over the limit
	var addAfterSwap ssa.Value
	if x := eng.ReachAfter(swap, eng.PathQuery{Target: isAddTotal}); x != nil {
		addAfterSwap = eng.ResultValue(x.(ssa.CallInstruction))
	}
	nAcc := 0
	eng.Instrs(ss, func(ins ssa.Instruction) {
		ret, ok := ins.(*ssa.Return)
		if !ok || ret.Block() == ss.Recover {
			return
		}
		res := eng.ReturnResults(ret)
		if len(res) != 3 || eng.IsBoolConst(res[0], false) {
			return
		}
		nAcc++
		ok2 := eng.IsBoolConst(res[0], true) && addAfterSwap != nil && eng.GuardedBy(ret, func(r eng.Rel) bool {
			z, isZ := eng.IntConst(r.Y)
			return r.X == addAfterSwap && isZ && z == 0 && (r.Op == token.LEQ || r.Op == token.LSS)
		})
		c.Check("R3", ss, "accept only when total ≤ limit", ret.Pos(), ok2, "accept=true is returned only on the edge where add(δ) reports count − max ≤ 0")
	})
	if nAcc == 0 {
		c.Fail("R3", ss, "accept only when total ≤ limit", ss.Pos(), "no accepting return")
	}
	// add() returns count − max of the atomically updated total
	if addFn != nil {
		ok := false
		eng.Instrs(addFn, func(ins ssa.Instruction) {
			if ret, isR := ins.(*ssa.Return); isR {
				if d, isB := ret.Results[0].(*ssa.BinOp); isB && d.Op == token.SUB {
					cc, _ := eng.CallResultOf(d.X)
					mc, _ := eng.CallResultOf(d.Y)
					ok = cc != nil && eng.IsCall(cc, "sync/atomic.AddInt32") && eng.FieldAddrOf(eng.Args(cc)[0], tGlobalMaxInflight, "count") && eng.Args(cc)[1] == ssa.Value(addFn.Params[1]) &&
						mc != nil && eng.IsCall(mc, "sync/atomic.LoadInt32") && eng.FieldAddrOf(eng.Args(mc)[0], tGlobalMaxInflight, "max")
				}
			}
		})
		c.Check("R3", addFn, "add(n) = (count += n) − max", addFn.Pos(), ok, "the overflow is measured on the atomically updated total against the current limit")
	}

	c08Acquire(c)
	c08TokenBucket(c)
}

// sameExpr compares two values structurally (same SSA value, or the same unary/binary
// operator applied to the same operands).
func sameExpr(a, b ssa.Value) bool {
	if a == b {
		return true
	}
	ua, oka := a.(*ssa.UnOp)
	ub, okb := b.(*ssa.UnOp)
	if oka && okb {
		return ua.Op == ub.Op && sameExpr(ua.X, ub.X)
	}
	ba, oka := a.(*ssa.BinOp)
	bb, okb := b.(*ssa.BinOp)
	if oka && okb {
		return ba.Op == bb.Op && sameExpr(ba.X, bb.X) && sameExpr(ba.Y, bb.Y)
	}
	return sameLoad(a, b)
}

// c08Acquire: R4 and R5 in DoAcquire (and its closures).
func c08Acquire(c *eng.Ctx) {
	da := c.MustMethod(pkgLimiter, "rateLimiter", "DoAcquire")
	if da == nil {
		return
	}
	tokensField := func(v ssa.Value) bool {
		return eng.FieldLoadOf(v, pkgV1alpha1+".RateLimitAcquireRequest", "Tokens")
	}
	n := 0
	for _, fn := range eng.WithClosures(da) {
		for _, ci := range eng.Calls(fn) {
			if !eng.IsCall(ci, "("+tGlobalFC+").SetState", "("+tGlobalFC+").TryAcquireN") {
				continue
			}
			n++
			ok := eng.GuardedBy(ci, func(r eng.Rel) bool {
				z, isZ := eng.IntConst(r.Y)
				return tokensField(r.X) && isZ && z == 0 && r.Op == token.GEQ
			})
			c.Check("R4", fn, "negative tokens refused before "+ci.Common().Method.Name(), ci.Pos(), ok, "a negative count would be taken for the removal of the instance (SetState) or refill the bucket (AllowN with a negative n)")
		}
		// R5: grant == amount taken from the bucket
		for _, ci := range eng.CallsTo(fn, "("+tGlobalFC+").TryAcquireN") {
			call, isC := ci.(*ssa.Call)
			if !isC {
				continue
			}
			amount := eng.Args(call)[1]
			// amount is the asked tokens or a halving of it
			shape := false
			if p, isP := amount.(*ssa.Phi); isP {
				shape = true
				for _, e := range p.Edges {
					if tokensField(e) {
						continue
					}
					if q, isQ := e.(*ssa.BinOp); isQ && q.Op == token.QUO && q.X == ssa.Value(p) {
						if k, isK := eng.IntConst(q.Y); isK && k >= 1 {
							continue
						}
					}
					shape = false
				}
			} else if tokensField(amount) {
				shape = true
			}
			c.Check("R5", fn, "amount tried ∈ {asked, asked/2ᵏ}", call.Pos(), shape, "each grant lies between 0 and the amount asked")
			// the stored Limit under accept is that same amount
			okStore := false
			for _, st := range eng.StoresToField([]*ssa.Function{fn}, pkgV1alpha1+".RateLimitAcquireResult", "Limit") {
				if st.Val == amount && eng.ReachAfter(call, eng.PathQuery{Target: func(i ssa.Instruction) bool { return i == ssa.Instruction(st) }}) != nil {
					// guarded by the Accept value that was set from this call
					g := eng.GuardedBy(st, func(r eng.Rel) bool {
						return eng.IsBoolConst(r.Y, true) && r.Op == token.EQL && c.Slicer().DerivesFrom(r.X, func(v ssa.Value) bool { return v == ssa.Value(call) })
					})
					if g {
						okStore = true
					}
				}
			}
			c.Check("R5", fn, "granted amount = amount taken from the bucket", call.Pos(), okStore, "the Limit answered on accept must be the n passed to the TryAcquireN call that succeeded")
		}
	}
	if n < 2 {
		c.Fail("R4", da, "state-changing calls in DoAcquire", da.Pos(), "SetState / TryAcquireN calls not found")
	}
}

// c08TokenBucket: R6.
func c08TokenBucket(c *eng.Ctx) {
	if ctor := c.MustFunc(pkgRLStoreFC, "newTokenBucketFlowControl"); ctor != nil {
		for _, ci := range eng.CallsTo(ctor, "golang.org/x/time/rate.NewLimiter") {
			a := eng.Args(ci)
			ok := len(a) == 2 && convOf(a[0]) == ssa.Value(ctor.Params[2]) && convOf(a[1]) == ssa.Value(ctor.Params[3])
			c.Check("R6", ctor, "NewLimiter(Limit(qps), burst)", ci.Pos(), ok, "rate and burst must not be swapped or replaced")
		}
	}
	if ng := c.MustFunc(pkgRLStoreFC, "NewGlobalFlowControl"); ng != nil {
		for _, ci := range eng.CallsTo(ng, pkgRLStoreFC+".newTokenBucketFlowControl") {
			a := eng.Args(ci)
			ok := len(a) == 4 && eng.FieldLoadOf(a[2], pkgV1alpha1+".TokenBucketFlowControlSchema", "QPS") && eng.FieldLoadOf(a[3], pkgV1alpha1+".TokenBucketFlowControlSchema", "Burst") &&
				pathHas(a[2], "GlobalTokenBucket") && pathHas(a[3], "GlobalTokenBucket")
			c.Check("R6", ng, "server bucket sized from the global qps/burst", ci.Pos(), ok, "")
		}
		for _, ci := range eng.CallsTo(ng, pkgRLStoreFC+".newMaxInflightFlowControl") {
			a := eng.Args(ci)
			ok := len(a) == 3 && eng.FieldLoadOf(a[2], pkgV1alpha1+".MaxRequestsInflightFlowControlSchema", "Max") && pathHas(a[2], "GlobalMaxRequestsInflight")
			c.Check("R6", ng, "server in-flight limit from the global max", ci.Pos(), ok, "")
		}
	}
	if ta := c.MustMethod(pkgRLStoreFC, "globalTokenBucket", "TryAcquireN"); ta != nil {
		ok := false
		eng.Instrs(ta, func(ins ssa.Instruction) {
			if ret, isR := ins.(*ssa.Return); isR {
				cc, _ := eng.CallResultOf(ret.Results[0])
				if cc != nil && eng.IsCall(cc, "(*golang.org/x/time/rate.Limiter).AllowN") && eng.FieldLoadOf(eng.Receiver(cc), tGlobalTokenBucket, "limiter") {
					a := eng.Args(cc)
					tc, _ := eng.CallResultOf(a[0])
					ok = tc != nil && eng.IsCall(tc, "time.Now") && convOf(a[1]) == ssa.Value(ta.Params[2])
				}
			}
		})
		c.Check("R6", ta, "TryAcquireN = limiter.AllowN(now, n)", ta.Pos(), ok, "every grant is drawn from the one server-side bucket of the schema")
	}
	if rs := c.MustMethod(pkgRLStoreFC, "globalTokenBucket", "Resize"); rs != nil {
		for _, st := range eng.StoresToField([]*ssa.Function{rs}, tGlobalTokenBucket, "limiter") {
			ok := eng.GuardsOf(st) != nil && len(eng.GuardsOf(st)) > 0
			// the replacement must be reachable only when qps or burst differ: the store block is not
			// reachable when both comparisons are equal
			eq := eng.ReachFromEntry(rs, eng.PathQuery{
				Target: func(i ssa.Instruction) bool { return i == ssa.Instruction(st) },
				BlockEdge: func(from *ssa.BasicBlock, idx int) bool {
					iff, isIf := from.Instrs[len(from.Instrs)-1].(*ssa.If)
					if !isIf {
						return false
					}
					r := eng.RelOf(iff.Cond, idx == 0)
					isCmp := (eng.FieldLoadOf(r.X, tGlobalTokenBucket, "qps") && r.Y == ssa.Value(rs.Params[1])) || (eng.FieldLoadOf(r.X, tGlobalTokenBucket, "burst") && r.Y == ssa.Value(rs.Params[2]))
					return isCmp && r.Op == token.NEQ // block the "differs" edges
				},
			})
			_ = ok
			c.Check("R6", rs, "limiter replaced only on change", st.Pos(), eq == nil, "an unchanged re-sync must not refill the server bucket")
			// new limiter from the new values
			cc, _ := eng.CallResultOf(st.Val)
			okNew := cc != nil && eng.IsCall(cc, "golang.org/x/time/rate.NewLimiter") && convOf(eng.Args(cc)[0]) == ssa.Value(rs.Params[1]) && convOf(eng.Args(cc)[1]) == ssa.Value(rs.Params[2])
			c.Check("R6", rs, "resized limiter = NewLimiter(Limit(n), burst)", st.Pos(), okNew, "")
		}
	}
}

// convOf strips conversions.
func convOf(v ssa.Value) ssa.Value {
	for {
		switch n := v.(type) {
		case *ssa.Convert:
			v = n.X
		case *ssa.ChangeType:
			v = n.X
		default:
			return v
		}
	}
}

// pathHas reports whether the access path of v contains field name.
func pathHas(v ssa.Value, name string) bool {
	_, p := eng.AccessPath(v)
	for _, x := range p {
		if x == name {
			return true
		}
	}
	return false
}

// ---------------------------------------------------------------------------------------

const c08FxSrc = `package fx
type Mu struct{}
func (*Mu) Lock() {}
func (*Mu) Unlock() {}
func (*Mu) RLock() {}
func (*Mu) RUnlock() {}
type rec struct{ n int }
type T struct { mu Mu; m map[string]*rec }

func (t *T) bad(k string) int {
	t.mu.RLock()
	r, ok := t.m[k]
	t.mu.RUnlock()
	if !ok { return 0 }
	t.mu.RLock()
	defer t.mu.RUnlock()
	return r.n
}
func (t *T) good(k string) int {
	t.mu.RLock()
	r, ok := t.m[k]
	if !ok {
		t.mu.RUnlock()
		t.mu.Lock()
		if _, ok := t.m[k]; !ok { t.m[k] = &rec{} }
		t.mu.Unlock()
		t.mu.RLock()
		r, ok = t.m[k]
		if !ok { t.mu.RUnlock(); return 0 }
	}
	defer t.mu.RUnlock()
	return r.n
}
func (t *T) badWrite(k string) {
	t.mu.RLock()
	t.m[k] = &rec{}
	t.mu.RUnlock()
}
func (t *T) badInsert(k string) int {
	t.mu.RLock()
	r, ok := t.m[k]
	if !ok {
		t.mu.RUnlock()
		t.mu.Lock()
		t.m[k] = &rec{}
		t.mu.Unlock()
		t.mu.RLock()
		r, ok = t.m[k]
		if !ok { t.mu.RUnlock(); return 0 }
	}
	defer t.mu.RUnlock()
	return r.n
}
`

func c08Fixtures(c *eng.Ctx) {
	p, _, err := eng.BuildFixture(c08FxSrc)
	if err != nil {
		c.Fixture("C08.table/build", "ok", err.Error())
		return
	}
	sp := tableSpec{
		isTable:   func(v ssa.Value) bool { return eng.FieldLoadOf(v, "fx.T", "m") },
		isMutex:   func(v ssa.Value) bool { return eng.FieldAddrOf(v, "fx.T", "mu") },
		isRecord:  func(t types.Type) bool { return eng.TypeName(t) == "fx.rec" },
		tableName: "m",
	}
	// the fixture mutex is fx.Mu, not sync.RWMutex: adapt through a wrapper spec
	for name, want := range map[string]bool{"bad": false, "good": true, "badWrite": false, "badInsert": false} {
		fn := eng.FxMethod(p, "T", name)
		all := true
		n := 0
		for _, f := range checkGuardedTableFx(fn, sp) {
			n++
			if !f.ok {
				all = false
			}
		}
		c.Fixture("C08.table/"+name, fmt.Sprint(want), fmt.Sprint(all && n > 0))
	}
}

// checkGuardedTableFx runs the template with the fixture's own mutex type by temporarily
// aliasing its method names to the sync names understood by eng.LockSpec.
func checkGuardedTableFx(fn *ssa.Function, sp tableSpec) []tableFinding {
	eng.ExtraLockNames = map[string]eng.LockState{
		"(*fx.Mu).Lock": eng.LockExcl, "(*fx.Mu).RLock": eng.LockShared, "(*fx.Mu).Unlock": eng.LockNone, "(*fx.Mu).RUnlock": eng.LockNone,
	}
	defer func() { eng.ExtraLockNames = nil }()
	return checkGuardedTable(fn, sp)
}
