package rules

import (
	"fmt"
	"go/token"

	"golang.org/x/tools/go/ssa"

	"kgv/internal/eng"
)

// ---------------------------------------------------------------------------------------
// boolFact: "the boolean value v evaluating to pol implies FACT", where FACT is given by its
// atomic relations. The decision is structural over negation, comparisons with boolean
// constants, phis (`a && b`, `a || b`, flag variables, named condition locals: every incoming
// edge must carry the fact, either in its value or in the branch conditions under which the
// edge is taken) and calls of repository predicates (every return must carry the fact, in
// its value or in the conditions guarding it). It is what makes a rule of the form "X happens
// only on an edge where FACT holds" independent of how the condition was written: `if a || b`,
// `same := !a && !b; if same { return }`, `if f.changed(n) {…}`, `switch { case a: … }`.

// callBind binds the parameters of a function entered through one particular call.
type callBind struct {
	call   ssa.CallInstruction
	parent *callBind
}

// arg returns the argument bound to parameter p by the innermost binding for p's function.
func (fr *callBind) arg(p *ssa.Parameter) (arg ssa.Value, up *callBind, ok bool) {
	if fr == nil || fr.call == nil || p == nil {
		return nil, nil, false
	}
	callee := fr.call.Common().StaticCallee()
	if callee == nil {
		if mc, isMC := fr.call.Common().Value.(*ssa.MakeClosure); isMC {
			callee, _ = mc.Fn.(*ssa.Function)
		}
	}
	if callee != p.Parent() {
		return nil, nil, false
	}
	i := eng.ParamIndex(p)
	if i < 0 || i >= len(fr.call.Common().Args) {
		return nil, nil, false
	}
	return fr.call.Common().Args[i], fr.parent, true
}

type boolFact struct {
	w *eng.World
	// atom reports whether relation r states the fact; operands that are parameters of a
	// helper are resolved by the atom itself (fr: the calls the evaluation descended through).
	atom func(r eng.Rel, fr *callBind) bool
}

// resolve follows a parameter into the argument bound to it: through the calls the
// evaluation descended through, else into the call sites of a helper whose callers are all
// known and agree on the argument.
func (b *boolFact) resolve(v ssa.Value, fr *callBind) (ssa.Value, *callBind) {
	for i := 0; i < 2*eng.LiftDepth; i++ {
		p, ok := v.(*ssa.Parameter)
		if !ok {
			break
		}
		if a, up, bound := fr.arg(p); bound {
			v, fr = a, up
			continue
		}
		if r := b.w.ResolveUp(v); r != v {
			v, fr = r, nil
			continue
		}
		break
	}
	return v, fr
}

func (b *boolFact) implies(v ssa.Value, pol bool, fr *callBind, seen map[ssa.Value]bool, depth int) bool {
	for {
		if u, ok := v.(*ssa.UnOp); ok && u.Op == token.NOT {
			v, pol = u.X, !pol
			continue
		}
		break
	}
	if _, isParam := v.(*ssa.Parameter); isParam {
		v, fr = b.resolve(v, fr)
	}
	if eng.IsBoolConst(v, !pol) {
		return true // v cannot be pol: vacuous
	}
	if eng.IsBoolConst(v, pol) {
		return false
	}
	if seen[v] {
		return true // cycle through a loop phi: decided by the other edges
	}
	seen[v] = true
	defer delete(seen, v)
	switch n := v.(type) {
	case *ssa.BinOp:
		switch n.Op {
		case token.EQL, token.NEQ:
			for _, pr := range [][2]ssa.Value{{n.X, n.Y}, {n.Y, n.X}} {
				for _, k := range []bool{true, false} {
					if eng.IsBoolConst(pr[1], k) {
						// (x == k) is pol  ⇔  x is (pol ? k : !k);  (x != k) is pol  ⇔  x is (pol ? !k : k)
						want := k
						if (n.Op == token.EQL) != pol {
							want = !k
						}
						return b.implies(pr[0], want, fr, seen, depth)
					}
				}
			}
		case token.LSS, token.LEQ, token.GTR, token.GEQ:
		default:
			return false
		}
		return b.atom(eng.RelOf(n, pol), fr)
	case *ssa.Phi:
		for i, e := range n.Edges {
			if b.implies(e, pol, fr, seen, depth) {
				continue
			}
			if !b.anyGuard(factEdgeGuards(n.Block(), i), fr, seen, depth) {
				return false
			}
		}
		return true
	case *ssa.Call:
		return b.callImplies(n, 0, pol, fr, seen, depth)
	case *ssa.Extract:
		if call, ok := n.Tuple.(*ssa.Call); ok {
			return b.callImplies(call, n.Index, pol, fr, seen, depth)
		}
	}
	return false
}

// factEdgeGuards returns the branch conditions that hold when block b is entered through its
// i-th predecessor.
func factEdgeGuards(b *ssa.BasicBlock, i int) []eng.Guard {
	pred := b.Preds[i]
	gs := append([]eng.Guard{}, eng.GuardsOfBlock(pred)...)
	if len(pred.Instrs) > 0 {
		if iff, ok := pred.Instrs[len(pred.Instrs)-1].(*ssa.If); ok && pred.Succs[0] != pred.Succs[1] {
			if pred.Succs[0] == b {
				gs = append(gs, eng.Guard{If: iff, Branch: true})
			} else if pred.Succs[1] == b {
				gs = append(gs, eng.Guard{If: iff, Branch: false})
			}
		}
	}
	return gs
}

func (b *boolFact) anyGuard(gs []eng.Guard, fr *callBind, seen map[ssa.Value]bool, depth int) bool {
	for _, g := range gs {
		if b.implies(g.If.Cond, g.Branch, fr, seen, depth) {
			return true
		}
	}
	return false
}

func (b *boolFact) callImplies(call *ssa.Call, idx int, pol bool, fr *callBind, seen map[ssa.Value]bool, depth int) bool {
	callee := call.Call.StaticCallee()
	if callee == nil {
		if mc, ok := call.Call.Value.(*ssa.MakeClosure); ok {
			callee, _ = mc.Fn.(*ssa.Function)
		}
	}
	if callee == nil || depth <= 0 || !eng.Analysable(callee) {
		return false
	}
	nf := &callBind{call: call, parent: fr}
	n := 0
	ok := true
	eng.Instrs(callee, func(ins ssa.Instruction) {
		r, isR := ins.(*ssa.Return)
		if !isR || r.Block() == callee.Recover {
			return
		}
		res := eng.ReturnResults(r)
		if idx >= len(res) {
			ok = false
			return
		}
		n++
		if b.implies(res[idx], pol, nf, seen, depth-1) {
			return
		}
		if !b.anyGuard(eng.GuardsOf(r), nf, seen, depth-1) {
			ok = false
		}
	})
	return ok && n > 0
}

// edge: on the CFG edge from -> from.Succs[succIdx] the fact holds.
func (b *boolFact) edge(from *ssa.BasicBlock, succIdx int) bool {
	if len(from.Instrs) == 0 || len(from.Succs) != 2 || from.Succs[0] == from.Succs[1] {
		return false
	}
	iff, ok := from.Instrs[len(from.Instrs)-1].(*ssa.If)
	if !ok {
		return false
	}
	return b.implies(iff.Cond, succIdx == 0, nil, map[ssa.Value]bool{}, eng.LiftDepth)
}

// c05ResizeApplied (C05.R6 / C06.R6): a changed limit is always applied. In the local wrapper's
// Sync, on an edge where the schema type is known to equal a flow-control type constant every
// path to an exit passes a Resize call: no test on the new value (e.g. "max > 0") may skip it,
// because the new configuration has already been recorded and an identical later Sync returns
// early. The type test and the Resize may sit in helpers the body of Sync was spread over; the
// test may be written as ==, !=, a switch, a named condition or a predicate function.
func c05ResizeApplied(c *eng.Ctx, rule string, wantType string) {
	sy := c.MustMethod(pkgFCRemote, "localWrapper", "Sync")
	if sy == nil {
		return
	}
	isResize := eng.LiftMust(func(i ssa.Instruction) bool {
		ci, ok := i.(ssa.CallInstruction)
		return ok && eng.MethodNameIs(ci, "Resize")
	})
	var fact *boolFact
	fact = &boolFact{w: c.W, atom: func(r eng.Rel, fr *callBind) bool {
		if r.Op != token.EQL {
			return false
		}
		isType := func(v ssa.Value) bool {
			v, _ = fact.resolve(v, fr)
			cc, _ := eng.CallResultOf(v)
			return cc != nil && eng.IsCall(cc, pkgFC+".GuessFlowControlSchemaType")
		}
		var k ssa.Value
		switch {
		case isType(r.X):
			k = r.Y
		case isType(r.Y):
			k = r.X
		default:
			return false
		}
		name, isConst := eng.StringConst(k)
		return isConst && name == wantType
	}}
	n := 0
	for _, fn := range c.W.Region(sy) {
		for _, b := range fn.Blocks {
			if len(b.Instrs) == 0 {
				continue
			}
			iff, ok := b.Instrs[len(b.Instrs)-1].(*ssa.If)
			if !ok {
				continue
			}
			for si := range b.Succs {
				if !fact.edge(b, si) {
					continue
				}
				n++
				// entering the successor through this very edge
				skip := eng.ReachFromBlock(b.Succs[si], eng.PathQuery{Target: eng.IsExit, Avoid: isResize})
				c.Check(rule, sy, fmt.Sprintf("type %s ⇒ Resize on every path", wantType), iff.Pos(), skip == nil,
					"the new configuration is recorded before this point, so a path that skips Resize (for instance under a test on the new value) leaves the limiter at the old limit for good")
			}
		}
	}
	if n == 0 {
		c.Fail(rule, sy, "type ⇒ Resize on every path", sy.Pos(), "no branch on the schema type found in localWrapper.Sync")
	}
}
