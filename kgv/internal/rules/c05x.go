package rules

import (
	"fmt"
	"go/token"

	"golang.org/x/tools/go/ssa"

	"kgv/internal/eng"
)

// c05ResizeApplied (C05.R6 / C06.R6): a changed limit is always applied. In the local wrapper's
// Sync, on the edge where the schema type equals a flow-control type constant every path to an
// exit passes a Resize call: no test on the new value (e.g. "max > 0") may skip it, because
// the new configuration has already been recorded and an identical later Sync returns early.
func c05ResizeApplied(c *eng.Ctx, rule string, wantType string) {
	sy := c.MustMethod(pkgFCRemote, "localWrapper", "Sync")
	if sy == nil {
		return
	}
	isType := func(v ssa.Value) bool {
		cc, _ := eng.CallResultOf(v)
		return cc != nil && eng.IsCall(cc, pkgFC+".GuessFlowControlSchemaType")
	}
	isResize := func(i ssa.Instruction) bool {
		ci, ok := i.(ssa.CallInstruction)
		return ok && eng.MethodNameIs(ci, "Resize")
	}
	n := 0
	for _, b := range sy.Blocks {
		iff, ok := b.Instrs[len(b.Instrs)-1].(*ssa.If)
		if !ok {
			continue
		}
		r := eng.RelOf(iff.Cond, true)
		var k ssa.Value
		switch {
		case isType(r.X):
			k = r.Y
		case isType(r.Y):
			k = r.X
		default:
			continue
		}
		name, isConst := eng.StringConst(k)
		if !isConst || (r.Op != token.EQL && r.Op != token.NEQ) {
			continue
		}
		if wantType != "" && name != wantType {
			continue
		}
		succ := b.Succs[0]
		if r.Op == token.NEQ {
			succ = b.Succs[1]
		}
		n++
		skip := eng.ReachFromBlock(succ, eng.PathQuery{Target: eng.IsExit, Avoid: isResize})
		c.Check(rule, sy, fmt.Sprintf("type %s ⇒ Resize on every path", name), iff.Pos(), skip == nil,
			"the new configuration is recorded before this point, so a path that skips Resize (for instance under a test on the new value) leaves the limiter at the old limit for good")
	}
	if n == 0 {
		c.Fail(rule, sy, "type ⇒ Resize on every path", sy.Pos(), "no branch on the schema type found in localWrapper.Sync")
	}
}
