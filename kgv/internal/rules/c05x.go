package rules

import (
	"fmt"
	"go/constant"
	"go/token"
	"go/types"

	"golang.org/x/tools/go/ssa"

	"kgv/internal/eng"
)

// ---------------------------------------------------------------------------------------
// boolFact: "the boolean value v evaluating to pol implies FACT", where FACT is given by its
// atomic relations. The decision is structural over negation, comparisons with boolean
// constants, phis (`a && b`, `a || b`, flag variables, named condition locals: every incoming
// edge must carry the fact, either in its value or in the branch conditions under which the
// edge is taken) and calls of repository predicates (every return must carry the fact, in
// its value or in the conditions guarding it). It is what makes a rule of the form "X happens
// only on an edge where FACT holds" independent of how the condition was written: `if a || b`,
// `same := !a && !b; if same { return }`, `if f.changed(n) {…}`, `switch { case a: … }`.

// callBind binds the parameters of a function entered through one particular call.
type callBind struct {
	call   ssa.CallInstruction
	parent *callBind
}

// arg returns the argument bound to parameter p by the innermost binding for p's function.
func (fr *callBind) arg(p *ssa.Parameter) (arg ssa.Value, up *callBind, ok bool) {
	if fr == nil || fr.call == nil || p == nil {
		return nil, nil, false
	}
	callee := fr.call.Common().StaticCallee()
	if callee == nil {
		if mc, isMC := fr.call.Common().Value.(*ssa.MakeClosure); isMC {
			callee, _ = mc.Fn.(*ssa.Function)
		}
	}
	if callee != p.Parent() {
		return nil, nil, false
	}
	i := eng.ParamIndex(p)
	if i < 0 || i >= len(fr.call.Common().Args) {
		return nil, nil, false
	}
	return fr.call.Common().Args[i], fr.parent, true
}

type boolFact struct {
	w *eng.World
	// atom reports whether relation r states the fact; operands that are parameters of a
	// helper are resolved by the atom itself (fr: the calls the evaluation descended through).
	atom func(r eng.Rel, fr *callBind) bool
}

// resolve follows a parameter into the argument bound to it: through the calls the
// evaluation descended through, else into the call sites of a helper whose callers are all
// known and agree on the argument.
func (b *boolFact) resolve(v ssa.Value, fr *callBind) (ssa.Value, *callBind) {
	for i := 0; i < 2*eng.LiftDepth; i++ {
		p, ok := v.(*ssa.Parameter)
		if !ok {
			break
		}
		if a, up, bound := fr.arg(p); bound {
			v, fr = a, up
			continue
		}
		if r := b.w.ResolveUp(v); r != v {
			v, fr = r, nil
			continue
		}
		break
	}
	return v, fr
}

func (b *boolFact) implies(v ssa.Value, pol bool, fr *callBind, seen map[ssa.Value]bool, depth int) bool {
	for {
		if u, ok := v.(*ssa.UnOp); ok && u.Op == token.NOT {
			v, pol = u.X, !pol
			continue
		}
		break
	}
	if _, isParam := v.(*ssa.Parameter); isParam {
		v, fr = b.resolve(v, fr)
	}
	if eng.IsBoolConst(v, !pol) {
		return true // v cannot be pol: vacuous
	}
	if eng.IsBoolConst(v, pol) {
		return false
	}
	// the boolean itself may be the fact ("the comparison call answered true")
	if _, isConst := v.(*ssa.Const); !isConst && b.atom(eng.Rel{Op: token.EQL, X: v, Y: boolConstOf(pol)}, fr) {
		return true
	}
	if seen[v] {
		return true // cycle through a loop phi: decided by the other edges
	}
	seen[v] = true
	defer delete(seen, v)
	switch n := v.(type) {
	case *ssa.BinOp:
		switch n.Op {
		case token.EQL, token.NEQ:
			for _, pr := range [][2]ssa.Value{{n.X, n.Y}, {n.Y, n.X}} {
				for _, k := range []bool{true, false} {
					if eng.IsBoolConst(pr[1], k) {
						// (x == k) is pol  ⇔  x is (pol ? k : !k);  (x != k) is pol  ⇔  x is (pol ? !k : k)
						want := k
						if (n.Op == token.EQL) != pol {
							want = !k
						}
						return b.implies(pr[0], want, fr, seen, depth)
					}
				}
			}
		case token.LSS, token.LEQ, token.GTR, token.GEQ:
		default:
			return false
		}
		return b.atom(eng.RelOf(n, pol), fr)
	case *ssa.Phi:
		for i, e := range n.Edges {
			if b.implies(e, pol, fr, seen, depth) {
				continue
			}
			if !b.anyGuard(factEdgeGuards(n.Block(), i), fr, seen, depth) {
				return false
			}
		}
		return true
	case *ssa.Call:
		return b.callImplies(n, 0, pol, fr, seen, depth)
	case *ssa.Extract:
		if call, ok := n.Tuple.(*ssa.Call); ok {
			return b.callImplies(call, n.Index, pol, fr, seen, depth)
		}
	case *ssa.UnOp:
		// a flag variable that lives in a cell (captured by a function literal, or its address
		// taken): every store of a value that can be pol must carry the fact, in the value or in
		// the conditions under which the store executes. A cell that is never stored keeps its
		// zero value false.
		if n.Op == token.MUL {
			if al := factCell(n.X); al != nil && !c06Escapes(al) {
				if !pol {
					return false
				}
				ok := true
				for _, f := range eng.WithClosures(c06Outermost(al.Parent())) {
					eng.Instrs(f, func(ins ssa.Instruction) {
						st, isSt := ins.(*ssa.Store)
						if !isSt || !c06AddrIs(st.Addr, al) {
							return
						}
						if b.implies(st.Val, pol, fr, seen, depth) {
							return
						}
						if !b.anyGuard(eng.GuardsOf(st), fr, seen, depth) {
							ok = false
						}
					})
				}
				return ok
			}
		}
	}
	return false
}

// factCell resolves the address of a local variable cell: the Alloc itself, or the Alloc a
// captured variable is bound to in the enclosing function.
func factCell(addr ssa.Value) *ssa.Alloc {
	for i := 0; i < 4; i++ {
		switch a := addr.(type) {
		case *ssa.Alloc:
			return a
		case *ssa.FreeVar:
			fn := a.Parent()
			idx := -1
			for k, x := range fn.FreeVars {
				if x == a {
					idx = k
				}
			}
			var bound ssa.Value
			n := 0
			if p := fn.Parent(); p != nil && idx >= 0 {
				eng.Instrs(p, func(ins ssa.Instruction) {
					if mc, ok := ins.(*ssa.MakeClosure); ok && mc.Fn == ssa.Value(fn) && idx < len(mc.Bindings) {
						bound = mc.Bindings[idx]
						n++
					}
				})
			}
			if n != 1 || bound == nil {
				return nil
			}
			addr = bound
		default:
			return nil
		}
	}
	return nil
}

func boolConstOf(b bool) *ssa.Const {
	return ssa.NewConst(constant.MakeBool(b), types.Typ[types.Bool])
}

// guardedByFact: ins executes only when the fact holds — one of its guards implies it, or ins
// sits in a helper / callback all of whose guard sites are guarded by it (depth levels).
func (b *boolFact) guardedByFact(ins ssa.Instruction, depth int) bool {
	if b.anyGuard(eng.GuardsOf(ins), nil, map[ssa.Value]bool{}, eng.LiftDepth) {
		return true
	}
	if depth <= 0 || ins.Parent() == nil {
		return false
	}
	sites := b.w.GuardSites(ins.Parent())
	if len(sites) == 0 {
		return false
	}
	for _, s := range sites {
		if !b.guardedByFact(s, depth-1) {
			return false
		}
	}
	return true
}

// factEdgeGuards returns the branch conditions that hold when block b is entered through its
// i-th predecessor.
func factEdgeGuards(b *ssa.BasicBlock, i int) []eng.Guard {
	pred := b.Preds[i]
	gs := append([]eng.Guard{}, eng.GuardsOfBlock(pred)...)
	if len(pred.Instrs) > 0 {
		if iff, ok := pred.Instrs[len(pred.Instrs)-1].(*ssa.If); ok && pred.Succs[0] != pred.Succs[1] {
			if pred.Succs[0] == b {
				gs = append(gs, eng.Guard{If: iff, Branch: true})
			} else if pred.Succs[1] == b {
				gs = append(gs, eng.Guard{If: iff, Branch: false})
			}
		}
	}
	return gs
}

func (b *boolFact) anyGuard(gs []eng.Guard, fr *callBind, seen map[ssa.Value]bool, depth int) bool {
	for _, g := range gs {
		if b.implies(g.If.Cond, g.Branch, fr, seen, depth) {
			return true
		}
	}
	return false
}

func (b *boolFact) callImplies(call *ssa.Call, idx int, pol bool, fr *callBind, seen map[ssa.Value]bool, depth int) bool {
	callee := call.Call.StaticCallee()
	if callee == nil {
		if mc, ok := call.Call.Value.(*ssa.MakeClosure); ok {
			callee, _ = mc.Fn.(*ssa.Function)
		}
	}
	if callee == nil || depth <= 0 || !eng.Analysable(callee) {
		return false
	}
	nf := &callBind{call: call, parent: fr}
	n := 0
	ok := true
	eng.Instrs(callee, func(ins ssa.Instruction) {
		r, isR := ins.(*ssa.Return)
		if !isR || r.Block() == callee.Recover {
			return
		}
		res := eng.ReturnResults(r)
		if idx >= len(res) {
			ok = false
			return
		}
		n++
		if b.implies(res[idx], pol, nf, seen, depth-1) {
			return
		}
		if !b.anyGuard(eng.GuardsOf(r), nf, seen, depth-1) {
			ok = false
		}
	})
	return ok && n > 0
}

// edge: on the CFG edge from -> from.Succs[succIdx] the fact holds.
func (b *boolFact) edge(from *ssa.BasicBlock, succIdx int) bool {
	if len(from.Instrs) == 0 || len(from.Succs) != 2 || from.Succs[0] == from.Succs[1] {
		return false
	}
	iff, ok := from.Instrs[len(from.Instrs)-1].(*ssa.If)
	if !ok {
		return false
	}
	return b.implies(iff.Cond, succIdx == 0, nil, map[ssa.Value]bool{}, eng.LiftDepth)
}

// c05ResizeApplied (C05.R6 / C06.R6): a changed limit is always applied. Decided by forcing: the
// paths of the local wrapper's Sync (and of the same-package helpers its body may have been
// spread over) are enumerated with the schema type pinned to wantType and the limiter pinned to
// exist. Every path that records the new configuration (stores the field remembering the last
// schema) must call Resize on the limiter: no test on the new value (e.g. "max > 0") may skip
// it, because an identical later Sync returns early on the recorded configuration. Paths that
// do not record the configuration (the unchanged early return) are not concerned. The verdict
// does not depend on where the type test sits (switch, ==, !=, named condition, a helper that
// returns the limits together with an "applicable" flag), on the order of the branches, or on
// whether the two type cases share one Resize call.
func c05ResizeApplied(c *eng.Ctx, rule string, wantType string) {
	for _, sy := range wrapperSyncAnchors(c, "LocalFlowControlWrapper") {
		c05ResizeAppliedIn(c, rule, wantType, sy)
	}
}

func c05ResizeAppliedIn(c *eng.Ctx, rule string, wantType string, sy *ssa.Function) {
	iface := fcIface(c)
	if sy == nil || iface == nil || len(sy.Params) != 2 {
		return
	}
	construct := fmt.Sprintf("type %s ⇒ Resize on every path", wantType)
	// the receiver's struct: the delegate field(s) (interfaces implementing FlowControl) and the
	// field remembering the last configuration (same type as Sync's parameter)
	rt := sy.Signature.Recv().Type()
	if p, ok := rt.Underlying().(*types.Pointer); ok {
		rt = p.Elem()
	}
	st, _ := rt.Underlying().(*types.Struct)
	if st == nil {
		c.Fail(rule, sy, construct, sy.Pos(), "receiver of Sync is not a struct")
		return
	}
	rn := sy.Params[0].Name()
	delegates, cfgFields := map[string]bool{}, []string{}
	for i := 0; i < st.NumFields(); i++ {
		f := st.Field(i)
		if _, isI := f.Type().Underlying().(*types.Interface); isI && implementsIface(f.Type(), iface) {
			delegates[rn+"."+f.Name()] = true
		}
		if types.Identical(f.Type(), sy.Params[1].Type()) {
			cfgFields = append(cfgFields, rn+"."+f.Name())
		}
	}
	if len(delegates) == 0 || len(cfgFields) == 0 {
		c.Fail(rule, sy, construct, sy.Pos(), "the wrapper has no limiter field / no field remembering the last configuration")
		return
	}
	in := &eng.Interp{W: c.W, Depth: eng.LiftDepth, FollowCall: func(callee *ssa.Function) bool { return callee.Pkg == sy.Pkg }}
	in.PinCall = func(cc *ssa.Call, idx int, _ *eng.State) (eng.AV, bool) {
		if eng.IsCall(cc, pkgFC+".GuessFlowControlSchemaType") {
			return eng.AV{K: eng.ConstV, C: constant.MakeString(wantType)}, true
		}
		return eng.AV{}, false
	}
	in.PinPath = func(path string) (eng.AV, bool) {
		if delegates[path] {
			return eng.AV{K: eng.NonNilV}, true // the limiter exists (a store on the path overrides the pin)
		}
		return eng.AV{}, false
	}
	paths, err := in.Run(sy, nil)
	if err != nil {
		c.Undecided(rule, sy, construct, sy.Pos(), "path enumeration of Sync failed: "+err.Error())
		return
	}
	applied, skipped := 0, 0
	pos := sy.Pos()
	for _, pr := range paths {
		if pr.Panicked || pr.Final == nil {
			continue
		}
		recorded := false
		for _, k := range cfgFields {
			if _, ok := pr.Final.Mem(k); ok {
				recorded = true
			}
		}
		if !recorded {
			continue
		}
		resized := false
		for _, ci := range pr.Calls {
			if _, plain := ci.(*ssa.Call); plain && isFCCall(ci, iface, "Resize") {
				resized = true
			}
		}
		if resized {
			applied++
		} else {
			skipped++
			if pr.Exit != nil && pr.Exit.Pos().IsValid() {
				pos = pr.Exit.Pos()
			}
		}
	}
	if applied == 0 && skipped == 0 {
		c.Fail(rule, sy, construct, sy.Pos(), "no path through localWrapper.Sync records the new configuration")
		return
	}
	c.Check(rule, sy, construct, pos, skipped == 0 && applied > 0,
		"the new configuration is recorded on this path, so a path that skips Resize (for instance under a test on the new value) leaves the limiter at the old limit for good")
}

// ---------------------------------------------------------------------------------------
// Anchors by role.
//
// A rule is stated about "the function that does X". Its name is the primary handle; a
// refactoring may rename it, merge it into its single caller or turn a method into a function
// taking the fields it needs. roleAnchor then falls back on the role: the unique function
// among the candidates (found by signature / by the construct that defines the role). The
// anchor is unresolved — and the check fails closed — only when the name is gone AND no single
// function fulfils the role.
func roleAnchor(c *eng.Ctx, byName *ssa.Function, what string, candidates func() []*ssa.Function) *ssa.Function {
	if byName != nil && byName.Blocks != nil {
		return byName
	}
	cs := candidates()
	if len(cs) == 1 {
		c.Note("anchor %s resolved by role: %s", what, eng.FuncName(cs[0]))
		return cs[0]
	}
	var names []string
	for _, f := range cs {
		names = append(names, eng.FuncName(f))
	}
	c.Fail("engine", nil, "unresolved-anchor "+what, 0, fmt.Sprintf("anchor not found by name, and %d functions fulfil its role %v", len(cs), names))
	return nil
}

// funcsWithParam returns the package-level, non-synthetic functions and methods of package pkg
// with a body that have a parameter (receiver excluded) of the named type typ (pointer or
// value), or — typ == "" — for which match holds.
func funcsWithParam(c *eng.Ctx, pkg string, match func(t types.Type) bool) []*ssa.Function {
	var out []*ssa.Function
	for _, fn := range c.W.FuncsOf(pkg) {
		if fn.Parent() != nil || fn.Synthetic != "" || fn.Blocks == nil {
			continue
		}
		ps := fn.Signature.Params()
		for i := 0; i < ps.Len(); i++ {
			if match(ps.At(i).Type()) {
				out = append(out, fn)
				break
			}
		}
	}
	return out
}

func namedOrPtrTo(name string) func(types.Type) bool {
	return func(t types.Type) bool {
		if p, ok := t.Underlying().(*types.Pointer); ok {
			t = p.Elem()
		}
		return eng.TypeName(t) == name
	}
}

// deepest keeps the candidates that call no other candidate (directly or through a bound method
// value): of a chain of forwarders the function that does the work.
func deepest(cs []*ssa.Function) []*ssa.Function {
	is := map[*ssa.Function]bool{}
	for _, f := range cs {
		is[f] = true
	}
	var out []*ssa.Function
	for _, f := range cs {
		forwards := false
		for _, g := range eng.WithClosures(f) {
			for _, ci := range eng.Calls(g) {
				if callee := ci.Common().StaticCallee(); callee != nil && callee != f && is[callee] {
					forwards = true
				}
			}
		}
		if !forwards {
			out = append(out, f)
		}
	}
	return out
}

// hasSelf reports whether fn works on an object of the named type: as receiver or parameter.
func hasSelf(fn *ssa.Function, typ string) bool {
	for _, p := range fn.Params {
		if namedOrPtrTo(typ)(p.Type()) {
			return true
		}
	}
	return false
}

// limiterSyncAnchor: the function of the cluster limiter that applies a new flow-control spec
// (upstreamLimiter.syncLocalFlowControls). Role: the function of the package taking the
// FlowControl spec that does not merely forward it to another such function.
func limiterSyncAnchor(c *eng.Ctx) *ssa.Function {
	return roleAnchor(c, c.W.Method(pkgFCRoot, "upstreamLimiter", "syncLocalFlowControls"), "method ("+pkgFCRoot+".upstreamLimiter).syncLocalFlowControls", func() []*ssa.Function {
		return deepest(funcsWithParam(c, pkgFCRoot, namedOrPtrTo(pkgV1alpha1+".FlowControl")))
	})
}

// wrapperSyncAnchors: the declared Sync methods of the types implementing wrapper interface ifn
// (LocalFlowControlWrapper / RemoteFlowControlWrapper) of pkg/flowcontrols/remote.
func wrapperSyncAnchors(c *eng.Ctx, ifn string) []*ssa.Function {
	wi := c.W.Interface(pkgFCRemote, ifn)
	if wi == nil {
		c.Fail("engine", nil, "unresolved-anchor interface "+ifn, 0, "not found")
		return nil
	}
	var out []*ssa.Function
	for _, named := range c.W.Implementers(wi) {
		if m := c.W.DeclaredMethod(named, "Sync"); m != nil && m.Blocks != nil {
			out = append(out, m)
		}
	}
	if len(out) == 0 {
		c.Fail("engine", nil, "unresolved-anchor Sync of "+ifn, 0, "no implementer declares Sync")
	}
	return out
}
