package rules

import (
	"fmt"
	"go/token"

	"golang.org/x/tools/go/ssa"

	"kgv/internal/eng"
)

func init() { RegisterExtra("C20", c20StatusNeedsProtectingStrategy) }

// c20StatusNeedsProtectingStrategy (C20.R4): the separation of spec and status is a property of
// every kind that is served with a /status subresource. R4: wherever an option builder of the
// control plane sets RESTStorageOptions.SubStatus to the constant true, the strategy it
// registers for the same kind (the argument of SetRESTStrategy in that function) protects
// status on the main resource — it is built by NewDefaultRESTStrategy(_, true) (directly, or as
// the initialiser of the package-level singleton that is passed). Serving /status for a kind
// whose main strategy was built with subStatus=false lets creates keep a submitted status and
// main-resource updates change it.
func c20StatusNeedsProtectingStrategy(c *eng.Ctx) {
	c.Rule("R4", "every kind served with /status has a status-protecting main strategy: a function that stores SubStatus = true registers, for the same kind, a strategy built by NewDefaultRESTStrategy(_, true)", 1)
	protecting := func(v ssa.Value, depth int) (bool, string) {
		for i := 0; i < 4; i++ {
			switch x := v.(type) {
			case *ssa.MakeInterface:
				v = x.X
				continue
			case *ssa.ChangeType:
				v = x.X
				continue
			}
			break
		}
		var ctorCall func(v ssa.Value) (bool, string)
		ctorCall = func(v ssa.Value) (bool, string) {
			cc, _ := eng.CallResultOf(v)
			if cc == nil || !eng.IsCall(cc, pkgRegistry+".NewDefaultRESTStrategy") {
				return false, "the strategy is not the result of NewDefaultRESTStrategy"
			}
			a := eng.Args(cc)
			if len(a) == 2 && eng.IsBoolConst(a[1], true) {
				return true, ""
			}
			return false, "NewDefaultRESTStrategy is called with subStatus != true"
		}
		if ok, _ := ctorCall(v); ok {
			return true, ""
		}
		// a load of a package-level singleton: look at its initialiser
		if ld, ok := v.(*ssa.UnOp); ok && ld.Op == token.MUL {
			if g, ok := ld.X.(*ssa.Global); ok {
				if init := g.Pkg.Func("init"); init != nil {
					for _, st := range eng.StoresIn(init) {
						if st.Addr == ssa.Value(g) {
							return ctorCall(st.Val)
						}
					}
				}
				return false, "the singleton " + g.Name() + " has no recognisable initialiser"
			}
		}
		return ctorCall(v)
	}
	n := 0
	for _, fn := range c.W.FuncsOf(pkgProxyREST) {
		for _, st := range eng.StoresToField([]*ssa.Function{fn}, c20Options, "SubStatus") {
			if !eng.IsBoolConst(st.Val, true) {
				continue // a computed flag: judged per calling context by R3
			}
			n++
			var sets []ssa.CallInstruction
			for _, g := range c.W.Region(fn) {
				for _, ci := range eng.Calls(g) {
					if eng.MethodNameIs(ci, "SetRESTStrategy") {
						sets = append(sets, ci)
					}
				}
			}
			why := ""
			parametrised := false
			switch {
			case len(sets) == 0:
				why = "no strategy is registered in the function that serves /status"
			default:
				for _, s := range sets {
					a := eng.Args(s)
					v := a[len(a)-1]
					if mi, isMI := v.(*ssa.MakeInterface); isMI {
						v = mi.X
					}
					if _, isParam := v.(*ssa.Parameter); isParam {
						parametrised = true // a shared builder: strategy and flag come from the caller, judged per calling context by R3
						continue
					}
					if ok, w := protecting(a[len(a)-1], 2); !ok {
						why = w
					}
				}
			}
			if parametrised && why == "" {
				c.Pass("R4", fn, fmt.Sprintf("SubStatus = true#%d in a parametrised builder (judged per context by R3)", n), st.Pos(), "")
				continue
			}
			c.Check("R4", fn, fmt.Sprintf("SubStatus = true#%d with a status-protecting strategy", n), st.Pos(), why == "",
				"the kind is served with /status but its main strategy does not protect status"+c02Found(why))
		}
	}
	if n == 0 {
		c.Note("C20.R4: no option builder stores the constant SubStatus = true (computed flags are judged by R3)")
		c.Pass("R4", nil, "no constant SubStatus = true", 0, "")
	}
}
