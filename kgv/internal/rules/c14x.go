package rules

import (
	"strings"

	"golang.org/x/tools/go/ssa"

	"kgv/internal/eng"
)

func init() { RegisterExtra("C14", c14OrderedKey) }

// c14OrderedKey (C14.R3): the cursor belongs to the ORDERED ready list. The picker reads the
// result at ticket % k from the ready slice in the order it was built; the key under which the
// cursor is kept must therefore be a function of that ordered list. If the key is computed
// from a re-ordered copy (sorted names, a set), lists that differ only in order share one
// cursor, and since pickers without an explicit subset list the endpoints in map-iteration
// order, consecutive tickets index differently ordered lists: the pick degenerates into a
// random draw whose deviation from N/k grows without bound.
func c14OrderedKey(c *eng.Ctx) {
	c.Rule("R3", "the cursor key is a function of the ordered ready list: nothing from which the key derives is passed to a sorting function (package sort / slices) in Pop", 1)
	n := 0
	for _, pop := range popImpls(c) {
		// the cursor lookups executed as part of Pop — in Pop itself or in a helper that is handed the
		// key (and possibly the cursor map) — and every sorting call in the same functions
		tree := popTree(c, pop)
		funcs := tree.Funcs()
		var keys []ssa.Value
		for _, fn := range funcs {
			for _, ci := range eng.CallsTo(fn, "(*sync.Map).LoadOrStore", "(*sync.Map).Load") {
				if c14IsBalancer(tree, ci) {
					keys = append(keys, eng.Args(ci)[0])
				}
			}
		}
		if len(keys) == 0 {
			continue // single-counter or other shapes are judged by R1
		}
		sl := deepSlicer(c).WithArgs().WithUp()
		bad := ""
		for _, fn := range funcs {
			for _, ci := range eng.Calls(fn) {
				o := eng.CalleeObj(ci)
				if o == nil || o.Pkg() == nil {
					continue
				}
				if p := o.Pkg().Path(); p != "sort" && p != "slices" {
					continue
				}
				if p := o.Pkg().Path(); p == "slices" && !strings.HasPrefix(o.Name(), "Sort") {
					continue
				}
				for _, a := range ci.Common().Args {
					arg := a
					for _, k := range keys {
						if sl.DerivesFrom(k, func(x ssa.Value) bool { return x == arg }) {
							bad = shortName(eng.FullName(ci))
						}
					}
				}
			}
		}
		n++
		c.Check("R3", pop, "cursor key built from the ready list in its own order", pop.Pos(), bad == "",
			"the key derives from a list that is passed to "+bad+": ready lists that differ only in order share one cursor while the index is taken in the unsorted order")
	}
	if n == 0 {
		c.Fail("R3", nil, "cursor key of a Pop implementation", 0, "no Pop implementation keeps its cursor in the cluster's balancer map")
	}
}
