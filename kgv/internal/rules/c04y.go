package rules

import (
	"fmt"

	"golang.org/x/tools/go/ssa"

	"kgv/internal/eng"
)

func init() { RegisterExtra("C04", c04RequestLocalURL) }

// c04RequestLocalURL (C04.R6): the URL a request is forwarded to is an object of that request.
// Every url.URL whose Path / RawPath / RawQuery is written on the forwarding path (dispatcher,
// reverse proxy) is, on every origin of the pointer, a fresh object of the current call — a
// local allocation, the result of url.Parse / URL.Parse / ResolveReference, or the URL of the
// (cloned) request itself — never an object read back from shared storage (a map, a
// sync.Map, a package variable or a field of the long-lived handler). Two overlapping
// requests writing their path and query into one cached URL reach the upstream with each
// other's path.
func c04RequestLocalURL(c *eng.Ctx) {
	c.Rule("R6", "the forward URL is request-local: every url.URL whose Path/RawPath/RawQuery is stored on the forwarding path originates from an allocation of the current call, a parse result or the request's own URL — not from shared storage", 3)
	sl := c.Slicer()
	fresh := func(v ssa.Value) (bool, string) {
		switch x := v.(type) {
		case *ssa.Alloc:
			return true, ""
		case *ssa.Parameter:
			return true, "" // the caller's object (the request or a URL handed in): judged at the caller by the lifted slice
		case *ssa.FreeVar:
			return false, "a variable captured by a long-lived closure"
		case *ssa.Global:
			return false, "package variable " + x.Name()
		case *ssa.Lookup:
			return false, "a map element"
		case *ssa.TypeAssert:
			return false, "a value asserted out of an interface (e.g. a sync.Map entry)"
		}
		if cc, _ := eng.CallResultOf(v); cc != nil {
			if eng.IsCall(cc, "net/url.Parse", "net/url.ParseRequestURI", "(*net/url.URL).Parse", "(*net/url.URL).ResolveReference", "(*net/http.Request).Clone", "(*net/http.Request).WithContext", "k8s.io/apimachinery/pkg/util/net.CloneRequest") {
				return true, ""
			}
			if eng.IsCall(cc, "(*sync.Map).Load", "(*sync.Map).LoadOrStore", "(*sync.Map).LoadAndDelete") {
				return false, "an entry of a sync.Map"
			}
			return true, "" // other calls: not shared storage by themselves
		}
		if eng.FieldLoadOf(v, "net/http.Request", "URL") {
			return true, ""
		}
		return true, ""
	}
	n := 0
	for _, pk := range []string{pkgDispatcher, pkgRevProxy} {
		for _, fn := range c.W.FuncsOf(pk) {
			seen := map[ssa.Value]bool{}
			for _, f := range []string{"Path", "RawPath", "RawQuery"} {
				for _, st := range eng.StoresToField([]*ssa.Function{fn}, c04TURL, f) {
					fa, ok := st.Addr.(*ssa.FieldAddr)
					if !ok || seen[fa.X] {
						continue
					}
					seen[fa.X] = true
					n++
					bad := ""
					for _, l := range sl.WithUp().Leaves(fa.X, func(v ssa.Value) bool {
						ok, _ := fresh(v)
						return !ok
					}) {
						if ok, why := fresh(l); !ok {
							bad = why
						}
					}
					c.Check("R6", fn, fmt.Sprintf("URL written#%d is request-local", n), st.Pos(), bad == "",
						"the URL object that receives this request's path/query comes from "+bad+": concurrent requests for the same endpoint overwrite each other's path and query before they are read back")
				}
			}
		}
	}
	if n == 0 {
		c.Fail("R6", nil, "URL writes on the forwarding path", 0, "no store to url.URL Path/RawPath/RawQuery found in the dispatcher or the reverse proxy")
	}
}
