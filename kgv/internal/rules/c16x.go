package rules

import (
	"fmt"
	"go/token"
	"go/types"

	"golang.org/x/tools/go/ssa"

	"kgv/internal/eng"
)

func init() { RegisterExtra("C16", c16BoundedIndexing) }

// c16BoundedIndexing (C16.R9): totality of validation also means no out-of-range panic. Every
// slicing or indexing of a string or slice in the validation and admission packages
// (s[:k], s[k:], s[k], with a constant or computed bound) is control-dependent on a length
// test of THE SAME value that implies the bound (len(s) ≥ k for slicing, len(s) > k for
// indexing; an equivalent comparison in either direction; for a computed bound i a test
// i < len(s) / i ≤ len(s), or a range loop over the same value). A guard on a different
// value (the raw bytes where the trimmed string is sliced) proves nothing.
func c16BoundedIndexing(c *eng.Ctx) {
	c.Rule("R9", "no unguarded indexing in validation: every index / slice expression on a string or slice in the validation and admission packages is dominated by a length test of the same value that implies the bound (or is the element access of a range loop over it)", 1)
	n := 0
	var funcs []*ssa.Function
	funcs = append(funcs, c.W.FuncsOf(pkgValidation)...)
	funcs = append(funcs, c.W.FuncsOf(pkgAdmission)...)
	isSeq := func(t types.Type) bool {
		switch u := t.Underlying().(type) {
		case *types.Slice:
			return true
		case *types.Basic:
			return u.Info()&types.IsString != 0
		}
		return false
	}
	same := func(a, b ssa.Value) bool { return a == b || sameLoad(a, b) }
	lenOf := func(v ssa.Value, x ssa.Value) bool {
		cc, ok := v.(*ssa.Call)
		if !ok {
			return false
		}
		b, isB := cc.Call.Value.(*ssa.Builtin)
		return isB && b.Name() == "len" && same(cc.Call.Args[0], x)
	}
	// implies(r, x, k, strict): relation r implies len(x) ≥ k (strict: len(x) > k)
	implies := func(r eng.Rel, x ssa.Value, bound ssa.Value, strict bool) bool {
		kb, constB := eng.IntConst(bound)
		chk := func(l, o ssa.Value, op token.Token) bool {
			// l is len(x); relation  l op o
			if !lenOf(l, x) {
				return false
			}
			if ko, isK := eng.IntConst(o); isK && constB {
				switch op {
				case token.GEQ:
					return (!strict && ko >= kb) || (strict && ko > kb)
				case token.GTR:
					return (!strict && ko >= kb-1) || (strict && ko >= kb)
				case token.EQL:
					return (!strict && ko >= kb) || (strict && ko > kb)
				case token.NEQ:
					return ko == 0 && ((!strict && kb <= 1) || (strict && kb == 0))
				}
				return false
			}
			if !constB && (o == bound || sameLoad(o, bound)) {
				switch op {
				case token.GEQ:
					return !strict
				case token.GTR:
					return true
				}
			}
			return false
		}
		flip := map[token.Token]token.Token{token.GEQ: token.LEQ, token.LEQ: token.GEQ, token.GTR: token.LSS, token.LSS: token.GTR, token.EQL: token.EQL, token.NEQ: token.NEQ}
		return chk(r.X, r.Y, r.Op) || chk(r.Y, r.X, flip[r.Op])
	}
	guarded := func(ins ssa.Instruction, x, bound ssa.Value, strict bool) bool {
		if bound == nil {
			return true
		}
		if k, isK := eng.IntConst(bound); isK && k == 0 && !strict {
			return true
		}
		// bound = len(x) itself (s[:len(s)]) or len(x) - … is not analysed: only the plain forms
		if lenOf(bound, x) && !strict {
			return true
		}
		// len(x) - c: in range iff len(x) ≥ c
		if b, ok := bound.(*ssa.BinOp); ok && b.Op == token.SUB && lenOf(b.X, x) {
			if cc, isK := eng.IntConst(b.Y); isK && cc >= 1 {
				return eng.GuardedBy(ins, func(r eng.Rel) bool { return implies(r, x, b.Y, false) })
			}
		}
		return eng.GuardedBy(ins, func(r eng.Rel) bool { return implies(r, x, bound, strict) })
	}
	// element accesses of range loops: index is the loop's own induction phi bounded by len(x)
	isRangeIndex := func(x, idx ssa.Value) bool {
		f := idx
		var fn *ssa.Function
		if i, ok := f.(ssa.Instruction); ok {
			fn = i.Parent()
		}
		if fn == nil {
			return false
		}
		for _, l := range findRangeLoops(fn) {
			if l.Idx == idx && same(l.S, x) {
				return true
			}
		}
		return false
	}
	for _, fn := range funcs {
		k := 0
		eng.Instrs(fn, func(ins ssa.Instruction) {
			switch x := ins.(type) {
			case *ssa.Slice:
				if !isSeq(x.X.Type()) {
					return
				}
				k++
				n++
				ok := guarded(ins, x.X, x.Low, false) && guarded(ins, x.X, x.High, false) && guarded(ins, x.X, x.Max, false)
				c.Check("R9", fn, fmt.Sprintf("slice expression#%d within bounds", k), x.Pos(), ok,
					"the slice bound is not implied by a length test of the value being sliced: an object whose field is shorter makes validation panic instead of answering with field errors")
			case *ssa.IndexAddr:
				if !isSeq(x.X.Type()) {
					return
				}
				k++
				n++
				ok := isRangeIndex(x.X, x.Index) || guarded(ins, x.X, x.Index, true)
				c.Check("R9", fn, fmt.Sprintf("index expression#%d within bounds", k), x.Pos(), ok,
					"the index is not implied by a length test of the value being indexed: validation panics on a shorter value")
			case *ssa.Lookup:
				if !isSeq(x.X.Type()) {
					return
				}
				k++
				n++
				ok := isRangeIndex(x.X, x.Index) || guarded(ins, x.X, x.Index, true)
				c.Check("R9", fn, fmt.Sprintf("index expression#%d within bounds", k), x.Pos(), ok,
					"the index is not implied by a length test of the value being indexed: validation panics on a shorter value")
			}
		})
	}
	if n == 0 {
		c.Note("C16.R9: no index or slice expression on strings/slices in the validation and admission packages")
		c.Pass("R9", nil, "no index or slice expressions in validation", 0, "")
	}
}
