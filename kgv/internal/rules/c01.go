package rules

import (
	"fmt"
	"go/token"
	"go/types"
	"sort"
	"strings"

	"golang.org/x/tools/go/ssa"

	"kgv/internal/eng"
)

func init() {
	Register("C01", c01)
	RegisterFixture("C01", c01Fixtures)
}

// ---------------------------------------------------------------------------------------
// range-loop recognition

// rangeLoop is a recognised counting loop over a slice: `for i := range S`, `for _, v :=
// range S` or `for i := 0; i < len(S); i++`.
type rangeLoop struct {
	Header  *ssa.BasicBlock // block ending in `if idx < len(S)`
	Idx     ssa.Value       // the value used as index inside the body
	S       ssa.Value       // the slice
	Forward bool            // first index 0, step +1
	Body    *ssa.BasicBlock
	Exit    *ssa.BasicBlock
}

func findRangeLoops(fn *ssa.Function) []rangeLoop {
	var out []rangeLoop
	for _, b := range fn.Blocks {
		if len(b.Instrs) == 0 {
			continue
		}
		iff, ok := b.Instrs[len(b.Instrs)-1].(*ssa.If)
		if !ok || !eng.InLoop(b) {
			continue
		}
		cmp, ok := iff.Cond.(*ssa.BinOp)
		if !ok || cmp.Op != token.LSS {
			continue
		}
		lc, ok := cmp.Y.(*ssa.Call)
		if !ok || !isBuiltin(lc, "len") {
			continue
		}
		rl := rangeLoop{Header: b, Idx: cmp.X, S: lc.Call.Args[0], Body: b.Succs[0], Exit: b.Succs[1]}
		// idx = phi(c0, phi+1) or phi+1 with c0 = -1
		switch x := cmp.X.(type) {
		case *ssa.Phi:
			rl.Forward = phiStartsAt(x, 0)
		case *ssa.BinOp:
			if p, ok := x.X.(*ssa.Phi); ok && x.Op == token.ADD {
				if one, isInt := eng.IntConst(x.Y); isInt && one == 1 {
					rl.Forward = phiStartsAt(p, -1)
				}
			}
		}
		out = append(out, rl)
	}
	return out
}

// phiStartsAt reports whether p is an induction variable with initial value c0 and step +1.
func phiStartsAt(p *ssa.Phi, c0 int64) bool {
	init, step := false, false
	for _, e := range p.Edges {
		if k, ok := eng.IntConst(e); ok {
			if k == c0 {
				init = true
			} else {
				return false
			}
			continue
		}
		b, ok := e.(*ssa.BinOp)
		if !ok || b.Op != token.ADD {
			return false
		}
		one, isInt := eng.IntConst(b.Y)
		if !isInt || one != 1 {
			return false
		}
		if b.X == ssa.Value(p) {
			step = true
			continue
		}
		// p = phi(-1, idx) with idx = p+1 is the same node (handled above); for the classic
		// loop the increment is i+1 on the phi itself
		return false
	}
	return init && step
}

// elementRef resolves v to (slice, index) when v is &S[i], or a local copy whose only
// store is *(&S[i]) (range by value).
func elementRef(v ssa.Value) (s ssa.Value, idx ssa.Value, ok bool) {
	switch n := v.(type) {
	case *ssa.IndexAddr:
		return n.X, n.Index, true
	case *ssa.Alloc:
		var st *ssa.Store
		cnt := 0
		if n.Referrers() != nil {
			for _, r := range *n.Referrers() {
				if x, isSt := r.(*ssa.Store); isSt && x.Addr == ssa.Value(n) {
					st = x
					cnt++
				}
			}
		}
		if cnt == 1 {
			if u, isU := st.Val.(*ssa.UnOp); isU && u.Op == token.MUL {
				if ia, isIA := u.X.(*ssa.IndexAddr); isIA {
					return ia.X, ia.Index, true
				}
			}
		}
	}
	return nil, nil, false
}

// sameSlice compares slice values: identical SSA value or loads of the same access path.
func sameSlice(a, b ssa.Value) bool { return a == b || sameLoad(a, b) }

// ---------------------------------------------------------------------------------------

var c01Matchers = []string{"VerbMatches", "UserOrServiceAccountMatches", "UserGroupMatches", "APIGroupMatches", "ResourceMatches", "ResourceNameMatches", "NonResourceURLMatches"}

func c01(c *eng.Ctx) {
	c.Rule("R1", "first-match fold: MatchPolicies iterates the policy list forward from the first element, returns the current element only when PolicyMatches(attrs, that element) is true, never continues after a match, returns nil after the loop; PolicyMatches is the ∃-fold of RuleMatches over all rules of the policy", 7)
	c.Rule("R2", "RuleMatches is the conjunction of the per-field matchers: pinning any executed matcher to false forces false, all-true forces true, the resource branch consults apiGroups/resources/resourceNames and the other branch nonResourceURLs; every field of DispatchPolicyRule is passed to the matcher of its kind together with the corresponding request attribute", 20)
	c.Rule("R3", "the routing decision depends only on the request attributes and the policy list: the transitive callees of MatchPolicies read no package-level variable, write through no parameter and call nothing outside attribute getters/strings/builtins; MatchAttributes takes the list from one atomic load", 3)
	c.Rule("R4", "polarity: an ∃-fold (return true from inside a loop over rule entries) is guarded by positive atoms only and never ranges over entries that may be inverted ('-' stripped); a fold over inverted entries contributes only through a negation", 3)
	c.Rule("R5", "no match ⇒ rejected, never forwarded: MatchAttributes returns ErrNoRouterRuleMatches on the policy==nil edge; in the dispatcher endpoint picking, flow-control acquisition and the proxy handler are reachable only on the err==nil edge of MatchAttributes", 4)
	c.Rule("R7", "defaults: an empty resourceNames / userGroups / (users and serviceAccounts) list matches everything, an empty verbs / apiGroups / resources / nonResourceURLs list matches nothing (forcing with the list length pinned to 0)", 7)
	c.Rule("R8", "glob forms are wired: trailing-'*' prefix match for users and non-resource URLs (HasPrefix(request, TrimRight(entry,\"*\")) under HasSuffix(entry,\"*\")), '*/sub' for resources (entry == \"*/\"+subresource under HasPrefix(entry,\"*/\") and a non-empty subresource)", 3)

	c.Rule("R9", "one rule field per polarity decision: at every call from a per-field matcher to a function that splits a list into positive and '-'-inverted entries, the list argument derives from exactly one parameter of the matcher", 5)
	c.Rule("R10", "a successful ClusterInfo.Sync publishes the synced object's own Spec.DispatchPolicies: every nil return lies behind the single store to currentDispatchPolicies, except the refusal of an object whose name is not this cluster's", 3)

	c01R1(c)
	c01R2(c)
	c01R3(c)
	c01R4(c)
	c01R5(c)
	c01R7(c)
	c01R8(c)
	c01R9(c)
	c01R10(c)
}

// ---- R1 -------------------------------------------------------------------------------

func c01R1(c *eng.Ctx) {
	mp := c.MustFunc(pkgClusters, "MatchPolicies")
	pm := c.MustFunc(pkgClusters, "PolicyMatches")
	if mp == nil || pm == nil {
		return
	}
	checkFold := func(fn *ssa.Function, collection func(ssa.Value) bool, inner string, first bool) {
		loops := findRangeLoops(fn)
		var over []rangeLoop
		for _, l := range loops {
			if collection(l.S) {
				over = append(over, l)
			}
		}
		nLoops := 0
		for _, b := range fn.Blocks {
			if eng.InLoop(b) {
				if _, ok := b.Instrs[len(b.Instrs)-1].(*ssa.If); ok {
					if b.Succs[0] != b.Succs[1] && (!eng.InLoop(b.Succs[0]) || !eng.InLoop(b.Succs[1]) || blockIsHeader(b, loops)) {
						nLoops++
					}
				}
			}
		}
		if len(over) != 1 {
			c.Fail("R1", fn, "single loop over the list", fn.Pos(), fmt.Sprintf("expected exactly one counting loop over the list, found %d", len(over)))
			return
		}
		l := over[0]
		c.Check("R1", fn, "single loop over the list", fn.Pos(), len(loops) == 1, "exactly one loop, bounded by len(list): every element is considered")
		c.Check("R1", fn, "forward iteration from the first element", l.Header.Instrs[len(l.Header.Instrs)-1].Pos(), l.Forward, "every element is visited, in list order: the index starts at the first element and advances by one")
		// returns
		eng.Instrs(fn, func(ins ssa.Instruction) {
			r, ok := ins.(*ssa.Return)
			if !ok || len(r.Results) != 1 {
				return
			}
			res := r.Results[0]
			negative := eng.IsNilConst(res) || eng.IsBoolConst(res, false)
			if negative {
				// the negative answer is only given after the loop is exhausted
				afterLoop := eng.GuardedBy(r, func(rel eng.Rel) bool {
					return rel.X == l.Idx && rel.Op == token.GEQ
				})
				c.Check("R1", fn, "negative answer only after the whole list", r.Pos(), afterLoop, "nil/false is returned only on the loop-exhausted edge")
				return
			}
			// positive answer: guarded by inner(attrs, elem) == true
			var elemS, elemI ssa.Value
			guarded := eng.GuardedByBool(r, func(v ssa.Value) bool {
				cc, _ := eng.CallResultOf(v)
				if cc == nil || !eng.IsCall(cc, inner) {
					return false
				}
				a := eng.Args(cc)
				if len(a) != 2 || a[0] != ssa.Value(fn.Params[0]) {
					return false
				}
				s, i, ok := elementRef(a[1])
				if !ok || !sameSlice(s, l.S) || i != l.Idx {
					return false
				}
				elemS, elemI = s, i
				return true
			}, true)
			ok2 := guarded
			detail := "a positive answer is control-dependent on the inner match of the current element with the request attributes"
			if guarded && first {
				s, i, isRef := elementRef(res)
				if !isRef || !sameSlice(s, elemS) || i != elemI {
					ok2 = false
					detail = "the returned policy is not the element that matched"
				}
			} else if guarded && !eng.IsBoolConst(res, true) {
				ok2 = false
			}
			c.Check("R1", fn, "positive answer ⇔ current element matches", r.Pos(), ok2, detail)
			// no continuation after a match: from the match edge the loop header is not reachable
			if guarded {
				back := eng.ReachFromBlock(r.Block(), eng.PathQuery{Target: func(i ssa.Instruction) bool { return i.Block() == l.Header }})
				c.Check("R1", fn, "stop at the first match", r.Pos(), back == nil, "")
			}
		})
		// the only ways out of the loop: header exit, or a return
		_ = nLoops
	}
	checkFold(mp, func(v ssa.Value) bool { return v == ssa.Value(mp.Params[1]) }, pkgClusters+".PolicyMatches", true)
	checkFold(pm, func(v ssa.Value) bool {
		return eng.FieldLoadOf(v, pkgV1alpha1+".DispatchPolicy", "Rules")
	}, pkgClusters+".RuleMatches", false)
}

func hasPhi(b *ssa.BasicBlock) bool {
	for _, i := range b.Instrs {
		if _, ok := i.(*ssa.Phi); ok {
			return true
		}
	}
	return false
}

func blockIsHeader(b *ssa.BasicBlock, loops []rangeLoop) bool {
	for _, l := range loops {
		if l.Header == b {
			return true
		}
	}
	return false
}

// ---- R2 -------------------------------------------------------------------------------

func c01R2(c *eng.Ctx) {
	rm := c.MustFunc(pkgClusters, "RuleMatches")
	if rm == nil {
		return
	}
	full := func(n string) string { return pkgV1alpha1 + "." + n }
	isMatcher := func(cc *ssa.Call) (string, bool) {
		for _, n := range c01Matchers {
			if eng.IsCall(cc, full(n)) {
				return n, true
			}
		}
		return "", false
	}
	attrs := "(k8s.io/apiserver/pkg/authorization/authorizer.Attributes)."
	run := func(pin map[string]bool, isRes *bool) ([]eng.PathResult, error) {
		in := &eng.Interp{W: c.W, Depth: 0, PinCall: func(cc *ssa.Call, idx int, st *eng.State) (eng.AV, bool) {
			if n, ok := isMatcher(cc); ok {
				if v, pinned := pin[n]; pinned {
					return eng.AVBool(v), true
				}
				return eng.AV{}, true
			}
			if isRes != nil && eng.IsCall(cc, attrs+"IsResourceRequest") {
				return eng.AVBool(*isRes), true
			}
			return eng.AV{}, false
		}}
		return in.Run(rm, nil)
	}
	executed := func(p eng.PathResult) map[string]bool {
		m := map[string]bool{}
		for _, ci := range p.Calls {
			if cc, ok := ci.(*ssa.Call); ok {
				if n, ok := isMatcher(cc); ok {
					m[n] = true
				}
			}
		}
		return m
	}
	// (a) each matcher pinned false forces false on every path that consults it
	for _, n := range c01Matchers {
		paths, err := run(map[string]bool{n: false}, nil)
		ok := err == nil && len(paths) > 0
		seen := false
		for _, p := range paths {
			if !executed(p)[n] {
				continue
			}
			seen = true
			if p.LoopCut || p.Panicked || len(p.Ret) != 1 || !p.Ret[0].IsBool(false) {
				ok = false
			}
		}
		c.Check("R2", rm, n+"=false ⇒ no match", rm.Pos(), ok && seen, "a rule whose "+n+" does not accept the request must not match (conjunction); the matcher must be consulted")
	}
	// (b) all true ⇒ true; branch sets
	all := map[string]bool{}
	for _, n := range c01Matchers {
		all[n] = true
	}
	for _, res := range []bool{true, false} {
		res := res
		paths, err := run(all, &res)
		ok := err == nil && len(paths) > 0
		want := map[string]bool{"VerbMatches": true, "UserOrServiceAccountMatches": true, "UserGroupMatches": true}
		if res {
			want["APIGroupMatches"], want["ResourceMatches"], want["ResourceNameMatches"] = true, true, true
		} else {
			want["NonResourceURLMatches"] = true
		}
		for _, p := range paths {
			if p.LoopCut || p.Panicked || len(p.Ret) != 1 || !p.Ret[0].IsBool(true) {
				ok = false
			}
			ex := executed(p)
			if len(ex) != len(want) {
				ok = false
			}
			for k := range want {
				if !ex[k] {
					ok = false
				}
			}
		}
		kind := "non-resource"
		if res {
			kind = "resource"
		}
		c.Check("R2", rm, "all matchers true ⇒ match ("+kind+" request)", rm.Pos(), ok, "with every matcher accepting, a "+kind+" request matches, and exactly the matchers of its kind are consulted")
	}
	// (c) field exhaustiveness and request-side wiring
	ruleT := c.W.Named(pkgV1alpha1, "DispatchPolicyRule")
	if ruleT == nil {
		c.Fail("engine", nil, "unresolved-anchor type DispatchPolicyRule", 0, "")
		return
	}
	st := ruleT.Underlying().(*types.Struct)
	fieldOf := map[string]string{ // field -> matcher consuming it
		"Verbs": "VerbMatches", "APIGroups": "APIGroupMatches", "Resources": "ResourceMatches", "ResourceNames": "ResourceNameMatches",
		"Users": "UserOrServiceAccountMatches", "ServiceAccounts": "UserOrServiceAccountMatches", "UserGroups": "UserGroupMatches", "NonResourceURLs": "NonResourceURLMatches",
	}
	consumed := map[string]string{}
	for _, ci := range eng.Calls(rm) {
		cc, ok := ci.(*ssa.Call)
		if !ok {
			continue
		}
		n, ok := isMatcher(cc)
		if !ok {
			continue
		}
		for _, a := range eng.Args(cc) {
			for i := 0; i < st.NumFields(); i++ {
				if eng.FieldLoadOf(a, pkgV1alpha1+".DispatchPolicyRule", st.Field(i).Name()) {
					root, _ := eng.AccessPath(a)
					if root == ssa.Value(rm.Params[1]) {
						consumed[st.Field(i).Name()] = n
					}
				}
			}
		}
	}
	for i := 0; i < st.NumFields(); i++ {
		f := st.Field(i).Name()
		want, known := fieldOf[f]
		if !known {
			c.Fail("R2", rm, "field "+f+" consulted", rm.Pos(), "DispatchPolicyRule has a field that no matcher is known to consult: it cannot influence routing")
			continue
		}
		c.Check("R2", rm, "field "+f+" → "+want, rm.Pos(), consumed[f] == want, fmt.Sprintf("rule.%s must be passed to %s (got %q)", f, want, consumed[f]))
	}
	// request side: each matcher's request argument derives from the right attribute getter
	reqOf := map[string][]string{
		"VerbMatches": {"GetVerb"}, "APIGroupMatches": {"GetAPIGroup"}, "ResourceNameMatches": {"GetName"}, "NonResourceURLMatches": {"GetPath"},
		"UserGroupMatches": {"GetGroups"}, "UserOrServiceAccountMatches": {"GetName"}, "ResourceMatches": {"GetResource", "GetSubresource"},
	}
	sl := c.Slicer().WithArgs()
	for _, ci := range eng.Calls(rm) {
		cc, ok := ci.(*ssa.Call)
		if !ok {
			continue
		}
		n, ok := isMatcher(cc)
		if !ok {
			continue
		}
		args := eng.Args(cc)
		var reqArgs []ssa.Value
		for _, a := range args {
			root, _ := eng.AccessPath(a)
			if root != ssa.Value(rm.Params[1]) {
				reqArgs = append(reqArgs, a)
			}
		}
		got := map[string]bool{}
		for _, a := range reqArgs {
			for _, leaf := range sl.Leaves(a, func(v ssa.Value) bool {
				x, _ := eng.CallResultOf(v)
				return x != nil && x.Call.IsInvoke() && x.Call.Method.Name() != "GetUser"
			}) {
				if x, _ := eng.CallResultOf(leaf); x != nil && x.Call.IsInvoke() {
					got[x.Call.Method.Name()] = true
				}
			}
		}
		ok2 := len(got) == len(reqOf[n])
		for _, g := range reqOf[n] {
			if !got[g] {
				ok2 = false
			}
		}
		var gl []string
		for g := range got {
			gl = append(gl, g)
		}
		sort.Strings(gl)
		c.Check("R2", rm, n+" request side", cc.Pos(), ok2, fmt.Sprintf("request value must come from %v (got %v)", reqOf[n], gl))
		if n == "UserOrServiceAccountMatches" || n == "UserGroupMatches" {
			// through GetUser()
			viaUser := false
			for _, a := range reqArgs {
				if sl.DerivesFrom(a, func(v ssa.Value) bool {
					x, _ := eng.CallResultOf(v)
					return x != nil && eng.IsCall(x, attrs+"GetUser")
				}) {
					viaUser = true
				}
			}
			c.Check("R2", rm, n+" reads the request user", cc.Pos(), viaUser, "")
		}
	}
}

// ---- R3 -------------------------------------------------------------------------------

// c01Reach returns the functions statically reachable from the roots inside the repository
// (callees and closures), sorted by name.
func c01Reach(c *eng.Ctx, roots ...*ssa.Function) []*ssa.Function {
	seen := map[*ssa.Function]bool{}
	var out []*ssa.Function
	var visit func(f *ssa.Function)
	visit = func(f *ssa.Function) {
		if f == nil || seen[f] || f.Blocks == nil {
			return
		}
		if f.Pkg == nil || !eng.IsRepoPkg(f.Pkg.Pkg.Path()) {
			return
		}
		seen[f] = true
		out = append(out, f)
		for _, a := range f.AnonFuncs {
			visit(a)
		}
		for _, ci := range eng.Calls(f) {
			visit(eng.CalleeFn(ci))
		}
	}
	for _, r := range roots {
		visit(r)
	}
	sort.Slice(out, func(i, j int) bool { return out[i].String() < out[j].String() })
	return out
}

func c01R3(c *eng.Ctx) {
	mp := c.MustFunc(pkgClusters, "MatchPolicies")
	if mp == nil {
		return
	}
	reach := c01Reach(c, mp)
	var bad []string
	for _, f := range reach {
		eng.Instrs(f, func(ins ssa.Instruction) {
			switch n := ins.(type) {
			case *ssa.UnOp:
				if n.Op == token.MUL {
					if g, ok := n.X.(*ssa.Global); ok {
						bad = append(bad, fmt.Sprintf("%s reads package variable %s", eng.FuncName(f), g.Name()))
					}
				}
			case *ssa.Store:
				if g, ok := n.Addr.(*ssa.Global); ok {
					bad = append(bad, fmt.Sprintf("%s writes package variable %s", eng.FuncName(f), g.Name()))
				}
				root, _ := eng.AccessPath(n.Addr)
				switch root.(type) {
				case *ssa.Parameter, *ssa.FreeVar:
					if _, isAlloc := n.Addr.(*ssa.Alloc); !isAlloc {
						if p, isP := root.(*ssa.Parameter); !isP || isPointerLike(p.Type()) {
							bad = append(bad, fmt.Sprintf("%s stores through %s", eng.FuncName(f), root.Name()))
						}
					}
				}
			case ssa.CallInstruction:
				if _, isGo := ins.(*ssa.Go); isGo {
					bad = append(bad, fmt.Sprintf("%s starts a goroutine", eng.FuncName(f)))
				}
				cc := n.Common()
				if cc.IsInvoke() {
					rt := eng.TypeName(cc.Value.Type())
					if rt != "k8s.io/apiserver/pkg/authorization/authorizer.Attributes" && rt != "k8s.io/apiserver/pkg/authentication/user.Info" {
						bad = append(bad, fmt.Sprintf("%s calls %s on %s", eng.FuncName(f), cc.Method.Name(), rt))
					}
					return
				}
				if _, isB := cc.Value.(*ssa.Builtin); isB {
					return
				}
				callee := cc.StaticCallee()
				if callee == nil {
					// dynamic call of a function value: must be one of the closures analysed
					return
				}
				if callee.Pkg != nil && eng.IsRepoPkg(callee.Pkg.Pkg.Path()) {
					return // analysed transitively
				}
				if o := eng.CalleeObj(n); o != nil && o.Pkg() != nil && o.Pkg().Path() == "strings" {
					return
				}
				bad = append(bad, fmt.Sprintf("%s calls %s", eng.FuncName(f), eng.FullName(n)))
			}
		})
	}
	c.Check("R3", mp, fmt.Sprintf("purity of the %d functions reachable from MatchPolicies", len(reach)), mp.Pos(), len(bad) == 0, strings.Join(dedup(bad), "; "))
	if len(reach) < 8 {
		c.Fail("R3", mp, "reachable matcher functions", mp.Pos(), fmt.Sprintf("only %d functions reachable from MatchPolicies; expected the fold, the rule matcher and the per-field matchers", len(reach)))
	}
	// one atomic load in MatchAttributes
	if ma := c.MustMethod(pkgClusters, "ClusterInfo", "MatchAttributes"); ma != nil {
		calls := eng.CallsTo(ma, pkgClusters+".MatchPolicies")
		if len(calls) != 1 {
			c.Fail("R3", ma, "policy list from one atomic load", ma.Pos(), fmt.Sprintf("expected one MatchPolicies call, found %d", len(calls)))
		} else {
			a := eng.Args(calls[0])
			n := 0
			sl := &eng.Slicer{W: c.W, Depth: 3}
			for _, leaf := range sl.Leaves(a[1], func(v ssa.Value) bool {
				cc, _ := eng.CallResultOf(v)
				return cc != nil && eng.IsCall(cc, "(*sync/atomic.Value).Load")
			}) {
				if cc, _ := eng.CallResultOf(leaf); cc != nil && eng.IsCall(cc, "(*sync/atomic.Value).Load") && eng.FieldAddrOf(eng.Receiver(cc), tClusterInfo, "currentDispatchPolicies") {
					n++
				} else if !eng.IsNilConst(leaf) {
					if _, isConst := leaf.(*ssa.Const); !isConst {
						n += 100
					}
				}
			}
			c.Check("R3", ma, "policy list from one atomic load", calls[0].Pos(), n == 1, "the list matched against is the value of one atomic load of currentDispatchPolicies (a consistent snapshot)")
			c.Check("R3", ma, "attributes passed unchanged", calls[0].Pos(), a[0] == ssa.Value(ma.Params[1]), "")
		}
	}
}

func isPointerLike(t types.Type) bool {
	switch t.Underlying().(type) {
	case *types.Pointer, *types.Slice, *types.Map:
		return true
	}
	return false
}

// ---- R4 -------------------------------------------------------------------------------

type c01Atom struct {
	pos  bool
	desc string
	at   token.Pos
}

// c01IsStrip reports whether v is a '-'-stripped entry: s[1:] of a string, or
// strings.TrimPrefix/TrimLeft(s, "-").
func c01IsStrip(v ssa.Value) bool {
	if s, ok := v.(*ssa.Slice); ok {
		if b, isB := s.X.Type().Underlying().(*types.Basic); isB && b.Info()&types.IsString != 0 {
			if lo, isInt := eng.IntConst(s.Low); s.Low != nil && isInt && lo == 1 {
				return true
			}
		}
	}
	if cc, _ := eng.CallResultOf(v); cc != nil && eng.IsCall(cc, "strings.TrimPrefix", "strings.TrimLeft") {
		if k, ok := eng.StringConst(eng.Args(cc)[1]); ok && k == "-" {
			return true
		}
	}
	return false
}

// c01FlagFacts holds, while one fold is analysed, the boolean struct fields the fold's own
// guards pin ("pkg.Type.field" -> value): returns of callees that are control-dependent on
// the opposite value of the same field are infeasible for this fold and skipped.
var c01FlagFacts map[string]bool

// c01FlagOf returns the "pkg.Type.field" key and tested value of a relation on a boolean
// struct field, if r is one.
func c01FlagOf(r eng.Rel) (string, bool, bool) {
	if !eng.IsBoolConst(r.Y, false) && !eng.IsBoolConst(r.Y, true) {
		return "", false, false
	}
	val := eng.IsBoolConst(r.Y, true) == (r.Op == token.EQL)
	var typ types.Type
	var idx int
	switch x := r.X.(type) {
	case *ssa.UnOp:
		fa, ok := x.X.(*ssa.FieldAddr)
		if x.Op != token.MUL || !ok {
			return "", false, false
		}
		typ, idx = fa.X.Type(), fa.Field
	case *ssa.Field:
		typ, idx = x.X.Type(), x.Field
	default:
		return "", false, false
	}
	if p, ok := typ.Underlying().(*types.Pointer); ok {
		typ = p.Elem()
	}
	st, ok := typ.Underlying().(*types.Struct)
	if !ok || idx >= st.NumFields() {
		return "", false, false
	}
	if b, isB := st.Field(idx).Type().Underlying().(*types.Basic); !isB || b.Kind() != types.Bool {
		return "", false, false
	}
	return eng.TypeName(typ) + "." + st.Field(idx).Name(), val, true
}

// c01Infeasible reports whether instruction r is control-dependent on a flag value that
// contradicts the current fold's flag facts.
func c01Infeasible(r ssa.Instruction) bool {
	for _, g := range eng.GuardsOf(r) {
		if k, v, ok := c01FlagOf(g.Rel()); ok {
			if want, known := c01FlagFacts[k]; known && want != v {
				return true
			}
		}
	}
	return false
}

// c01Atoms collects the string-comparison atoms a boolean value is computed from, with
// their polarity relative to the value being true.
func c01Atoms(c *eng.Ctx, v ssa.Value, pos bool, depth int, closures []*ssa.Function, seen map[ssa.Value]bool, out *[]c01Atom) {
	if v == nil || seen[v] {
		return
	}
	seen[v] = true
	isStr := func(x ssa.Value) bool {
		b, ok := x.Type().Underlying().(*types.Basic)
		return ok && b.Info()&types.IsString != 0
	}
	switch n := v.(type) {
	case *ssa.UnOp:
		if n.Op == token.NOT {
			c01Atoms(c, n.X, !pos, depth, closures, seen, out)
		}
	case *ssa.BinOp:
		if (n.Op == token.EQL || n.Op == token.NEQ) && isStr(n.X) {
			p := pos
			if n.Op == token.NEQ {
				p = !p
			}
			*out = append(*out, c01Atom{p, "string " + n.Op.String(), n.Pos()})
		}
	case *ssa.Phi:
		for _, e := range n.Edges {
			c01Atoms(c, e, pos, depth, closures, seen, out)
		}
		// the phi of a short-circuit: conditions guarding its non-constant edges
	case *ssa.Call:
		if eng.IsCall(n, "strings.HasPrefix", "strings.HasSuffix", "strings.EqualFold", "strings.Contains") {
			*out = append(*out, c01Atom{pos, eng.FullName(n), n.Pos()})
			return
		}
		var callees []*ssa.Function
		if f := n.Call.StaticCallee(); f != nil {
			if eng.Analysable(f) {
				callees = append(callees, f)
			}
		} else if !n.Call.IsInvoke() {
			// function value: any analysed closure with an identical signature
			for _, cl := range closures {
				if types.Identical(cl.Signature, n.Call.Signature()) {
					callees = append(callees, cl)
				}
			}
		}
		if depth <= 0 {
			return
		}
		for _, f := range callees {
			eng.Instrs(f, func(ins ssa.Instruction) {
				r, ok := ins.(*ssa.Return)
				if !ok || len(r.Results) != 1 || c01Infeasible(r) {
					return
				}
				switch {
				case eng.IsBoolConst(r.Results[0], true):
					for _, g := range c01Contrib(r) {
						c01Atoms(c, g.If.Cond, pos == g.Branch, depth-1, closures, map[ssa.Value]bool{}, out)
					}
				case eng.IsBoolConst(r.Results[0], false):
				default:
					c01Atoms(c, r.Results[0], pos, depth-1, closures, map[ssa.Value]bool{}, out)
					for _, g := range eng.GuardsOf(r) {
						_ = g
					}
				}
			})
		}
	}
}

// c01Contrib returns the branch conditions that contribute to reaching instruction r: an
// if-edge from which r is reachable while it is not reachable from the sibling edge
// (a dominating-style guard), or from which r is reached directly, without passing another
// conditional (a disjunct of `a || b`).
func c01Contrib(r ssa.Instruction) []eng.Guard {
	fn := r.Parent()
	reach := func(from *ssa.BasicBlock) bool {
		if from == r.Block() {
			return true
		}
		if eng.InLoop(from) && hasPhi(from) {
			return false // crossing into a loop header: another iteration
		}
		return eng.ReachFromBlock(from, eng.PathQuery{
			Target: func(i ssa.Instruction) bool { return i == r },
			Avoid:  func(i ssa.Instruction) bool { return i.Block() != from && eng.InLoop(i.Block()) && hasPhi(i.Block()) },
		}) != nil
	}
	direct := func(from *ssa.BasicBlock) bool {
		seen := map[*ssa.BasicBlock]bool{}
		for b := from; b != nil && !seen[b]; {
			seen[b] = true
			if b == r.Block() {
				return true
			}
			if len(b.Succs) != 1 {
				return false
			}
			b = b.Succs[0]
		}
		return false
	}
	var out []eng.Guard
	for _, b := range fn.Blocks {
		if len(b.Instrs) == 0 {
			continue
		}
		iff, ok := b.Instrs[len(b.Instrs)-1].(*ssa.If)
		if !ok || b.Succs[0] == b.Succs[1] {
			continue
		}
		r0, r1 := reach(b.Succs[0]), reach(b.Succs[1])
		switch {
		case r0 && !r1:
			out = append(out, eng.Guard{If: iff, Branch: true})
		case r1 && !r0:
			out = append(out, eng.Guard{If: iff, Branch: false})
		case r0 && r1:
			if direct(b.Succs[0]) && !direct(b.Succs[1]) {
				out = append(out, eng.Guard{If: iff, Branch: true})
			} else if direct(b.Succs[1]) && !direct(b.Succs[0]) {
				out = append(out, eng.Guard{If: iff, Branch: false})
			}
		}
	}
	return out
}

// c01Fold describes an ∃-fold: a `return true` control-dependent on a condition evaluated
// inside a loop.
type c01Fold struct {
	fn     *ssa.Function
	ret    *ssa.Return
	guards []eng.Guard // guards evaluated inside the loop
	loop   *rangeLoop  // the innermost recognised loop over a collection, if any
	loops  []rangeLoop
}

func c01Folds(fn *ssa.Function) []c01Fold {
	var out []c01Fold
	loops := findRangeLoops(fn)
	eng.Instrs(fn, func(ins ssa.Instruction) {
		r, ok := ins.(*ssa.Return)
		if !ok || len(r.Results) != 1 || !eng.IsBoolConst(r.Results[0], true) {
			return
		}
		var gs []eng.Guard
		for _, g := range c01Contrib(r) {
			if !eng.InLoop(g.If.Block()) {
				continue
			}
			// a guard whose other side returns true as well (an earlier `if A {return true}`)
			// does not restrict the disjunction the fold computes: skip it
			other := g.If.Block().Succs[0]
			if g.Branch {
				other = g.If.Block().Succs[1]
			}
			isHeader := func(b *ssa.BasicBlock) bool {
				for _, l := range loops {
					if l.Header == b {
						return true
					}
				}
				return false
			}
			esc := eng.ReachFromBlock(other, eng.PathQuery{
				Target: func(i ssa.Instruction) bool {
					if rr, isR := i.(*ssa.Return); isR {
						return !(len(rr.Results) == 1 && eng.IsBoolConst(rr.Results[0], true))
					}
					if _, isP := i.(*ssa.Panic); isP {
						return true
					}
					return isHeader(i.Block()) || (eng.InLoop(i.Block()) && hasPhi(i.Block()) && i.Block() != other)
				},
				Avoid: func(i ssa.Instruction) bool {
					rr, isR := i.(*ssa.Return)
					return isR && len(rr.Results) == 1 && eng.IsBoolConst(rr.Results[0], true)
				},
			})
			if esc == nil {
				continue
			}
			gs = append(gs, g)
		}
		if len(gs) == 0 {
			return
		}
		f := c01Fold{fn: fn, ret: r, guards: gs, loops: loops}
		out = append(out, f)
	})
	return out
}

func c01R4(c *eng.Ctx) {
	var roots []*ssa.Function
	for _, n := range c01Matchers {
		if f := c.MustFunc(pkgV1alpha1, n); f != nil {
			roots = append(roots, f)
		}
	}
	reach := c01Reach(c, roots...)
	var closures []*ssa.Function
	for _, f := range reach {
		if f.Parent() != nil {
			closures = append(closures, f)
		}
	}
	sl := &eng.Slicer{W: c.W, Depth: 3}
	tainted := func(v ssa.Value) bool { return sl.DerivesFrom(v, c01IsStrip) }
	nFolds := 0
	foldOverParam := map[*ssa.Function][]int{} // function -> parameter indexes folded over
	for _, f := range reach {
		for k, fold := range c01Folds(f) {
			nFolds++
			construct := fmt.Sprintf("∃-fold#%d", k+1)
			// (i) atoms
			var atoms []c01Atom
			flagGuard := false
			c01FlagFacts = map[string]bool{}
			for _, g := range fold.guards {
				if k, v, ok := c01FlagOf(g.Rel()); ok {
					flagGuard = true
					c01FlagFacts[k] = v
				}
			}
			for _, g := range fold.guards {
				c01Atoms(c, g.If.Cond, g.Branch, 3, closures, map[ssa.Value]bool{}, &atoms)
			}
			c01FlagFacts = nil
			var neg []string
			for _, a := range atoms {
				if !a.pos {
					file, line := c.W.Pos(a.at)
					_ = line
					neg = append(neg, a.desc+" in "+file)
				}
			}
			c.Check("R4", f, construct+" positive atoms", fold.ret.Pos(), len(neg) == 0,
				"an ∃-fold returns true as soon as one entry satisfies its guard; with a negated atom (entry != request) a list of two inverted entries matches everything: "+strings.Join(dedup(neg), ", "))
			// (ii) collection taint
			for _, l := range fold.loops {
				inLoop := eng.ReachFromBlock(l.Body, eng.PathQuery{Target: func(i ssa.Instruction) bool { return i == ssa.Instruction(fold.ret) }, Avoid: func(i ssa.Instruction) bool { return i.Block() == l.Header }}) != nil
				if !inLoop {
					continue
				}
				if p, isP := l.S.(*ssa.Parameter); isP {
					for i, pp := range f.Params {
						if pp == p {
							foldOverParam[f] = append(foldOverParam[f], i)
						}
					}
					continue
				}
				if !isEntryCollection(l.S) {
					continue
				}
				t := tainted(l.S)
				c.Check("R4", f, construct+" not over inverted entries", fold.ret.Pos(), !t || flagGuard,
					"the loop ranges over entries that may be '-'-stripped (inverted) and returns true from inside: inverted entries must be combined by ∀ (¬∃ of their positive form)")
			}
		}
	}
	if nFolds == 0 {
		c.Fail("R4", nil, "∃-folds in the matchers", 0, "no fold found in the functions reachable from the per-field matchers")
	}
	// (iii) call sites of parameter folds with inverted arguments must be negated
	for f, idxs0 := range foldOverParam {
		var idxs []int
		seenIdx := map[int]bool{}
		for _, i := range idxs0 {
			if !seenIdx[i] {
				seenIdx[i] = true
				idxs = append(idxs, i)
			}
		}
		for _, g := range reach {
			for _, ci := range eng.CallsToFn(g, f) {
				cc, ok := ci.(*ssa.Call)
				if !ok {
					continue
				}
				anyTainted := false
				for _, i := range idxs {
					if i < len(cc.Call.Args) && tainted(cc.Call.Args[i]) {
						anyTainted = true
					}
				}
				negated, direct := cc.Referrers() != nil && len(*cc.Referrers()) > 0, true
				if cc.Referrers() != nil {
					for _, r := range *cc.Referrers() {
						if _, isDbg := r.(*ssa.DebugRef); isDbg {
							continue
						}
						if u, isU := r.(*ssa.UnOp); isU && u.Op == token.NOT {
							direct = false
						} else {
							negated = false
						}
					}
				}
				if anyTainted {
					c.Check("R4", g, "fold over inverted entries is negated", cc.Pos(), negated,
						"the ∃-fold "+eng.FuncName(f)+" receives '-'-stripped entries here; its result must be negated (a list of inverted entries matches exactly what the positive list does not)")
				} else {
					c.Check("R4", g, "fold over positive entries is used directly", cc.Pos(), direct, "the ∃-fold over positive entries must not be negated")
				}
			}
		}
	}
}

// isEntryCollection reports whether v is a slice of strings or of structs (rule entries),
// as opposed to e.g. the request's group list.
func isEntryCollection(v ssa.Value) bool {
	s, ok := v.Type().Underlying().(*types.Slice)
	if !ok {
		return false
	}
	switch s.Elem().Underlying().(type) {
	case *types.Basic, *types.Struct:
		return true
	}
	return false
}

// ---- R5 -------------------------------------------------------------------------------

func c01R5(c *eng.Ctx) {
	if ma := c.MustMethod(pkgClusters, "ClusterInfo", "MatchAttributes"); ma != nil {
		found := false
		isPolicy := func(v ssa.Value) bool {
			cc, _ := eng.CallResultOf(v)
			return cc != nil && eng.IsCall(cc, pkgClusters+".MatchPolicies")
		}
		eng.Instrs(ma, func(ins ssa.Instruction) {
			r, ok := ins.(*ssa.Return)
			if !ok || len(r.Results) != 2 {
				return
			}
			if eng.GuardedByNil(r, isPolicy, true) {
				found = true
				okv := eng.IsNilConst(r.Results[0]) && c.Slicer().DerivesFrom(r.Results[1], func(v ssa.Value) bool {
					g, isG := v.(*ssa.Global)
					return isG && g.Name() == "ErrNoRouterRuleMatches"
				})
				c.Check("R5", ma, "no policy ⇒ ErrNoRouterRuleMatches", r.Pos(), okv, "when no policy matches, no picker is returned and the error is ErrNoRouterRuleMatches")
			} else if !eng.IsNilConst(r.Results[0]) {
				c.Check("R5", ma, "picker only for a matched policy", r.Pos(), eng.GuardedByNil(r, isPolicy, false), "a picker is returned only on the policy != nil edge")
			}
		})
		if !found {
			c.Fail("R5", ma, "no policy ⇒ ErrNoRouterRuleMatches", ma.Pos(), "no return on the policy == nil edge")
		}
	}
	if sh := c.MustMethod(pkgDispatcher, "dispatcher", "ServeHTTP"); sh != nil {
		mcs := eng.CallsTo(sh, "(*"+tClusterInfo+").MatchAttributes")
		if len(mcs) != 1 {
			c.Fail("R5", sh, "forwarding only after a match", sh.Pos(), fmt.Sprintf("expected one MatchAttributes call, found %d", len(mcs)))
			return
		}
		mc := mcs[0].(*ssa.Call)
		isErr := func(v ssa.Value) bool {
			cc, idx := eng.CallResultOf(v)
			return cc == mc && idx == 1
		}
		iface := fcIface(c)
		n := 0
		for _, ci := range eng.Calls(sh) {
			forward := eng.IsCall(ci, "("+pkgClusters+".EndpointPicker).Pop", "(*"+pkgDispatcher+".UpgradeAwareHandler).ServeHTTP", "(net/http.Handler).ServeHTTP") ||
				(iface != nil && isFCCall(ci, iface, "TryAcquire"))
			if !forward {
				continue
			}
			n++
			c.Check("R5", sh, "only after a match: "+shortName(eng.FullName(ci)), ci.Pos(), eng.GuardedByNil(ci, isErr, true), "reachable only on the err == nil edge of MatchAttributes")
		}
		if n < 3 {
			c.Fail("R5", sh, "forwarding only after a match", sh.Pos(), "pick / acquire / proxy calls not found")
		}
	}
}

// ---- R7 -------------------------------------------------------------------------------

func c01R7(c *eng.Ctx) {
	type tc struct {
		fn    string
		empty []int // parameter indexes pinned to length 0
		want  bool
	}
	cases := []tc{
		{"ResourceNameMatches", []int{0}, true},
		{"UserGroupMatches", []int{0}, true},
		{"UserOrServiceAccountMatches", []int{0, 1}, true},
		{"VerbMatches", []int{0}, false},
		{"APIGroupMatches", []int{0}, false},
		{"ResourceMatches", []int{0}, false},
		{"NonResourceURLMatches", []int{0}, false},
	}
	for _, t := range cases {
		fn := c.MustFunc(pkgV1alpha1, t.fn)
		if fn == nil {
			continue
		}
		names := map[string]bool{}
		for _, i := range t.empty {
			names[fn.Params[i].Name()] = true
		}
		in := &eng.Interp{W: c.W, Depth: 3, MaxPaths: 4096}
		in.PinCall = func(cc *ssa.Call, idx int, st *eng.State) (eng.AV, bool) {
			if isBuiltin(cc, "len") && len(cc.Call.Args) == 1 {
				if names[in.PathKey(cc.Call.Args[0], st)] {
					return eng.AVInt(0), true
				}
			}
			return eng.AV{}, false
		}
		paths, err := in.Run(fn, nil)
		ok := err == nil && len(paths) > 0
		detail := fmt.Sprintf("with the list(s) empty every path must return %v", t.want)
		for _, p := range paths {
			if p.LoopCut || p.Panicked || len(p.Ret) != 1 || !p.Ret[0].IsBool(t.want) {
				ok = false
				if p.LoopCut {
					detail += " (a loop did not fold away: undecided)"
				} else if len(p.Ret) == 1 {
					detail += fmt.Sprintf(" (a path returns %s)", p.Ret[0])
				}
			}
		}
		if err != nil {
			detail += " (" + err.Error() + ")"
		}
		c.Check("R7", fn, fmt.Sprintf("empty ⇒ %v", t.want), fn.Pos(), ok, detail)
	}
}

// ---- R8 -------------------------------------------------------------------------------

func c01R8(c *eng.Ctx) {
	sa := &eng.Slicer{W: c.W, Depth: 0, Args: true}
	// trailing-star glob reachable from a matcher root
	hasGlob := func(root *ssa.Function, request func(ssa.Value, *ssa.Function) bool) (bool, token.Pos) {
		for _, f := range c01Reach(c, root) {
			for _, ci := range eng.CallsTo(f, "strings.HasPrefix") {
				a := eng.Args(ci)
				// pattern side: TrimRight/TrimSuffix(entry, "*")
				var entry ssa.Value
				if tc, _ := eng.CallResultOf(a[1]); tc != nil && eng.IsCall(tc, "strings.TrimRight", "strings.TrimSuffix") {
					if k, ok := eng.StringConst(eng.Args(tc)[1]); ok && k == "*" {
						entry = eng.Args(tc)[0]
					}
				}
				if entry == nil {
					continue
				}
				// guarded by HasSuffix(entry, "*") == true
				g := eng.GuardedByBool(ci, func(v ssa.Value) bool {
					hc, _ := eng.CallResultOf(v)
					if hc == nil || !eng.IsCall(hc, "strings.HasSuffix") {
						return false
					}
					k, ok := eng.StringConst(eng.Args(hc)[1])
					return ok && k == "*" && sameLoad(eng.Args(hc)[0], entry)
				}, true)
				if g && request(a[0], f) {
					return true, ci.Pos()
				}
			}
		}
		return false, token.NoPos
	}
	// the request operand must be a parameter/free variable that is not the entry
	reqIsOuter := func(v ssa.Value, f *ssa.Function) bool {
		for _, leaf := range sa.Leaves(v, nil) {
			switch leaf.(type) {
			case *ssa.Parameter, *ssa.FreeVar:
				return true
			}
		}
		return false
	}
	for _, n := range []string{"UserOrServiceAccountMatches", "NonResourceURLMatches"} {
		if f := c.MustFunc(pkgV1alpha1, n); f != nil {
			ok, pos := hasGlob(f, reqIsOuter)
			if !pos.IsValid() {
				pos = f.Pos()
			}
			c.Check("R8", f, "trailing-* glob", pos, ok, "an entry ending in '*' must match every request that starts with the rest of it")
		}
	}
	// */sub for resources
	if f := c.MustFunc(pkgV1alpha1, "ResourceMatches"); f != nil {
		ok := false
		pos := f.Pos()
		for _, g := range c01Reach(c, f) {
			eng.Instrs(g, func(ins ssa.Instruction) {
				b, isB := ins.(*ssa.BinOp)
				if !isB || b.Op != token.EQL {
					return
				}
				for _, side := range []ssa.Value{b.X, b.Y} {
					add, isAdd := side.(*ssa.BinOp)
					if !isAdd || add.Op != token.ADD {
						continue
					}
					k, isK := eng.StringConst(add.X)
					if !isK || k != "*/" {
						continue
					}
					other := b.X
					if side == b.X {
						other = b.Y
					}
					// guarded by HasPrefix(entry, "*/") and len(subresource) != 0
					pref := eng.GuardedByBool(b, func(v ssa.Value) bool {
						hc, _ := eng.CallResultOf(v)
						if hc == nil || !eng.IsCall(hc, "strings.HasPrefix") {
							return false
						}
						kk, okk := eng.StringConst(eng.Args(hc)[1])
						return okk && kk == "*/" && sameLoad(eng.Args(hc)[0], other)
					}, true)
					nonEmpty := eng.GuardedBy(b, func(r eng.Rel) bool {
						lc, isC := r.X.(*ssa.Call)
						z, isZ := eng.IntConst(r.Y)
						return isC && isBuiltin(lc, "len") && sameLoad(lc.Call.Args[0], add.Y) && isZ && z == 0 && (r.Op == token.NEQ || r.Op == token.GTR)
					})
					if pref && nonEmpty {
						ok = true
						pos = b.Pos()
					}
				}
			})
		}
		c.Check("R8", f, "*/subresource", pos, ok, "an entry '*/sub' must match subresource sub of any resource: entry == \"*/\"+subresource, only for entries with the \"*/\" prefix and a non-empty subresource")
	}
}

// ---------------------------------------------------------------------------------------

const c01FxSrc = `package fx
func eq(a, b string) bool { return a == b }
func neqIfRev(rev bool, a, b string) bool { if rev { return a != b }; return a == b }
func orFold(rev bool, xs []string, r string) bool {
	for _, x := range xs { if (!rev && x == r) || (rev && x != r) { return true } }
	return false
}
func seqFold(xs []string, r, q string) bool {
	for _, x := range xs {
		if x == r { return true }
		if x == q { return true }
	}
	return false
}
func goodFold(xs []string, r string) bool {
	for _, x := range xs { if eq(x, r) { return true } }
	return false
}
func badFold(rev bool, xs []string, r string) bool {
	for _, x := range xs { if neqIfRev(rev, x, r) { return true } }
	return false
}
func strip(rs []string) (pos, inv []string) {
	for _, r := range rs {
		if len(r) > 0 && r[0] == '-' { inv = append(inv, r[1:]) } else { pos = append(pos, r) }
	}
	return
}
func goodUse(rs []string, r string) bool {
	p, i := strip(rs)
	if len(p) > 0 { return goodFold(p, r) }
	return !goodFold(i, r)
}
func badUse(rs []string, r string) bool {
	p, i := strip(rs)
	if len(p) > 0 { return goodFold(p, r) }
	return goodFold(i, r)
}
`

func c01Fixtures(c *eng.Ctx) {
	p, _, err := eng.BuildFixture(c01FxSrc)
	if err != nil {
		c.Fixture("C01.polarity/build", "ok", err.Error())
		return
	}
	neg := func(name string) bool {
		f := p.Func(name)
		for _, fold := range c01Folds(f) {
			var atoms []c01Atom
			for _, g := range fold.guards {
				c01Atoms(c, g.If.Cond, g.Branch, 3, nil, map[ssa.Value]bool{}, &atoms)
			}
			for _, a := range atoms {
				if !a.pos {
					return true
				}
			}
		}
		return false
	}
	c.Fixture("C01.polarity/goodFold", "false", fmt.Sprint(neg("goodFold")))
	c.Fixture("C01.polarity/badFold", "true", fmt.Sprint(neg("badFold")))
	c.Fixture("C01.polarity/orFold", "true", fmt.Sprint(neg("orFold")))
	c.Fixture("C01.polarity/seqFold", "false", fmt.Sprint(neg("seqFold")))
	sl := &eng.Slicer{Depth: 3, FollowCall: func(_ *ssa.Call, callee *ssa.Function) bool { return callee.Blocks != nil }}
	negated := func(name string) string {
		f := p.Func(name)
		res := "none"
		for _, ci := range eng.CallsToFn(f, p.Func("goodFold")) {
			cc := ci.(*ssa.Call)
			if !sl.DerivesFrom(cc.Call.Args[0], c01IsStrip) {
				continue
			}
			res = "negated"
			for _, r := range *cc.Referrers() {
				if u, ok := r.(*ssa.UnOp); !ok || u.Op != token.NOT {
					res = "direct"
				}
			}
		}
		return res
	}
	c.Fixture("C01.polarity/goodUse", "negated", negated("goodUse"))
	c.Fixture("C01.polarity/badUse", "direct", negated("badUse"))
}
