package rules

import (
	"fmt"
	"go/constant"
	"go/token"
	"go/types"
	"sort"
	"strings"

	"golang.org/x/tools/go/ssa"

	"kgv/internal/eng"
)

func init() {
	Register("C01", c01)
	RegisterFixture("C01", c01Fixtures)
}

// ---------------------------------------------------------------------------------------
// range-loop recognition

// rangeLoop is a recognised counting loop over a slice: `for i := range S`, `for _, v :=
// range S` or `for i := 0; i < len(S); i++`.
type rangeLoop struct {
	Header  *ssa.BasicBlock // block ending in `if idx < len(S)`
	Idx     ssa.Value       // the value used as index inside the body
	S       ssa.Value       // the slice
	Forward bool            // first index 0, step +1
	Body    *ssa.BasicBlock
	Exit    *ssa.BasicBlock
}

func findRangeLoops(fn *ssa.Function) []rangeLoop {
	var out []rangeLoop
	for _, b := range fn.Blocks {
		if len(b.Instrs) == 0 {
			continue
		}
		iff, ok := b.Instrs[len(b.Instrs)-1].(*ssa.If)
		if !ok || !eng.InLoop(b) {
			continue
		}
		cmp, ok := iff.Cond.(*ssa.BinOp)
		if !ok || cmp.Op != token.LSS {
			continue
		}
		lc, ok := cmp.Y.(*ssa.Call)
		if !ok || !isBuiltin(lc, "len") {
			continue
		}
		rl := rangeLoop{Header: b, Idx: cmp.X, S: lc.Call.Args[0], Body: b.Succs[0], Exit: b.Succs[1]}
		// idx = phi(c0, phi+1) or phi+1 with c0 = -1
		switch x := cmp.X.(type) {
		case *ssa.Phi:
			rl.Forward = phiStartsAt(x, 0)
		case *ssa.BinOp:
			if p, ok := x.X.(*ssa.Phi); ok && x.Op == token.ADD {
				if one, isInt := eng.IntConst(x.Y); isInt && one == 1 {
					rl.Forward = phiStartsAt(p, -1)
				}
			}
		}
		out = append(out, rl)
	}
	return out
}

// phiStartsAt reports whether p is an induction variable with initial value c0 and step +1.
func phiStartsAt(p *ssa.Phi, c0 int64) bool {
	init, step := false, false
	for _, e := range p.Edges {
		if k, ok := eng.IntConst(e); ok {
			if k == c0 {
				init = true
			} else {
				return false
			}
			continue
		}
		b, ok := e.(*ssa.BinOp)
		if !ok || b.Op != token.ADD {
			return false
		}
		one, isInt := eng.IntConst(b.Y)
		if !isInt || one != 1 {
			return false
		}
		if b.X == ssa.Value(p) {
			step = true
			continue
		}
		// p = phi(-1, idx) with idx = p+1 is the same node (handled above); for the classic
		// loop the increment is i+1 on the phi itself
		return false
	}
	return init && step
}

// elementRef resolves v to (slice, index) when v is &S[i], or a local copy whose only
// store is *(&S[i]) (range by value).
func elementRef(v ssa.Value) (s ssa.Value, idx ssa.Value, ok bool) {
	switch n := v.(type) {
	case *ssa.IndexAddr:
		return n.X, n.Index, true
	case *ssa.Alloc:
		var st *ssa.Store
		cnt := 0
		if n.Referrers() != nil {
			for _, r := range *n.Referrers() {
				if x, isSt := r.(*ssa.Store); isSt && x.Addr == ssa.Value(n) {
					st = x
					cnt++
				}
			}
		}
		if cnt == 1 {
			if u, isU := st.Val.(*ssa.UnOp); isU && u.Op == token.MUL {
				if ia, isIA := u.X.(*ssa.IndexAddr); isIA {
					return ia.X, ia.Index, true
				}
			}
		}
	}
	return nil, nil, false
}

// sameSlice compares slice values: identical SSA value or loads of the same access path.
func sameSlice(a, b ssa.Value) bool { return a == b || sameLoad(a, b) }

// ---------------------------------------------------------------------------------------

var c01Matchers = []string{"VerbMatches", "UserOrServiceAccountMatches", "UserGroupMatches", "APIGroupMatches", "ResourceMatches", "ResourceNameMatches", "NonResourceURLMatches"}

func c01(c *eng.Ctx) {
	c.Rule("R1", "first-match fold: MatchPolicies iterates the policy list forward from the first element, returns the current element only when PolicyMatches(attrs, that element) is true, never continues after a match, returns nil after the loop; PolicyMatches is the ∃-fold of RuleMatches over all rules of the policy", 7)
	c.Rule("R2", "RuleMatches is the conjunction of the per-field matchers: pinning any executed matcher to false forces false, all-true forces true, the resource branch consults apiGroups/resources/resourceNames and the other branch nonResourceURLs; every field of DispatchPolicyRule is passed to the matcher of its kind together with the corresponding request attribute", 20)
	c.Rule("R3", "the routing decision depends only on the request attributes and the policy list: the transitive callees of MatchPolicies read no package-level variable, write through no parameter and call nothing outside attribute getters/strings/builtins; MatchAttributes takes the list from one atomic load", 3)
	c.Rule("R4", "polarity: an ∃-fold (return true from inside a loop over rule entries) is guarded by positive atoms only and never ranges over entries that may be inverted ('-' stripped); a fold over inverted entries contributes only through a negation", 3)
	c.Rule("R5", "no match ⇒ rejected, never forwarded: MatchAttributes returns ErrNoRouterRuleMatches on the policy==nil edge; in the dispatcher endpoint picking, flow-control acquisition and the proxy handler are reachable only on the err==nil edge of MatchAttributes", 4)
	c.Rule("R7", "defaults: an empty resourceNames / userGroups / (users and serviceAccounts) list matches everything, an empty verbs / apiGroups / resources / nonResourceURLs list matches nothing (forcing with the list length pinned to 0)", 7)
	c.Rule("R8", "glob forms are wired: trailing-'*' prefix match for users and non-resource URLs (HasPrefix(request, TrimRight(entry,\"*\")) under HasSuffix(entry,\"*\")), '*/sub' for resources (entry == \"*/\"+subresource under HasPrefix(entry,\"*/\") and a non-empty subresource)", 3)

	c.Rule("R9", "one rule field per polarity decision: at every call from a per-field matcher to a function that splits a list into positive and '-'-inverted entries, the list argument derives from exactly one parameter of the matcher", 5)
	c.Rule("R10", "a successful ClusterInfo.Sync publishes the synced object's own Spec.DispatchPolicies: every nil return lies behind the single store to currentDispatchPolicies, except the refusal of an object whose name is not this cluster's", 3)

	c01R1(c)
	c01R2(c)
	c01R3(c)
	c01R4(c)
	c01R5(c)
	c01R7(c)
	c01R8(c)
	c01R9(c)
	c01R10(c)
}

// ---- R1 -------------------------------------------------------------------------------

func c01R1(c *eng.Ctx) {
	mp := c.MustFunc(pkgClusters, "MatchPolicies")
	pm := c.MustFunc(pkgClusters, "PolicyMatches")
	if mp == nil || pm == nil {
		return
	}
	checkFold := func(fn *ssa.Function, collection func(ssa.Value) bool, inner string, first bool) {
		loops := findRangeLoops(fn)
		var over []rangeLoop
		for _, l := range loops {
			if collection(l.S) {
				over = append(over, l)
			}
		}
		nLoops := 0
		for _, b := range fn.Blocks {
			if eng.InLoop(b) {
				if _, ok := b.Instrs[len(b.Instrs)-1].(*ssa.If); ok {
					if b.Succs[0] != b.Succs[1] && (!eng.InLoop(b.Succs[0]) || !eng.InLoop(b.Succs[1]) || blockIsHeader(b, loops)) {
						nLoops++
					}
				}
			}
		}
		if len(over) != 1 {
			c.Fail("R1", fn, "single loop over the list", fn.Pos(), fmt.Sprintf("expected exactly one counting loop over the list, found %d", len(over)))
			return
		}
		l := over[0]
		c.Check("R1", fn, "single loop over the list", fn.Pos(), len(loops) == 1, "exactly one loop, bounded by len(list): every element is considered")
		c.Check("R1", fn, "forward iteration from the first element", l.Header.Instrs[len(l.Header.Instrs)-1].Pos(), l.Forward, "every element is visited, in list order: the index starts at the first element and advances by one")
		// results: every value a return may yield, with the CFG edges through which it was
		// selected (`return x` directly, or `found = x; break … return found`: a phi)
		for _, r := range c17Returns(fn) {
			res := eng.ReturnResults(r)
			if len(res) != 1 {
				continue
			}
			for _, lf := range c01ResultLeaves(res[0]) {
				lf := lf
				// holds: the relation is known where the return executes or on one of the edges
				// that selected this value
				holds := func(pr func(eng.Rel) bool) bool {
					if eng.GuardedBy(r, pr) {
						return true
					}
					for _, e := range lf.edges {
						if c01EdgeHolds(e, pr) {
							return true
						}
					}
					return false
				}
				negative := eng.IsNilConst(lf.v) || eng.IsBoolConst(lf.v, false)
				if _, isConst := lf.v.(*ssa.Const); !isConst && !first {
					// a boolean that is known to be false on the way (`if found = inner(…); found {break}`
					// carries the false result of the last element out of the loop)
					negative = holds(func(rel eng.Rel) bool {
						return c01BoolFact(rel, func(v ssa.Value) bool { return v == lf.v }, false)
					})
				}
				if negative {
					// the negative answer is only given after the loop is exhausted
					afterLoop := holds(func(rel eng.Rel) bool {
						rel = eng.NormRel(rel)
						return rel.X == l.Idx && rel.Op == token.GEQ
					})
					c.Check("R1", fn, "negative answer only after the whole list", r.Pos(), afterLoop, "nil/false is returned only on the loop-exhausted edge")
					continue
				}
				// positive answer: guarded by inner(attrs, elem) == true
				var elemS, elemI ssa.Value
				var innerCall *ssa.Call
				guarded := holds(func(rel eng.Rel) bool {
					return c01BoolFact(rel, func(v ssa.Value) bool {
						cc, _ := eng.CallResultOf(v)
						if cc == nil || !eng.IsCall(cc, inner) {
							return false
						}
						a := eng.Args(cc)
						if len(a) != 2 || a[0] != ssa.Value(fn.Params[0]) {
							return false
						}
						s, i, ok := elementRef(a[1])
						if !ok || !sameSlice(s, l.S) || i != l.Idx {
							return false
						}
						elemS, elemI, innerCall = s, i, cc
						return true
					}, true)
				})
				ok2 := guarded
				detail := "a positive answer is control-dependent on the inner match of the current element with the request attributes"
				if guarded && first {
					s, i, isRef := elementRef(lf.v)
					if !isRef || !sameSlice(s, elemS) || i != elemI {
						ok2 = false
						detail = "the returned policy is not the element that matched"
					}
				} else if guarded && !eng.IsBoolConst(lf.v, true) && lf.v != ssa.Value(innerCall) {
					ok2 = false
				}
				c.Check("R1", fn, "positive answer ⇔ current element matches", r.Pos(), ok2, detail)
				// no continuation after a match: from the match edge the loop header is not reachable
				if guarded {
					toHeader := func(b *ssa.BasicBlock) bool {
						return eng.ReachFromBlock(b, eng.PathQuery{Target: func(i ssa.Instruction) bool { return i.Block() == l.Header }}) != nil
					}
					back := toHeader(r.Block())
					for _, e := range lf.edges {
						if toHeader(e.to) {
							back = true
						}
					}
					c.Check("R1", fn, "stop at the first match", r.Pos(), !back, "")
				}
			}
		}
		// the only ways out of the loop: header exit, or a return
		_ = nLoops
	}
	checkFold(mp, func(v ssa.Value) bool { return v == ssa.Value(mp.Params[1]) }, pkgClusters+".PolicyMatches", true)
	checkFold(pm, func(v ssa.Value) bool {
		return eng.FieldLoadOf(v, pkgV1alpha1+".DispatchPolicy", "Rules")
	}, pkgClusters+".RuleMatches", false)
}

// c01Edge is a CFG edge.
type c01Edge struct{ from, to *ssa.BasicBlock }

// c01Leaf is a non-phi value a result may take, with the phi edges it travelled through.
type c01Leaf struct {
	v     ssa.Value
	edges []c01Edge
	phis  []*ssa.Phi // the phis the value travelled through (outermost first)
}

// c01ResultLeaves expands v through (nested) phis; phi cycles (loop-carried values) are cut.
func c01ResultLeaves(v ssa.Value) []c01Leaf {
	var out []c01Leaf
	seen := map[*ssa.Phi]bool{}
	var walk func(v ssa.Value, es []c01Edge, ps []*ssa.Phi)
	walk = func(v ssa.Value, es []c01Edge, ps []*ssa.Phi) {
		phi, ok := v.(*ssa.Phi)
		if !ok {
			out = append(out, c01Leaf{v, es, ps})
			return
		}
		if seen[phi] {
			return
		}
		seen[phi] = true
		for i, e := range phi.Edges {
			if i >= len(phi.Block().Preds) {
				continue
			}
			walk(e, append(append([]c01Edge{}, es...), c01Edge{phi.Block().Preds[i], phi.Block()}), append(append([]*ssa.Phi{}, ps...), phi))
		}
		delete(seen, phi)
	}
	walk(v, nil, nil)
	return out
}

// c01EdgeHolds: some relation known when control flows along e satisfies pr — a guard of the
// source block (deep facts, lifted through helpers) or the branch taken out of it.
func c01EdgeHolds(e c01Edge, pr func(eng.Rel) bool) bool {
	if len(e.from.Instrs) == 0 {
		return false
	}
	last := e.from.Instrs[len(e.from.Instrs)-1]
	if eng.GuardedBy(last, pr) {
		return true
	}
	if iff, ok := last.(*ssa.If); ok && len(e.from.Succs) == 2 && e.from.Succs[0] != e.from.Succs[1] {
		branch := e.from.Succs[0] == e.to
		if pr(eng.RelOf(iff.Cond, branch)) {
			return true
		}
		for _, r := range eng.ImpliedRels(iff.Cond, branch) {
			if pr(r) {
				return true
			}
		}
	}
	return false
}

func hasPhi(b *ssa.BasicBlock) bool {
	for _, i := range b.Instrs {
		if _, ok := i.(*ssa.Phi); ok {
			return true
		}
	}
	return false
}

func blockIsHeader(b *ssa.BasicBlock, loops []rangeLoop) bool {
	for _, l := range loops {
		if l.Header == b {
			return true
		}
	}
	return false
}

// ---- R2 -------------------------------------------------------------------------------

// c01SamePkg accepts the functions of fn's package (the helpers a body may have been spread over).
func c01SamePkg(fn *ssa.Function) func(*ssa.Function) bool {
	return func(g *ssa.Function) bool {
		return g != nil && g.Blocks != nil && eng.Outermost(g).Pkg != nil && eng.Outermost(g).Pkg == eng.Outermost(fn).Pkg
	}
}

func c01R2(c *eng.Ctx) {
	rm := c.MustFunc(pkgClusters, "RuleMatches")
	if rm == nil {
		return
	}
	full := func(n string) string { return pkgV1alpha1 + "." + n }
	isMatcher := func(cc *ssa.Call) (string, bool) {
		for _, n := range c01Matchers {
			if eng.IsCall(cc, full(n)) {
				return n, true
			}
		}
		return "", false
	}
	attrs := "(k8s.io/apiserver/pkg/authorization/authorizer.Attributes)."
	samePkg := c01SamePkg(rm)
	// the conjunction may be spread over same-package helpers (requesterMatches, resourceRuleMatches,
	// a helper computing resource/subresource): they are interpreted as part of RuleMatches
	run := func(pin map[string]bool, isRes *bool) ([]eng.PathResult, error) {
		in := &eng.Interp{W: c.W, Depth: eng.LiftDepth, MaxPaths: 1 << 14, FollowCall: samePkg, PinCall: func(cc *ssa.Call, idx int, st *eng.State) (eng.AV, bool) {
			if n, ok := isMatcher(cc); ok {
				if v, pinned := pin[n]; pinned {
					return eng.AVBool(v), true
				}
				return eng.AV{}, true
			}
			if isRes != nil && eng.IsCall(cc, attrs+"IsResourceRequest") {
				return eng.AVBool(*isRes), true
			}
			return eng.AV{}, false
		}}
		return in.Run(rm, nil)
	}
	executed := func(p eng.PathResult) map[string]bool {
		m := map[string]bool{}
		for _, ci := range p.Calls {
			if cc, ok := ci.(*ssa.Call); ok {
				if n, ok := isMatcher(cc); ok {
					m[n] = true
				}
			}
		}
		return m
	}
	// (a) each matcher pinned false forces false on every path that consults it
	for _, n := range c01Matchers {
		paths, err := run(map[string]bool{n: false}, nil)
		ok := err == nil && len(paths) > 0
		seen := false
		for _, p := range paths {
			if !executed(p)[n] {
				continue
			}
			seen = true
			if p.LoopCut || p.Panicked || len(p.Ret) != 1 || !p.Ret[0].IsBool(false) {
				ok = false
			}
		}
		c.Check("R2", rm, n+"=false ⇒ no match", rm.Pos(), ok && seen, "a rule whose "+n+" does not accept the request must not match (conjunction); the matcher must be consulted")
	}
	// (b) all true ⇒ true; branch sets
	all := map[string]bool{}
	for _, n := range c01Matchers {
		all[n] = true
	}
	for _, res := range []bool{true, false} {
		res := res
		paths, err := run(all, &res)
		ok := err == nil && len(paths) > 0
		want := map[string]bool{"VerbMatches": true, "UserOrServiceAccountMatches": true, "UserGroupMatches": true}
		if res {
			want["APIGroupMatches"], want["ResourceMatches"], want["ResourceNameMatches"] = true, true, true
		} else {
			want["NonResourceURLMatches"] = true
		}
		for _, p := range paths {
			if p.LoopCut || p.Panicked || len(p.Ret) != 1 || !p.Ret[0].IsBool(true) {
				ok = false
			}
			ex := executed(p)
			if len(ex) != len(want) {
				ok = false
			}
			for k := range want {
				if !ex[k] {
					ok = false
				}
			}
		}
		kind := "non-resource"
		if res {
			kind = "resource"
		}
		c.Check("R2", rm, "all matchers true ⇒ match ("+kind+" request)", rm.Pos(), ok, "with every matcher accepting, a "+kind+" request matches, and exactly the matchers of its kind are consulted")
	}
	// (c) field exhaustiveness and request-side wiring
	ruleT := c.W.Named(pkgV1alpha1, "DispatchPolicyRule")
	if ruleT == nil {
		c.Fail("engine", nil, "unresolved-anchor type DispatchPolicyRule", 0, "")
		return
	}
	st := ruleT.Underlying().(*types.Struct)
	fieldOf := map[string]string{ // field -> matcher consuming it
		"Verbs": "VerbMatches", "APIGroups": "APIGroupMatches", "Resources": "ResourceMatches", "ResourceNames": "ResourceNameMatches",
		"Users": "UserOrServiceAccountMatches", "ServiceAccounts": "UserOrServiceAccountMatches", "UserGroups": "UserGroupMatches", "NonResourceURLs": "NonResourceURLMatches",
	}
	// the matcher calls of RuleMatches, each in the calling context it executes in: values of a
	// helper are related to RuleMatches' own parameters through the arguments of the chain
	type mcall struct {
		call *ssa.Call
		name string
		ctx  *eng.CallCtx
	}
	var mcalls []mcall
	for _, ctx := range eng.DownCtxs(rm, samePkg, eng.LiftDepth) {
		for _, ci := range eng.Calls(ctx.Fn) {
			if cc, ok := ci.(*ssa.Call); ok {
				if n, ok := isMatcher(cc); ok {
					mcalls = append(mcalls, mcall{cc, n, ctx})
				}
			}
		}
	}
	// ruleField: the field of RuleMatches' rule parameter that a is a read of ("" if none)
	ruleField := func(a ssa.Value, ctx *eng.CallCtx) string {
		root, path, rctx := eng.ResolvePathIn(a, ctx)
		if root == ssa.Value(rm.Params[1]) && rctx != nil && rctx.Fn == rm && len(path) == 1 {
			return path[0]
		}
		return ""
	}
	consumed := map[string]string{}
	for _, m := range mcalls {
		for _, a := range eng.Args(m.call) {
			if f := ruleField(a, m.ctx); f != "" {
				if prev, dup := consumed[f]; dup && prev != m.name {
					consumed[f] = prev + "+" + m.name
				} else {
					consumed[f] = m.name
				}
			}
		}
	}
	for i := 0; i < st.NumFields(); i++ {
		f := st.Field(i).Name()
		want, known := fieldOf[f]
		if !known {
			c.Fail("R2", rm, "field "+f+" consulted", rm.Pos(), "DispatchPolicyRule has a field that no matcher is known to consult: it cannot influence routing")
			continue
		}
		c.Check("R2", rm, "field "+f+" → "+want, rm.Pos(), consumed[f] == want, fmt.Sprintf("rule.%s must be passed to %s (got %q)", f, want, consumed[f]))
	}
	// request side: each matcher's request argument derives from the right attribute getter
	reqOf := map[string][]string{
		"VerbMatches": {"GetVerb"}, "APIGroupMatches": {"GetAPIGroup"}, "ResourceNameMatches": {"GetName"}, "NonResourceURLMatches": {"GetPath"},
		"UserGroupMatches": {"GetGroups"}, "UserOrServiceAccountMatches": {"GetName"}, "ResourceMatches": {"GetResource", "GetSubresource"},
	}
	sl := c.Slicer().WithArgs()
	isGetUser := func(v ssa.Value) bool {
		x, _ := eng.CallResultOf(v)
		return x != nil && eng.IsCall(x, attrs+"GetUser")
	}
	for _, m := range mcalls {
		n, cc := m.name, m.call
		var reqArgs []ssa.Value
		for _, a := range eng.Args(cc) {
			if ruleField(a, m.ctx) == "" {
				reqArgs = append(reqArgs, a)
			}
		}
		got := map[string]bool{}
		viaUser := false
		for _, a := range reqArgs {
			for _, leaf := range eng.LeavesIn(sl, a, m.ctx, func(v ssa.Value) bool {
				x, _ := eng.CallResultOf(v)
				return x != nil && x.Call.IsInvoke() && x.Call.Method.Name() != "GetUser"
			}) {
				if x, _ := eng.CallResultOf(leaf.V); x != nil && x.Call.IsInvoke() {
					got[x.Call.Method.Name()] = true
				}
			}
			// through GetUser(): some getter the value derives from is GetUser of the attributes
			for _, leaf := range eng.LeavesIn(sl, a, m.ctx, isGetUser) {
				if isGetUser(leaf.V) {
					viaUser = true
				}
			}
		}
		ok2 := len(got) == len(reqOf[n])
		for _, g := range reqOf[n] {
			if !got[g] {
				ok2 = false
			}
		}
		var gl []string
		for g := range got {
			gl = append(gl, g)
		}
		sort.Strings(gl)
		c.Check("R2", rm, n+" request side", cc.Pos(), ok2, fmt.Sprintf("request value must come from %v (got %v)", reqOf[n], gl))
		if n == "UserOrServiceAccountMatches" || n == "UserGroupMatches" {
			c.Check("R2", rm, n+" reads the request user", cc.Pos(), viaUser, "")
		}
	}
}

// ---- R3 -------------------------------------------------------------------------------

// c01Reach returns the functions statically reachable from the roots inside the repository
// (callees and closures), sorted by name.
func c01Reach(c *eng.Ctx, roots ...*ssa.Function) []*ssa.Function {
	seen := map[*ssa.Function]bool{}
	var out []*ssa.Function
	var visit func(f *ssa.Function)
	visit = func(f *ssa.Function) {
		if f == nil || seen[f] || f.Blocks == nil {
			return
		}
		if f.Pkg == nil || !eng.IsRepoPkg(f.Pkg.Pkg.Path()) {
			return
		}
		seen[f] = true
		out = append(out, f)
		for _, a := range f.AnonFuncs {
			visit(a)
		}
		for _, ci := range eng.Calls(f) {
			visit(eng.CalleeFn(ci))
		}
		// functions used as values (a named function or a method value handed over as the
		// per-entry match function) may be called by whoever receives them
		eng.Instrs(f, func(ins ssa.Instruction) {
			for _, op := range ins.Operands(nil) {
				if *op == nil {
					continue
				}
				switch (*op).(type) {
				case *ssa.Function, *ssa.MakeClosure:
					visit(c.W.FuncOfValue(*op))
				}
			}
		})
	}
	for _, r := range roots {
		visit(r)
	}
	sort.Slice(out, func(i, j int) bool { return out[i].String() < out[j].String() })
	return out
}

func c01R3(c *eng.Ctx) {
	mp := c.MustFunc(pkgClusters, "MatchPolicies")
	if mp == nil {
		return
	}
	reach := c01Reach(c, mp)
	var bad []string
	for _, f := range reach {
		eng.Instrs(f, func(ins ssa.Instruction) {
			switch n := ins.(type) {
			case *ssa.UnOp:
				if n.Op == token.MUL {
					if g, ok := n.X.(*ssa.Global); ok {
						bad = append(bad, fmt.Sprintf("%s reads package variable %s", eng.FuncName(f), g.Name()))
					}
				}
			case *ssa.Store:
				if g, ok := n.Addr.(*ssa.Global); ok {
					bad = append(bad, fmt.Sprintf("%s writes package variable %s", eng.FuncName(f), g.Name()))
				}
				root, _ := eng.AccessPath(n.Addr)
				switch root.(type) {
				case *ssa.Parameter, *ssa.FreeVar:
					if _, isAlloc := n.Addr.(*ssa.Alloc); !isAlloc {
						if p, isP := root.(*ssa.Parameter); !isP || isPointerLike(p.Type()) {
							bad = append(bad, fmt.Sprintf("%s stores through %s", eng.FuncName(f), root.Name()))
						}
					}
				}
			case ssa.CallInstruction:
				if _, isGo := ins.(*ssa.Go); isGo {
					bad = append(bad, fmt.Sprintf("%s starts a goroutine", eng.FuncName(f)))
				}
				cc := n.Common()
				if cc.IsInvoke() {
					rt := eng.TypeName(cc.Value.Type())
					if rt != "k8s.io/apiserver/pkg/authorization/authorizer.Attributes" && rt != "k8s.io/apiserver/pkg/authentication/user.Info" {
						bad = append(bad, fmt.Sprintf("%s calls %s on %s", eng.FuncName(f), cc.Method.Name(), rt))
					}
					return
				}
				if _, isB := cc.Value.(*ssa.Builtin); isB {
					return
				}
				callee := cc.StaticCallee()
				if callee == nil {
					// dynamic call of a function value: must be one of the closures analysed
					return
				}
				if callee.Pkg != nil && eng.IsRepoPkg(callee.Pkg.Pkg.Path()) {
					return // analysed transitively
				}
				if o := eng.CalleeObj(n); o != nil && o.Pkg() != nil && o.Pkg().Path() == "strings" {
					return
				}
				bad = append(bad, fmt.Sprintf("%s calls %s", eng.FuncName(f), eng.FullName(n)))
			}
		})
	}
	c.Check("R3", mp, fmt.Sprintf("purity of the %d functions reachable from MatchPolicies", len(reach)), mp.Pos(), len(bad) == 0, strings.Join(dedup(bad), "; "))
	if len(reach) < 8 {
		c.Fail("R3", mp, "reachable matcher functions", mp.Pos(), fmt.Sprintf("only %d functions reachable from MatchPolicies; expected the fold, the rule matcher and the per-field matchers", len(reach)))
	}
	// one atomic load in MatchAttributes (the call may sit in a same-package helper of it: the
	// list and the attributes are then related to MatchAttributes through the calling context)
	if ma := c.MustMethod(pkgClusters, "ClusterInfo", "MatchAttributes"); ma != nil {
		type site struct {
			call ssa.CallInstruction
			ctx  *eng.CallCtx
		}
		var sites []site
		distinct := map[ssa.CallInstruction]bool{}
		for _, ctx := range eng.DownCtxs(ma, c01SamePkg(ma), eng.LiftDepth) {
			for _, ci := range eng.CallsTo(ctx.Fn, pkgClusters+".MatchPolicies") {
				sites = append(sites, site{ci, ctx})
				distinct[ci] = true
			}
		}
		if len(distinct) != 1 {
			c.Fail("R3", ma, "policy list from one atomic load", ma.Pos(), fmt.Sprintf("expected one MatchPolicies call, found %d", len(distinct)))
		} else {
			okLoad, okAttrs := true, true
			for _, s := range sites {
				a := eng.Args(s.call)
				n := 0
				sl := &eng.Slicer{W: c.W, Depth: 3}
				for _, lf := range eng.LeavesIn(sl, a[1], s.ctx, func(v ssa.Value) bool {
					cc, _ := eng.CallResultOf(v)
					return cc != nil && eng.IsCall(cc, "(*sync/atomic.Value).Load")
				}) {
					leaf := lf.V
					if cc, _ := eng.CallResultOf(leaf); cc != nil && eng.IsCall(cc, "(*sync/atomic.Value).Load") && eng.FieldAddrOf(eng.Receiver(cc), tClusterInfo, "currentDispatchPolicies") {
						n++
					} else if !eng.IsNilConst(leaf) {
						if _, isConst := leaf.(*ssa.Const); !isConst {
							n += 100
						}
					}
				}
				if n != 1 {
					okLoad = false
				}
				if r := eng.ResolveIn(a[0], s.ctx); r.V != ssa.Value(ma.Params[1]) {
					okAttrs = false
				}
			}
			c.Check("R3", ma, "policy list from one atomic load", sites[0].call.Pos(), okLoad, "the list matched against is the value of one atomic load of currentDispatchPolicies (a consistent snapshot)")
			c.Check("R3", ma, "attributes passed unchanged", sites[0].call.Pos(), okAttrs, "")
		}
	}
}

func isPointerLike(t types.Type) bool {
	switch t.Underlying().(type) {
	case *types.Pointer, *types.Slice, *types.Map:
		return true
	}
	return false
}

// ---- R4 -------------------------------------------------------------------------------

type c01Atom struct {
	pos  bool
	desc string
	at   token.Pos
}

// c01IsStrip reports whether v is a '-'-stripped entry: s[1:] of a string, or
// strings.TrimPrefix/TrimLeft(s, "-").
func c01IsStrip(v ssa.Value) bool {
	if s, ok := v.(*ssa.Slice); ok {
		if b, isB := s.X.Type().Underlying().(*types.Basic); isB && b.Info()&types.IsString != 0 {
			if lo, isInt := eng.IntConst(s.Low); s.Low != nil && isInt && lo == 1 {
				return true
			}
		}
	}
	if cc, _ := eng.CallResultOf(v); cc != nil && eng.IsCall(cc, "strings.TrimPrefix", "strings.TrimLeft") {
		if k, ok := eng.StringConst(eng.Args(cc)[1]); ok && k == "-" {
			return true
		}
	}
	return false
}

// c01FlagFacts holds, while one fold is analysed, the boolean struct fields the fold's own
// guards pin ("pkg.Type.field" -> value): returns of callees that are control-dependent on
// the opposite value of the same field are infeasible for this fold and skipped.
var c01FlagFacts map[string]bool

// c01FlagOf returns the "pkg.Type.field" key and tested value of a relation on a boolean
// struct field, if r is one.
func c01FlagOf(r eng.Rel) (string, bool, bool) {
	if !eng.IsBoolConst(r.Y, false) && !eng.IsBoolConst(r.Y, true) {
		return "", false, false
	}
	val := eng.IsBoolConst(r.Y, true) == (r.Op == token.EQL)
	var typ types.Type
	var idx int
	switch x := r.X.(type) {
	case *ssa.UnOp:
		fa, ok := x.X.(*ssa.FieldAddr)
		if x.Op != token.MUL || !ok {
			return "", false, false
		}
		typ, idx = fa.X.Type(), fa.Field
	case *ssa.Field:
		typ, idx = x.X.Type(), x.Field
	default:
		return "", false, false
	}
	if p, ok := typ.Underlying().(*types.Pointer); ok {
		typ = p.Elem()
	}
	st, ok := typ.Underlying().(*types.Struct)
	if !ok || idx >= st.NumFields() {
		return "", false, false
	}
	if b, isB := st.Field(idx).Type().Underlying().(*types.Basic); !isB || b.Kind() != types.Bool {
		return "", false, false
	}
	return eng.TypeName(typ) + "." + st.Field(idx).Name(), val, true
}

// c01Infeasible reports whether instruction r is control-dependent on a flag value that
// contradicts the current fold's flag facts.
func c01Infeasible(r ssa.Instruction) bool {
	for _, g := range eng.GuardsOf(r) {
		if k, v, ok := c01FlagOf(g.Rel()); ok {
			if want, known := c01FlagFacts[k]; known && want != v {
				return true
			}
		}
	}
	return false
}

// c01Atoms collects the string-comparison atoms a boolean value is computed from, with
// their polarity relative to the value being true.
func c01Atoms(c *eng.Ctx, v ssa.Value, pos bool, depth int, closures []*ssa.Function, seen map[ssa.Value]bool, out *[]c01Atom) {
	if v == nil || seen[v] {
		return
	}
	seen[v] = true
	isStr := func(x ssa.Value) bool {
		b, ok := x.Type().Underlying().(*types.Basic)
		return ok && b.Info()&types.IsString != 0
	}
	switch n := v.(type) {
	case *ssa.UnOp:
		if n.Op == token.NOT {
			c01Atoms(c, n.X, !pos, depth, closures, seen, out)
		}
	case *ssa.BinOp:
		if (n.Op == token.EQL || n.Op == token.NEQ) && isStr(n.X) {
			p := pos
			if n.Op == token.NEQ {
				p = !p
			}
			*out = append(*out, c01Atom{p, "string " + n.Op.String(), n.Pos()})
		}
	case *ssa.Phi:
		for _, e := range n.Edges {
			c01Atoms(c, e, pos, depth, closures, seen, out)
		}
		// the phi of a short-circuit: conditions guarding its non-constant edges
	case *ssa.Call:
		if eng.IsCall(n, "strings.HasPrefix", "strings.HasSuffix", "strings.EqualFold", "strings.Contains") {
			*out = append(*out, c01Atom{pos, eng.FullName(n), n.Pos()})
			return
		}
		var callees []*ssa.Function
		if f := n.Call.StaticCallee(); f != nil {
			if eng.Analysable(f) {
				callees = append(callees, f)
			}
		} else if !n.Call.IsInvoke() {
			// function value: any analysed closure with an identical signature
			for _, cl := range closures {
				if types.Identical(cl.Signature, n.Call.Signature()) {
					callees = append(callees, cl)
				}
			}
		}
		if depth <= 0 {
			return
		}
		for _, f := range callees {
			eng.Instrs(f, func(ins ssa.Instruction) {
				r, ok := ins.(*ssa.Return)
				if !ok || len(r.Results) != 1 || c01Infeasible(r) {
					return
				}
				switch {
				case eng.IsBoolConst(r.Results[0], true):
					for _, g := range c01Contrib(r) {
						c01Atoms(c, g.If.Cond, pos == g.Branch, depth-1, closures, map[ssa.Value]bool{}, out)
					}
				case eng.IsBoolConst(r.Results[0], false):
				default:
					c01Atoms(c, r.Results[0], pos, depth-1, closures, map[ssa.Value]bool{}, out)
					for _, g := range eng.GuardsOf(r) {
						_ = g
					}
				}
			})
		}
	}
}

// c01Contrib returns the branch conditions that contribute to reaching instruction r: an
// if-edge from which r is reachable while it is not reachable from the sibling edge
// (a dominating-style guard), or from which r is reached directly, without passing another
// conditional (a disjunct of `a || b`).
func c01Contrib(r ssa.Instruction) []eng.Guard {
	fn := r.Parent()
	reach := func(from *ssa.BasicBlock) bool {
		if from == r.Block() {
			return true
		}
		if eng.InLoop(from) && hasPhi(from) {
			return false // crossing into a loop header: another iteration
		}
		return eng.ReachFromBlock(from, eng.PathQuery{
			Target: func(i ssa.Instruction) bool { return i == r },
			Avoid:  func(i ssa.Instruction) bool { return i.Block() != from && eng.InLoop(i.Block()) && hasPhi(i.Block()) },
		}) != nil
	}
	direct := func(from *ssa.BasicBlock) bool {
		seen := map[*ssa.BasicBlock]bool{}
		for b := from; b != nil && !seen[b]; {
			seen[b] = true
			if b == r.Block() {
				return true
			}
			if len(b.Succs) != 1 {
				return false
			}
			b = b.Succs[0]
		}
		return false
	}
	var out []eng.Guard
	for _, b := range fn.Blocks {
		if len(b.Instrs) == 0 {
			continue
		}
		iff, ok := b.Instrs[len(b.Instrs)-1].(*ssa.If)
		if !ok || b.Succs[0] == b.Succs[1] {
			continue
		}
		r0, r1 := reach(b.Succs[0]), reach(b.Succs[1])
		switch {
		case r0 && !r1:
			out = append(out, eng.Guard{If: iff, Branch: true})
		case r1 && !r0:
			out = append(out, eng.Guard{If: iff, Branch: false})
		case r0 && r1:
			if direct(b.Succs[0]) && !direct(b.Succs[1]) {
				out = append(out, eng.Guard{If: iff, Branch: true})
			} else if direct(b.Succs[1]) && !direct(b.Succs[0]) {
				out = append(out, eng.Guard{If: iff, Branch: false})
			}
		}
	}
	return out
}

// c01Fold describes an ∃-fold: a `return true` control-dependent on a condition evaluated
// inside a loop.
type c01Fold struct {
	fn     *ssa.Function
	ret    *ssa.Return
	at     ssa.Instruction // the point inside the loop at which the positive answer is decided (ret for `return true`)
	guards []eng.Guard     // guards evaluated inside the loop
	conds  []c01Cond       // further conditions the answer is computed from (flag form: `found = cond(x)`)
	loop   *rangeLoop      // the innermost recognised loop over a collection, if any
	loops  []rangeLoop
}

// c01Cond is a boolean value with the truth value under which the fold answers true.
type c01Cond struct {
	v      ssa.Value
	branch bool
}

func c01Folds(fn *ssa.Function) []c01Fold {
	var out []c01Fold
	loops := findRangeLoops(fn)
	eng.Instrs(fn, func(ins ssa.Instruction) {
		r, ok := ins.(*ssa.Return)
		if !ok || len(r.Results) != 1 || !eng.IsBoolConst(r.Results[0], true) {
			return
		}
		var gs []eng.Guard
		for _, g := range c01Contrib(r) {
			if !eng.InLoop(g.If.Block()) {
				continue
			}
			// a guard whose other side returns true as well (an earlier `if A {return true}`)
			// does not restrict the disjunction the fold computes: skip it
			other := g.If.Block().Succs[0]
			if g.Branch {
				other = g.If.Block().Succs[1]
			}
			isHeader := func(b *ssa.BasicBlock) bool {
				for _, l := range loops {
					if l.Header == b {
						return true
					}
				}
				return false
			}
			esc := eng.ReachFromBlock(other, eng.PathQuery{
				Target: func(i ssa.Instruction) bool {
					if rr, isR := i.(*ssa.Return); isR {
						return !(len(rr.Results) == 1 && eng.IsBoolConst(rr.Results[0], true))
					}
					if _, isP := i.(*ssa.Panic); isP {
						return true
					}
					return isHeader(i.Block()) || (eng.InLoop(i.Block()) && hasPhi(i.Block()) && i.Block() != other)
				},
				Avoid: func(i ssa.Instruction) bool {
					rr, isR := i.(*ssa.Return)
					return isR && len(rr.Results) == 1 && eng.IsBoolConst(rr.Results[0], true)
				},
			})
			if esc == nil {
				continue
			}
			gs = append(gs, g)
		}
		if len(gs) == 0 {
			return
		}
		f := c01Fold{fn: fn, ret: r, at: r, guards: gs, loops: loops}
		out = append(out, f)
	})
	// the single-exit form: `found := false; for … && !found { found = cond(x) }; return found` or
	// `if cond(x) { found = true; break }` — the value returned is selected by phis; a leaf that
	// is decided inside a loop is a positive answer given from inside the loop
	seenAt := map[ssa.Instruction]bool{}
	for _, r := range c17Returns(fn) {
		res := eng.ReturnResults(r)
		if len(res) != 1 {
			continue
		}
		if _, isPhi := res[0].(*ssa.Phi); !isPhi {
			continue
		}
		for _, lf := range c01ResultLeaves(res[0]) {
			if len(lf.edges) == 0 {
				continue
			}
			e := lf.edges[len(lf.edges)-1] // the edge that selected the leaf
			// inside a loop, or the block that leaves it (`found = true; break`)
			inside := eng.InLoop(e.from)
			if !inside && len(e.from.Preds) > 0 {
				inside = true
				for _, p := range e.from.Preds {
					if !eng.InLoop(p) {
						inside = false
					}
				}
			}
			if !inside || len(e.from.Instrs) == 0 {
				continue
			}
			// a test of the accumulator itself (`for … && !found`) is loop control, not a condition
			// of the answer
			isAccu := func(cond ssa.Value) bool {
				for {
					u, isNot := cond.(*ssa.UnOp)
					if !isNot || u.Op != token.NOT {
						break
					}
					cond = u.X
				}
				for _, ph := range lf.phis {
					if cond == ssa.Value(ph) {
						return true
					}
				}
				return false
			}
			var at ssa.Instruction
			var conds []c01Cond
			switch {
			case eng.IsBoolConst(lf.v, true):
				at = e.from.Instrs[len(e.from.Instrs)-1]
			default:
				if _, isConst := lf.v.(*ssa.Const); isConst {
					continue
				}
				ins, isIns := lf.v.(ssa.Instruction)
				if !isIns || ins.Block() == nil || !eng.InLoop(ins.Block()) {
					continue
				}
				if b, isB := lf.v.Type().Underlying().(*types.Basic); !isB || b.Kind() != types.Bool {
					continue
				}
				at = ins
				conds = append(conds, c01Cond{lf.v, true})
			}
			if seenAt[at] {
				continue
			}
			seenAt[at] = true
			var gs []eng.Guard
			for _, g := range c01Contrib(at) {
				if eng.InLoop(g.If.Block()) && !blockIsHeader(g.If.Block(), loops) && !isAccu(g.If.Cond) {
					gs = append(gs, g)
				}
			}
			if iff, isIf := at.(*ssa.If); isIf && len(e.from.Succs) == 2 && e.from.Succs[0] != e.from.Succs[1] && !blockIsHeader(e.from, loops) {
				gs = append(gs, eng.Guard{If: iff, Branch: e.from.Succs[0] == e.to})
			}
			if len(gs)+len(conds) == 0 {
				continue
			}
			out = append(out, c01Fold{fn: fn, ret: r, at: at, guards: gs, conds: conds, loops: loops})
		}
	}
	return out
}

func c01R4(c *eng.Ctx) {
	var roots []*ssa.Function
	for _, n := range c01Matchers {
		if f := c.MustFunc(pkgV1alpha1, n); f != nil {
			roots = append(roots, f)
		}
	}
	reach := c01Reach(c, roots...)
	var closures []*ssa.Function
	for _, f := range reach {
		if f.Parent() != nil {
			closures = append(closures, f)
		}
	}
	sl := &eng.Slicer{W: c.W, Depth: 3}
	tw := &c01Taint{w: c.W, sl: sl, seen: map[c01TaintKey]bool{}}
	tainted := func(v ssa.Value, at ssa.Instruction) bool { return tw.tainted(v, at, 12) }
	nFolds := 0
	foldOverParam := map[*ssa.Function][]int{} // function -> parameter indexes folded over
	for _, f := range reach {
		for k, fold := range c01Folds(f) {
			nFolds++
			construct := fmt.Sprintf("∃-fold#%d", k+1)
			// (i) atoms
			var atoms []c01Atom
			flagGuard := false
			c01FlagFacts = map[string]bool{}
			for _, g := range fold.guards {
				if k, v, ok := c01FlagOf(g.Rel()); ok {
					flagGuard = true
					c01FlagFacts[k] = v
				}
			}
			for _, g := range fold.guards {
				c01Atoms(c, g.If.Cond, g.Branch, 3, closures, map[ssa.Value]bool{}, &atoms)
			}
			for _, cd := range fold.conds {
				c01Atoms(c, cd.v, cd.branch, 3, closures, map[ssa.Value]bool{}, &atoms)
			}
			c01FlagFacts = nil
			var neg []string
			for _, a := range atoms {
				if !a.pos {
					file, line := c.W.Pos(a.at)
					_ = line
					neg = append(neg, a.desc+" in "+file)
				}
			}
			c.Check("R4", f, construct+" positive atoms", fold.ret.Pos(), len(neg) == 0,
				"an ∃-fold returns true as soon as one entry satisfies its guard; with a negated atom (entry != request) a list of two inverted entries matches everything: "+strings.Join(dedup(neg), ", "))
			// (ii) collection taint
			for _, l := range fold.loops {
				inLoop := eng.ReachFromBlock(l.Body, eng.PathQuery{Target: func(i ssa.Instruction) bool { return i == fold.at }, Avoid: func(i ssa.Instruction) bool { return i.Block() == l.Header }}) != nil
				if !inLoop {
					continue
				}
				if p, isP := l.S.(*ssa.Parameter); isP {
					for i, pp := range f.Params {
						if pp == p {
							foldOverParam[f] = append(foldOverParam[f], i)
						}
					}
					continue
				}
				if !isEntryCollection(l.S) {
					continue
				}
				t := tainted(l.S, l.Header.Instrs[len(l.Header.Instrs)-1])
				c.Check("R4", f, construct+" not over inverted entries", fold.ret.Pos(), !t || flagGuard,
					"the loop ranges over entries that may be '-'-stripped (inverted) and returns true from inside: inverted entries must be combined by ∀ (¬∃ of their positive form)")
			}
		}
	}
	if nFolds == 0 {
		c.Fail("R4", nil, "∃-folds in the matchers", 0, "no fold found in the functions reachable from the per-field matchers")
	}
	// (iii) call sites of parameter folds with inverted arguments must be negated
	for f, idxs0 := range foldOverParam {
		var idxs []int
		seenIdx := map[int]bool{}
		for _, i := range idxs0 {
			if !seenIdx[i] {
				seenIdx[i] = true
				idxs = append(idxs, i)
			}
		}
		for _, g := range reach {
			for _, ci := range eng.CallsToFn(g, f) {
				cc, ok := ci.(*ssa.Call)
				if !ok {
					continue
				}
				anyTainted := false
				for _, i := range idxs {
					if i < len(cc.Call.Args) && tainted(cc.Call.Args[i], cc) {
						anyTainted = true
					}
				}
				negated, direct := cc.Referrers() != nil && len(*cc.Referrers()) > 0, true
				if cc.Referrers() != nil {
					for _, r := range *cc.Referrers() {
						if _, isDbg := r.(*ssa.DebugRef); isDbg {
							continue
						}
						if u, isU := r.(*ssa.UnOp); isU && u.Op == token.NOT {
							direct = false
						} else {
							negated = false
						}
					}
				}
				if anyTainted {
					c.Check("R4", g, "fold over inverted entries is negated", cc.Pos(), negated,
						"the ∃-fold "+eng.FuncName(f)+" receives '-'-stripped entries here; its result must be negated (a list of inverted entries matches exactly what the positive list does not)")
				} else {
					c.Check("R4", g, "fold over positive entries is used directly", cc.Pos(), direct, "the ∃-fold over positive entries must not be negated")
				}
			}
		}
	}
}

// c01Taint decides whether a list may hold '-'-stripped (inverted) entries. It is a backward
// walk like Slicer.DerivesFrom(v, c01IsStrip), made sensitive to the one correlation that
// matters here: a per-entry helper that reports the entry's value together with its polarity
// (`value, isInverted := splitRule(r)` returning (r[1:], true) / (r, false)). Where the value is
// appended under a known truth value of the flag, only the returns of the helper that can yield
// that flag are followed, so the positive list is not mistaken for a stripped one. Parameters of
// helpers whose callers are all known are followed into the call sites.
type c01Taint struct {
	w    *eng.World
	sl   *eng.Slicer
	seen map[c01TaintKey]bool
}

type c01TaintKey struct {
	v  ssa.Value
	at ssa.Instruction
	fr *c01TaintFrame
}

// c01TaintFrame is a followed call: inside the callee its parameters stand for the arguments.
type c01TaintFrame struct {
	call   *ssa.Call
	callee *ssa.Function
	parent *c01TaintFrame
}

// knownAt returns the truth value of boolean v known when `at` executes.
func c01KnownAt(v ssa.Value, at ssa.Instruction) (bool, bool) {
	if at == nil || at.Block() == nil {
		return false, false
	}
	for _, want := range []bool{true, false} {
		want := want
		for _, r := range c01Facts(at, 0) {
			if c01BoolFact(r, func(x ssa.Value) bool { return x == v }, want) {
				return want, true
			}
		}
	}
	return false, false
}

func (t *c01Taint) tainted(v ssa.Value, at ssa.Instruction, depth int) bool {
	return t.walk(v, at, depth, nil)
}

func (t *c01Taint) walk(v ssa.Value, at ssa.Instruction, depth int, fr *c01TaintFrame) bool {
	if v == nil || depth <= 0 {
		return false
	}
	k := c01TaintKey{v, at, fr}
	if t.seen[k] {
		return false
	}
	t.seen[k] = true
	defer delete(t.seen, k)
	if c01IsStrip(v) {
		return true
	}
	returnsOf := func(h *ssa.Function) []*ssa.Return {
		var out []*ssa.Return
		for _, b := range h.Blocks {
			if b == h.Recover || len(b.Instrs) == 0 {
				continue
			}
			if r, ok := b.Instrs[len(b.Instrs)-1].(*ssa.Return); ok {
				out = append(out, r)
			}
		}
		return out
	}
	switch x := v.(type) {
	case *ssa.Const, *ssa.Global, *ssa.Function, *ssa.MakeSlice, *ssa.MakeMap, *ssa.Builtin:
		return false
	case *ssa.Phi:
		for i, e := range x.Edges {
			var pat ssa.Instruction
			if i < len(x.Block().Preds) {
				p := x.Block().Preds[i]
				pat = p.Instrs[len(p.Instrs)-1]
			}
			if t.walk(e, pat, depth-1, fr) {
				return true
			}
		}
		return false
	case *ssa.Slice:
		return t.walk(x.X, at, depth-1, fr)
	case *ssa.MakeInterface:
		return t.walk(x.X, at, depth-1, fr)
	case *ssa.ChangeType:
		return t.walk(x.X, at, depth-1, fr)
	case *ssa.Convert:
		return t.walk(x.X, at, depth-1, fr)
	case *ssa.Index:
		return t.walk(x.X, at, depth-1, fr)
	case *ssa.IndexAddr:
		return t.walk(x.X, at, depth-1, fr)
	case *ssa.Alloc:
		// a cell (named result, local, variadic array): whatever is stored into it
		if x.Referrers() == nil {
			return false
		}
		for _, r := range *x.Referrers() {
			switch u := r.(type) {
			case *ssa.Store:
				if u.Addr == ssa.Value(x) && t.walk(u.Val, u, depth-1, fr) {
					return true
				}
			case *ssa.IndexAddr:
				if u.Referrers() == nil {
					continue
				}
				for _, rr := range *u.Referrers() {
					if st, ok := rr.(*ssa.Store); ok && st.Addr == ssa.Value(u) && t.walk(st.Val, st, depth-1, fr) {
						return true
					}
				}
			case *ssa.UnOp, *ssa.DebugRef, *ssa.Slice:
			default:
				if t.sl.DerivesFrom(v, c01IsStrip) {
					return true
				}
			}
		}
		return false
	case *ssa.UnOp:
		if x.Op != token.MUL {
			return t.walk(x.X, at, depth-1, fr)
		}
		switch a := x.X.(type) {
		case *ssa.Alloc, *ssa.IndexAddr:
			return t.walk(a, at, depth-1, fr)
		}
		return t.sl.DerivesFrom(v, c01IsStrip)
	case *ssa.Parameter:
		// inside a followed callee: the argument, in the caller's context
		if fr != nil && x.Parent() == fr.callee {
			if i := eng.ParamIndex(x); i >= 0 && i < len(fr.call.Call.Args) {
				return t.walk(fr.call.Call.Args[i], fr.call, depth-1, fr.parent)
			}
			return false
		}
		if t.w == nil {
			return false
		}
		for _, u := range t.w.UpArgSites(x) {
			if t.walk(u.Arg, u.Site, depth-1, nil) {
				return true
			}
		}
		return false
	case *ssa.Extract:
		call, ok := x.Tuple.(*ssa.Call)
		if !ok {
			return t.sl.DerivesFrom(v, c01IsStrip)
		}
		h := call.Call.StaticCallee()
		if h == nil || !eng.Analysable(h) {
			return false
		}
		// the flags of the same call whose truth value is known at the point of use
		known := map[int]bool{}
		res := h.Signature.Results()
		for j := 0; j < res.Len(); j++ {
			if b, isB := res.At(j).Type().Underlying().(*types.Basic); !isB || b.Kind() != types.Bool {
				continue
			}
			for _, ej := range eng.ExtractOf(call, j) {
				if val, ok := c01KnownAt(ej, at); ok {
					known[j] = val
				}
			}
		}
		for _, r := range returnsOf(h) {
			rs := eng.ReturnResults(r)
			if x.Index >= len(rs) {
				continue
			}
			feasible := true
			for j, val := range known {
				if j < len(rs) && eng.IsBoolConst(rs[j], !val) {
					feasible = false
				}
			}
			if feasible && t.walk(rs[x.Index], r, depth-1, &c01TaintFrame{call, h, fr}) {
				return true
			}
		}
		return false
	case *ssa.Call:
		if isBuiltin(x, "append") && len(x.Call.Args) == 2 {
			return t.walk(x.Call.Args[0], x, depth-1, fr) || t.walk(x.Call.Args[1], x, depth-1, fr)
		}
		h := x.Call.StaticCallee()
		if h == nil || !eng.Analysable(h) {
			return false
		}
		for _, r := range returnsOf(h) {
			for _, rv := range eng.ReturnResults(r) {
				if t.walk(rv, r, depth-1, &c01TaintFrame{x, h, fr}) {
					return true
				}
			}
		}
		return false
	}
	return t.sl.DerivesFrom(v, c01IsStrip)
}

// isEntryCollection reports whether v is a slice of strings or of structs (rule entries),
// as opposed to e.g. the request's group list.
func isEntryCollection(v ssa.Value) bool {
	s, ok := v.Type().Underlying().(*types.Slice)
	if !ok {
		return false
	}
	switch s.Elem().Underlying().(type) {
	case *types.Basic, *types.Struct:
		return true
	}
	return false
}

// ---- R5 -------------------------------------------------------------------------------

// c01Spread returns the functions the body of root may have been spread over inside root's own
// package: root, its closures and (transitively, LiftDepth levels) the same-package functions
// they call statically (plain call, go or defer). The callee of a call satisfying stopAt is not
// entered (it is a construct the rule judges, not part of the body).
func c01Spread(root *ssa.Function, stopAt func(ssa.CallInstruction) bool) []*ssa.Function {
	samePkg := c01SamePkg(root)
	seen := map[*ssa.Function]bool{}
	var out []*ssa.Function
	var visit func(f *ssa.Function, depth int)
	visit = func(f *ssa.Function, depth int) {
		if f == nil || seen[f] || f.Blocks == nil {
			return
		}
		seen[f] = true
		out = append(out, f)
		for _, a := range f.AnonFuncs {
			visit(a, depth)
		}
		if depth <= 0 {
			return
		}
		for _, ci := range eng.Calls(f) {
			if stopAt != nil && stopAt(ci) {
				continue
			}
			if g := ci.Common().StaticCallee(); g != nil && samePkg(g) {
				visit(g, depth-1)
			}
		}
	}
	visit(root, eng.LiftDepth)
	return out
}

// c01VirtualReturns returns the return statements that produce fn's results: a return that
// merely hands on the complete result tuple of a same-package helper (`return c.pick(…)`) is
// replaced by the helper's own returns.
func c01VirtualReturns(fn *ssa.Function, depth int) []*ssa.Return {
	var out []*ssa.Return
	samePkg := c01SamePkg(fn)
	for _, b := range fn.Blocks {
		if b == fn.Recover || len(b.Instrs) == 0 {
			continue
		}
		r, ok := b.Instrs[len(b.Instrs)-1].(*ssa.Return)
		if !ok {
			continue
		}
		res := eng.ReturnResults(r)
		var h *ssa.Function
		if depth > 0 && len(res) > 0 {
			var tuple *ssa.Call
			whole := true
			for i, v := range res {
				cc, idx := eng.CallResultOf(v)
				if cc == nil || (len(res) > 1 && idx != i) || (len(res) == 1 && idx != -1) || (tuple != nil && cc != tuple) {
					whole = false
					break
				}
				tuple = cc
			}
			if whole && tuple != nil && tuple.Block() == b {
				if g := tuple.Call.StaticCallee(); g != nil && g != fn && samePkg(g) && g.Signature.Results().Len() == len(res) {
					h = g
				}
			}
		}
		if h != nil {
			out = append(out, c01VirtualReturns(h, depth-1)...)
			continue
		}
		out = append(out, r)
	}
	return out
}

// c01ResultOf reports whether v is the result of one of the calls, possibly handed through
// same-package helpers every return of which yields nil or such a result (then v != nil still
// implies that the call's result is not nil, and v is nil whenever the call's result is).
func c01ResultOf(v ssa.Value, calls map[*ssa.Call]bool, samePkg func(*ssa.Function) bool, depth int) bool {
	cc, idx := eng.CallResultOf(v)
	if cc == nil {
		return false
	}
	if calls[cc] {
		return true
	}
	h := cc.Call.StaticCallee()
	if depth <= 0 || h == nil || !samePkg(h) {
		return false
	}
	if idx < 0 {
		idx = 0
	}
	n := 0
	for _, b := range h.Blocks {
		if b == h.Recover || len(b.Instrs) == 0 {
			continue
		}
		r, ok := b.Instrs[len(b.Instrs)-1].(*ssa.Return)
		if !ok {
			continue
		}
		res := eng.ReturnResults(r)
		if idx >= len(res) {
			return false
		}
		if eng.IsNilConst(res[idx]) {
			continue
		}
		if !c01ResultOf(res[idx], calls, samePkg, depth-1) {
			return false
		}
		n++
	}
	return n > 0
}

func c01R5(c *eng.Ctx) {
	if ma := c.MustMethod(pkgClusters, "ClusterInfo", "MatchAttributes"); ma != nil {
		c01R5Match(c, ma)
	}
	if sh := c.MustMethod(pkgDispatcher, "dispatcher", "ServeHTTP"); sh != nil {
		c01R5Dispatch(c, sh)
	}
}

// c01R5Match: MatchAttributes answers (nil, ErrNoRouterRuleMatches) when MatchPolicies finds
// nothing and hands out a picker only for a matched policy.
func c01R5Match(c *eng.Ctx, ma *ssa.Function) {
	samePkg := c01SamePkg(ma)
	mps := map[*ssa.Call]bool{}
	spread := c01Spread(ma, nil)
	for _, f := range spread {
		for _, ci := range eng.CallsTo(f, pkgClusters+".MatchPolicies") {
			if cc, ok := ci.(*ssa.Call); ok {
				mps[cc] = true
			}
		}
	}
	if len(mps) == 0 {
		c.Fail("R5", ma, "no policy ⇒ ErrNoRouterRuleMatches", ma.Pos(), "MatchAttributes (with the same-package helpers it calls) does not call MatchPolicies")
		return
	}
	isPolicy := func(v ssa.Value) bool { return c01ResultOf(v, mps, samePkg, eng.LiftDepth) }
	isNoMatchErr := func(v ssa.Value) bool {
		return c.Slicer().DerivesFrom(v, func(x ssa.Value) bool {
			g, isG := x.(*ssa.Global)
			return isG && g.Name() == "ErrNoRouterRuleMatches"
		})
	}
	// forcing, the shape-independent proof: with MatchPolicies pinned to nil every path hands
	// out no picker, and every path that consulted MatchPolicies answers ErrNoRouterRuleMatches
	forcedDone, forcedOK := false, false
	forced := func() bool {
		if forcedDone {
			return forcedOK
		}
		forcedDone = true
		marker := eng.AV{K: eng.ConstV, C: constant.MakeString("ErrNoRouterRuleMatches")}
		in := &eng.Interp{W: c.W, Depth: eng.LiftDepth, MaxPaths: 1 << 12, FollowCall: samePkg}
		in.PinCall = func(cc *ssa.Call, idx int, st *eng.State) (eng.AV, bool) {
			if mps[cc] {
				return eng.AV{K: eng.NilV}, true
			}
			return eng.AV{}, false
		}
		in.PinPath = func(path string) (eng.AV, bool) {
			if path == "global:ErrNoRouterRuleMatches" {
				return marker, true
			}
			return eng.AV{}, false
		}
		paths, err := in.Run(ma, nil)
		ok, consulted := err == nil && len(paths) > 0, false
		for _, p := range paths {
			if p.LoopCut || p.Panicked || len(p.Ret) != 2 || p.Ret[0].K != eng.NilV {
				ok = false
				continue
			}
			asked := false
			for _, ci := range p.Calls {
				if cc, isCall := ci.(*ssa.Call); isCall && mps[cc] {
					asked = true
				}
			}
			if asked {
				consulted = true
				if p.Ret[1].K != eng.ConstV || p.Ret[1].C.Kind() != constant.String || constant.StringVal(p.Ret[1].C) != "ErrNoRouterRuleMatches" {
					ok = false
				}
			}
		}
		forcedOK = ok && consulted
		return forcedOK
	}
	// the picker handed out is built from the policy MatchPolicies returned and from no other
	// policy: with helpers between MatchPolicies and the picker (and with forcing, which only
	// speaks about the no-match case) this is what keeps "the FIRST matching policy" — a helper
	// that swaps the matched policy for another element of the list is a foreign source
	policyT := c.W.Named(pkgV1alpha1, "DispatchPolicy")
	isPolicyPtr := func(t types.Type) bool {
		p, ok := t.Underlying().(*types.Pointer)
		return ok && policyT != nil && types.Identical(p.Elem(), policyT)
	}
	psl := &eng.Slicer{W: c.W, Depth: eng.LiftDepth}
	var foreign []string
	nPickers := 0
	for _, r := range c01VirtualReturns(ma, eng.LiftDepth) {
		res := eng.ReturnResults(r)
		if len(res) != 2 || eng.IsNilConst(res[0]) {
			continue
		}
		nPickers++
		psl.Walk(res[0], func(n eng.Node) bool {
			if !isPolicyPtr(n.V.Type()) {
				return true
			}
			if cc, _ := eng.CallResultOf(n.V); cc != nil && mps[cc] {
				return false // the matched policy
			}
			switch x := n.V.(type) {
			case *ssa.Const:
				if x.IsNil() {
					return false
				}
			case *ssa.Phi:
				return true
			case *ssa.Parameter, *ssa.Call, *ssa.Extract:
				if !n.Leaf {
					return true // bound to an argument / a followed helper: its sources are visited
				}
			case *ssa.UnOp:
				if _, isCell := x.X.(*ssa.Alloc); isCell && x.Op == token.MUL {
					return true // a local variable: the values stored into it are visited
				}
			case *ssa.Alloc:
				if pt, isPtr := x.Type().Underlying().(*types.Pointer); isPtr && isPolicyPtr(pt.Elem()) {
					return true // the cell of such a variable
				}
			}
			file, line := c.W.Pos(n.V.Pos())
			foreign = append(foreign, fmt.Sprintf("%s (%s:%d)", n.V.String(), file, line))
			return false
		})
	}
	c.Check("R5", ma, "picker is built from the policy MatchPolicies returned", ma.Pos(), nPickers > 0 && len(foreign) == 0,
		"the request must be handled under the first matching policy: a picker built from another policy value routes it elsewhere; foreign policy sources: "+strings.Join(dedup(foreign), ", "))

	found := false
	for _, r := range c01VirtualReturns(ma, eng.LiftDepth) {
		res := eng.ReturnResults(r)
		if len(res) != 2 {
			continue
		}
		if eng.HoldsAtX(r, func(rel eng.Rel) bool {
			x, isNil, ok := eng.NilRel(rel)
			return ok && isNil && isPolicy(x)
		}) {
			found = true
			okv := eng.IsNilConst(res[0]) && isNoMatchErr(res[1])
			c.Check("R5", ma, "no policy ⇒ ErrNoRouterRuleMatches", r.Pos(), okv || forced(), "when no policy matches, no picker is returned and the error is ErrNoRouterRuleMatches")
		} else if !eng.IsNilConst(res[0]) {
			guarded := eng.HoldsAtX(r, func(rel eng.Rel) bool {
				x, isNil, ok := eng.NilRel(rel)
				return ok && !isNil && isPolicy(x)
			})
			c.Check("R5", ma, "picker only for a matched policy", r.Pos(), guarded || forced(), "a picker is returned only on the policy != nil edge")
		}
	}
	if !found {
		c.Check("R5", ma, "no policy ⇒ ErrNoRouterRuleMatches", ma.Pos(), forced(), "no return on the policy == nil edge (and with MatchPolicies pinned to nil some path does not answer (nil, ErrNoRouterRuleMatches))")
	}
}

// c01R5Dispatch: in the dispatcher, endpoint picking, flow-control acquisition and the proxy
// handler run only where the error of MatchAttributes is known to be nil.
func c01R5Dispatch(c *eng.Ctx, sh *ssa.Function) {
	iface := fcIface(c)
	isForward := func(ci ssa.CallInstruction) bool {
		return eng.IsCall(ci, "("+pkgClusters+".EndpointPicker).Pop", "(*"+pkgDispatcher+".UpgradeAwareHandler).ServeHTTP", "(net/http.Handler).ServeHTTP") ||
			(iface != nil && isFCCall(ci, iface, "TryAcquire"))
	}
	spread := c01Spread(sh, isForward)
	mcs := map[*ssa.Call]bool{}
	for _, f := range spread {
		for _, ci := range eng.CallsTo(f, "(*"+tClusterInfo+").MatchAttributes") {
			if cc, ok := ci.(*ssa.Call); ok {
				mcs[cc] = true
			}
		}
	}
	if len(mcs) == 0 {
		c.Fail("R5", sh, "forwarding only after a match", sh.Pos(), "ServeHTTP (with the same-package helpers it calls) does not call MatchAttributes")
		return
	}
	isErr := func(v ssa.Value) bool {
		cc, idx := eng.CallResultOf(v)
		return cc != nil && mcs[cc] && idx == 1
	}
	// the error of MatchAttributes is nil: stated directly, through a named condition / predicate
	// helper, or through a result of the helper the match was moved into
	errNil := func(r eng.Rel) bool {
		x, isNil, ok := eng.NilRel(r)
		return ok && isNil && eng.NilImplies(x, isErr)
	}
	var forced *c01Forced
	n := 0
	for _, f := range spread {
		for _, ci := range eng.Calls(f) {
			if !isForward(ci) {
				continue
			}
			n++
			ok := eng.HoldsAtX(ci, errNil)
			if !ok {
				if forced == nil {
					forced = c01ForceNoMatch(c, sh, spread, mcs, isForward)
				}
				ok = forced.never(ci)
			}
			c.Check("R5", sh, "only after a match: "+shortName(eng.FullName(ci)), ci.Pos(), ok, "reachable only on the err == nil edge of MatchAttributes")
		}
	}
	if n < 3 {
		c.Fail("R5", sh, "forwarding only after a match", sh.Pos(), "pick / acquire / proxy calls not found")
	}
}

// c01Forced is the result of enumerating the paths of ServeHTTP with the error of
// MatchAttributes pinned to non-nil.
type c01Forced struct {
	sound    bool                     // the enumeration covers every execution of the covered functions
	covered  map[*ssa.Function]bool   // functions that run only through followed static calls
	executed map[ssa.Instruction]bool // forward calls executed on some enumerated path
}

// never: the forward call cannot execute when MatchAttributes fails.
func (f *c01Forced) never(ci ssa.CallInstruction) bool {
	return f != nil && f.sound && f.covered[ci.Parent()] && !f.executed[ci]
}

// c01ForceNoMatch enumerates the paths of sh (following the same-package functions of spread)
// with the error result of every MatchAttributes call pinned to non-nil (nothing else assumed),
// and records which forward calls still execute. The result is only used as a proof when the
// enumeration is complete: no loop cut, no path budget overrun, relevant helpers loop-free and
// never started with go/defer, and the function holding a forward call runs only through
// plain static calls that the interpreter follows.
func c01ForceNoMatch(c *eng.Ctx, sh *ssa.Function, spread []*ssa.Function, mcs map[*ssa.Call]bool, isForward func(ssa.CallInstruction) bool) *c01Forced {
	res := &c01Forced{sound: true, covered: map[*ssa.Function]bool{sh: true}, executed: map[ssa.Instruction]bool{}}
	in := map[*ssa.Function]bool{}
	for _, f := range spread {
		in[f] = true
	}
	// relevant: holds (or statically reaches inside spread) a forward call or a MatchAttributes call
	relevant := map[*ssa.Function]bool{}
	for changed := true; changed; {
		changed = false
		for _, f := range spread {
			if relevant[f] {
				continue
			}
			for _, ci := range eng.Calls(f) {
				cc, _ := ci.(*ssa.Call)
				g := ci.Common().StaticCallee()
				if isForward(ci) || (cc != nil && mcs[cc]) || (g != nil && relevant[g]) {
					relevant[f] = true
					changed = true
					break
				}
			}
			for _, a := range f.AnonFuncs {
				if relevant[a] && !relevant[f] {
					relevant[f] = true
					changed = true
				}
			}
		}
	}
	for _, f := range spread {
		if f != sh && relevant[f] && eng.HasLoop(f) {
			res.sound = false
		}
		for _, ci := range eng.Calls(f) {
			if _, plain := ci.(*ssa.Call); plain {
				continue
			}
			// go / defer of something relevant is not interpreted
			g := ci.Common().StaticCallee()
			if g == nil {
				if mc, ok := ci.Common().Value.(*ssa.MakeClosure); ok {
					g, _ = mc.Fn.(*ssa.Function)
				}
			}
			if isForward(ci) || (g != nil && relevant[g]) {
				res.sound = false
			}
		}
	}
	// covered: complete set of callers known, all of them plain calls in covered functions
	for round := 0; round < eng.LiftDepth; round++ {
		for _, f := range spread {
			if res.covered[f] {
				continue
			}
			sites := c.W.LiftSites(f)
			ok := len(sites) > 0
			for _, s := range sites {
				if _, plain := s.(*ssa.Call); !plain || !res.covered[s.Parent()] {
					ok = false
				}
			}
			if ok {
				res.covered[f] = true
			}
		}
	}
	it := &eng.Interp{W: c.W, Depth: eng.LiftDepth, MaxPaths: 1 << 14, FollowCall: func(g *ssa.Function) bool { return in[g] }}
	it.PinCall = func(cc *ssa.Call, idx int, st *eng.State) (eng.AV, bool) {
		if !mcs[cc] {
			return eng.AV{}, false
		}
		if idx == 1 {
			return eng.AV{K: eng.NonNilV}, true
		}
		return eng.AV{}, true // the picker stays unknown: nothing is assumed about it
	}
	paths, err := it.Run(sh, nil)
	if err != nil || len(paths) == 0 {
		res.sound = false
	}
	for _, p := range paths {
		if p.LoopCut {
			res.sound = false
		}
		for _, ci := range p.Calls {
			if isForward(ci) {
				res.executed[ci] = true
			}
		}
	}
	return res
}

// ---- R7 -------------------------------------------------------------------------------

func c01R7(c *eng.Ctx) {
	type tc struct {
		fn    string
		empty []int // parameter indexes pinned to length 0
		want  bool
	}
	cases := []tc{
		{"ResourceNameMatches", []int{0}, true},
		{"UserGroupMatches", []int{0}, true},
		{"UserOrServiceAccountMatches", []int{0, 1}, true},
		{"VerbMatches", []int{0}, false},
		{"APIGroupMatches", []int{0}, false},
		{"ResourceMatches", []int{0}, false},
		{"NonResourceURLMatches", []int{0}, false},
	}
	for _, t := range cases {
		fn := c.MustFunc(pkgV1alpha1, t.fn)
		if fn == nil {
			continue
		}
		names := map[string]bool{}
		for _, i := range t.empty {
			names[fn.Params[i].Name()] = true
		}
		in := &eng.Interp{W: c.W, Depth: 3, MaxPaths: 4096}
		in.PinCall = func(cc *ssa.Call, idx int, st *eng.State) (eng.AV, bool) {
			if isBuiltin(cc, "len") && len(cc.Call.Args) == 1 {
				if names[in.PathKey(cc.Call.Args[0], st)] {
					return eng.AVInt(0), true
				}
			}
			return eng.AV{}, false
		}
		paths, err := in.Run(fn, nil)
		ok := err == nil && len(paths) > 0
		detail := fmt.Sprintf("with the list(s) empty every path must return %v", t.want)
		for _, p := range paths {
			if p.LoopCut || p.Panicked || len(p.Ret) != 1 || !p.Ret[0].IsBool(t.want) {
				ok = false
				if p.LoopCut {
					detail += " (a loop did not fold away: undecided)"
				} else if len(p.Ret) == 1 {
					detail += fmt.Sprintf(" (a path returns %s)", p.Ret[0])
				}
			}
		}
		if err != nil {
			detail += " (" + err.Error() + ")"
		}
		c.Check("R7", fn, fmt.Sprintf("empty ⇒ %v", t.want), fn.Pos(), ok, detail)
	}
}

// ---- R8 -------------------------------------------------------------------------------

// c01Facts returns the relations known to hold whenever ins executes, for rules about the
// per-entry match functions: the deep facts of ins's own function, the facts at the creation
// site of the function literal ins sits in (a literal only runs if it was created; the facts
// concern parameters and single-assignment locals of the factory, which do not change), and —
// where a condition is a captured hoisted invariant (`has := len(sub) > 0` computed outside
// the literal) — what the invariant's definition implies.
func c01Facts(ins ssa.Instruction, depth int) []eng.Rel {
	if ins == nil || ins.Block() == nil {
		return nil
	}
	var out []eng.Rel
	for _, g := range eng.GuardsOf(ins) {
		out = append(out, g.Rel())
	}
	out = append(out, eng.RelsAt(ins)...)
	n := len(out)
	for _, r := range out[:n] {
		for _, want := range []bool{true, false} {
			if (r.Op == token.EQL && eng.IsBoolConst(r.Y, want)) || (r.Op == token.NEQ && eng.IsBoolConst(r.Y, !want)) {
				if def := eng.ResolveValue(r.X); def != r.X {
					out = append(out, eng.ImpliedRels(def, want)...)
				}
			}
		}
	}
	if depth > 0 && ins.Parent() != nil && ins.Parent().Parent() != nil {
		if mc := eng.CreationSite(ins.Parent()); mc != nil {
			out = append(out, c01Facts(mc, depth-1)...)
		}
	}
	return out
}

// c01FactHolds: some relation that holds whenever ins executes satisfies pred (c01Facts, or a
// fact lifted through the call sites of the extracted helper ins sits in).
func c01FactHolds(ins ssa.Instruction, pred func(eng.Rel) bool) bool {
	for _, r := range c01Facts(ins, eng.LiftDepth) {
		if pred(r) {
			return true
		}
	}
	return eng.GuardedBy(ins, pred)
}

// c01SameValue: a and b denote the same value after resolving spills and hoisted invariants.
func c01SameValue(a, b ssa.Value) bool {
	if sameLoad(a, b) {
		return true
	}
	ra, rb := eng.ResolveValue(a), eng.ResolveValue(b)
	return ra == rb || sameLoad(ra, rb)
}

func c01BoolFact(r eng.Rel, match func(ssa.Value) bool, want bool) bool {
	if r.Op == token.EQL && match(r.X) && eng.IsBoolConst(r.Y, want) {
		return true
	}
	return r.Op == token.NEQ && match(r.X) && eng.IsBoolConst(r.Y, !want)
}

func c01R8(c *eng.Ctx) {
	sa := &eng.Slicer{W: c.W, Depth: 0, Args: true}
	// trailing-star glob reachable from a matcher root
	hasGlob := func(root *ssa.Function, request func(ssa.Value, *ssa.Function) bool) (bool, token.Pos) {
		for _, f := range c01Reach(c, root) {
			for _, ci := range eng.CallsTo(f, "strings.HasPrefix") {
				a := eng.Args(ci)
				// pattern side: TrimRight/TrimSuffix(entry, "*")
				var entry ssa.Value
				if tc, _ := eng.CallResultOf(eng.ResolveValue(a[1])); tc != nil && eng.IsCall(tc, "strings.TrimRight", "strings.TrimSuffix") {
					if k, ok := eng.StringConst(eng.Args(tc)[1]); ok && k == "*" {
						entry = eng.Args(tc)[0]
					}
				}
				if entry == nil {
					continue
				}
				// guarded by HasSuffix(entry, "*") == true
				g := c01FactHolds(ci, func(r eng.Rel) bool {
					return c01BoolFact(r, func(v ssa.Value) bool {
						hc, _ := eng.CallResultOf(eng.ResolveValue(v))
						if hc == nil || !eng.IsCall(hc, "strings.HasSuffix") {
							return false
						}
						k, ok := eng.StringConst(eng.Args(hc)[1])
						return ok && k == "*" && c01SameValue(eng.Args(hc)[0], entry)
					}, true)
				})
				if g && request(a[0], f) {
					return true, ci.Pos()
				}
			}
		}
		return false, token.NoPos
	}
	// the request operand must be a parameter/free variable that is not the entry
	reqIsOuter := func(v ssa.Value, f *ssa.Function) bool {
		for _, leaf := range sa.Leaves(v, nil) {
			switch leaf.(type) {
			case *ssa.Parameter, *ssa.FreeVar:
				return true
			}
		}
		return false
	}
	for _, n := range []string{"UserOrServiceAccountMatches", "NonResourceURLMatches"} {
		if f := c.MustFunc(pkgV1alpha1, n); f != nil {
			ok, pos := hasGlob(f, reqIsOuter)
			if !pos.IsValid() {
				pos = f.Pos()
			}
			c.Check("R8", f, "trailing-* glob", pos, ok, "an entry ending in '*' must match every request that starts with the rest of it")
		}
	}
	// */sub for resources
	if f := c.MustFunc(pkgV1alpha1, "ResourceMatches"); f != nil {
		ok := false
		pos := f.Pos()
		for _, g := range c01Reach(c, f) {
			eng.Instrs(g, func(ins ssa.Instruction) {
				b, isB := ins.(*ssa.BinOp)
				if !isB || b.Op != token.EQL {
					return
				}
				for _, side := range []ssa.Value{b.X, b.Y} {
					// "*/"+subresource, written in place or hoisted out of the match function
					add, isAdd := eng.ResolveValue(side).(*ssa.BinOp)
					if !isAdd || add.Op != token.ADD {
						continue
					}
					k, isK := eng.StringConst(add.X)
					if !isK || k != "*/" {
						continue
					}
					// only for a non-empty subresource (with an empty one the entry "*/" would match
					// every plain resource request); that the entry starts with "*/" is implied by the
					// equality itself, an explicit HasPrefix test is a short cut, not a condition
					nonEmpty := c01FactHolds(b, func(r eng.Rel) bool {
						r = eng.NormRel(r)
						if e, isE := eng.StringConst(r.Y); isE && e == "" && r.Op == token.NEQ && c01SameValue(r.X, add.Y) {
							return true // subresource != ""
						}
						lc, isC := r.X.(*ssa.Call)
						z, isZ := eng.IntConst(r.Y)
						if !isC || !isBuiltin(lc, "len") || !c01SameValue(lc.Call.Args[0], add.Y) || !isZ {
							return false
						}
						return (z == 0 && (r.Op == token.NEQ || r.Op == token.GTR)) || (z == 1 && r.Op == token.GEQ)
					})
					if nonEmpty {
						ok = true
						pos = b.Pos()
					}
				}
			})
		}
		c.Check("R8", f, "*/subresource", pos, ok, "an entry '*/sub' must match subresource sub of any resource: entry == \"*/\"+subresource, only for a non-empty subresource")
	}
}

// ---------------------------------------------------------------------------------------

const c01FxSrc = `package fx
func eq(a, b string) bool { return a == b }
func neqIfRev(rev bool, a, b string) bool { if rev { return a != b }; return a == b }
func orFold(rev bool, xs []string, r string) bool {
	for _, x := range xs { if (!rev && x == r) || (rev && x != r) { return true } }
	return false
}
func seqFold(xs []string, r, q string) bool {
	for _, x := range xs {
		if x == r { return true }
		if x == q { return true }
	}
	return false
}
func goodFold(xs []string, r string) bool {
	for _, x := range xs { if eq(x, r) { return true } }
	return false
}
func badFold(rev bool, xs []string, r string) bool {
	for _, x := range xs { if neqIfRev(rev, x, r) { return true } }
	return false
}
func goodFlagFold(xs []string, r string) bool {
	found := false
	for i := 0; i < len(xs) && !found; i++ { found = eq(xs[i], r) }
	return found
}
func goodBreakFold(xs []string, r string) bool {
	found := false
	for _, x := range xs { if x == r { found = true; break } }
	return found
}
func badFlagFold(rev bool, xs []string, r string) bool {
	found := false
	for i := 0; i < len(xs) && !found; i++ { found = neqIfRev(rev, xs[i], r) }
	return found
}
func badBreakFold(xs []string, r string) bool {
	found := false
	for _, x := range xs { if x != r { found = true; break } }
	return found
}
func strip(rs []string) (pos, inv []string) {
	for _, r := range rs {
		if len(r) > 0 && r[0] == '-' { inv = append(inv, r[1:]) } else { pos = append(pos, r) }
	}
	return
}
func goodUse(rs []string, r string) bool {
	p, i := strip(rs)
	if len(p) > 0 { return goodFold(p, r) }
	return !goodFold(i, r)
}
func badUse(rs []string, r string) bool {
	p, i := strip(rs)
	if len(p) > 0 { return goodFold(p, r) }
	return goodFold(i, r)
}
`

func c01Fixtures(c *eng.Ctx) {
	p, _, err := eng.BuildFixture(c01FxSrc)
	if err != nil {
		c.Fixture("C01.polarity/build", "ok", err.Error())
		return
	}
	neg := func(name string) bool {
		f := p.Func(name)
		for _, fold := range c01Folds(f) {
			var atoms []c01Atom
			for _, g := range fold.guards {
				c01Atoms(c, g.If.Cond, g.Branch, 3, nil, map[ssa.Value]bool{}, &atoms)
			}
			for _, cd := range fold.conds {
				c01Atoms(c, cd.v, cd.branch, 3, nil, map[ssa.Value]bool{}, &atoms)
			}
			for _, a := range atoms {
				if !a.pos {
					return true
				}
			}
		}
		return false
	}
	nFolds := func(name string) string { return fmt.Sprint(len(c01Folds(p.Func(name)))) }
	c.Fixture("C01.polarity/goodFlagFold", "1 false", nFolds("goodFlagFold")+" "+fmt.Sprint(neg("goodFlagFold")))
	c.Fixture("C01.polarity/goodBreakFold", "1 false", nFolds("goodBreakFold")+" "+fmt.Sprint(neg("goodBreakFold")))
	c.Fixture("C01.polarity/badFlagFold", "1 true", nFolds("badFlagFold")+" "+fmt.Sprint(neg("badFlagFold")))
	c.Fixture("C01.polarity/badBreakFold", "1 true", nFolds("badBreakFold")+" "+fmt.Sprint(neg("badBreakFold")))
	c.Fixture("C01.polarity/goodFold", "false", fmt.Sprint(neg("goodFold")))
	c.Fixture("C01.polarity/badFold", "true", fmt.Sprint(neg("badFold")))
	c.Fixture("C01.polarity/orFold", "true", fmt.Sprint(neg("orFold")))
	c.Fixture("C01.polarity/seqFold", "false", fmt.Sprint(neg("seqFold")))
	sl := &eng.Slicer{Depth: 3, FollowCall: func(_ *ssa.Call, callee *ssa.Function) bool { return callee.Blocks != nil }}
	negated := func(name string) string {
		f := p.Func(name)
		res := "none"
		for _, ci := range eng.CallsToFn(f, p.Func("goodFold")) {
			cc := ci.(*ssa.Call)
			if !sl.DerivesFrom(cc.Call.Args[0], c01IsStrip) {
				continue
			}
			res = "negated"
			for _, r := range *cc.Referrers() {
				if u, ok := r.(*ssa.UnOp); !ok || u.Op != token.NOT {
					res = "direct"
				}
			}
		}
		return res
	}
	c.Fixture("C01.polarity/goodUse", "negated", negated("goodUse"))
	c.Fixture("C01.polarity/badUse", "direct", negated("badUse"))
}
