package rules

// Package paths and type names of the analysed repository, resolved through go/types —
// never matched against source text.
const (
	mod = "github.com/kubewharf/kubegateway"

	pkgV1alpha1   = mod + "/pkg/apis/proxy/v1alpha1"
	pkgValidation = mod + "/pkg/apis/proxy/v1alpha1/validation"
	pkgClusters   = mod + "/pkg/clusters"
	pkgFeatures   = mod + "/pkg/clusters/features"
	pkgDispatcher = mod + "/pkg/gateway/proxy/dispatcher"
	pkgFilters    = mod + "/pkg/gateway/endpoints/filters"
	pkgRequest    = mod + "/pkg/gateway/endpoints/request"
	pkgResponse   = mod + "/pkg/gateway/endpoints/response"
	pkgRevProxy   = mod + "/pkg/util/reverseproxy"
	pkgTransport  = mod + "/pkg/transport"
	pkgFC         = mod + "/pkg/flowcontrols/flowcontrol"
	pkgFCRoot     = mod + "/pkg/flowcontrols"
	pkgFCRemote   = mod + "/pkg/flowcontrols/remote"
	pkgFCUtil     = mod + "/pkg/flowcontrols/util"
	pkgLimiter    = mod + "/pkg/ratelimiter/limiter"
	pkgElector    = mod + "/pkg/ratelimiter/limiter/elector"
	pkgRLUtil     = mod + "/pkg/ratelimiter/util"
	pkgRLStoreFC  = mod + "/pkg/ratelimiter/store/flowcontrol"
	pkgRLStoreK8s = mod + "/pkg/ratelimiter/store/k8s"
	pkgRLStoreLoc = mod + "/pkg/ratelimiter/store/local"
	pkgRLStoreIf  = mod + "/pkg/ratelimiter/store/interface"
	pkgClientsets = mod + "/pkg/ratelimiter/clientsets"
	pkgCtrl       = mod + "/pkg/gateway/controllers"
	pkgSyncQueue  = mod + "/pkg/syncqueue"
	pkgAdmission  = mod + "/plugin/admission/upstreamcluster"
	pkgTokenWH    = mod + "/pkg/gateway/authentication/token/webhook"
	pkgAuthzWH    = mod + "/pkg/gateway/authorization/webhook"
	pkgApp        = mod + "/cmd/kube-gateway/app"
	pkgGWNet      = mod + "/pkg/gateway/net"
	pkgRegistry   = "github.com/kubewharf/apiserver-runtime/pkg/registry"
	pkgProxyREST  = mod + "/pkg/gateway/controlplane/registry/proxy/rest"
)
