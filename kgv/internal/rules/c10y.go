package rules

import (
	"fmt"
	"go/token"
	"go/types"

	"golang.org/x/tools/go/ssa"

	"kgv/internal/eng"
)

// c10R6: changed TLS material is reloaded. syncSecureServingConfigLocked compares the old and
// new ClientCAData / KeyData / CertData; on the edge where one of them differs, every path to
// the publication of the new config passes either a write of the derived material
// (certs / clientCA / verifyOptions) or a decision on the length of the new data. A path that
// publishes the new spec while keeping the old derived material (e.g. the reload gated on
// key AND cert both changing) serves a replaced certificate until something else changes.
func c10R6(c *eng.Ctx) { c10TLSReload(c, "R6") }

// c10TLSReload is the rule body, registered as C10.R6 and (same obligation, other property) as
// C11.R7: "TLS material is that of the latest object".
func c10TLSReload(c *eng.Ctx, rule string) {
	c.Rule(rule, "changed TLS material is reloaded: in syncSecureServingConfigLocked, from the edge where the old and new ClientCAData / KeyData / CertData differ, every path to the store of the new config passes a write of the derived material or a test on the new data's length", 3)
	fn := c.MustMethod(pkgClusters, "ClusterInfo", "syncSecureServingConfigLocked")
	if fn == nil {
		return
	}
	var publish []ssa.Instruction
	for _, ci := range eng.Calls(fn) {
		if eng.MethodNameIs(ci, "Store") {
			r := eng.Receiver(ci)
			if eng.FieldAddrOf(r, tClusterInfo, "currentSecureServingTLSConfig") || eng.FieldLoadOf(r, tClusterInfo, "currentSecureServingTLSConfig") {
				publish = append(publish, ci.(ssa.Instruction))
			}
		}
	}
	if len(publish) == 0 {
		c.Fail(rule, fn, "publication of the new config", fn.Pos(), "no store to currentSecureServingTLSConfig found")
		return
	}
	isPublish := func(i ssa.Instruction) bool {
		for _, p := range publish {
			if i == p {
				return true
			}
		}
		return false
	}
	derived := map[string]bool{"certs": true, "clientCA": true, "verifyOptions": true}
	isDecision := func(i ssa.Instruction) bool {
		switch x := i.(type) {
		case *ssa.Store:
			if fa, ok := x.Addr.(*ssa.FieldAddr); ok && eng.TypeName(c10Deref(fa.X.Type())) == c10TSSConfig {
				_, path := eng.AccessPath(x.Addr)
				return len(path) > 0 && derived[path[len(path)-1]]
			}
		case *ssa.If:
			r := eng.RelOf(x.Cond, true)
			for _, v := range []ssa.Value{r.X, r.Y} {
				if cc, ok := v.(*ssa.Call); ok {
					if b, isB := cc.Call.Value.(*ssa.Builtin); isB && b.Name() == "len" {
						_, path := eng.AccessPath(cc.Call.Args[0])
						if len(path) > 0 {
							switch path[len(path)-1] {
							case "ClientCAData", "KeyData", "CertData":
								return true
							}
						}
					}
				}
			}
		}
		return false
	}
	fieldOf := func(v ssa.Value) string {
		if mi, ok := v.(*ssa.MakeInterface); ok {
			v = mi.X
		}
		_, path := eng.AccessPath(v)
		if len(path) == 0 {
			return ""
		}
		return path[len(path)-1]
	}
	seen := map[string]int{}
	for _, b := range fn.Blocks {
		iff, ok := b.Instrs[len(b.Instrs)-1].(*ssa.If)
		if !ok {
			continue
		}
		cond := iff.Cond
		neg := false
		for {
			if u, isU := cond.(*ssa.UnOp); isU && u.Op == token.NOT {
				cond = u.X
				neg = !neg
				continue
			}
			break
		}
		cc, isCall := cond.(*ssa.Call)
		if !isCall || !eng.MethodNameIs(cc, "DeepEqual") {
			continue
		}
		a := eng.Args(cc)
		if len(a) != 2 {
			continue
		}
		f1, f2 := fieldOf(a[0]), fieldOf(a[1])
		if f1 != f2 {
			continue
		}
		switch f1 {
		case "ClientCAData", "KeyData", "CertData":
		default:
			continue
		}
		differs := b.Succs[1]
		if neg {
			differs = b.Succs[0]
		}
		seen[f1]++
		x := eng.ReachFromBlock(differs, eng.PathQuery{Target: isPublish, Avoid: isDecision})
		c.Check(rule, fn, fmt.Sprintf("%s differs ⇒ material reloaded or new data examined", f1), iff.Pos(), x == nil,
			"the new spec is published while the certificate/CA derived from the old "+f1+" is kept: the gateway keeps serving (or trusting) replaced TLS material for this cluster's names")
	}
	for _, f := range []string{"ClientCAData", "KeyData", "CertData"} {
		if seen[f] == 0 {
			c.Fail(rule, fn, f+" differs ⇒ material reloaded or new data examined", fn.Pos(), "the old and new "+f+" are never compared")
		}
	}
}

func c10Deref(t types.Type) types.Type {
	if p, ok := t.Underlying().(*types.Pointer); ok {
		return p.Elem()
	}
	return t
}
