package rules

import (
	"fmt"
	"go/token"
	"go/types"

	"golang.org/x/tools/go/ssa"

	"kgv/internal/eng"
)

// c10R6: changed TLS material is reloaded. syncSecureServingConfigLocked compares the old and
// new ClientCAData / KeyData / CertData; whenever one of them differs, every path to the
// publication of the new config passes either a write of the derived material
// (certs / clientCA / verifyOptions) or a decision on the length of the new data. A path that
// publishes the new spec while keeping the old derived material (e.g. the reload gated on
// key AND cert both changing) serves a replaced certificate until something else changes.
//
// The rule is decided by a fact-carrying search (eng.FactReachAfter): the comparison is
// assumed to report a difference and the paths that are feasible under that assumption are
// followed from the comparison on — so it does not matter
// whether the comparison is the condition of an `if`, one operand of a named `a || b`, or
// sits in a predicate helper; a decision or the publication moved into a helper counts where
// the helper is called (LiftMust / LiftMay).
func c10R6(c *eng.Ctx) { c10TLSReload(c, "R6") }

// c10TLSReload is the rule body, registered as C10.R6 and (same obligation, other property) as
// C11.R7: "TLS material is that of the latest object".
func c10TLSReload(c *eng.Ctx, rule string) {
	c.Rule(rule, "changed TLS material is reloaded: in syncSecureServingConfigLocked, from the edge where the old and new ClientCAData / KeyData / CertData differ, every path to the store of the new config passes a write of the derived material or a test on the new data's length", 3)
	fn := c.MustMethod(pkgClusters, "ClusterInfo", "syncSecureServingConfigLocked")
	if fn == nil {
		return
	}
	region := c.W.Region(fn)
	isPublish := func(i ssa.Instruction) bool {
		ci, ok := i.(ssa.CallInstruction)
		if !ok || !eng.MethodNameIs(ci, "Store") {
			return false
		}
		r := eng.Receiver(ci)
		return r != nil && (eng.FieldAddrOf(r, tClusterInfo, "currentSecureServingTLSConfig") || eng.FieldLoadOf(r, tClusterInfo, "currentSecureServingTLSConfig"))
	}
	nPublish := 0
	for _, f := range region {
		eng.Instrs(f, func(i ssa.Instruction) {
			if isPublish(i) {
				nPublish++
			}
		})
	}
	if nPublish == 0 {
		c.Fail(rule, fn, "publication of the new config", fn.Pos(), "no store to currentSecureServingTLSConfig found")
		return
	}
	data := map[string]bool{"ClientCAData": true, "KeyData": true, "CertData": true}
	derived := map[string]bool{"certs": true, "clientCA": true, "verifyOptions": true}
	// lastField names the field a value is read from; a parameter of a helper whose callers are
	// all known stands for the field every caller passes (AccessPathsUp)
	lastField := func(v ssa.Value) string {
		if mi, ok := v.(*ssa.MakeInterface); ok {
			v = mi.X
		}
		name := ""
		for _, up := range c.W.AccessPathsUp(v) {
			if len(up.Path) == 0 {
				return ""
			}
			if f := up.Path[len(up.Path)-1]; name == "" || name == f {
				name = f
			} else {
				return ""
			}
		}
		return name
	}
	// a condition that looks at the length of the new data: len(x.KeyData) compared with
	// something, possibly named, negated or combined with another such test
	var lenTest func(v ssa.Value, depth int) bool
	lenTest = func(v ssa.Value, depth int) bool {
		if depth > 4 {
			return false
		}
		switch n := v.(type) {
		case *ssa.Call:
			if b, isB := n.Call.Value.(*ssa.Builtin); isB && b.Name() == "len" && len(n.Call.Args) == 1 {
				return data[lastField(n.Call.Args[0])]
			}
		case *ssa.UnOp:
			return n.Op == token.NOT && lenTest(n.X, depth+1)
		case *ssa.BinOp:
			return lenTest(n.X, depth+1) || lenTest(n.Y, depth+1)
		case *ssa.Phi:
			for _, e := range n.Edges {
				if lenTest(e, depth+1) {
					return true
				}
			}
		}
		return false
	}
	isDecision := func(i ssa.Instruction) bool {
		switch x := i.(type) {
		case *ssa.Store:
			if fa, ok := x.Addr.(*ssa.FieldAddr); ok && eng.TypeName(c10Deref(fa.X.Type())) == c10TSSConfig {
				_, path := eng.AccessPath(x.Addr)
				return len(path) > 0 && derived[path[len(path)-1]]
			}
		case *ssa.If:
			return lenTest(x.Cond, 0)
		}
		return false
	}
	publishes := eng.LiftMay(isPublish)
	decides := eng.LiftMust(isDecision)

	// an equality test of two values: the (bool) call and the truth value that means "differ"
	isEqualityCall := func(cc *ssa.Call) bool {
		return len(eng.Args(cc)) == 2 && (eng.MethodNameIs(cc, "DeepEqual") || eng.IsCall(cc, "reflect.DeepEqual", "bytes.Equal"))
	}
	type cmp struct {
		in      *ssa.Function
		val     *ssa.Call // boolean value of `in`
		differs bool      // its truth value when the two sides differ
		field   string
		pos     token.Pos
	}
	var cmps []cmp
	for _, f := range region {
		for _, ci := range eng.Calls(f) {
			cc, ok := ci.(*ssa.Call)
			if !ok {
				continue
			}
			if isEqualityCall(cc) {
				a := eng.Args(cc)
				if f1, f2 := lastField(a[0]), lastField(a[1]); f1 == f2 && data[f1] {
					cmps = append(cmps, cmp{f, cc, false, f1, cc.Pos()})
				}
				continue
			}
			// a same-package predicate over two values (`changed(old.KeyData, new.KeyData)`): the
			// equality test inside it compares two of its parameters; the fields are those of the
			// arguments, the polarity is what the predicate returns when the test fails
			h := cc.Call.StaticCallee()
			if h == nil || h.Blocks == nil || h.Pkg != f.Pkg || len(h.Params) != len(cc.Call.Args) {
				continue
			}
			if b, isB := cc.Type().Underlying().(*types.Basic); !isB || b.Kind() != types.Bool {
				continue
			}
			for _, hi := range eng.Calls(h) {
				hc, ok := hi.(*ssa.Call)
				if !ok || !isEqualityCall(hc) {
					continue
				}
				var fields [2]string
				for k, ha := range eng.Args(hc) {
					if mi, isMI := ha.(*ssa.MakeInterface); isMI {
						ha = mi.X
					}
					root, path := eng.AccessPath(ha)
					p, isP := root.(*ssa.Parameter)
					if !isP || p.Parent() != h {
						continue
					}
					if len(path) > 0 {
						fields[k] = path[len(path)-1]
					} else {
						fields[k] = lastField(cc.Call.Args[eng.ParamIndex(p)])
					}
				}
				if fields[0] != fields[1] || !data[fields[0]] {
					continue
				}
				// what does h return when the inner test reports a difference?
				vals := map[bool]bool{}
				unknown := false
				eng.FactReachFromEntry(h, eng.FactQuery{Assume: eng.BoolFacts{hc: false}, Target: func(i ssa.Instruction, known eng.KnownFn) bool {
					if r, isR := i.(*ssa.Return); isR && len(r.Results) == 1 {
						if b, ok := known(r.Results[0]); ok {
							vals[b] = true
						} else {
							unknown = true
						}
					}
					return false
				}})
				if !unknown && len(vals) == 1 {
					for b := range vals {
						cmps = append(cmps, cmp{f, cc, b, fields[0], cc.Pos()})
					}
				}
			}
		}
	}
	seen := map[string]int{}
	for _, k := range cmps {
		// only comparisons from which the publication can be reached at all take part (a
		// comparison inside a predicate helper is decided at the helper's call)
		// (the search starts behind the comparison: the initialisation of the new config from the
		// old one, which precedes it, is not a reload)
		if eng.FactReachAfter(k.val, eng.FactQuery{Target: func(i ssa.Instruction, _ eng.KnownFn) bool { return publishes(i) }}) == nil {
			continue
		}
		seen[k.field]++
		x := eng.FactReachAfter(k.val, eng.FactQuery{
			Assume: eng.BoolFacts{k.val: k.differs},
			Target: func(i ssa.Instruction, _ eng.KnownFn) bool { return publishes(i) },
			Avoid:  decides,
		})
		c.Check(rule, fn, fmt.Sprintf("%s differs ⇒ material reloaded or new data examined", k.field), k.pos, x == nil,
			"the new spec is published while the certificate/CA derived from the old "+k.field+" is kept: the gateway keeps serving (or trusting) replaced TLS material for this cluster's names")
	}
	for _, f := range []string{"ClientCAData", "KeyData", "CertData"} {
		if seen[f] == 0 {
			c.Fail(rule, fn, f+" differs ⇒ material reloaded or new data examined", fn.Pos(), "the old and new "+f+" are never compared")
		}
	}
}

func c10Deref(t types.Type) types.Type {
	if p, ok := t.Underlying().(*types.Pointer); ok {
		return p.Elem()
	}
	return t
}
