package rules

import (
	"kgv/internal/eng"
)

func init() { RegisterExtra("C01", c01Precedence) }

// c01Precedence (C01.R6): "'-' entries are ignored once a positive entry is present" and "a
// list made only of inverted entries matches exactly what the positive list does not" are
// clauses of C01 as much as of C17. The matcher-side template of C17.R3 (the classifier that
// splits a list by the inversion prefix, and its consumers: inverted entries are consulted
// only on the edge where no positive entry exists, a match-all entry short-circuits to true,
// the inverted result is negated) is evaluated here under C01 as well, so that a change of the
// matcher alone — which leaves the normaliser and hence C17's agreement checks untouched — is
// reported against the routing property it breaks.
func c01Precedence(c *eng.Ctx) {
	c.Rule("R6", "matcher precedence (template shared with C17.R3): the list classifier's inverted entries are consulted only when no positive entry exists, the match-all entry short-circuits to true, and the verdict over inverted entries is negated", 1)
	n := 0
	for _, fn := range c.W.FuncsOf(pkgV1alpha1) {
		for _, p := range fn.Params {
			if !c17IsStringSlice(p.Type()) {
				continue
			}
			k := c17Classify(c.W, fn, p, c.Depth)
			if k == nil || len(k.stars) == 0 || len(k.dashes) == 0 {
				continue
			}
			n++
			c17Emit(c, "R6", k.fn, "matcher: ", c17CheckMatcher(k, c.W.FuncsOf(pkgV1alpha1)))
		}
	}
	if n == 0 {
		c.Fail("R6", nil, "matcher classifier", 0, "no function of package v1alpha1 compares the entries of a []string parameter with a constant and tests an inversion prefix")
	}
}
