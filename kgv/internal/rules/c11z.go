package rules

import "kgv/internal/eng"

// C11.R7 = C10.R6 (changed TLS material is reloaded): a necessary condition of "after an
// update the TLS material served is that of the latest object" as well.
func init() { RegisterExtra("C11", func(c *eng.Ctx) { c10TLSReload(c, "R7") }) }
