package rules

import (
	"fmt"
	"go/token"
	"go/types"

	"golang.org/x/tools/go/ssa"

	"kgv/internal/eng"
)

func init() { RegisterExtra("C10", c10RetainedNames) }

// c10RetainedNames (C10.R7): "at every moment a host resolves to the cluster that lists it".
// When the name list of a cluster is updated, a name that stays in the list must stay
// registered throughout: in AddOrUpdateForServerNames (and the helpers its body is spread
// over) every Manager.Delete/DeleteWithStop(k) of an old name k is control-dependent on k NOT
// being a member of the new names (a comma-ok map lookup keyed by k that is false, or a
// negated membership call keyed by k). "Delete everything, then add everything" has the same
// end state but leaves every retained name unresolvable in between: a request gets 503 and
// a handshake the default certificate.
func c10RetainedNames(c *eng.Ctx) {
	c.Rule("R7", "retained names are never unregistered: in AddOrUpdateForServerNames every deletion of an old name is guarded by that name not being among the new names", 1)
	au := c.MustMethod(pkgCtrl, "UpstreamClusterController", "AddOrUpdateForServerNames")
	if au == nil {
		return
	}
	n := 0
	for _, fn := range c.W.Region(au) {
		for _, ci := range eng.Calls(fn) {
			if !eng.MethodNameIs(ci, "DeleteWithStop") && !eng.MethodNameIs(ci, "Delete") {
				continue
			}
			o := eng.CalleeObj(ci)
			if o == nil || o.Pkg() == nil || o.Pkg().Path() != pkgClusters {
				continue
			}
			a := eng.Args(ci)
			if len(a) != 1 {
				continue
			}
			if b, isB := a[0].Type().Underlying().(*types.Basic); !isB || b.Kind() != types.String {
				continue
			}
			n++
			key := a[0]
			sameKey := func(v ssa.Value) bool { return v == key || sameLoad(v, key) || eng.Current.ResolveUp(v) == eng.Current.ResolveUp(key) }
			notMember := func(r eng.Rel) bool {
				// commaok of a map lookup keyed by the deleted name is false
				isOK := func(v ssa.Value) bool {
					e, ok := v.(*ssa.Extract)
					if !ok || e.Index != 1 {
						return false
					}
					l, ok := e.Tuple.(*ssa.Lookup)
					return ok && l.CommaOk && sameKey(l.Index)
				}
				// plain bool lookup m[k] (map[string]bool) or a membership call Has/Contains(k)
				isMember := func(v ssa.Value) bool {
					if l, ok := v.(*ssa.Lookup); ok && !l.CommaOk && sameKey(l.Index) {
						return true
					}
					if cc, _ := eng.CallResultOf(v); cc != nil {
						if nm := eng.CalleeObj(cc); nm != nil && (nm.Name() == "Has" || nm.Name() == "Contains") {
							for _, x := range cc.Call.Args {
								if sameKey(x) {
									return true
								}
							}
						}
					}
					return false
				}
				for _, side := range [][2]ssa.Value{{r.X, r.Y}, {r.Y, r.X}} {
					if (isOK(side[0]) || isMember(side[0])) && ((r.Op == token.EQL && eng.IsBoolConst(side[1], false)) || (r.Op == token.NEQ && eng.IsBoolConst(side[1], true))) {
						return true
					}
				}
				return false
			}
			ok := eng.GuardedBy(ci.(ssa.Instruction), notMember)
			c.Check("R7", au, fmt.Sprintf("delete#%d only of a name that is not among the new names", n), ci.Pos(), ok,
				"a name that stays in the cluster's list is unregistered and re-added: between the two steps the host resolves to no cluster")
		}
	}
	if n == 0 {
		c.Fail("R7", au, "deletion of stale names", au.Pos(), "AddOrUpdateForServerNames never unregisters a name: names taken out of the list keep resolving")
	}
}
