package rules

// C20 — control-plane objects: spec/status separation and generation conventions.
//
// The REST strategies of the staging module github.com/kubewharf/apiserver-runtime are
// written with reflection (`reflect.Value.FieldByName("Spec").Set(…)`), so the rules work on
// the *effects* of a strategy method: which reflect.Value.Set / SetLabels / SetGeneration
// calls it performs, on which parameter's object (obj = submitted, old = stored), with which
// field-name constants, and under which path conditions. Effects of same-package helpers are
// summarised and translated through the call (bounded by the tier's inlining depth), so
// extracting a block into a helper keeps the verdict.
//
//	R1  no ==/!=/reflect.DeepEqual on reflect.Value in the registry package (stock
//	    reflectvaluecompare pass, run in-process)                     — FINDING F20 today
//	R2  the effects of the status strategy, the main strategy and create
//	R3  UpstreamCluster is registered with the sub-status strategy and SubStatus=true, the
//	    status route of NewResourceREST uses the status strategy. The option builder of the
//	    kind is identified by the Kind of the gvkr whose storage options it reads; when one
//	    builder is shared between kinds (kind, strategy, flag as parameters; a function or a
//	    function literal) the facts are decided in the calling context that passes
//	    "UpstreamCluster" (eng.CallCtx): parameters are resolved to that call's arguments and
//	    boolean parameters become path facts.

import (
	"fmt"
	"go/token"
	"go/types"
	"sort"
	"strings"
	"time"

	"golang.org/x/tools/go/ssa"

	"kgv/internal/eng"
)

func init() {
	Register("C20", c20)
	RegisterFixture("C20", c20Fixtures)
}

const (
	c20ValueSet         = "(reflect.Value).Set"
	c20ValueFieldByName = "(reflect.Value).FieldByName"
	c20TypeFieldByName  = "(reflect.Type).FieldByName"
	c20ValueElem        = "(reflect.Value).Elem"
	c20MetaAccessor     = "k8s.io/apimachinery/pkg/api/meta.Accessor"
	c20GVKR             = "github.com/kubewharf/apiserver-runtime/pkg/schema.GroupVersionKindResource"
	c20Store            = "k8s.io/apiserver/pkg/registry/generic/registry.Store"
	c20Options          = pkgRegistry + ".RESTStorageOptions"
	c20Factory          = pkgRegistry + ".RESTStorageOptionsFactory"
	c20Overrides        = pkgRegistry + ".groupResourceOverrides"
)

func c20(c *eng.Ctx) {
	c.Rule("R1", "no ==, != or reflect.DeepEqual on reflect.Value operands in the registry package (reflectvaluecompare): such a comparison looks at the reflect.Value wrappers, which differ for any two FieldByName results, so an update that changes nothing is seen as a spec change and bumps the generation", 1)
	c.Rule("R2", "strategy effects: the status strategy copies old.Spec into obj.Spec and old's labels into obj whenever the object has them; the main strategy with subStatus copies old.Status into obj.Status; create zeroes Status and sets generation 1; the generation is set to old.GetGeneration()+1 exactly when DeepEqual(spec) or DeepEqual(annotations) is false; the probe's field names are the ones restored", 24)
	c.Rule("R3", "registration: UpstreamCluster uses a DefaultRESTStrategy built with subStatus=true and options.SubStatus=true; NewResourceREST installs the status strategy as UpdateStrategy of the store behind the \"status\" route and the registered strategy on the main store", 13)

	c20R1(c)
	reg := c20R3(c)
	c20R2(c, reg)
}

// ---------------------------------------------------------------------------------------
// R1

func c20R1(c *eng.Ctx) {
	rep, err := c.W.ReflectValueCompareOn(pkgRegistry)
	if err != nil {
		c.Fail("R1", nil, "reflectvaluecompare on pkg/registry", 0, err.Error())
		return
	}
	const why = "compares reflect.Value wrappers instead of the values they hold: two FieldByName results are never DeepEqual, so the condition is constant (an unchanged update bumps the generation)"
	for _, d := range rep.DeepEquals {
		msg := "operands are not reflect.Value"
		if d.Flagged {
			msg = d.Message + " — " + why
		}
		c.Check("R1", c.W.SSAFuncOf(d.Func), d.Construct(), d.Pos, !d.Flagged, msg)
	}
	for _, d := range rep.Flagged {
		if d.Op == "reflect.DeepEqual" {
			continue
		}
		c.Fail("R1", c.W.SSAFuncOf(d.Func), d.Construct(), d.Pos, d.Message+" — "+why)
	}
	c.Pass("R1", nil, "package scan github.com/kubewharf/apiserver-runtime/pkg/registry", 0,
		fmt.Sprintf("reflectvaluecompare ran on %d files: %d reflect.DeepEqual calls and %d ==/!= expressions inspected, %d flagged", rep.Files, len(rep.DeepEquals), rep.EqualityOps, len(rep.Flagged)))
}

const c20FxSrc = `package fx

import "reflect"

type T struct{ Spec struct{ A int } }

func bad(a, b *T) bool {
	x := reflect.ValueOf(a).Elem().FieldByName("Spec")
	y := reflect.ValueOf(b).Elem().FieldByName("Spec")
	return reflect.DeepEqual(x, y)
}

func badEq(a, b *T) bool { return reflect.ValueOf(a) != reflect.ValueOf(b) }

func good(a, b *T) bool {
	x := reflect.ValueOf(a).Elem().FieldByName("Spec")
	y := reflect.ValueOf(b).Elem().FieldByName("Spec")
	return reflect.DeepEqual(x.Interface(), y.Interface()) && x.IsValid() == y.IsValid()
}
`

// c20Fixtures proves on every run that the in-process pass fires on a reflect.Value
// comparison and is silent on the repaired form. The fixture's import of "reflect" is
// resolved from the packages the world already type-checked (no second type-check).
func c20Fixtures(c *eng.Ctx) {
	t0 := time.Now()
	defer func() {
		c.Note("C20 fixture (type-check of a source string importing reflect from the loaded program + reflectvaluecompare): %v", time.Since(t0))
	}()
	fset, files, pkg, info, err := c.W.CheckFixtureWithImports(c20FxSrc, false)
	if err != nil {
		c.Fixture("C20.reflectvaluecompare/build", "ok", err.Error())
		return
	}
	rep, err := eng.RunReflectValueCompare(fset, files, pkg, info, types.SizesFor("gc", "amd64"))
	if err != nil {
		c.Fixture("C20.reflectvaluecompare/run", "ok", err.Error())
		return
	}
	got := map[string][]string{}
	for _, d := range rep.Flagged {
		n := "<pkg>"
		if d.Func != nil {
			n = d.Func.Name()
		}
		got[n] = append(got[n], d.Construct())
	}
	c.Fixture("C20.reflectvaluecompare/bad", "reflect.DeepEqual(x, y)", strings.Join(got["bad"], ";"))
	c.Fixture("C20.reflectvaluecompare/badEq", "reflect.ValueOf(a) != reflect.ValueOf(b)", strings.Join(got["badEq"], ";"))
	c.Fixture("C20.reflectvaluecompare/good", "", strings.Join(got["good"], ";"))
	c.Fixture("C20.reflectvaluecompare/deepequal-calls", "2", fmt.Sprint(len(rep.DeepEquals)))
}

// ---------------------------------------------------------------------------------------
// shared helpers

// c20PS is a set of parameter indices of the analysed function.
type c20PS uint64

func (s c20PS) has(i int) bool { return i >= 0 && s&(1<<uint(i)) != 0 }
func c20One(i int) c20PS {
	if i < 0 {
		return 0
	}
	return 1 << uint(i)
}

// c20Params returns the parameters of fn that v is computed from (through calls'
// receivers/arguments, phis, locals and inlined repo helpers).
func c20Params(c *eng.Ctx, fn *ssa.Function, v ssa.Value) c20PS {
	var out c20PS
	if v == nil {
		return 0
	}
	sl := c.Slicer().WithArgs()
	sl.Walk(v, func(n eng.Node) bool {
		if p, ok := n.V.(*ssa.Parameter); ok && p.Parent() == fn {
			for i, q := range fn.Params {
				if q == p {
					out |= c20One(i)
				}
			}
		}
		return true
	})
	return out
}

// c20ObjectParams returns the indices in fn.Params of the parameters of type
// runtime.Object, in order (for PrepareForUpdate(ctx, obj, old): obj, old — the position is
// fixed by the rest.RESTUpdateStrategy interface).
func c20ObjectParams(fn *ssa.Function) []int {
	var out []int
	for i, p := range fn.Params {
		if eng.TypeName(p.Type()) == "k8s.io/apimachinery/pkg/runtime.Object" {
			out = append(out, i)
		}
	}
	return out
}

func c20IsBuiltin(ci ssa.CallInstruction, name string) bool {
	b, ok := ci.Common().Value.(*ssa.Builtin)
	return ok && b.Name() == name
}

// c20FieldNames collects the name constants of every FieldByName call (reflect.Value or
// reflect.Type flavour) v is computed from.
func c20FieldNames(c *eng.Ctx, v ssa.Value) []string {
	seen := map[string]bool{}
	sl := c.Slicer().WithArgs()
	sl.Walk(v, func(n eng.Node) bool {
		if call, _ := eng.CallResultOf(n.V); call != nil && eng.IsCall(call, c20ValueFieldByName, c20TypeFieldByName) {
			a := eng.Args(call)
			if len(a) == 1 {
				if s, ok := eng.StringConst(a[0]); ok {
					seen[s] = true
				} else {
					seen["<non-constant>"] = true
				}
			}
		}
		return true
	})
	var out []string
	for s := range seen {
		out = append(out, s)
	}
	sort.Strings(out)
	return out
}

// c20Effect is one state change a strategy method performs on its arguments.
type c20Effect struct {
	kind string          // "copy-field" | "zero-field" | "labels" | "generation" | "unknown-set"
	site ssa.Instruction // instruction of the analysed function (the call itself or the helper call)

	field    string // copy/zero: destination FieldByName constant
	srcField string // copy: source FieldByName constant; zero: field whose type is instantiated
	dst, src c20PS  // parameters the destination / source object derive from
	srcOK    bool   // the source has the expected shape (FieldByName / GetLabels / Zero-of-type)

	genConst int64 // generation: the constant (set or added)
	genAdd   bool  // generation: value is GetGeneration()+genConst of src

	uncond                    bool // executed on every path of the helper it was found in
	fieldParam, srcFieldParam int  // when the name is a string parameter of the helper (-1: none)
}

func c20ParamIndex(fn *ssa.Function, v ssa.Value) int {
	p, ok := v.(*ssa.Parameter)
	if !ok {
		return -1
	}
	for i, q := range fn.Params {
		if q == p {
			return i
		}
	}
	return -1
}

// c20Effects summarises fn: every reflect.Value.Set, SetLabels and SetGeneration it performs,
// directly or through same-package helpers (depth bounded).
func c20Effects(c *eng.Ctx, fn *ssa.Function, depth int) []c20Effect {
	var out []c20Effect
	name := func(v ssa.Value) (string, int) {
		if s, ok := eng.StringConst(v); ok {
			return s, -1
		}
		return "", c20ParamIndex(fn, v)
	}
	for _, ci := range eng.Calls(fn) {
		call, plain := ci.(*ssa.Call)
		if !plain {
			if eng.IsCall(ci, c20ValueSet) || eng.MethodNameIs(ci, "SetLabels") || eng.MethodNameIs(ci, "SetGeneration") {
				out = append(out, c20Effect{kind: "unknown-set", site: ci, fieldParam: -1, srcFieldParam: -1})
			}
			continue
		}
		switch {
		case eng.IsCall(call, c20ValueSet):
			e := c20Effect{kind: "unknown-set", site: call, uncond: true, fieldParam: -1, srcFieldParam: -1}
			a := call.Call.Args
			if len(a) == 2 {
				if fb, _ := eng.CallResultOf(a[0]); fb != nil && eng.IsCall(fb, c20ValueFieldByName) {
					e.field, e.fieldParam = name(fb.Call.Args[1])
					e.dst = c20Params(c, fn, fb.Call.Args[0])
					if sb, _ := eng.CallResultOf(a[1]); sb != nil && eng.IsCall(sb, c20ValueFieldByName) {
						e.kind, e.srcOK = "copy-field", true
						e.srcField, e.srcFieldParam = name(sb.Call.Args[1])
						e.src = c20Params(c, fn, sb.Call.Args[0])
					} else if t := c20ZeroOf(a[1]); t != nil {
						e.kind = "zero-field"
						e.src = c20Params(c, fn, t)
						if ns := c20FieldNames(c, t); len(ns) == 1 {
							e.srcField, e.srcOK = ns[0], true
						}
					}
				}
			}
			out = append(out, e)
		case eng.MethodNameIs(call, "SetLabels"):
			e := c20Effect{kind: "labels", site: call, uncond: true, fieldParam: -1, srcFieldParam: -1}
			e.dst = c20Params(c, fn, eng.Receiver(call))
			if a := eng.Args(call); len(a) == 1 {
				if g, _ := eng.CallResultOf(a[0]); g != nil && eng.MethodNameIs(g, "GetLabels") {
					e.src, e.srcOK = c20Params(c, fn, eng.Receiver(g)), true
				}
			}
			out = append(out, e)
		case eng.MethodNameIs(call, "SetGeneration"):
			e := c20Effect{kind: "generation", site: call, uncond: true, fieldParam: -1, srcFieldParam: -1}
			e.dst = c20Params(c, fn, eng.Receiver(call))
			if a := eng.Args(call); len(a) == 1 {
				if k, ok := eng.IntConst(a[0]); ok {
					e.genConst, e.srcOK = k, true
				} else if b, ok := a[0].(*ssa.BinOp); ok && b.Op == token.ADD {
					for _, xy := range [][2]ssa.Value{{b.X, b.Y}, {b.Y, b.X}} {
						g, _ := eng.CallResultOf(xy[0])
						k, isK := eng.IntConst(xy[1])
						if g != nil && eng.MethodNameIs(g, "GetGeneration") && isK {
							e.genAdd, e.genConst, e.srcOK = true, k, true
							e.src = c20Params(c, fn, eng.Receiver(g))
						}
					}
				}
			}
			out = append(out, e)
		default:
			h := call.Call.StaticCallee()
			if h == nil || h == fn || h.Blocks == nil || depth <= 0 || h.Pkg == nil || fn.Pkg == nil || h.Pkg != fn.Pkg {
				continue
			}
			for _, he := range c20Effects(c, h, depth-1) {
				e := he
				e.site = call
				site := he.site
				e.uncond = he.uncond && eng.ReachFromEntry(h, eng.PathQuery{Target: eng.IsExit, Avoid: func(i ssa.Instruction) bool { return i == site }}) == nil
				tr := func(s c20PS) c20PS {
					var o c20PS
					for i := range h.Params {
						if s.has(i) && i < len(call.Call.Args) {
							o |= c20Params(c, fn, call.Call.Args[i])
						}
					}
					return o
				}
				e.dst, e.src = tr(he.dst), tr(he.src)
				e.fieldParam, e.srcFieldParam = -1, -1
				if he.fieldParam >= 0 && he.fieldParam < len(call.Call.Args) {
					e.field, e.fieldParam = name(call.Call.Args[he.fieldParam])
				}
				if he.srcFieldParam >= 0 && he.srcFieldParam < len(call.Call.Args) {
					e.srcField, e.srcFieldParam = name(call.Call.Args[he.srcFieldParam])
				}
				out = append(out, e)
			}
		}
	}
	return out
}

// c20ZeroOf recognises the zero value of a reflect.Type: reflect.Zero(T) or
// reflect.New(T).Elem(); it returns T.
func c20ZeroOf(v ssa.Value) ssa.Value {
	call, _ := eng.CallResultOf(v)
	if call == nil {
		return nil
	}
	if eng.IsCall(call, "reflect.Zero") && len(call.Call.Args) == 1 {
		return call.Call.Args[0]
	}
	if eng.IsCall(call, c20ValueElem) && len(call.Call.Args) == 1 {
		if n, _ := eng.CallResultOf(call.Call.Args[0]); n != nil && eng.IsCall(n, "reflect.New") && len(n.Call.Args) == 1 {
			return n.Call.Args[0]
		}
	}
	return nil
}

func (e c20Effect) String() string {
	switch e.kind {
	case "copy-field":
		return fmt.Sprintf("Set(%s ← %s)", e.field, e.srcField)
	case "zero-field":
		return fmt.Sprintf("Set(%s ← zero of %s's type)", e.field, e.srcField)
	case "labels":
		return "SetLabels(GetLabels())"
	case "generation":
		if e.genAdd {
			return fmt.Sprintf("SetGeneration(GetGeneration()+%d)", e.genConst)
		}
		return fmt.Sprintf("SetGeneration(%d)", e.genConst)
	}
	return "unclassified write"
}

// c20Probe describes the has-meta/has-spec/has-status probe of the strategies.
type c20Probe struct {
	fn                   *ssa.Function
	specName, statusName string
}

// c20Assume builds the facts "the object has meta, spec and status, the receiver's
// subStatus flag has the given value, and meta.Accessor did not fail" for function fn.
func c20Assume(fn *ssa.Function, probe *c20Probe, mainT string, has [3]int, subStatus int) eng.BoolFacts {
	facts := eng.BoolFacts{}
	set := func(v ssa.Value, tri int) {
		if tri >= 0 {
			facts[v] = tri == 1
		}
	}
	eng.Instrs(fn, func(ins ssa.Instruction) {
		switch x := ins.(type) {
		case *ssa.Extract:
			if call, idx := eng.CallResultOf(x); call != nil && probe != nil && call.Call.StaticCallee() == probe.fn && idx >= 0 && idx < 3 {
				set(x, has[idx])
			}
		case *ssa.UnOp:
			if x.Op == token.MUL && mainT != "" && eng.FieldLoadOf(x, mainT, "subStatus") {
				set(x, subStatus)
			}
		case *ssa.BinOp:
			// err of meta.Accessor compared with nil: the probe already established that the accessor exists
			if x.Op != token.EQL && x.Op != token.NEQ {
				return
			}
			for _, xy := range [][2]ssa.Value{{x.X, x.Y}, {x.Y, x.X}} {
				if call, idx := eng.CallResultOf(xy[0]); call != nil && idx == 1 && eng.IsCall(call, c20MetaAccessor) && eng.IsNilConst(xy[1]) {
					facts[x] = x.Op == token.EQL
				}
			}
		}
	})
	return facts
}

// c20AlwaysDone reports whether, under the assumed facts, every path from the entry of fn to
// an exit executes one of the sites.
func c20AlwaysDone(fn *ssa.Function, facts eng.BoolFacts, sites map[ssa.Instruction]bool) bool {
	return eng.FactReachFromEntry(fn, eng.FactQuery{
		Assume: facts,
		Target: func(i ssa.Instruction, _ eng.KnownFn) bool { return eng.IsExit(i) },
		Avoid:  func(i ssa.Instruction) bool { return sites[i] },
	}) == nil
}

// ---------------------------------------------------------------------------------------
// R2

// c20Reg is what R3 discovered about the registration; R2 checks the methods of these types.
type c20Reg struct {
	mainT   *types.Named // strategy type registered for UpstreamCluster (DefaultRESTStrategy)
	statusT *types.Named // strategy type installed behind the "status" route
}

// c20FindProbe finds the probe by shape: the registry function taking one runtime.Object and
// returning (hasMeta, hasSpec, hasStatus bool).
func c20FindProbe(c *eng.Ctx) *c20Probe {
	var found []*ssa.Function
	for _, fn := range c.W.FuncsOf(pkgRegistry) {
		sig := fn.Signature
		if fn.Parent() != nil || sig.Recv() != nil || sig.Params().Len() != 1 || sig.Results().Len() != 3 {
			continue
		}
		ok := eng.TypeName(sig.Params().At(0).Type()) == "k8s.io/apimachinery/pkg/runtime.Object"
		for i := 0; i < 3; i++ {
			b, isB := sig.Results().At(i).Type().Underlying().(*types.Basic)
			ok = ok && isB && b.Kind() == types.Bool
		}
		if ok {
			found = append(found, fn)
		}
	}
	if len(found) != 1 {
		c.Fail("engine", nil, "unresolved-anchor probe func(runtime.Object) (bool, bool, bool) in pkg/registry", 0, fmt.Sprintf("%d candidates", len(found)))
		return nil
	}
	return &c20Probe{fn: found[0]}
}

// c20CheckProbe decides what the three results of the probe mean: #0 is true only when
// meta.Accessor(obj) succeeded, #1/#2 are the `ok` of reflect.Type.FieldByName with one name
// constant each, on a type derived from the parameter.
func c20CheckProbe(c *eng.Ctx, p *c20Probe) {
	fn := p.fn
	names := [3]map[string]bool{{}, {}, {}}
	okShape := [3]bool{true, true, true}
	metaOK := true
	nret := 0
	eng.Instrs(fn, func(ins ssa.Instruction) {
		r, isRet := ins.(*ssa.Return)
		if !isRet || len(r.Results) != 3 {
			return
		}
		nret++
		for idx := 1; idx <= 2; idx++ {
			for _, lf := range eng.PhiLeaves(r.Results[idx]) {
				if eng.IsBoolConst(lf.V, false) {
					continue
				}
				call, ri := eng.CallResultOf(lf.V)
				if call == nil || ri != 1 || !eng.IsCall(call, c20TypeFieldByName) || c20Params(c, fn, call.Call.Value) != c20One(0) {
					okShape[idx] = false
					continue
				}
				if s, ok := eng.StringConst(call.Call.Args[0]); ok {
					names[idx][s] = true
				} else {
					okShape[idx] = false
				}
			}
		}
		for _, lf := range eng.PhiLeaves(r.Results[0]) {
			if eng.IsBoolConst(lf.V, false) {
				continue
			}
			// true (or the comparison itself) only where Accessor's error is nil
			isErrNil := func(rel eng.Rel) bool {
				for _, xy := range [][2]ssa.Value{{rel.X, rel.Y}, {rel.Y, rel.X}} {
					if call, ri := eng.CallResultOf(xy[0]); call != nil && ri == 1 && eng.IsCall(call, c20MetaAccessor) && eng.IsNilConst(xy[1]) && rel.Op == token.EQL && c20Params(c, fn, call.Call.Args[0]) == c20One(0) {
						return true
					}
				}
				return false
			}
			good := false
			if eng.IsBoolConst(lf.V, true) {
				for _, g := range append(lf.Guards, eng.GuardsOf(r)...) {
					if isErrNil(g.Rel()) {
						good = true
					}
				}
			} else if isErrNil(eng.RelOf(lf.V, true)) {
				good = true
			}
			if !good {
				metaOK = false
			}
		}
	})
	one := func(m map[string]bool) string {
		var s []string
		for k := range m {
			s = append(s, k)
		}
		sort.Strings(s)
		return strings.Join(s, ",")
	}
	c.Check("R2", fn, "probe result#0 ⇔ meta.Accessor(obj) succeeded", fn.Pos(), nret > 0 && metaOK, "hasMeta may be true only on the err == nil edge of meta.Accessor(obj); otherwise labels/generation are written through a nil accessor or skipped")
	kind := c.W.Named(pkgV1alpha1, "UpstreamCluster")
	hasField := func(n string) bool {
		if kind == nil {
			return false
		}
		st, _ := kind.Underlying().(*types.Struct)
		for i := 0; st != nil && i < st.NumFields(); i++ {
			if st.Field(i).Name() == n {
				return true
			}
		}
		return false
	}
	for idx, what := range map[int]string{1: "spec", 2: "status"} {
		n := one(names[idx])
		ok := nret > 0 && okShape[idx] && len(names[idx]) == 1 && hasField(n)
		c.Check("R2", fn, fmt.Sprintf("probe result#%d ⇔ reflect field %q of the kind", idx, n), fn.Pos(), ok,
			"has-"+what+" must be the `ok` of Type.FieldByName with one name constant that is a field of the served kind (UpstreamCluster); a misspelt name makes the probe constantly false and the "+what+" is never restored")
		if idx == 1 {
			p.specName = n
		} else {
			p.statusName = n
		}
	}
}

func c20R2(c *eng.Ctx, reg *c20Reg) {
	probe := c20FindProbe(c)
	if probe == nil || reg == nil || reg.mainT == nil || reg.statusT == nil {
		c.Fail("R2", nil, "strategy types", 0, "the registered strategy types could not be resolved (see R3/engine); the effects cannot be checked")
		return
	}
	c20CheckProbe(c, probe)
	mainT := eng.TypeName(reg.mainT)
	const all = 1
	ANY := -1

	method := func(t *types.Named, name string) *ssa.Function {
		f := c.W.DeclaredMethod(t, name)
		if f == nil || f.Blocks == nil {
			c.Fail("engine", nil, "unresolved-anchor method ("+eng.TypeName(t)+")."+name, 0, "the strategy type does not declare this method itself")
			return nil
		}
		return f
	}
	sites := func(es []c20Effect, pred func(e c20Effect) bool) map[ssa.Instruction]bool {
		m := map[ssa.Instruction]bool{}
		for _, e := range es {
			if pred(e) && e.uncond {
				m[e.site] = true
			}
		}
		return m
	}
	// every write the method performs must be one the rule knows
	exhaust := func(fn *ssa.Function, es []c20Effect, allowed func(e c20Effect) bool, what string) {
		var bad []string
		for _, e := range es {
			if !allowed(e) {
				bad = append(bad, e.String())
			}
		}
		c.Check("R2", fn, "no other reflect/accessor write", fn.Pos(), len(bad) == 0,
			what+"; found: "+strings.Join(bad, ", "))
	}

	// ---- status strategy: PrepareForUpdate(ctx, obj, old)
	if fn := method(reg.statusT, "PrepareForUpdate"); fn != nil {
		op := c20ObjectParams(fn)
		if len(op) != 2 {
			c.Fail("R2", fn, "signature (ctx, obj, old runtime.Object)", fn.Pos(), "unexpected parameters")
		} else {
			obj, old := c20One(op[0]), c20One(op[1])
			es := c20Effects(c, fn, c.Depth)
			isSpec := func(e c20Effect) bool {
				return e.kind == "copy-field" && e.field == probe.specName && e.srcField == probe.specName && e.dst == obj && e.src == old
			}
			isLabels := func(e c20Effect) bool { return e.kind == "labels" && e.srcOK && e.dst == obj && e.src == old }
			facts := c20Assume(fn, probe, "", [3]int{all, all, all}, ANY)
			sp := sites(es, isSpec)
			c.Check("R2", fn, "status update: obj.Spec ← old.Spec", fn.Pos(), len(sp) > 0,
				"a reflect Set whose destination is FieldByName(spec name) of obj and whose source is the same field of old; without it (or with source obj) a status update overwrites the stored spec with whatever the client sent")
			c.Check("R2", fn, "status update: spec restored on every path", fn.Pos(), len(sp) > 0 && c20AlwaysDone(fn, facts, sp),
				"assuming the object has meta, spec and status, every path to an exit performs the spec restore")
			lb := sites(es, isLabels)
			c.Check("R2", fn, "status update: obj labels ← old labels", fn.Pos(), len(lb) > 0,
				"SetLabels on the accessor of obj with GetLabels of the accessor of old; otherwise a status update changes labels")
			c.Check("R2", fn, "status update: labels restored on every path", fn.Pos(), len(lb) > 0 && c20AlwaysDone(fn, facts, lb),
				"assuming the object has meta, spec and status, every path to an exit restores the labels")
			exhaust(fn, es, func(e c20Effect) bool { return isSpec(e) || isLabels(e) }, "the status strategy may only restore spec and labels from old")
		}
	}

	// ---- main strategy: PrepareForUpdate
	if fn := method(reg.mainT, "PrepareForUpdate"); fn != nil {
		op := c20ObjectParams(fn)
		if len(op) != 2 {
			c.Fail("R2", fn, "signature (ctx, obj, old runtime.Object)", fn.Pos(), "unexpected parameters")
		} else {
			obj, old := c20One(op[0]), c20One(op[1])
			es := c20Effects(c, fn, c.Depth)
			isStatus := func(e c20Effect) bool {
				return e.kind == "copy-field" && e.field == probe.statusName && e.srcField == probe.statusName && e.dst == obj && e.src == old
			}
			isBump := func(e c20Effect) bool {
				return e.kind == "generation" && e.genAdd && e.genConst == 1 && e.dst == obj && e.src == old
			}
			st := sites(es, isStatus)
			c.Check("R2", fn, "main update: obj.Status ← old.Status", fn.Pos(), len(st) > 0,
				"a reflect Set copying the status field of old into obj; without it an update of the main resource changes the status")
			c.Check("R2", fn, "main update: status restored on every path when subStatus", fn.Pos(),
				len(st) > 0 && c20AlwaysDone(fn, c20Assume(fn, probe, mainT, [3]int{ANY, ANY, all}, all), st),
				"assuming the strategy's subStatus flag is set and the object has a status, every path to an exit restores the status")
			exhaust(fn, es, func(e c20Effect) bool { return isStatus(e) || isBump(e) }, "the main strategy may only restore the status from old and set generation to old.GetGeneration()+1 on obj (a different increment, base or target breaks `generation increases by one`)")
			c20Bump(c, fn, probe, mainT, es, isBump, obj, old)
		}
	}

	// ---- main strategy: PrepareForCreate(ctx, obj)
	if fn := method(reg.mainT, "PrepareForCreate"); fn != nil {
		op := c20ObjectParams(fn)
		if len(op) != 1 {
			c.Fail("R2", fn, "signature (ctx, obj runtime.Object)", fn.Pos(), "unexpected parameters")
		} else {
			obj := c20One(op[0])
			es := c20Effects(c, fn, c.Depth)
			isZero := func(e c20Effect) bool {
				return e.kind == "zero-field" && e.srcOK && e.field == probe.statusName && e.srcField == probe.statusName && e.dst == obj && e.src == obj
			}
			isGen1 := func(e c20Effect) bool {
				return e.kind == "generation" && e.srcOK && !e.genAdd && e.genConst == 1 && e.dst == obj
			}
			z := sites(es, isZero)
			c.Check("R2", fn, "create: obj.Status ← zero value", fn.Pos(), len(z) > 0,
				"a reflect Set of obj's status field with reflect.Zero / reflect.New(T).Elem() of that field's own type")
			c.Check("R2", fn, "create: status cleared on every path when subStatus", fn.Pos(),
				len(z) > 0 && c20AlwaysDone(fn, c20Assume(fn, probe, mainT, [3]int{ANY, ANY, all}, all), z),
				"assuming subStatus and a status field, every path to an exit clears the status")
			g := sites(es, isGen1)
			c.Check("R2", fn, "create: SetGeneration(1)", fn.Pos(), len(g) > 0, "the accessor of obj gets generation 1")
			c.Check("R2", fn, "create: generation set on every path with meta", fn.Pos(),
				len(g) > 0 && c20AlwaysDone(fn, c20Assume(fn, probe, mainT, [3]int{all, ANY, ANY}, ANY), g),
				"assuming the object has meta (so meta.Accessor succeeds), every path to an exit sets generation 1")
			exhaust(fn, es, func(e c20Effect) bool { return isZero(e) || isGen1(e) }, "create may only clear the status and set generation 1")
		}
	}
}

// c20Compare is a boolean SSA value of fn that tells whether obj and old agree on the spec
// or on the annotations: a DeepEqual call (kind set), or the call of a same-package predicate
// that holds such comparisons (h, inner) — whatever its shape: one negated comparison, `a || b`,
// two sequential returns. What the predicate returns for given outcomes of its comparisons is
// computed by the fact-carrying search over its body (value).
type c20Compare struct {
	val        *ssa.Call
	kind       string // "spec" | "annotations"; "" for a predicate call
	equalMeans bool   // direct comparison: truth value of val when the two sides are equal
	h          *ssa.Function
	inner      []c20Compare
}

// kinds returns the kinds of comparison val stands for.
func (k c20Compare) kinds() map[string]bool {
	out := map[string]bool{}
	if k.kind != "" {
		out[k.kind] = true
	}
	for _, in := range k.inner {
		for n := range in.kinds() {
			out[n] = true
		}
	}
	return out
}

// assume adds to facts what is known about k.val when every comparison for which outcome
// answers (equal, true) reports that outcome. For a predicate the value is the unique truth
// value of all returns that are feasible under the facts of its inner comparisons.
func (k c20Compare) assume(facts eng.BoolFacts, outcome func(c20Compare) (equal, known bool)) {
	if k.h == nil {
		if eq, ok := outcome(k); ok {
			facts[k.val] = eq == k.equalMeans
		}
		return
	}
	inner := eng.BoolFacts{}
	for _, in := range k.inner {
		in.assume(inner, outcome)
	}
	if len(inner) == 0 {
		return
	}
	vals := map[bool]bool{}
	unknown := false
	eng.FactReachFromEntry(k.h, eng.FactQuery{Assume: inner, Target: func(i ssa.Instruction, known eng.KnownFn) bool {
		if r, ok := i.(*ssa.Return); ok && len(r.Results) == 1 && r.Block() != k.h.Recover {
			if v, ok := known(r.Results[0]); ok {
				vals[v] = true
			} else {
				unknown = true
			}
		}
		return false
	}})
	if !unknown && len(vals) == 1 {
		for v := range vals {
			facts[k.val] = v
		}
	}
}

// consults reports whether evaluating k.val evaluates a comparison of the kind on every path
// (under the facts "everything compares equal").
func (k c20Compare) consults(kind string, allEqual func(c20Compare) (bool, bool)) bool {
	if k.h == nil {
		return k.kind == kind
	}
	inner := eng.BoolFacts{}
	for _, in := range k.inner {
		in.assume(inner, allEqual)
	}
	these := map[ssa.Instruction]bool{}
	for _, in := range k.inner {
		if in.consults(kind, allEqual) {
			these[in.val] = true
		}
	}
	if len(these) == 0 {
		return false
	}
	return eng.FactReachFromEntry(k.h, eng.FactQuery{Assume: inner,
		Target: func(i ssa.Instruction, _ eng.KnownFn) bool { return eng.IsExit(i) },
		Avoid:  func(i ssa.Instruction) bool { return these[i] }}) == nil
}

// c20Origins answers, for a value of one function, what the rule needs to know about where it
// comes from. Inside a predicate helper the answers about a parameter are those of the caller
// about the argument bound to it, so it does not matter on which side of a call a value is
// computed (`specChanged(obj, old)` vs `changed(specNew, specOld)` vs `differ(a.GetAnnotations(), …)`).
type c20Origins struct {
	side  func(v ssa.Value) c20PS    // which of the method's object parameters (obj / old) v is computed from
	names func(v ssa.Value) []string // FieldByName constants v is computed from
	annot func(v ssa.Value) bool     // v is computed from a GetAnnotations() call
}

func c20RootOrigins(c *eng.Ctx, fn *ssa.Function) c20Origins {
	sl := c.Slicer().WithArgs()
	return c20Origins{
		side:  func(v ssa.Value) c20PS { return c20Params(c, fn, v) },
		names: func(v ssa.Value) []string { return c20FieldNames(c, v) },
		annot: func(v ssa.Value) bool {
			return sl.DerivesFrom(v, func(x ssa.Value) bool {
				call, _ := eng.CallResultOf(x)
				return call != nil && eng.MethodNameIs(call, "GetAnnotations")
			})
		},
	}
}

// in returns the origins of the values of helper h as called by call (a call of the function
// o answers for).
func (o c20Origins) in(c *eng.Ctx, h *ssa.Function, call *ssa.Call) c20Origins {
	own := c20RootOrigins(c, h)
	args := call.Call.Args
	each := func(v ssa.Value, f func(arg ssa.Value)) {
		hp := c20Params(c, h, v)
		for i := range h.Params {
			if hp.has(i) && i < len(args) {
				f(args[i])
			}
		}
	}
	return c20Origins{
		side: func(v ssa.Value) c20PS {
			var out c20PS
			each(v, func(a ssa.Value) { out |= o.side(a) })
			return out
		},
		names: func(v ssa.Value) []string {
			set := map[string]bool{}
			for _, n := range own.names(v) {
				set[n] = true
			}
			each(v, func(a ssa.Value) {
				for _, n := range o.names(a) {
					set[n] = true
				}
			})
			var out []string
			for n := range set {
				out = append(out, n)
			}
			sort.Strings(out)
			return out
		},
		annot: func(v ssa.Value) bool {
			r := own.annot(v)
			each(v, func(a ssa.Value) { r = r || o.annot(a) })
			return r
		},
	}
}

// c20FindCompares lists the comparisons of fn; org answers the origin questions for fn's values.
func c20FindCompares(c *eng.Ctx, fn *ssa.Function, probe *c20Probe, org c20Origins, obj, old c20PS, depth int) []c20Compare {
	var out []c20Compare
	for _, ci := range eng.Calls(fn) {
		call, ok := ci.(*ssa.Call)
		if !ok {
			continue
		}
		b, isB := call.Type().Underlying().(*types.Basic)
		if !isB || b.Kind() != types.Bool {
			continue
		}
		if o := eng.CalleeObj(call); o != nil && o.Name() == "DeepEqual" {
			a := eng.Args(call)
			if len(a) != 2 {
				continue
			}
			p0, p1 := org.side(a[0]), org.side(a[1])
			sides := (p0 == obj && p1 == old) || (p0 == old && p1 == obj)
			n0, n1 := org.names(a[0]), org.names(a[1])
			switch {
			case sides && len(n0) == 1 && len(n1) == 1 && n0[0] == probe.specName && n1[0] == probe.specName:
				out = append(out, c20Compare{val: call, kind: "spec", equalMeans: true})
			case sides && len(n0) == 0 && len(n1) == 0 && org.annot(a[0]) && org.annot(a[1]):
				out = append(out, c20Compare{val: call, kind: "annotations", equalMeans: true})
			}
			continue
		}
		h := call.Call.StaticCallee()
		if h == nil || h == fn || h.Blocks == nil || depth <= 0 || h.Pkg != fn.Pkg {
			continue
		}
		// predicate helper: its comparisons, with the helper's parameters traced to the caller's arguments
		if inner := c20FindCompares(c, h, probe, org.in(c, h, call), obj, old, depth-1); len(inner) > 0 {
			out = append(out, c20Compare{val: call, h: h, inner: inner})
		}
	}
	return out
}

// c20Bump checks "generation := old+1 exactly when spec or annotations differ".
func c20Bump(c *eng.Ctx, fn *ssa.Function, probe *c20Probe, mainT string, es []c20Effect, isBump func(c20Effect) bool, obj, old c20PS) {
	bumps := map[ssa.Instruction]bool{}
	for _, e := range es {
		if isBump(e) && e.uncond {
			bumps[e.site] = true
		}
	}
	c.Check("R2", fn, "bump: SetGeneration(old.GetGeneration()+1) on obj", fn.Pos(), len(bumps) > 0,
		"the new generation is the stored object's generation plus one, written to the submitted object")
	cmps := c20FindCompares(c, fn, probe, c20RootOrigins(c, fn), obj, old, c.Depth)
	has := map[string]bool{}
	for _, k := range cmps {
		for n := range k.kinds() {
			has[n] = true
		}
	}
	c.Check("R2", fn, "bump: comparison of obj.Spec with old.Spec", fn.Pos(), has["spec"],
		"a DeepEqual whose operands are the spec field of obj and of old (one each)")
	c.Check("R2", fn, "bump: comparison of obj annotations with old annotations", fn.Pos(), has["annotations"],
		"a DeepEqual whose operands are GetAnnotations() of obj's and of old's accessor (one each)")
	if len(bumps) == 0 || !has["spec"] || !has["annotations"] {
		return
	}
	base := func() eng.BoolFacts { return c20Assume(fn, probe, mainT, [3]int{1, 1, 1}, -1) }
	isBumpIns := func(i ssa.Instruction) bool { return bumps[i] }
	allEqual := func(c20Compare) (bool, bool) { return true, true }

	// (a) equal spec and equal annotations: no bump
	eq := base()
	for _, k := range cmps {
		k.assume(eq, allEqual)
	}
	x := eng.FactReachFromEntry(fn, eng.FactQuery{Assume: eq, Target: func(i ssa.Instruction, _ eng.KnownFn) bool { return bumps[i] }})
	c.Check("R2", fn, "bump: not when spec and annotations are equal", fn.Pos(), x == nil,
		"with both comparisons reporting equality no path may reach SetGeneration (the generation must stay the same on a no-op update)")
	// (b) a difference in either forces the bump: each comparison of the kind in turn reports a
	// difference (nothing is assumed about the others)
	var leaves func(ks []c20Compare, kind string) []c20Compare
	leaves = func(ks []c20Compare, kind string) []c20Compare {
		var out []c20Compare
		for _, k := range ks {
			if k.h == nil && k.kind == kind {
				out = append(out, k)
			}
			out = append(out, leaves(k.inner, kind)...)
		}
		return out
	}
	for _, kind := range []string{"spec", "annotations"} {
		ok := true
		for _, leaf := range leaves(cmps, kind) {
			differs := func(k c20Compare) (bool, bool) { return false, k.val == leaf.val }
			for _, k := range cmps {
				if !k.kinds()[kind] {
					continue
				}
				f := base()
				n := len(f)
				k.assume(f, differs)
				if len(f) == n {
					if k.h != nil && len(leaves([]c20Compare{k}, kind)) > 0 && containsCompare(k, leaf) {
						ok = false // the predicate's answer to a difference is not determined
					}
					continue
				}
				if eng.FactReachAfter(k.val, eng.FactQuery{Assume: f, Target: func(i ssa.Instruction, _ eng.KnownFn) bool { return eng.IsExit(i) }, Avoid: isBumpIns}) != nil {
					ok = false
				}
			}
		}
		c.Check("R2", fn, "bump: whenever the "+kind+" differ", fn.Pos(), ok,
			"from a comparison reporting a difference every path to an exit passes SetGeneration(old+1) (with `&&` instead of `||` a spec-only change keeps the generation)")
	}
	// (c) both comparisons are consulted before the method decides not to bump
	for _, kind := range []string{"spec", "annotations"} {
		these := map[ssa.Instruction]bool{}
		for _, k := range cmps {
			if k.consults(kind, allEqual) {
				these[k.val] = true
			}
		}
		x := eng.FactReachFromEntry(fn, eng.FactQuery{Assume: eq,
			Target: func(i ssa.Instruction, _ eng.KnownFn) bool { return eng.IsExit(i) },
			Avoid:  func(i ssa.Instruction) bool { return these[i] || bumps[i] }})
		c.Check("R2", fn, "bump: "+kind+" consulted on every no-bump path", fn.Pos(), x == nil,
			"assuming meta, spec and status exist, a path that ends without a bump must have evaluated the "+kind+" comparison")
	}
}

// containsCompare reports whether leaf is k or one of the comparisons inside predicate k.
func containsCompare(k, leaf c20Compare) bool {
	if k.val == leaf.val {
		return true
	}
	for _, in := range k.inner {
		if containsCompare(in, leaf) {
			return true
		}
	}
	return false
}

// ---------------------------------------------------------------------------------------
// R3

// c20StrategyCtor resolves a strategy value to the constructor call that built it: the value
// itself, or — for a load of a package-level variable — the single store into that variable.
func c20StrategyCtor(c *eng.Ctx, v ssa.Value) (*ssa.Call, *types.Named, string) {
	if mi, ok := v.(*ssa.MakeInterface); ok {
		v = mi.X
	}
	named, _ := v.Type().(*types.Named)
	if call, ok := v.(*ssa.Call); ok {
		return call, named, ""
	}
	ld, ok := v.(*ssa.UnOp)
	if !ok || ld.Op != token.MUL {
		return nil, named, "the strategy is neither a constructor call nor a package-level variable"
	}
	g, ok := ld.X.(*ssa.Global)
	if !ok {
		return nil, named, "the strategy is neither a constructor call nor a package-level variable"
	}
	var stores []*ssa.Store
	for _, fn := range c.W.AllRepoFuncs() {
		eng.Instrs(fn, func(ins ssa.Instruction) {
			if st, ok := ins.(*ssa.Store); ok && st.Addr == ssa.Value(g) {
				stores = append(stores, st)
			}
		})
	}
	if len(stores) != 1 {
		return nil, named, fmt.Sprintf("variable %s is stored %d times in the repository (exactly one initialiser expected)", g.Name(), len(stores))
	}
	call, ok := stores[0].Val.(*ssa.Call)
	if !ok {
		return nil, named, "variable " + g.Name() + " is not initialised by a constructor call"
	}
	return call, named, ""
}

// c20KindVals evaluates the Kind field of the GroupVersionKindResource value v of context ctx:
// the string constants it may hold and the values that could not be resolved to a constant.
// The struct is followed through locals (field stores and whole-struct stores), through
// same-repository constructor helpers (`gvkr := proxyGVKR("UpstreamCluster", …)`) and through
// parameters bound by the context's call sites.
func c20KindVals(v ssa.Value, ctx *eng.CallCtx, depth int) (consts []string, unresolved []ssa.Value) {
	cv := eng.ResolveIn(v, ctx)
	v, ctx = cv.V, cv.Ctx
	if depth <= 0 {
		return nil, []ssa.Value{v}
	}
	merge := func(cs []string, us []ssa.Value) {
		consts = append(consts, cs...)
		unresolved = append(unresolved, us...)
	}
	switch x := v.(type) {
	case *ssa.UnOp:
		al, ok := x.X.(*ssa.Alloc)
		if x.Op != token.MUL || !ok {
			break
		}
		found := false
		for _, ref := range *al.Referrers() {
			switch u := ref.(type) {
			case *ssa.Store:
				if u.Addr == ssa.Value(al) {
					if _, isConst := u.Val.(*ssa.Const); !isConst {
						found = true
						merge(c20KindVals(u.Val, ctx, depth-1))
					}
				}
			case *ssa.FieldAddr:
				if !eng.FieldAddrOf(u, c20GVKR, "Kind") {
					continue
				}
				for _, rr := range *u.Referrers() {
					if st, isSt := rr.(*ssa.Store); isSt && st.Addr == ssa.Value(u) {
						found = true
						kv := eng.ResolveIn(st.Val, ctx)
						if s, isStr := eng.StringConst(kv.V); isStr {
							consts = append(consts, s)
						} else {
							unresolved = append(unresolved, kv.V)
						}
					}
				}
			}
		}
		if found {
			return
		}
	case *ssa.Call, *ssa.Extract:
		call, idx := eng.CallResultOf(v)
		if call == nil {
			break
		}
		h := call.Call.StaticCallee()
		if h == nil || !eng.Analysable(h) {
			break
		}
		if idx < 0 {
			idx = 0
		}
		child := ctx.Child(call, h)
		n := 0
		eng.Instrs(h, func(ins ssa.Instruction) {
			if r, ok := ins.(*ssa.Return); ok && idx < len(r.Results) && r.Block() != h.Recover {
				n++
				merge(c20KindVals(r.Results[idx], child, depth-1))
			}
		})
		if n > 0 {
			return
		}
	}
	return nil, []ssa.Value{v}
}

// c20KindCtxs returns the contexts (ctx itself, or ctx with its root entered through one of the
// root function's call sites, recursively) in which the Kind of gvkr is exactly kindName.
func c20KindCtxs(c *eng.Ctx, ctx *eng.CallCtx, gvkr ssa.Value, kindName string, depth int) []*eng.CallCtx {
	consts, unresolved := c20KindVals(gvkr, ctx, 4)
	if len(unresolved) == 0 {
		for _, s := range consts {
			if s != kindName {
				return nil
			}
		}
		if len(consts) == 0 {
			return nil
		}
		return []*eng.CallCtx{ctx}
	}
	root := ctx.Root()
	for _, u := range unresolved {
		if p, ok := u.(*ssa.Parameter); !ok || p.Parent() != root.Fn {
			return nil
		}
	}
	if depth <= 0 {
		return nil
	}
	var out []*eng.CallCtx
	for _, site := range c.W.StaticCallSites(root.Fn) {
		out = append(out, c20KindCtxs(c, ctx.ExtendRoot(site), gvkr, kindName, depth-1)...)
	}
	return out
}

// c20InCtx is a call together with the context it executes in; level is the index of the
// builder level it belongs to and via the instruction of that level's function by which it
// executes (the call itself, or the call of the helper containing it).
type c20InCtx struct {
	call  *ssa.Call
	ctx   *eng.CallCtx
	level int
	via   *ssa.Call
}

func c20R3(c *eng.Ctx) *c20Reg {
	reg := &c20Reg{}
	kind := c.W.Named(pkgV1alpha1, "UpstreamCluster")
	if kind == nil {
		c.Fail("engine", nil, "unresolved-anchor type "+pkgV1alpha1+".UpstreamCluster", 0, "type not found")
		return reg
	}
	kindName := kind.Obj().Name()
	setName := "(*" + c20Factory + ").SetRESTStrategy"
	getName := "(*" + c20Factory + ").GetRESTStorageOptions"

	// ---- the option builder of the kind: the function that reads the storage options of a
	// GroupVersionKindResource whose Kind is "UpstreamCluster" — as a constant of the function
	// or, for a builder shared between kinds, as entered through the call site that passes that
	// constant (a calling context; everything below is decided in that context)
	type builder struct {
		ctx *eng.CallCtx
		get *ssa.Call
	}
	var builders []builder
	for _, fn := range c.W.FuncsOf(pkgProxyREST) {
		for _, ci := range eng.CallsTo(fn, getName) {
			g, ok := ci.(*ssa.Call)
			if !ok || len(eng.Args(g)) != 1 {
				continue
			}
			for _, ctx := range c20KindCtxs(c, &eng.CallCtx{Fn: fn}, eng.Args(g)[0], kindName, eng.LiftDepth) {
				builders = append(builders, builder{ctx, g})
			}
		}
	}
	if len(builders) != 1 {
		c.Fail("R3", nil, "option builder for kind "+kindName, 0, fmt.Sprintf("%d functions (or calling contexts of a shared builder) of the proxy REST package read the storage options of a GroupVersionKindResource with Kind %q (exactly one expected)", len(builders), kindName))
		return reg
	}
	bctx, get := builders[0].ctx, builders[0].get
	levels := bctx.Levels() // levels[0]: the function calling GetRESTStorageOptions … last: the root
	ub := bctx.Root().Fn    // obligations are reported against the outermost function of the context
	getRecv := eng.ResolveIn(eng.Receiver(get), bctx)
	getGVKR := eng.ResolveIn(eng.Args(get)[0], bctx)

	// ---- strategy given to the factory: the SetRESTStrategy calls on the same factory and gvkr,
	// in the functions of the context chain or in a same-package helper they call
	var sets []c20InCtx
	nOtherSets := 0
	for li, lc := range levels {
		for _, ci := range eng.Calls(lc.Fn) {
			call, ok := ci.(*ssa.Call)
			if !ok {
				continue
			}
			var cands []c20InCtx
			if eng.IsCall(call, setName) {
				cands = append(cands, c20InCtx{call, lc, li, call})
			} else if h := call.Call.StaticCallee(); h != nil && h.Blocks != nil && h.Pkg != nil && h.Pkg == lc.Fn.Pkg && (li == 0 || call != levels[li-1].Site) {
				for _, sc := range eng.CallsTo(h, setName) {
					if s, isCall := sc.(*ssa.Call); isCall {
						cands = append(cands, c20InCtx{s, lc.Child(call, h), li, call})
					}
				}
			}
			for _, s := range cands {
				sa := eng.Args(s.call)
				if len(sa) == 2 && eng.SameIn(eng.ResolveIn(eng.Receiver(s.call), s.ctx), getRecv) && eng.SameIn(eng.ResolveIn(sa[0], s.ctx), getGVKR) {
					sets = append(sets, s)
				} else if li == 0 && s.via == s.call {
					nOtherSets++ // a registration in the builder itself for another factory / gvkr
				}
			}
		}
	}
	if len(sets) == 0 {
		c.Fail("R3", ub, "SetRESTStrategy(sub-status strategy)", ub.Pos(), "no strategy is registered for the kind (same factory, same gvkr as the options read): the factory default is used")
	}
	for _, s := range sets {
		a := eng.Args(s.call)
		ctor, named, why := c20StrategyCtor(c, eng.ResolveIn(a[1], s.ctx).V)
		ok := false
		detail := why
		if ctor != nil && named != nil {
			reg.mainT = named
			k := ctor.Call.StaticCallee()
			// which constructor parameter lands in the subStatus field?
			idx := -1
			if k != nil && k.Blocks != nil {
				for _, st := range eng.StoresToField([]*ssa.Function{k}, eng.TypeName(named), "subStatus") {
					idx = c20ParamIndex(k, st.Val)
				}
			}
			switch {
			case idx < 0:
				detail = "the constructor does not store one of its parameters into the subStatus field"
			case idx >= len(ctor.Call.Args) || !eng.IsBoolConst(ctor.Call.Args[idx], true):
				detail = "the strategy registered for " + kindName + " is built with subStatus != true: an update of the main resource may then change the status"
			default:
				ok, detail = true, "strategy built by "+eng.FuncName(k)+" with subStatus=true"
			}
			if k != nil && idx >= 0 {
				c.Pass("R3", k, "constructor stores its subStatus parameter into the subStatus field", k.Pos(), fmt.Sprintf("parameter #%d", idx))
			}
		}
		c.Check("R3", ub, "SetRESTStrategy(sub-status strategy)", s.call.Pos(), ok, detail)
	}

	// Set precedes Get on the same factory and the same gvkr; the options returned are Get's
	{
		ok := len(sets) > 0 && nOtherSets == 0
		for _, s := range sets {
			target := ssa.Instruction(get)
			if s.level > 0 {
				target = levels[s.level-1].Site
			}
			// (a registration inside a helper counts when the helper performs it on every path:
			// the lifted AlwaysBefore decides that)
			reg := ssa.Instruction(s.call)
			ok = ok && eng.AlwaysBeforeIn(levels[s.level], target, func(i ssa.Instruction) bool { return i == reg })
		}
		c.Check("R3", ub, "strategy registered before the options are read, same factory and gvkr", get.Pos(), ok,
			"GetRESTStorageOptions applies the overrides recorded for its gvkr; the strategy must have been recorded for that very gvkr before")
	}

	// ---- the options travel from GetRESTStorageOptions up the context chain to the provider;
	// SubStatus = true is set on the way, on every successful return
	provName := pkgRegistry + ".NewRESTStorageProvider"
	provIn := map[*ssa.Function]bool{}
	for _, fn := range c.W.FuncsOf(pkgProxyREST) {
		if len(eng.CallsTo(fn, provName)) > 0 {
			provIn[fn] = true
		}
	}
	sl := &eng.Slicer{W: c.W, Depth: 0}
	forwards := make([]bool, len(levels)) // level li hands the options it received to its caller on every successful return
	nret, setsTrue := 0, false
	var bad []string
	var retPos token.Pos
	for li, lc := range levels {
		if provIn[lc.Fn] {
			break // this level consumes the options
		}
		src := get
		if li > 0 {
			src = levels[li-1].Site
		}
		isSrc := func(v ssa.Value, idx int) bool {
			call, i := eng.CallResultOf(v)
			return call == src && i == idx
		}
		forwards[li] = true
		n := 0
		eng.Instrs(lc.Fn, func(ins ssa.Instruction) {
			r, ok := ins.(*ssa.Return)
			if !ok || len(r.Results) != 2 || r.Block() == lc.Fn.Recover {
				return
			}
			// a return that may report success: nil error, or the source call's own error unless known non-nil
			errv := r.Results[1]
			var success eng.BoolFacts // what holds in addition when this return reports success
			switch {
			case eng.IsNilConst(errv):
			case isSrc(errv, 1) && !eng.GuardedByNil(r, func(v ssa.Value) bool { return v == errv }, false):
				success = eng.NilFacts(lc.Fn, errv, true)
			default:
				return
			}
			n++
			if li == 0 {
				nret++
				if retPos == token.NoPos {
					retPos = r.Pos()
				}
			}
			rv := r.Results[0]
			if isSrc(rv, 0) {
				return // handed on as received
			}
			ld, isLd := rv.(*ssa.UnOp)
			var al *ssa.Alloc
			if isLd && ld.Op == token.MUL {
				al, _ = ld.X.(*ssa.Alloc)
			}
			if al == nil {
				forwards[li] = false
				bad = append(bad, "the returned options are not a local whose SubStatus field is assigned")
				return
			}
			fromSrc := false
			for _, ref := range *al.Referrers() {
				switch u := ref.(type) {
				case *ssa.Store:
					if u.Addr == ssa.Value(al) {
						if isSrc(u.Val, 0) {
							fromSrc = true
						} else if eng.ReachableIn(lc, u) {
							forwards[li] = false
							bad = append(bad, "the returned options are overwritten by something other than the options read from the factory")
						}
					}
				case *ssa.FieldAddr:
					if !eng.FieldAddrOf(u, c20Options, "SubStatus") {
						continue
					}
					for _, rr := range *u.Referrers() {
						st, isSt := rr.(*ssa.Store)
						if !isSt || st.Addr != ssa.Value(u) || !eng.ReachableIn(lc, st) {
							continue
						}
						if eng.IsBoolConst(eng.ResolveIn(st.Val, lc).V, true) && eng.AlwaysBeforeIn(lc, r, func(i ssa.Instruction) bool { return i == ssa.Instruction(st) }, success) {
							setsTrue = true
						} else {
							bad = append(bad, "SubStatus is assigned something other than true, or true on some paths only")
						}
					}
				}
			}
			if !fromSrc {
				forwards[li] = false
				bad = append(bad, "the returned options do not come from GetRESTStorageOptions")
			}
		})
		if n == 0 {
			forwards[li] = false
		}
	}
	if nret == 0 {
		c.Fail("R3", ub, "options.SubStatus = true", ub.Pos(), "no successful return found")
	} else {
		detail := "options come from GetRESTStorageOptions and SubStatus is set to true on every path to the successful return (otherwise no status route is installed and the main route is the only writer of status)"
		if len(bad) > 0 {
			detail = strings.Join(c13Dedup(bad), "; ")
		} else if !setsTrue {
			detail = "SubStatus is never set to true on the options handed to the provider: no status route is installed and the main route is the only writer of status"
		}
		c.Check("R3", ub, "options.SubStatus = true", retPos, setsTrue && len(bad) == 0, detail)
	}

	// the options reach the provider
	nprov := 0
	for _, fn := range c.W.FuncsOf(pkgProxyREST) {
		for _, ci := range eng.CallsTo(fn, provName) {
			nprov++
			a := eng.Args(ci)
			ok := len(a) == 3 && c20DerivesThroughAppend(sl, a[2], func(v ssa.Value) bool {
				call, idx := eng.CallResultOf(v)
				if call == nil || idx != 0 {
					return false
				}
				upTo := -1 // the levels that must hand the options on
				switch {
				case c20MayCall(c, sl, call, ub) && !provIn[ub]:
					upTo = len(levels) - 1
				default:
					for li := 1; li < len(levels); li++ {
						if levels[li].Fn == fn && call == levels[li-1].Site {
							upTo = li - 1
						}
					}
				}
				if upTo < 0 {
					return false
				}
				for li := 0; li <= upTo; li++ {
					if !forwards[li] {
						return false
					}
				}
				return true
			})
			c.Check("R3", fn, "options of "+kindName+" handed to NewRESTStorageProvider", ci.Pos(), ok, "the provider must be built from the options the builder returned")
		}
	}
	if nprov == 0 {
		c.Fail("R3", nil, "options of "+kindName+" handed to NewRESTStorageProvider", 0, "no call to "+provName)
	}

	var setCalls []ssa.CallInstruction
	for _, s := range sets {
		setCalls = append(setCalls, s.call)
	}
	c20Factory3(c, setCalls, []ssa.CallInstruction{get})
	c20ResourceREST(c, reg)
	return reg
}

// c20Factory3 checks the three steps that carry the strategy from SetRESTStrategy to the
// options: recorded under the gvkr, looked up under the gvkr, copied into RESTStrategy.
func c20Factory3(c *eng.Ctx, sets, gets []ssa.CallInstruction) {
	if len(sets) > 0 {
		if fn := eng.CalleeFn(sets[0]); fn != nil && fn.Blocks != nil && len(fn.Params) == 3 {
			ok := false
			eng.Instrs(fn, func(ins ssa.Instruction) {
				mu, isMU := ins.(*ssa.MapUpdate)
				if !isMU || mu.Key != ssa.Value(fn.Params[1]) || !eng.FieldLoadOf(mu.Map, c20Factory, "overrides") {
					return
				}
				if ld, isLd := mu.Value.(*ssa.UnOp); isLd && ld.Op == token.MUL {
					for _, st := range eng.StoresToField([]*ssa.Function{fn}, c20Overrides, "restStrategy") {
						if fa, _ := st.Addr.(*ssa.FieldAddr); fa != nil && fa.X == ld.X && st.Val == ssa.Value(fn.Params[2]) {
							ok = true
						}
					}
				}
			})
			c.Check("R3", fn, "strategy recorded in overrides[gvkr]", fn.Pos(), ok, "the strategy parameter is stored in the restStrategy field of the entry written back under the gvkr parameter")
		}
	}
	if len(gets) > 0 {
		if fn := eng.CalleeFn(gets[0]); fn != nil && fn.Blocks != nil && len(fn.Params) == 2 {
			ok := false
			var apply *ssa.Function
			for _, ci := range eng.Calls(fn) {
				h := eng.CalleeFn(ci)
				if h == nil || eng.RecvTypeName(ci) != c20Overrides {
					continue
				}
				lk, isLk := eng.Receiver(ci).(*ssa.Lookup)
				a := eng.Args(ci)
				if !isLk || lk.Index != ssa.Value(fn.Params[1]) || !eng.FieldLoadOf(lk.X, c20Factory, "overrides") || len(a) != 1 {
					continue
				}
				// the options passed are the ones returned
				eng.Instrs(fn, func(ins ssa.Instruction) {
					if r, isR := ins.(*ssa.Return); isR && len(r.Results) == 2 && eng.IsNilConst(r.Results[1]) {
						if ld, isLd := r.Results[0].(*ssa.UnOp); isLd && ld.Op == token.MUL && ld.X == a[0] && eng.AlwaysBefore(fn, r, func(i ssa.Instruction) bool { return i == ssa.Instruction(ci) }) {
							ok, apply = true, h
						}
					}
				})
			}
			c.Check("R3", fn, "overrides[gvkr] applied to the returned options", fn.Pos(), ok, "the entry looked up under the gvkr parameter is applied to the options value that is returned")
			if apply != nil && len(apply.Params) == 2 {
				aok := false
				for _, st := range eng.StoresToField([]*ssa.Function{apply}, c20Options, "RESTStrategy") {
					fa, _ := st.Addr.(*ssa.FieldAddr)
					root, path := eng.AccessPath(st.Val)
					if fa != nil && fa.X == ssa.Value(apply.Params[1]) && root == ssa.Value(apply.Params[0]) && len(path) == 1 && path[0] == "restStrategy" {
						aok = true
					}
				}
				c.Check("R3", apply, "override copies restStrategy into options.RESTStrategy", apply.Pos(), aok, "the recorded strategy becomes the options' RESTStrategy")
			}
		}
	}
}

// c20ResourceREST checks the function that installs the "status" route.
func c20ResourceREST(c *eng.Ctx, reg *c20Reg) {
	type route struct {
		fn *ssa.Function
		mu *ssa.MapUpdate
	}
	var routes []route
	for _, fn := range c.W.FuncsOf(pkgRegistry) {
		eng.Instrs(fn, func(ins ssa.Instruction) {
			if mu, ok := ins.(*ssa.MapUpdate); ok {
				if s, ok := eng.StringConst(mu.Key); ok && s == "status" {
					routes = append(routes, route{fn, mu})
				}
			}
		})
	}
	if len(routes) != 1 {
		c.Fail("R3", nil, "\"status\" route", 0, fmt.Sprintf("%d map updates with key \"status\" in the registry package (exactly one expected)", len(routes)))
		return
	}
	fn, mu := routes[0].fn, routes[0].mu
	// locate the options parameter
	var o *ssa.Parameter
	for _, p := range fn.Params {
		if eng.TypeName(p.Type()) == c20Options {
			o = p
		}
	}
	fromO := func(v ssa.Value, field string) bool {
		for {
			switch x := v.(type) {
			case *ssa.ChangeInterface:
				v = x.X
				continue
			case *ssa.MakeInterface:
				v = x.X
				continue
			}
			break
		}
		root, path := eng.AccessPath(v)
		return o != nil && root == ssa.Value(o) && len(path) == 1 && path[0] == field
	}

	// value stored under "status": &T{Store: &statusStore}; statusStore = *mainStore;
	// statusStore.UpdateStrategy = StatusStrategy{…}. The endpoint (and the main store) may be
	// built in place or by same-package constructor helpers: composites are resolved through
	// the helpers' returns in the context of the call (c20Composites), their operands back to
	// the values of fn (c20PathIn).
	root := &eng.CallCtx{Fn: fn}
	fromOIn := func(v ssa.Value, ctx *eng.CallCtx, field string) bool {
		r, path := c20PathIn(v, ctx)
		return o != nil && r.V == ssa.Value(o) && len(path) == 1 && path[0] == field
	}
	// setBefore: the store st has happened on every path on which the composite it belongs to
	// exists where it is used: before the route is installed when it sits in fn, before every
	// return of the constructor helper otherwise
	setBefore := func(st *ssa.Store) bool {
		is := func(i ssa.Instruction) bool { return i == ssa.Instruction(st) }
		if st.Parent() == fn {
			return eng.AlwaysBefore(fn, mu, is)
		}
		return eng.ReachFromEntry(st.Parent(), eng.PathQuery{Target: func(i ssa.Instruction) bool {
			_, isRet := i.(*ssa.Return)
			return isRet
		}, Avoid: is}) == nil
	}
	var statusStores []eng.CtxValue
	for _, comp := range c20Composites(mu.Value, root, eng.LiftDepth) {
		al, ok := comp.V.(*ssa.Alloc)
		if !ok {
			continue
		}
		for _, ref := range *al.Referrers() {
			if fa, ok := ref.(*ssa.FieldAddr); ok {
				for _, rr := range *fa.Referrers() {
					if st, ok := rr.(*ssa.Store); ok && st.Addr == ssa.Value(fa) && eng.TypeName(st.Val.Type()) == c20Store {
						statusStores = append(statusStores, c20Composites(st.Val, comp.Ctx, eng.LiftDepth)...)
					}
				}
			}
		}
	}
	var mainStore *eng.CtxValue
	ok, detail := false, "the value registered under \"status\" does not wrap a store of its own"
	for _, ss := range statusStores {
		al, isAl := ss.V.(*ssa.Alloc)
		if !isAl {
			continue
		}
		detail = "the status store does not get a strategy of its own: it shares the main strategy, so a status update may change spec and labels (and resets the status)"
		for _, ref := range *al.Referrers() {
			switch u := ref.(type) {
			case *ssa.Store:
				if ld, isLd := u.Val.(*ssa.UnOp); isLd && u.Addr == ssa.Value(al) && ld.Op == token.MUL {
					m := eng.ResolveIn(ld.X, ss.Ctx)
					mainStore = &m
				}
			case *ssa.FieldAddr:
				if !eng.FieldAddrOf(u, c20Store, "UpdateStrategy") {
					continue
				}
				for _, rr := range *u.Referrers() {
					st, isSt := rr.(*ssa.Store)
					if !isSt || st.Addr != ssa.Value(u) {
						continue
					}
					if mi, isMI := st.Val.(*ssa.MakeInterface); isMI {
						if named, isN := mi.X.Type().(*types.Named); isN && setBefore(st) {
							reg.statusT = named
						}
					}
				}
			}
		}
		if reg.statusT != nil && reg.mainT != nil && reg.statusT != reg.mainT {
			m := c.W.DeclaredMethod(reg.statusT, "PrepareForUpdate")
			if m != nil && m.Blocks != nil {
				ok, detail = true, "status store = copy of the main store with UpdateStrategy "+eng.TypeName(reg.statusT)+", which declares its own PrepareForUpdate"
			} else {
				detail = eng.TypeName(reg.statusT) + " does not declare PrepareForUpdate itself (the embedded main strategy's method is promoted)"
			}
		}
	}
	c.Check("R3", fn, "\"status\" route uses a store whose UpdateStrategy is the status strategy", mu.Pos(), ok, detail)

	// main store strategies come from o.RESTStrategy
	for _, f := range []string{"CreateStrategy", "UpdateStrategy"} {
		good := false
		if mainStore != nil {
			for _, comp := range c20Composites(mainStore.V, mainStore.Ctx, eng.LiftDepth) {
				base := comp.V
				for _, st := range eng.StoresToField([]*ssa.Function{c20CtxFn(comp.Ctx, fn)}, c20Store, f) {
					if fa, _ := st.Addr.(*ssa.FieldAddr); fa != nil && fa.X == base {
						good = fromOIn(st.Val, comp.Ctx, "RESTStrategy")
					}
				}
			}
		}
		c.Check("R3", fn, "main store "+f+" = options.RESTStrategy", fn.Pos(), good, "the store behind the main route uses the strategy registered for the kind")
	}

	// the route is installed when SubStatus && hasStatus
	facts := eng.BoolFacts{}
	eng.Instrs(fn, func(ins ssa.Instruction) {
		switch x := ins.(type) {
		case *ssa.UnOp:
			if x.Op == token.MUL && fromO(x, "SubStatus") {
				facts[x] = true
			}
		case *ssa.Extract:
			if call, idx := eng.CallResultOf(x); call != nil && idx == 2 {
				if h := call.Call.StaticCallee(); h != nil && h.Signature.Results().Len() == 3 && h.Pkg == fn.Pkg {
					facts[x] = true
				}
			}
		}
	})
	x := eng.FactReachFromEntry(fn, eng.FactQuery{Assume: facts,
		Target: func(i ssa.Instruction, _ eng.KnownFn) bool {
			r, ok := i.(*ssa.Return)
			return ok && len(r.Results) == 2 && eng.IsNilConst(r.Results[1])
		},
		Avoid: func(i ssa.Instruction) bool { return i == ssa.Instruction(mu) }})
	c.Check("R3", fn, "\"status\" route installed whenever SubStatus and the kind has a status", mu.Pos(), len(facts) >= 2 && x == nil,
		"assuming options.SubStatus and has-status, every successful return has registered the status route")

	// the status REST endpoint updates through its own store
	if mi, ok := mu.Value.(*ssa.MakeInterface); ok {
		if named, _ := mi.X.Type().(*types.Pointer); named != nil {
			if n, _ := named.Elem().(*types.Named); n != nil {
				upd := c.W.DeclaredMethod(n, "Update")
				good := false
				if upd != nil && upd.Blocks != nil {
					for _, ci := range eng.CallsTo(upd, "(*"+c20Store+").Update") {
						root, path := eng.AccessPath(eng.Receiver(ci))
						if len(upd.Params) > 0 && root == ssa.Value(upd.Params[0]) && len(path) == 1 {
							good = true
						}
					}
				}
				c.Check("R3", upd, "status endpoint updates through its own store", mu.Pos(), good, "Update of the status REST type delegates to the Update of the store it holds (the one carrying the status strategy)")
			}
		}
	}
}

// c20CtxFn returns the function of a context (def for the nil context).
func c20CtxFn(ctx *eng.CallCtx, def *ssa.Function) *ssa.Function {
	if ctx == nil {
		return def
	}
	return ctx.Fn
}

// c20Composites resolves v (a value of ctx.Fn) to the values it is built from: itself after
// eng.ResolveIn, or — when that is the result of a same-package constructor helper — what the
// helper's returns yield, in the context of that call (recursively, depth bounded).
func c20Composites(v ssa.Value, ctx *eng.CallCtx, depth int) []eng.CtxValue {
	cv := eng.ResolveIn(v, ctx)
	call, idx := eng.CallResultOf(cv.V)
	if call == nil || depth <= 0 || cv.Ctx == nil {
		return []eng.CtxValue{cv}
	}
	h := call.Call.StaticCallee()
	if h == nil || !eng.Analysable(h) || h.Pkg != cv.Ctx.Fn.Pkg {
		return []eng.CtxValue{cv}
	}
	if idx < 0 {
		idx = 0
	}
	child := cv.Ctx.Child(call, h)
	var out []eng.CtxValue
	eng.Instrs(h, func(ins ssa.Instruction) {
		if r, ok := ins.(*ssa.Return); ok && idx < len(r.Results) && r.Block() != h.Recover {
			out = append(out, c20Composites(r.Results[idx], child, depth-1)...)
		}
	})
	if len(out) == 0 {
		return []eng.CtxValue{cv}
	}
	return out
}

// c20PathIn is eng.AccessPath across a context chain: the access path of v is continued
// through helper parameters into the arguments of the context's call sites.
func c20PathIn(v ssa.Value, ctx *eng.CallCtx) (eng.CtxValue, []string) {
	var suffix []string
	cv := eng.ResolveIn(v, ctx)
	for i := 0; i < 8; i++ {
		root, path := eng.AccessPath(cv.V)
		suffix = append(append([]string{}, path...), suffix...)
		next := eng.ResolveIn(root, cv.Ctx)
		if next.V == root && len(path) == 0 {
			return next, suffix
		}
		if next.V == root {
			return eng.CtxValue{V: root, Ctx: cv.Ctx}, suffix
		}
		cv = next
	}
	return cv, suffix
}

// c20MayCall reports whether call may invoke target: statically, or — for a call of a function
// value (`builders[i](factory)`, a table of option builders) — when the value's origins are
// all known functions and target is one of them.
func c20MayCall(c *eng.Ctx, sl *eng.Slicer, call *ssa.Call, target *ssa.Function) bool {
	if f := call.Call.StaticCallee(); f != nil {
		return f == target
	}
	if call.Call.IsInvoke() {
		return false
	}
	found := false
	for _, l := range sl.Leaves(call.Call.Value, nil) {
		f := c.W.FuncOfValue(l)
		if f == nil {
			return false // an origin that is not a known function: the callee set is open
		}
		found = found || f == target
	}
	return found
}

// c20DerivesThroughAppend is Slicer.DerivesFrom that additionally looks through the builtin
// append (a slice built element by element in a loop): the operands of an append are origins
// of its result.
func c20DerivesThroughAppend(sl *eng.Slicer, v ssa.Value, pred func(ssa.Value) bool) bool {
	seen := map[ssa.Value]bool{}
	var rec func(v ssa.Value) bool
	rec = func(v ssa.Value) bool {
		if seen[v] {
			return false
		}
		seen[v] = true
		if sl.DerivesFrom(v, pred) {
			return true
		}
		for _, l := range sl.Leaves(v, nil) {
			if call, ok := l.(*ssa.Call); ok && c20IsBuiltin(call, "append") {
				for _, a := range call.Call.Args {
					if rec(a) {
						return true
					}
				}
			}
		}
		return false
	}
	return rec(v)
}
