package rules

import (
	"go/types"

	"golang.org/x/tools/go/ssa"

	"kgv/internal/eng"
)

func init() { RegisterExtra("C14", c14WholeListKey) }

// c14WholeListKey (C14.R5, added for seeded C14-7): distinct ready lists must not share a
// cursor, so the cursor key has to be a function of the whole ordered ready list. Necessary
// condition decided here: the key does not derive from a digest of the list — an element read
// at a constant index, or the list's length — because two policies whose ready lists agree on
// that digest ([a,b] and [a,c]) then advance one shared counter and alternating traffic pins
// each of them to a single endpoint.
func c14WholeListKey(c *eng.Ctx) {
	c.Rule("R5", "the cursor key identifies the whole ready list: in Pop nothing from which the balancer key derives is an element of an endpoint list read at a constant index or the length of an endpoint list (ready lists agreeing on such a digest would share one cursor)", 1)
	isEPList := func(t types.Type) bool {
		s, ok := t.Underlying().(*types.Slice)
		if !ok {
			return false
		}
		p, ok := s.Elem().Underlying().(*types.Pointer)
		return ok && eng.TypeName(p.Elem()) == tEndpointInfo
	}
	digest := func(x ssa.Value) bool {
		switch v := x.(type) {
		case *ssa.IndexAddr:
			_, isConst := v.Index.(*ssa.Const)
			return isConst && isEPList(v.X.Type())
		case *ssa.Call:
			if b, ok := v.Call.Value.(*ssa.Builtin); ok && (b.Name() == "len" || b.Name() == "cap") && len(v.Call.Args) == 1 {
				return isEPList(v.Call.Args[0].Type())
			}
		}
		return false
	}
	n := 0
	for _, pop := range popImpls(c) {
		tree := popTree(c, pop)
		sl := deepSlicer(c).WithArgs().WithUp()
		for _, fn := range tree.Funcs() {
			for _, ci := range eng.CallsTo(fn, "(*sync.Map).LoadOrStore", "(*sync.Map).Load") {
				if !c14IsBalancer(tree, ci) {
					continue
				}
				n++
				k := eng.Args(ci)[0]
				c.Check("R5", pop, "cursor key derives from the whole ready list", ci.Pos(), !sl.DerivesFrom(k, digest),
					"the balancer key derives from one element at a fixed position or from the length of the endpoint list: different ready lists with the same head/size share one cursor and starve endpoints under alternating traffic")
			}
		}
	}
	if n == 0 {
		c.Pass("R5", nil, "no keyed cursor (single-counter shapes are judged by R1)", 0, "")
	}
}
