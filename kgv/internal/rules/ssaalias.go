package rules

import (
	"go/types"

	"golang.org/x/tools/go/ssa"
)

// short aliases used by the census code
type (
	ssaValue     = ssa.Value
	ssaInstr     = ssa.Instruction
	ssaFieldAddr = ssa.FieldAddr
)

// mutexField returns the name of the first sync.Mutex / sync.RWMutex field of a struct type.
func mutexField(n *types.Named) string {
	st, ok := n.Underlying().(*types.Struct)
	if !ok {
		return ""
	}
	for i := 0; i < st.NumFields(); i++ {
		switch st.Field(i).Type().String() {
		case "sync.Mutex", "sync.RWMutex":
			return st.Field(i).Name()
		}
	}
	return ""
}
