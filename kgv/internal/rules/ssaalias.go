package rules

import (
	"go/token"
	"go/types"

	"golang.org/x/tools/go/ssa"

	"kgv/internal/eng"
)

// short aliases used by the census code
type (
	ssaValue     = ssa.Value
	ssaInstr     = ssa.Instruction
	ssaFieldAddr = ssa.FieldAddr
)

// mutexField returns the name of the first sync.Mutex / sync.RWMutex field of a struct type.
func mutexField(n *types.Named) string {
	st, ok := n.Underlying().(*types.Struct)
	if !ok {
		return ""
	}
	for i := 0; i < st.NumFields(); i++ {
		switch st.Field(i).Type().String() {
		case "sync.Mutex", "sync.RWMutex":
			return st.Field(i).Name()
		}
	}
	return ""
}

// nonNilSuccs returns, for every If of fn comparing a value selected by isV with nil, the
// successor taken when the value is non-nil.
func nonNilSuccs(fn *ssa.Function, isV func(ssa.Value) bool) []*ssa.BasicBlock {
	var out []*ssa.BasicBlock
	for _, b := range fn.Blocks {
		if len(b.Instrs) == 0 {
			continue
		}
		iff, ok := b.Instrs[len(b.Instrs)-1].(*ssa.If)
		if !ok {
			continue
		}
		r := eng.RelOf(iff.Cond, true)
		var other ssa.Value
		switch {
		case isV(r.X):
			other = r.Y
		case isV(r.Y):
			other = r.X
		default:
			continue
		}
		if !eng.IsNilConst(other) {
			continue
		}
		switch r.Op {
		case token.NEQ:
			out = append(out, b.Succs[0])
		case token.EQL:
			out = append(out, b.Succs[1])
		}
	}
	return out
}
