package rules

// C12 — authentication and authorization decisions never cross clusters.
//
// The two webhooks (token review, subject access review) serve every upstream cluster from
// one instance each. What keeps tenants apart is (i) the host of the *current* request keys
// every cache operation and selects the client used for the review, (ii) nothing is looked
// up or decided before the cluster's client was obtained, (iii) a cluster that cannot be
// asked yields "not authenticated" / deny, (iv) the client provider really hands out a
// clientset of an endpoint of the named cluster. Each rule below is one of those facts,
// decided on the resolved program (callee identity, value origin, guards).

import (
	"fmt"
	"go/constant"
	"go/token"
	"go/types"
	"sort"
	"strings"

	"golang.org/x/tools/go/ssa"

	"kgv/internal/eng"
)

func init() { Register("C12", c12) }

const (
	c12TokenType   = pkgTokenWH + ".multiClusterTokenReviewAuthenticator"
	c12AuthzType   = pkgAuthzWH + ".MultiClusterSubjectAccessReviewAuthorizer"
	c12ExtraInfo   = pkgRequest + ".ExtraRequestInfo"
	c12ExtraFrom   = pkgRequest + ".ExtraRequestInfoFrom"
	c12ClientFor   = "(" + pkgClusters + ".ClientProvider).ClientFor"
	c12PkgAuthzIf  = "k8s.io/apiserver/pkg/authorization/authorizer"
	c12KubeIface   = "k8s.io/client-go/kubernetes.Interface"
	c12LRUType     = "k8s.io/apimachinery/pkg/util/cache.LRUExpireCache"
	c12SARType     = "k8s.io/api/authorization/v1.SubjectAccessReview"
	c12SARCreate   = "(k8s.io/client-go/kubernetes/typed/authorization/v1.SubjectAccessReviewInterface).Create"
	c12TokenInvoke = "(k8s.io/apiserver/pkg/authentication/authenticator.Token).AuthenticateToken"
	c12RestConfig  = "k8s.io/client-go/rest.Config"
)

// c12Hook describes one of the two multi-cluster webhooks.
type c12Hook struct {
	name   string        // "token" | "authz"
	pkg    string        // package path
	typ    string        // "pkgpath.Type" of the webhook struct
	anchor *ssa.Function // the interface method invoked per request (ctx = current request)
	funcs  []*ssa.Function
}

// c12State carries the context shared by the C12 helpers.
type c12State struct {
	c         *eng.Ctx
	anchors   map[*ssa.Function]bool
	providers map[*ssa.Function]int // memo of provider: error result index, -1 = not a provider
}

// c12Witness is a call whose result #errIdx is nil only if ClientFor(host) succeeded.
type c12Witness struct {
	call   ssa.CallInstruction
	errIdx int
}

func (w c12Witness) isErr(v ssa.Value) bool {
	cc, i := eng.CallResultOf(v)
	return cc != nil && ssa.CallInstruction(cc) == w.call && i == w.errIdx
}

// provider reports whether g is a wrapper of ClientFor whose last result, an error, is nil
// only when ClientFor succeeded (the prologue "find the request's host, ask for its cluster"
// extracted into a helper): g holds exactly one witness call W (ClientFor or another
// provider) and every return of g either sits on W's err == nil edge, or returns W's own
// error, or returns a freshly made (non-nil) error. It returns the index of the error result.
func (s *c12State) provider(g *ssa.Function) (int, bool) {
	if idx, seen := s.providers[g]; seen {
		return idx, idx >= 0
	}
	s.providers[g] = -1
	if g == nil || g.Blocks == nil || !eng.Analysable(g) || s.anchors[g] {
		return -1, false
	}
	res := g.Signature.Results()
	if res.Len() < 2 || eng.TypeName(res.At(res.Len()-1).Type()) != "error" {
		return -1, false
	}
	errIdx := res.Len() - 1
	var ws []c12Witness
	for _, ci := range eng.Calls(g) {
		if eng.IsCall(ci, c12ClientFor) {
			ws = append(ws, c12Witness{ci, 2})
		} else if f := ci.Common().StaticCallee(); f != nil && f != g {
			if idx, ok := s.provider(f); ok {
				ws = append(ws, c12Witness{ci, idx})
			}
		}
	}
	if len(ws) != 1 {
		return -1, false
	}
	w := ws[0]
	ok := true
	n := 0
	eng.Instrs(g, func(ins ssa.Instruction) {
		r, isRet := ins.(*ssa.Return)
		if !isRet || r.Block() == g.Recover {
			return
		}
		n++
		if eng.GuardedByNil(r, w.isErr, true) {
			return
		}
		v := c12RetVal(r, errIdx)
		if v == nil {
			ok = false
			return
		}
		for _, l := range s.c.Slicer().Leaves(v, func(x ssa.Value) bool {
			cc, _ := eng.CallResultOf(x)
			return cc != nil
		}) {
			cc, _ := eng.CallResultOf(l)
			switch {
			case w.isErr(l):
			case cc != nil && eng.IsCall(cc, "errors.New", "fmt.Errorf"):
			default:
				ok = false
			}
		}
	})
	if !ok || n == 0 {
		return -1, false
	}
	s.providers[g] = errIdx
	return errIdx, true
}

// c12Reviewer is one way a value answers token reviews for a host: the body that runs and,
// when that body is a method, the receiver object it runs on.
type c12Reviewer struct {
	fn  *ssa.Function // a function literal, or a method
	obj ssa.Value     // nil for a literal; the receiver (bound by a method value, or the object itself)
	mc  *ssa.MakeClosure
}

// reviewers returns the review bodies behind v when v creates a review function: something
// of a webhook package that answers a request like the entry point does (same results) and
// obtains its own client from ClientFor — a function literal, a method value `obj.review`
// (the literal turned into a method of a named type), or a freshly built object of a named
// type with such a method (the literal turned into an implementation of the delegate
// interface) — whatever the function that builds it is called, and whether that is a method
// of the webhook or a function taking the fields it needs.
func (s *c12State) reviewers(v ssa.Value) []c12Reviewer {
	answers := func(fn *ssa.Function) bool {
		if fn == nil || fn.Blocks == nil || s.anchors[fn] || len(eng.CallsTo(fn, c12ClientFor)) == 0 {
			return false
		}
		for a := range s.anchors {
			if a.Pkg == c12Outer(fn).Pkg && types.Identical(fn.Signature.Results(), a.Signature.Results()) {
				return true
			}
		}
		return false
	}
	switch n := v.(type) {
	case *ssa.MakeClosure:
		fn, _ := n.Fn.(*ssa.Function)
		if fn != nil && fn.Synthetic != "" {
			if m := s.c.W.FuncOfValue(n); answers(m) && len(n.Bindings) == 1 {
				return []c12Reviewer{{fn: m, obj: n.Bindings[0], mc: n}}
			}
			return nil
		}
		if answers(fn) {
			return []c12Reviewer{{fn: fn, mc: n}}
		}
	case *ssa.Alloc:
		pt, _ := n.Type().Underlying().(*types.Pointer)
		if pt == nil {
			return nil
		}
		named, _ := pt.Elem().(*types.Named)
		if named == nil || named.Obj().Pkg() == nil {
			return nil
		}
		if _, isStruct := named.Underlying().(*types.Struct); !isStruct {
			return nil
		}
		var out []c12Reviewer
		for _, fn := range s.c.W.FuncsOf(named.Obj().Pkg().Path()) {
			recv := fn.Signature.Recv()
			if recv == nil || fn.Parent() != nil {
				continue
			}
			rt := recv.Type()
			if p, isP := rt.(*types.Pointer); isP {
				rt = p.Elem()
			}
			if types.Identical(rt, named) && answers(fn) {
				out = append(out, c12Reviewer{fn: fn, obj: n})
			}
		}
		return out
	}
	return nil
}

func (s *c12State) isReviewFunc(v ssa.Value) bool { return len(s.reviewers(v)) > 0 }

// reviewHosts returns, for a review function created at l (found in calling context l.Fr), the
// host values its ClientFor calls are bound to, resolved into the context the search started
// in: through the captured variable (function literal) or the field of the freshly built
// receiver object (method value, object), and the parameters of the function that builds it.
// why != "" when a ClientFor argument is bound in some other way.
func (s *c12State) reviewHosts(l eng.CtxVal) (hosts []ssa.Value, why string) {
	for _, rv := range s.reviewers(l.V) {
		fn := rv.fn
		for _, ci := range eng.CallsTo(fn, c12ClientFor) {
			arg := eng.Args(ci)[0]
			if rv.obj != nil {
				// a method: the host is a field of the receiver object built for this host
				ld, isLd := arg.(*ssa.UnOp)
				var fa *ssa.FieldAddr
				if isLd && ld.Op == token.MUL {
					fa, _ = ld.X.(*ssa.FieldAddr)
				}
				if fa == nil || len(fn.Params) == 0 || fa.X != ssa.Value(fn.Params[0]) {
					continue // computed inside the review method itself: decided there by R1(b)
				}
				obj := s.c.W.ResolveCtx(rv.obj, l.Fr, false)
				al, isAl := obj.V.(*ssa.Alloc)
				if !isAl {
					return nil, "the review method's receiver is " + c12Describe(obj.V) + ", not an object built for this host"
				}
				sv := eng.SingleFieldStoreOf(al, fa.Field)
				if sv == nil {
					return nil, "the host field of the review method's receiver is not set exactly once while the object is built"
				}
				hosts = append(hosts, s.c.W.ResolveCtx(sv, obj.Fr, false).V)
				continue
			}
			var fv *ssa.FreeVar
			if ld, ok := arg.(*ssa.UnOp); ok && ld.Op == token.MUL {
				fv, _ = ld.X.(*ssa.FreeVar)
			} else {
				fv, _ = arg.(*ssa.FreeVar)
			}
			idx := -1
			for k, x := range fn.FreeVars {
				if fv != nil && x == fv {
					idx = k
				}
			}
			if idx < 0 || idx >= len(rv.mc.Bindings) {
				// computed inside the review function itself: decided there by R1(b)
				continue
			}
			var val ssa.Value = rv.mc.Bindings[idx]
			if _, isAddr := arg.(*ssa.UnOp); isAddr {
				// the captured cell: what was stored into it before the function was made
				al, isAl := val.(*ssa.Alloc)
				if !isAl {
					return nil, "the review function's host is captured from " + c12Describe(val)
				}
				sv := eng.SingleStoreOf(al)
				if sv == nil {
					return nil, "the review function's host variable is assigned more than once"
				}
				val = sv
			}
			hosts = append(hosts, s.c.W.ResolveCtx(val, l.Fr, false).V)
		}
	}
	if len(hosts) == 0 && why == "" {
		why = "the review function is not bound to a host (its ClientFor argument is neither a captured variable nor a field of its receiver)"
	}
	return hosts, why
}

// c12AnswerReturns returns the return statements that produce the values r yields: r itself,
// or — when r hands on all results of one call of a repository function (`return g(…)`) —
// the returns of that function (depth levels).
func c12AnswerReturns(r *ssa.Return, depth int) []*ssa.Return {
	if depth > 0 && len(r.Results) > 1 {
		var call *ssa.Call
		same := true
		for i := range r.Results {
			cc, idx := eng.CallResultOf(c12RetVal(r, i))
			if cc == nil || idx != i || (call != nil && cc != call) {
				same = false
				break
			}
			call = cc
		}
		if same && call != nil {
			if g := call.Call.StaticCallee(); g != nil && g != r.Parent() && eng.Analysable(g) && g.Signature.Results().Len() == len(r.Results) {
				var out []*ssa.Return
				eng.Instrs(g, func(ins ssa.Instruction) {
					if rr, ok := ins.(*ssa.Return); ok && rr.Block() != g.Recover {
						out = append(out, c12AnswerReturns(rr, depth-1)...)
					}
				})
				if len(out) > 0 {
					return out
				}
			}
		}
	}
	return []*ssa.Return{r}
}

// ---------------------------------------------------------------------------------------
// helpers

func c12Outer(fn *ssa.Function) *ssa.Function {
	for fn.Parent() != nil {
		fn = fn.Parent()
	}
	return fn
}

// c12SyncMapOp returns the method name when ci is a call of a (*sync.Map) method.
func c12SyncMapOp(ci ssa.CallInstruction) (string, bool) {
	n := eng.FullName(ci)
	if strings.HasPrefix(n, "(*sync.Map).") {
		return strings.TrimPrefix(n, "(*sync.Map)."), true
	}
	return "", false
}

// c12IsCachesOp reports whether ci is a sync.Map operation on the `caches` field of typ.
func c12IsCachesOp(ci ssa.CallInstruction, typ string) (string, bool) {
	op, ok := c12SyncMapOp(ci)
	if !ok {
		return "", false
	}
	return op, len(c12CachesBases(eng.Receiver(ci), typ)) > 0
}

// c12CachesBases returns the webhook objects whose `caches` table the *sync.Map value recv
// denotes: recv is &x.caches, or a parameter of an extracted helper (method → function taking
// the fields it needs) that every call site binds to such an address. nil when it is (also)
// something else.
func c12CachesBases(recv ssa.Value, typ string) []ssa.Value {
	var out []ssa.Value
	for _, u := range eng.Current.UpVals(recv) {
		if !eng.FieldAddrOf(u, typ, "caches") {
			return nil
		}
		out = append(out, u.(*ssa.FieldAddr).X)
	}
	return out
}

// c12IsCachesLookup: value is (an extract #0 of) caches.Load / caches.LoadOrStore of typ.
func c12IsCachesLookup(v ssa.Value, typ string) bool {
	cc, idx := eng.CallResultOf(v)
	if cc == nil || idx != 0 {
		return false
	}
	op, ok := c12IsCachesOp(cc, typ)
	return ok && (op == "Load" || op == "LoadOrStore")
}

// c12ClientForResult: v is extract #idx of an invoke of ClientProvider.ClientFor.
func c12ClientForResult(v ssa.Value, idx int) *ssa.Call {
	cc, i := eng.CallResultOf(v)
	if cc != nil && i == idx && eng.IsCall(cc, c12ClientFor) {
		return cc
	}
	return nil
}

// c12HostFact is the origin of a string used as a host.
type c12HostFact struct {
	ok    bool
	bases map[ssa.Value]bool // the ExtraRequestInfo values whose Hostname is read
	why   string
}

func (f c12HostFact) sameBases(g c12HostFact) bool {
	if len(f.bases) == 0 || len(f.bases) != len(g.bases) {
		return false
	}
	for b := range f.bases {
		if !g.bases[b] {
			return false
		}
	}
	return true
}

// hostOrigin decides whether v is, on every definition reaching it, the Hostname of the
// ExtraRequestInfo attached to the context of the request being served:
//
//	ExtraRequestInfoFrom(ctx).Hostname   with ctx = the context parameter of the anchor method.
//
// Three passes over the backward slice (call contexts are kept by the slicer, so the reads
// may sit in same-repo helpers within the inlining bound):
//  1. cut at Hostname loads: every leaf is such a load (or strings.ToLower of one — the
//     normalisation the cluster manager applies itself —, or the empty string, which names no
//     cluster and is harmless because R2 lets nothing happen before ClientFor succeeded);
//  2. cut at results of ExtraRequestInfoFrom: everything below the Hostname loads is one;
//  3. uncut, through call operands: the only parameter reached is the anchor's context.
//
// A string parameter of an unexported helper is accepted when every call site in the
// repository passes such a value (who-may-call scan). Anything else — constants, fields,
// globals, other requests' data — is refused with the offending leaf named.
func (s *c12State) hostOrigin(v ssa.Value, depth int) c12HostFact {
	out := c12HostFact{ok: true, bases: map[ssa.Value]bool{}}
	bad := func(format string, a ...interface{}) {
		if out.ok {
			out.ok = false
			out.why = fmt.Sprintf(format, a...)
		}
	}
	merge := func(f c12HostFact) bool {
		if !f.ok {
			bad("%s", f.why)
			return false
		}
		for b := range f.bases {
			out.bases[b] = true
		}
		return true
	}
	sl := s.c.Slicer()
	isHostLoad := func(x ssa.Value) bool { return eng.FieldLoadOf(x, c12ExtraInfo, "Hostname") }
	isToLower := func(x ssa.Value) bool {
		cc, _ := eng.CallResultOf(x)
		return cc != nil && eng.IsCall(cc, "strings.ToLower")
	}
	isFrom0 := func(x ssa.Value) bool {
		cc, idx := eng.CallResultOf(x)
		return cc != nil && idx == 0 && eng.IsCall(cc, c12ExtraFrom)
	}
	isEmpty := func(x ssa.Value) bool { k, ok := eng.StringConst(x); return ok && k == "" }
	isOwnField := func(x ssa.Value) bool { _, _, ok := c12OwnFieldLoad(x); return ok }
	okFields := map[ssa.Value]bool{} // own-field loads whose every stored value was accepted in pass 1
	helperParam := func(x ssa.Value) *ssa.Parameter {
		p, ok := x.(*ssa.Parameter)
		if ok && types.Identical(p.Type(), types.Typ[types.String]) && !s.anchors[p.Parent()] {
			return p
		}
		return nil
	}

	// pass 1
	nHost := 0
	for _, leaf := range sl.Leaves(v, func(x ssa.Value) bool { return isHostLoad(x) || isToLower(x) || isOwnField(x) }) {
		switch {
		case isHostLoad(leaf):
			nHost++
		case isOwnField(leaf) && depth > 0:
			// the state a closure captured, kept in a field of an object instead (closure → method
			// on a named type): the field holds what is stored into it anywhere in the repository
			typ, field, _ := c12OwnFieldLoad(leaf)
			f := c12HostFact{ok: true, bases: map[ssa.Value]bool{}}
			sts := eng.StoresToField(s.c.W.AllRepoFuncs(), typ, field)
			if len(sts) == 0 {
				f = c12HostFact{why: "derives from field " + shortName(typ) + "." + field + " which is never assigned"}
			}
			for _, st := range sts {
				// only fields set once, while the object is being built (`&T{host: h}`), stand for a
				// captured variable; a field assigned on an existing object is state shared between
				// requests and may hold the host of another one
				if _, fresh := st.Addr.(*ssa.FieldAddr).X.(*ssa.Alloc); !fresh {
					f = c12HostFact{why: "field " + shortName(typ) + "." + field + " is assigned on an existing object in " + eng.FuncName(st.Parent()) + " (state shared between requests)"}
					break
				}
				g := s.hostOrigin(st.Val, depth-1)
				if !g.ok {
					f = c12HostFact{why: "field " + shortName(typ) + "." + field + " assigned in " + eng.FuncName(st.Parent()) + ": " + g.why}
					break
				}
				for b := range g.bases {
					f.bases[b] = true
				}
			}
			if merge(f) {
				nHost++
				okFields[leaf] = true
			}
		case isToLower(leaf):
			cc, _ := eng.CallResultOf(leaf)
			if merge(s.hostOrigin(cc.Call.Args[0], depth)) {
				nHost++
			}
		case isEmpty(leaf):
		case helperParam(leaf) != nil && depth > 0:
			p := helperParam(leaf)
			f := c12HostFact{ok: true, bases: map[ssa.Value]bool{}}
			why := s.forCallers(p, func(arg ssa.Value) string {
				g := s.hostOrigin(arg, depth-1)
				for b := range g.bases {
					f.bases[b] = true
				}
				return g.why
			})
			if why != "" {
				f = c12HostFact{why: why}
			}
			if merge(f) {
				nHost++
			}
		default:
			bad("derives from %s, not from ExtraRequestInfoFrom(ctx).Hostname of the current request", c12Describe(leaf))
		}
	}
	if out.ok && nHost == 0 {
		bad("never reads ExtraRequestInfo.Hostname")
	}
	if !out.ok {
		return out
	}
	// pass 2
	for _, leaf := range sl.Leaves(v, func(x ssa.Value) bool { return isFrom0(x) || isToLower(x) || okFields[x] }) {
		switch {
		case isFrom0(leaf):
			out.bases[leaf] = true
		case isToLower(leaf), isEmpty(leaf), helperParam(leaf) != nil, okFields[leaf]:
		default:
			bad("reads Hostname of an ExtraRequestInfo that is not the result of ExtraRequestInfoFrom(ctx) but %s", c12Describe(leaf))
		}
	}
	// pass 3: what the ExtraRequestInfo is read from. Walking through call operands reaches the
	// parameters the value is computed from. Accepted: the anchor's context; a string parameter
	// of a helper (decided at its callers in pass 1); a context parameter of a helper when every
	// caller passes the anchor's context on (the prologue moved into a helper); the bare receiver
	// of a method, which is reached through `a.helper(ctx)` and carries no request data by
	// itself. State read out of a parameter (`a.savedCtx`, `r.info`) is refused: it may belong to
	// another request.
	sl.WithArgs().Walk(v, func(n eng.Node) bool {
		if !out.ok || okFields[n.V] {
			return false
		}
		if cc, isCall := n.V.(*ssa.Call); isCall && eng.IsCall(cc, "context.Background", "context.TODO") {
			bad("the ExtraRequestInfo is read from a fresh root context, not from the context of the request being served")
			return false
		}
		if _, isLoad := n.V.(*ssa.UnOp); isLoad || c12IsField(n.V) {
			if _, path := eng.AccessPath(n.V); len(path) > 0 {
				if p := c12RootParam(n.V); p != nil && !isHostLoad(n.V) {
					bad("the ExtraRequestInfo is not read from the context of the request being served but from state kept in %s (%s)", c12Describe(p), eng.PathString(n.V))
					return false
				}
			}
		}
		if !n.Leaf {
			return true
		}
		switch l := n.V.(type) {
		case *ssa.Global:
			bad("derives from %s", c12Describe(l))
		case *ssa.Parameter:
			switch {
			case helperParam(l) != nil:
			case s.anchors[l.Parent()] && eng.TypeName(l.Type()) == "context.Context":
			case c12IsReceiver(l):
			case !s.anchors[l.Parent()] && eng.TypeName(l.Type()) == "context.Context" && depth > 0:
				if why := s.forCallers(l, func(arg ssa.Value) string { return s.ctxOrigin(arg, depth-1) }); why != "" {
					bad("%s", why)
				}
			default:
				bad("the ExtraRequestInfo is not read from the context of the request being served but from %s", c12Describe(l))
			}
		}
		return true
	})
	return out
}

// ctxOrigin returns "" when the context value v is computed from nothing but the context
// parameter of an anchor method (directly, through context.With…, or handed down through
// helpers all of whose callers do the same).
func (s *c12State) ctxOrigin(v ssa.Value, depth int) string {
	why := ""
	s.c.Slicer().WithArgs().Walk(v, func(n eng.Node) bool {
		if why != "" {
			return false
		}
		if cc, isCall := n.V.(*ssa.Call); isCall && eng.IsCall(cc, "context.Background", "context.TODO") {
			why = "the context is a fresh root context, not that of the request being served"
			return false
		}
		if _, isLoad := n.V.(*ssa.UnOp); isLoad || c12IsField(n.V) {
			if _, path := eng.AccessPath(n.V); len(path) > 0 {
				if p := c12RootParam(n.V); p != nil {
					why = "the context is read from state kept in " + c12Describe(p) + " (" + eng.PathString(n.V) + "), not from the request being served"
					return false
				}
			}
		}
		if !n.Leaf {
			return true
		}
		switch l := n.V.(type) {
		case *ssa.Global:
			why = "the context derives from " + c12Describe(l)
		case *ssa.Parameter:
			switch {
			case s.anchors[l.Parent()] && eng.TypeName(l.Type()) == "context.Context":
			case c12IsReceiver(l):
			case !s.anchors[l.Parent()] && eng.TypeName(l.Type()) == "context.Context" && depth > 0:
				why = s.forCallers(l, func(arg ssa.Value) string { return s.ctxOrigin(arg, depth-1) })
			default:
				why = "the context is computed from " + c12Describe(l) + ", not from the context of the request being served"
			}
		}
		return true
	})
	return why
}

// c12IsReceiver reports whether p is the receiver of a method.
func c12IsReceiver(p *ssa.Parameter) bool {
	fn := p.Parent()
	return fn != nil && fn.Signature.Recv() != nil && len(fn.Params) > 0 && fn.Params[0] == p
}

func c12IsField(v ssa.Value) bool {
	_, ok := v.(*ssa.Field)
	return ok
}

// c12RootParam returns the parameter a field/element access path is rooted at (nil: the path
// starts at something else, e.g. a call result). A variable captured by a closure is
// followed to the enclosing function when it is a parameter spilled into a cell.
func c12RootParam(v ssa.Value) *ssa.Parameter {
	for i := 0; i < 8; i++ {
		root, _ := eng.AccessPath(v)
		switch r := root.(type) {
		case *ssa.Parameter:
			return r
		case *ssa.FreeVar:
			fn := r.Parent()
			idx := -1
			for k, fv := range fn.FreeVars {
				if fv == r {
					idx = k
				}
			}
			var bound ssa.Value
			n := 0
			if p := fn.Parent(); p != nil && idx >= 0 {
				eng.Instrs(p, func(ins ssa.Instruction) {
					if mc, ok := ins.(*ssa.MakeClosure); ok && mc.Fn == ssa.Value(fn) && idx < len(mc.Bindings) {
						bound = mc.Bindings[idx]
						n++
					}
				})
			}
			if n != 1 || bound == nil {
				return nil
			}
			// the captured cell: a parameter spilled into it (single store) or an outer free variable
			if a, ok := bound.(*ssa.Alloc); ok {
				var val ssa.Value
				stores := 0
				if a.Referrers() != nil {
					for _, ref := range *a.Referrers() {
						if st, isSt := ref.(*ssa.Store); isSt && st.Addr == ssa.Value(a) {
							val = st.Val
							stores++
						}
					}
				}
				if stores != 1 {
					return nil
				}
				v = val
				continue
			}
			v = bound
			continue
		}
		return nil
	}
	return nil
}

// c12OwnFieldLoad reports whether v loads an unexported field of a struct type declared in
// the repository through a pointer that is not a local cell (those are followed by the
// slicer itself); it returns the type ("pkgpath.Type") and the field name. Such a field can
// only be written by direct field stores of its own package, all of which
// eng.StoresToField finds (copies of whole structs copy values that were stored the same way).
func c12OwnFieldLoad(v ssa.Value) (typ, field string, ok bool) {
	ld, isLd := v.(*ssa.UnOp)
	if !isLd || ld.Op != token.MUL {
		return "", "", false
	}
	fa, isFA := ld.X.(*ssa.FieldAddr)
	if !isFA {
		return "", "", false
	}
	for b := fa.X; ; {
		switch n := b.(type) {
		case *ssa.FieldAddr:
			b = n.X
			continue
		case *ssa.Alloc:
			return "", "", false
		}
		break
	}
	t := fa.X.Type()
	if p, isP := t.Underlying().(*types.Pointer); isP {
		t = p.Elem()
	}
	named, isN := t.(*types.Named)
	st, isS := t.Underlying().(*types.Struct)
	if !isN || !isS || named.Obj().Pkg() == nil || !eng.IsRepoPkg(named.Obj().Pkg().Path()) || fa.Field >= st.NumFields() {
		return "", "", false
	}
	f := st.Field(fa.Field)
	if f.Exported() {
		return "", "", false
	}
	return eng.TypeName(named), f.Name(), true
}

// forCallers applies check to the argument bound to parameter p at every call site of p's
// function in the repository; it returns "" when all agree, else the first reason. A
// function without visible call sites, or one that escapes as a value, is refused.
func (s *c12State) forCallers(p *ssa.Parameter, check func(arg ssa.Value) string) string {
	fn := p.Parent()
	idx := -1
	for i, q := range fn.Params {
		if q == p {
			idx = i
		}
	}
	n := 0
	for _, caller := range s.c.W.AllRepoFuncs() {
		for _, ci := range eng.CallsToFn(caller, fn) {
			n++
			if idx < 0 || idx >= len(ci.Common().Args) {
				return "call site of " + eng.FuncName(fn) + " with unexpected arity"
			}
			if why := check(ci.Common().Args[idx]); why != "" {
				return "argument of " + eng.FuncName(fn) + " in " + eng.FuncName(caller) + ": " + why
			}
		}
		escaped := false
		eng.Instrs(caller, func(ins ssa.Instruction) {
			if _, isCall := ins.(ssa.CallInstruction); isCall {
				return
			}
			for _, op := range ins.Operands(nil) {
				if *op == ssa.Value(fn) {
					escaped = true
				}
			}
		})
		if escaped {
			return eng.FuncName(fn) + " escapes as a function value in " + eng.FuncName(caller) + "; its callers cannot be enumerated"
		}
	}
	if n == 0 {
		return "no call site of " + eng.FuncName(fn) + " found"
	}
	return ""
}

// clientOrigin returns "" when the clientset value v is, on every definition reaching it,
// result #1 of ClientFor(host of the current request); a clientset parameter of a helper
// is accepted when all its callers pass such a value.
func (s *c12State) clientOrigin(v ssa.Value, depth int) string {
	leaves := s.c.Slicer().Leaves(v, func(x ssa.Value) bool { return c12ClientForResult(x, 1) != nil })
	if len(leaves) == 0 {
		return "clientset of unknown origin"
	}
	for _, l := range leaves {
		if eng.IsNilConst(l) {
			continue // no client at all (the failure return of a helper): nothing can be sent through it
		}
		if cf := c12ClientForResult(l, 1); cf != nil {
			if f := s.hostOrigin(eng.Args(cf)[0], 4); !f.ok {
				return "clientset of a ClientFor whose argument " + f.why
			}
			continue
		}
		if p, ok := l.(*ssa.Parameter); ok && depth > 0 && !s.anchors[p.Parent()] && eng.TypeName(p.Type()) == c12KubeIface {
			if why := s.forCallers(p, func(arg ssa.Value) string { return s.clientOrigin(arg, depth-1) }); why != "" {
				return why
			}
			continue
		}
		return "clientset comes from " + c12Describe(l)
	}
	return ""
}

// c12Found renders the reason of a failed check.
func c12Found(why string) string {
	if why == "" {
		return ""
	}
	return "; found: " + why
}

// c12FieldBase returns the struct pointer/value a field load selects from.
func c12FieldBase(v ssa.Value) ssa.Value {
	switch n := v.(type) {
	case *ssa.UnOp:
		if fa, ok := n.X.(*ssa.FieldAddr); ok {
			return fa.X
		}
	case *ssa.Field:
		return n.X
	}
	return nil
}

func c12Describe(v ssa.Value) string {
	switch n := v.(type) {
	case *ssa.Const:
		return "constant " + n.String()
	case *ssa.Global:
		return "package variable " + n.Name()
	case *ssa.Parameter:
		return "parameter " + n.Name() + " of " + eng.FuncName(n.Parent())
	case *ssa.Call:
		return "call " + eng.FullName(n)
	case *ssa.Extract:
		if c, ok := n.Tuple.(*ssa.Call); ok {
			return fmt.Sprintf("result #%d of %s", n.Index, eng.FullName(c))
		}
	}
	return fmt.Sprintf("%T %s", v, v.Name())
}

// c12ConstInt resolves an integer constant declared in a dependency (e.g. DecisionDeny).
func c12ConstInt(c *eng.Ctx, pkg, name string) (int64, bool) {
	p, ok := c.W.All[pkg]
	if !ok || p.Types == nil {
		return 0, false
	}
	k, ok := p.Types.Scope().Lookup(name).(*types.Const)
	if !ok || k.Val().Kind() != constant.Int {
		return 0, false
	}
	return constant.Int64Val(k.Val())
}

// c12RetVal returns the value a Return yields in result position i. Functions with defers
// keep their results in locals (`*r = v; rundefers; t = *r; return t`): the value is then
// the last store into that local in the returning block. nil = cannot tell.
func c12RetVal(r *ssa.Return, i int) ssa.Value {
	if i >= len(r.Results) {
		return nil
	}
	v := r.Results[i]
	ld, ok := v.(*ssa.UnOp)
	if !ok || ld.Op != token.MUL {
		return v
	}
	a, ok := ld.X.(*ssa.Alloc)
	if !ok {
		return v
	}
	var last ssa.Value
	for _, ins := range r.Block().Instrs {
		if ins == ssa.Instruction(ld) {
			break
		}
		if st, ok := ins.(*ssa.Store); ok && st.Addr == ssa.Value(a) {
			last = st.Val
		}
	}
	return last
}

// c12Ordinal numbers like constructs inside one function.
type c12Ordinal map[string]int

func (o c12Ordinal) next(fn *ssa.Function, what string) string {
	k := eng.FuncName(fn) + "|" + what
	o[k]++
	return fmt.Sprintf("%s#%d", what, o[k])
}

// ---------------------------------------------------------------------------------------

func c12(c *eng.Ctx) {
	c.Rule("R1", "host keying: in both webhooks every operation on the per-host cache table is keyed by, and every ClientFor is called with, ExtraRequestInfoFrom(ctx).Hostname of the request being served; the authenticator cached for a host is authenticateTokenForHost(that host); the authenticator invoked / the LRU cache consulted / the review status used come only from that host's entry or that host's review; the clientset used is the result of ClientFor(host). Otherwise a token or decision obtained from cluster A answers a request addressed to cluster B", 18)
	c.Rule("R2", "ask first, refuse when the cluster cannot be asked: cache lookups and the delegate/review run only on the err == nil edge of ClientFor(host); every return outside that region is a refusal (nil,false / decisionOnError); an Authorize return carrying an error never allows", 17)
	c.Rule("R3", "decisionOnError is stored only with DecisionDeny; the cache tables are fields of the webhook instance reached through the method receiver, and the webhook packages keep no package-level state", 10)
	c.Rule("R4", "manager.ClientFor returns the clientset of an endpoint picked from the cluster returned by Get(name); EndpointInfo.clientset is built from the endpoint's own proxy config whose Host is that endpoint's address", 14)

	st := &c12State{c: c, anchors: map[*ssa.Function]bool{}, providers: map[*ssa.Function]int{}}
	hooks := []*c12Hook{
		{name: "token", pkg: pkgTokenWH, typ: c12TokenType, anchor: c.MustMethod(pkgTokenWH, "multiClusterTokenReviewAuthenticator", "AuthenticateToken")},
		{name: "authz", pkg: pkgAuthzWH, typ: c12AuthzType, anchor: c.MustMethod(pkgAuthzWH, "MultiClusterSubjectAccessReviewAuthorizer", "Authorize")},
	}
	for _, h := range hooks {
		if h.anchor != nil {
			st.anchors[h.anchor] = true
		}
		h.funcs = c.W.FuncsOf(h.pkg)
		if len(h.funcs) == 0 {
			c.Fail("engine", nil, "unresolved-anchor package "+h.pkg, 0, "no functions found")
		}
	}
	deny, okDeny := c12ConstInt(c, c12PkgAuthzIf, "DecisionDeny")
	if !okDeny {
		c.Fail("engine", nil, "unresolved-anchor const authorizer.DecisionDeny", 0, "constant not found")
	}

	for _, h := range hooks {
		if h.anchor == nil {
			continue
		}
		c12R1(st, h)
		c12R2(st, h, deny)
		c12R3Hook(st, h)
	}
	c12R3Decision(c, deny, okDeny)
	c12R4(c)
}

// ---------------------------------------------------------------------------------------
// R1

func c12R1(st *c12State, h *c12Hook) {
	c := st.c
	ord := c12Ordinal{}
	nKeys, nClientFor := 0, 0
	keyFacts := map[ssa.CallInstruction]c12HostFact{}

	for _, fn := range h.funcs {
		for _, ci := range eng.Calls(fn) {
			// (a) every operation on the per-host cache table is keyed by the request's host
			if op, ok := c12IsCachesOp(ci, h.typ); ok {
				if op == "Range" {
					continue // visits every host; carries no key
				}
				a := eng.Args(ci)
				if len(a) == 0 {
					continue
				}
				nKeys++
				f := st.hostOrigin(a[0], 4)
				keyFacts[ci] = f
				c.Check("R1", fn, ord.next(fn, "caches."+op+" key = request host"), ci.Pos(), f.ok,
					"the key of the per-host cache table must be the host of the request being served, else entries of different clusters share one slot (same token / same attributes answered from another cluster's cache)"+c12Found(f.why))
			}
			// (b) every ClientFor asks for the request's host
			if eng.IsCall(ci, c12ClientFor) {
				nClientFor++
				f := st.hostOrigin(eng.Args(ci)[0], 4)
				c.Check("R1", fn, ord.next(fn, "ClientFor(request host)"), ci.Pos(), f.ok,
					"ClientFor must be asked for the host of the request being served, else the review is sent to another cluster"+c12Found(f.why))
			}
			// (c) every use of a clientset is a use of ClientFor(host)'s result
			if ci.Common().IsInvoke() && eng.TypeName(ci.Common().Value.Type()) == c12KubeIface {
				why := st.clientOrigin(ci.Common().Value, 2)
				c.Check("R1", fn, ord.next(fn, "review client = ClientFor(request host)"), ci.Pos(), why == "",
					"the clientset the review is sent through must be the one ClientFor returned for this request's host"+c12Found(why))
			}
		}
	}
	if nKeys == 0 {
		c.Fail("R1", h.anchor, "caches key = request host", h.anchor.Pos(), "no operation on the per-host cache table found")
	}
	if nClientFor == 0 {
		c.Fail("R1", h.anchor, "ClientFor(request host)", h.anchor.Pos(), "no ClientFor call found")
	}

	// (d) what is stored for a host is created for that host, in this very call
	for _, fn := range h.funcs {
		for _, ci := range eng.Calls(fn) {
			op, ok := c12IsCachesOp(ci, h.typ)
			if !ok || (op != "LoadOrStore" && op != "Store") {
				continue
			}
			val := eng.Args(ci)[1]
			okV, why := true, ""
			fresh := c.Slicer().Leaves(val, nil)
			if len(fresh) == 0 {
				okV, why = false, "stored value of unknown origin"
			}
			for _, l := range fresh {
				if _, isCall := l.(*ssa.Call); !isCall {
					okV, why = false, "stored value comes from "+c12Describe(l)+", not from a constructor call made for this host"
				}
			}
			if h.name == "token" && okV {
				// the cached authenticator wraps the review function bound to the key's host
				n := 0
				for _, l := range c.W.CtxLeavesArgs(val, nil, st.isReviewFunc, eng.LiftDepth, false) {
					if !st.isReviewFunc(l.V) {
						if _, isG := l.V.(*ssa.Global); isG {
							okV, why = false, "cached authenticator derives from "+c12Describe(l.V)
						}
						continue
					}
					n++
					hosts, w := st.reviewHosts(l)
					if w != "" {
						okV, why = false, w
					}
					for _, hv := range hosts {
						f := st.hostOrigin(hv, 4)
						if !f.ok {
							okV, why = false, "the review function's host "+f.why
						} else if kf := keyFacts[ci]; !kf.ok || !f.sameBases(kf) {
							okV, why = false, "the review function is built for a different host value than the cache key"
						}
					}
				}
				if n == 0 && okV {
					okV, why = false, "cached authenticator does not wrap a review function bound to the host (a function that asks ClientFor(host) for its client)"
				}
			}
			c.Check("R1", fn, ord.next(fn, "caches."+op+" value built for the key's host"), ci.Pos(), okV,
				"the entry stored under a host must be created for that host in this call (a shared object would merge the clusters' caches)"+c12Found(why))
		}
	}

	switch h.name {
	case "token":
		// (e) the authenticator that answers is this host's: cache entry or authenticateTokenForHost(host)
		n := 0
		for _, ci := range eng.CallsTo(h.anchor, c12TokenInvoke) {
			n++
			ok, why := true, ""
			stop := func(v ssa.Value) bool { return c12IsCachesLookup(v, h.typ) || st.isReviewFunc(v) }
			leaves := c.W.CtxLeaves(eng.Receiver(ci), nil, stop, eng.LiftDepth, true)
			if len(leaves) == 0 {
				ok, why = false, "authenticator of unknown origin"
			}
			for _, l := range leaves {
				if !stop(l.V) {
					ok, why = false, "authenticator comes from "+c12Describe(l.V)
					continue
				}
				if c12IsCachesLookup(l.V, h.typ) {
					cc, _ := eng.CallResultOf(l.V)
					if f, seen := keyFacts[cc]; !seen || !f.ok {
						ok, why = false, "cache entry looked up under a key that is not the request's host"
					}
					continue
				}
				hosts, w := st.reviewHosts(l)
				if w != "" {
					ok, why = false, w
				}
				for _, hv := range hosts {
					if f := st.hostOrigin(hv, 4); !f.ok {
						ok, why = false, "the review function's host "+f.why
					}
				}
			}
			c.Check("R1", h.anchor, ord.next(h.anchor, "answering authenticator = this host's"), ci.Pos(), ok,
				"the Token authenticator invoked must be the request host's cache entry or authenticateTokenForHost(host)"+c12Found(why))
		}
		if n == 0 {
			c.Fail("R1", h.anchor, "answering authenticator = this host's", h.anchor.Pos(), "no delegate AuthenticateToken call found")
		}
	case "authz":
		// (e) the decision cache consulted is this host's entry
		n := 0
		for _, fn := range h.funcs {
			for _, ci := range eng.Calls(fn) {
				if eng.RecvTypeName(ci) != c12LRUType {
					continue
				}
				n++
				ok, why := true, ""
				// (the cache may be handed to a helper as a parameter: trace it into the call sites)
				leaves := c.Slicer().WithUp().Leaves(eng.Receiver(ci), func(v ssa.Value) bool { return c12IsCachesLookup(v, h.typ) })
				if len(leaves) == 0 {
					ok, why = false, "decision cache of unknown origin"
				}
				for _, l := range leaves {
					if !c12IsCachesLookup(l, h.typ) {
						ok, why = false, "decision cache comes from "+c12Describe(l)
						continue
					}
					cc, _ := eng.CallResultOf(l)
					if f, seen := keyFacts[cc]; !seen || !f.ok {
						ok, why = false, "decision cache looked up under a key that is not the request's host"
					}
				}
				o := eng.CalleeObj(ci)
				c.Check("R1", fn, ord.next(fn, "decision cache."+o.Name()+" on this host's entry"), ci.Pos(), ok,
					"the LRU cache read/written must be the entry of the request's host"+c12Found(why))
			}
		}
		if n == 0 {
			c.Fail("R1", h.anchor, "decision cache on this host's entry", h.anchor.Pos(), "no LRU cache operation found")
		}
		// (f) the status a decision is computed from is this host's cached status or this host's review
		nSt := 0
		for _, s := range eng.StoresToField(h.funcs, c12SARType, "Status") {
			nSt++
			fn := s.Parent()
			ok, why := true, ""
			stop := func(v ssa.Value) bool {
				cc, idx := eng.CallResultOf(v)
				if cc == nil || idx != 0 {
					return false
				}
				return eng.IsCall(cc, c12SARCreate) || (eng.RecvTypeName(cc) == c12LRUType && eng.MethodNameIs(cc, "Get"))
			}
			leaves := c.Slicer().Leaves(s.Val, stop)
			if len(leaves) == 0 {
				ok, why = false, "status of unknown origin"
			}
			for _, l := range leaves {
				if k, isK := l.(*ssa.Const); isK && k.Value == nil {
					continue // the zero status (failure return of a helper) is nobody's decision
				}
				if !stop(l) {
					ok, why = false, "status comes from "+c12Describe(l)
				}
				// the producers themselves are bound to the host by (c) and (e)
			}
			c.Check("R1", fn, ord.next(fn, "review status from this host's cache or review"), s.Pos(), ok,
				"SubjectAccessReview.Status must be the cached status of this host or the answer of the review sent to this host"+c12Found(why))
		}
		if nSt == 0 {
			c.Fail("R1", h.anchor, "review status from this host's cache or review", h.anchor.Pos(), "no store of the review status found")
		}
	}
}

// ---------------------------------------------------------------------------------------
// R2

func c12R2(st *c12State, h *c12Hook, deny int64) {
	c := st.c
	ord := c12Ordinal{}
	sl := c.Slicer()

	// refusalVals decides whether the values of one return statement are a refusal.
	refusalVals := func(r *ssa.Return) (bool, string) {
		all := func(v ssa.Value, stop func(ssa.Value) bool, ok func(ssa.Value) bool) bool {
			if v == nil {
				return false
			}
			ls := sl.Leaves(v, stop)
			for _, l := range ls {
				if !ok(l) {
					return false
				}
			}
			return len(ls) > 0
		}
		switch h.name {
		case "token":
			v0, v1 := c12RetVal(r, 0), c12RetVal(r, 1)
			if all(v0, nil, eng.IsNilConst) && all(v1, nil, func(v ssa.Value) bool { return eng.IsBoolConst(v, false) }) {
				return true, ""
			}
			return false, "returns something else than (nil, false, err)"
		default:
			isOnErr := func(v ssa.Value) bool { return eng.FieldLoadOf(v, h.typ, "decisionOnError") }
			if all(c12RetVal(r, 0), isOnErr, func(v ssa.Value) bool {
				if isOnErr(v) {
					return true
				}
				k, ok := eng.IntConst(v)
				return ok && k == deny
			}) {
				return true, ""
			}
			return false, "returns a decision that is neither decisionOnError nor DecisionDeny"
		}
	}
	// refusal decides a return of an answering function; `return g(…)` with g a repository
	// function of the same result types is decided on the returns of g.
	refusal := func(r *ssa.Return) (bool, string) {
		for _, rr := range c12AnswerReturns(r, 2) {
			if ok, why := refusalVals(rr); !ok {
				return false, why
			}
		}
		return true, ""
	}

	// witnesses(fn): the calls of fn whose error result, when nil, shows that the cluster of the
	// request's host can be asked: ClientFor itself, or a helper that wraps it (c12Provider).
	witnesses := func(fn *ssa.Function) []c12Witness {
		var out []c12Witness
		for _, ci := range eng.Calls(fn) {
			if eng.IsCall(ci, c12ClientFor) {
				out = append(out, c12Witness{ci, 2})
			} else if g := ci.Common().StaticCallee(); g != nil && g != fn {
				if idx, ok := st.provider(g); ok {
					out = append(out, c12Witness{ci, idx})
				}
			}
		}
		return out
	}
	answering := func(fn *ssa.Function) bool {
		return types.Identical(fn.Signature.Results(), h.anchor.Signature.Results())
	}
	// region(fn): the functions the body of fn is spread over, without those that obtain their
	// own client (they are decided on their own ClientFor)
	region := func(fn *ssa.Function) []*ssa.Function {
		all := c.W.Region(fn)
		skip := map[*ssa.Function]bool{}
		for _, g := range all {
			if g != fn && len(eng.CallsTo(g, c12ClientFor)) > 0 {
				for _, x := range c.W.Region(g) {
					skip[x] = true
				}
			}
		}
		var out []*ssa.Function
		for _, g := range all {
			if !skip[g] {
				out = append(out, g)
			}
		}
		return out
	}

	check := func(fn *ssa.Function, consults func(ci ssa.CallInstruction) (string, bool)) {
		ws := witnesses(fn)
		if len(ws) != 1 {
			c.Undecided("R2", fn, "single ClientFor", fn.Pos(), fmt.Sprintf("expected exactly one ClientFor call, found %d: the region in which the cluster is known to be askable cannot be delimited", len(ws)))
			return
		}
		w := ws[0]
		isErr := w.isErr
		for _, g := range region(fn) {
			for _, ci := range eng.Calls(g) {
				what, ok := consults(ci)
				if !ok {
					continue
				}
				guarded := eng.GuardedByNil(ci, isErr, true)
				c.Check("R2", fn, ord.next(fn, what+" only after ClientFor succeeded"), ci.Pos(), guarded,
					"must run only on the err == nil edge of ClientFor(host): when the cluster is unknown or has no ready endpoint nothing may be answered from a cache or a delegate")
			}
		}
		nRef := 0
		eng.Instrs(fn, func(ins ssa.Instruction) {
			r, isRet := ins.(*ssa.Return)
			if !isRet || r.Block() == fn.Recover {
				return
			}
			if eng.GuardedByNil(r, isErr, true) {
				return
			}
			nRef++
			ok, why := refusal(r)
			c.Check("R2", fn, ord.next(fn, "return outside the ClientFor-succeeded region is a refusal"), r.Pos(), ok,
				"a request whose cluster cannot be asked must be unauthenticated / decided by decisionOnError"+c12Found(why))
		})
		if nRef == 0 {
			c.Fail("R2", fn, "return outside the ClientFor-succeeded region is a refusal", fn.Pos(), "the error of ClientFor is never turned into a refusal")
		}
	}

	// the per-request entry point
	check(h.anchor, func(ci ssa.CallInstruction) (string, bool) {
		if op, ok := c12IsCachesOp(ci, h.typ); ok && (op == "Load" || op == "LoadOrStore" || op == "Store") {
			return "caches." + op, true
		}
		if eng.IsCall(ci, c12TokenInvoke) {
			return "delegate AuthenticateToken", true
		}
		if eng.RecvTypeName(ci) == c12LRUType {
			return "decision cache." + eng.CalleeObj(ci).Name(), true
		}
		return "", false
	})
	// closures/helpers that obtain their own client (the token review function): those that
	// answer a request are decided like the entry point; the others must be wrappers of
	// ClientFor whose error result tells whether it succeeded (used as witnesses above)
	for _, fn := range h.funcs {
		if fn == h.anchor || len(eng.CallsTo(fn, c12ClientFor)) == 0 {
			continue
		}
		if !answering(fn) {
			if _, ok := st.provider(fn); !ok {
				c.Undecided("R2", fn, "single ClientFor", fn.Pos(), "the function calls ClientFor but neither answers a request itself nor hands ClientFor's error on to its caller in a result that is nil only when ClientFor succeeded: the region in which the cluster is known to be askable cannot be delimited")
			}
			continue
		}
		check(fn, func(ci ssa.CallInstruction) (string, bool) {
			if ci.Common().IsInvoke() && eng.TypeName(ci.Common().Value.Type()) == c12KubeIface {
				return "review through the client", true
			}
			return "", false
		})
	}

	// an Authorize answer that carries an error never allows
	if h.name == "authz" {
		n := 0
		eng.Instrs(h.anchor, func(ins ssa.Instruction) {
			r, isRet := ins.(*ssa.Return)
			if !isRet || len(r.Results) != 3 || r.Block() == h.anchor.Recover {
				return
			}
			// `return g(…)` is decided on the returns of g that carry an error
			ok, why, withErr := true, "", false
			for _, rr := range c12AnswerReturns(r, 2) {
				if e := c12RetVal(rr, 2); e != nil && eng.IsNilConst(e) {
					continue
				}
				withErr = true
				if o, w := refusalVals(rr); !o {
					ok, why = false, w
				}
			}
			if !withErr {
				return
			}
			n++
			c.Check("R2", h.anchor, ord.next(h.anchor, "error return never allows"), r.Pos(), ok,
				"a return with a (possibly) non-nil error must carry decisionOnError or DecisionDeny"+c12Found(why))
		})
		if n == 0 {
			c.Fail("R2", h.anchor, "error return never allows", h.anchor.Pos(), "no error return found")
		}
	}
}

// ---------------------------------------------------------------------------------------
// R3

func c12R3Hook(st *c12State, h *c12Hook) {
	c := st.c
	ord := c12Ordinal{}
	// the cache tables are reached through the method receiver (instance state)
	for _, fn := range h.funcs {
		for _, ci := range eng.Calls(fn) {
			op, isMap := c12SyncMapOp(ci)
			if !isMap {
				continue
			}
			recv := eng.Receiver(ci)
			ok, why := true, ""
			bases := c12CachesBases(recv, h.typ)
			if len(bases) == 0 {
				ok, why = false, "sync.Map that is not the webhook's own caches field"
			}
			for _, base := range bases {
				// the object is the receiver of the method the table is reached from (for a helper that
				// is handed &a.caches: the receiver of the method that makes the call)
				var outer *ssa.Function
				if ins, isIns := base.(ssa.Instruction); isIns {
					outer = c12Outer(ins.Parent())
				} else if p, isP := base.(*ssa.Parameter); isP {
					outer = c12Outer(p.Parent())
				} else if fv, isFV := base.(*ssa.FreeVar); isFV {
					outer = c12Outer(fv.Parent())
				}
				leaves := c.Slicer().Leaves(base, nil)
				if len(leaves) == 0 || outer == nil {
					ok, why = false, "receiver of unknown origin"
				}
				for _, l := range leaves {
					if outer == nil || outer.Signature.Recv() == nil || len(outer.Params) == 0 || l != ssa.Value(outer.Params[0]) {
						ok, why = false, "table reached through "+c12Describe(l)+" instead of the method receiver"
					}
				}
			}
			c.Check("R3", fn, ord.next(fn, "caches."+op+" on the receiver's own table"), ci.Pos(), ok,
				"the per-host cache table must be the field of the webhook instance serving the call"+c12Found(why))
		}
	}
	// no package-level mutable state in the webhook package
	var globals []string
	for _, fn := range h.funcs {
		if fn.Synthetic != "" {
			continue
		}
		eng.Instrs(fn, func(ins ssa.Instruction) {
			for _, op := range ins.Operands(nil) {
				if g, ok := (*op).(*ssa.Global); ok && g.Pkg != nil && g.Pkg.Pkg.Path() == h.pkg && c12Stateful(g.Type().(*types.Pointer).Elem()) {
					globals = append(globals, g.Name()+" in "+eng.FuncName(fn))
				}
			}
		})
	}
	sort.Strings(globals)
	c.Check("R3", nil, "no package-level state in "+shortName(h.pkg), 0, len(globals) == 0,
		"package variables are shared by every cluster served by the process: "+strings.Join(dedup(globals), ", "))
}

// c12Stateful reports whether a package variable of type t could hold per-request or
// per-cluster state (anything but scalars, strings, errors and functions).
func c12Stateful(t types.Type) bool {
	if eng.TypeName(t) == "error" {
		return false
	}
	switch t.Underlying().(type) {
	case *types.Basic, *types.Signature:
		return false
	}
	return true
}

func c12R3Decision(c *eng.Ctx, deny int64, okDeny bool) {
	ctor := c.W.Func(pkgAuthzWH, "NewMultiClusterSubjectAccessReviewAuthorizer")
	stores := eng.StoresToField(c.W.AllRepoFuncs(), c12AuthzType, "decisionOnError")
	for k, s := range stores {
		v, isInt := eng.IntConst(s.Val)
		c.Check("R3", s.Parent(), fmt.Sprintf("store decisionOnError#%d", k+1), s.Pos(), okDeny && isInt && v == deny,
			"decisionOnError must be DecisionDeny: with NoOpinion/Allow a cluster that cannot be asked lets the request through to the next authorizer or the upstream")
	}
	if len(stores) == 0 {
		c.Fail("R3", ctor, "store decisionOnError", 0, "decisionOnError is never initialised explicitly")
	}
	// the field's address does not escape (no write the scan above cannot see)
	escapes := ""
	for _, fn := range c.W.FuncsOf(pkgAuthzWH) {
		eng.Instrs(fn, func(ins ssa.Instruction) {
			fa, ok := ins.(*ssa.FieldAddr)
			if !ok || !eng.FieldAddrOf(fa, c12AuthzType, "decisionOnError") || fa.Referrers() == nil {
				return
			}
			for _, r := range *fa.Referrers() {
				switch u := r.(type) {
				case *ssa.UnOp:
				case *ssa.Store:
					if u.Addr != ssa.Value(fa) {
						escapes = eng.FuncName(fn)
					}
				case *ssa.DebugRef:
				default:
					escapes = eng.FuncName(fn)
				}
			}
		})
	}
	c.Check("R3", ctor, "decisionOnError written only by direct stores", 0, escapes == "", "address of decisionOnError escapes in "+escapes)
}

// ---------------------------------------------------------------------------------------
// R4

func c12R4(c *eng.Ctx) {
	sl := c.Slicer()
	only := func(v ssa.Value, stop func(ssa.Value) bool) bool {
		ls := sl.Leaves(v, stop)
		if len(ls) == 0 {
			return false
		}
		for _, l := range ls {
			if !stop(l) {
				return false
			}
		}
		return true
	}
	tManager := pkgClusters + ".manager"

	// every declared ClientFor of a ClientProvider implementation
	iface := c.W.Interface(pkgClusters, "ClientProvider")
	if iface == nil {
		c.Fail("engine", nil, "unresolved-anchor interface ClientProvider", 0, "not found")
		return
	}
	nImpl := 0
	for _, named := range c.W.Implementers(iface) {
		cf := c.W.DeclaredMethod(named, "ClientFor")
		if cf == nil || cf.Blocks == nil {
			continue // promoted from an embedded Manager: dispatches to a declared one
		}
		nImpl++
		// Get and PickOne may sit in a helper of ClientFor (`cluster, endpoint, err :=
		// m.readyEndpoint(name)`): they are looked up in the Region, values are related through the
		// helper's results and parameters, guards through the helper's ok / error results.
		var gets, picks []ssa.CallInstruction
		for _, fn := range c.W.Region(cf) {
			gets = append(gets, eng.CallsTo(fn, "(*"+tManager+").Get")...)
			picks = append(picks, eng.CallsTo(fn, "(*"+tClusterInfo+").PickOne")...)
		}
		if len(gets) != 1 || len(picks) != 1 {
			c.Fail("R4", cf, "ClientFor = Get(name).PickOne().Clientset()", cf.Pos(), fmt.Sprintf("expected one Get and one PickOne, found %d and %d", len(gets), len(picks)))
			continue
		}
		get, isGetCall := gets[0].(*ssa.Call)
		pick, isPickCall := picks[0].(*ssa.Call)
		if !isGetCall || !isPickCall {
			c.Fail("R4", cf, "ClientFor = Get(name).PickOne().Clientset()", cf.Pos(), "Get / PickOne run as go or defer")
			continue
		}
		isGet0 := func(v ssa.Value) bool { cc, i := eng.CallResultOf(v); return cc == get && i == 0 }
		isGet1 := func(v ssa.Value) bool { cc, i := eng.CallResultOf(v); return cc == get && i == 1 }
		isPick0 := func(v ssa.Value) bool { cc, i := eng.CallResultOf(v); return cc == pick && i == 0 }
		isPick1 := func(v ssa.Value) bool { cc, i := eng.CallResultOf(v); return cc == pick && i == 1 }
		// onlyDeep: every origin of v (in context fr) satisfies pred — or is nil, the failure result of a helper
		onlyDeep := func(v ssa.Value, fr *eng.DFrame, pred func(ssa.Value) bool) bool {
			n := 0
			for _, l := range c.W.CtxLeaves(v, fr, pred, eng.LiftDepth, true) {
				switch {
				case pred(l.V):
					n++
				case eng.IsNilConst(l.V):
				default:
					return false
				}
			}
			return n > 0
		}
		// holdsDeep: a relation satisfying pred holds whenever ins executes, in every calling
		// context, with ok flags and error results of helpers expanded
		holdsDeep := func(ins ssa.Instruction, pred func(eng.Rel) bool) bool {
			for _, fc := range eng.FactsAtUp(ins, eng.LiftDepth) {
				ok := false
				for _, f := range eng.ExpandResultFacts(fc.Facts, eng.LiftDepth) {
					if pred(eng.Rel{Op: f.Rel.Op, X: f.X(), Y: f.Y()}) {
						ok = true
						break
					}
				}
				if !ok {
					return false
				}
			}
			return true
		}
		isNameParam := func(v ssa.Value) bool { return len(cf.Params) > 1 && v == ssa.Value(cf.Params[1]) }
		okGet := c12ResolvesTo(c.W, eng.Receiver(get), cf.Params[0]) && onlyDeep(eng.Args(get)[0], nil, isNameParam)
		c.Check("R4", cf, "cluster = own Get(name)", get.Pos(), okGet, "the cluster must be looked up in the manager's own table under the requested name")
		okPick := onlyDeep(eng.Receiver(pick), nil, isGet0) && (eng.GuardedByBool(pick, isGet1, true) || holdsDeep(pick, func(r eng.Rel) bool {
			return (r.Op == token.EQL && isGet1(r.X) && eng.IsBoolConst(r.Y, true)) || (r.Op == token.NEQ && isGet1(r.X) && eng.IsBoolConst(r.Y, false))
		}))
		c.Check("R4", cf, "endpoint = PickOne() of that cluster", pick.Pos(), okPick, "the endpoint must be picked from the cluster returned by Get(name), on its found edge; picking from another cluster sends the review across tenants")
		isClientsetCall := func(v ssa.Value) bool {
			cc, _ := eng.CallResultOf(v)
			return cc != nil && eng.IsCall(cc, "(*"+tEndpointInfo+").Clientset")
		}
		nPos, nFail := 0, 0
		eng.Instrs(cf, func(ins ssa.Instruction) {
			r, isRet := ins.(*ssa.Return)
			if !isRet || len(r.Results) != 3 || r.Block() == cf.Recover {
				return
			}
			res := eng.ReturnResults(r)
			okCluster := eng.IsNilConst(res[0]) || onlyDeep(res[0], nil, isGet0)
			if eng.IsNilConst(res[1]) {
				// one obligation per failure outcome (a return that hands on the results of a helper
				// stands for each of the helper's outcomes), numbered in program order
				ls := c.W.CtxLeaves(res[0], nil, isGet0, eng.LiftDepth, true)
				if len(ls) == 0 {
					ls = []eng.CtxVal{{V: res[0]}}
				}
				for _, l := range ls {
					nFail++
					c.Check("R4", cf, fmt.Sprintf("failure return#%d names no other cluster", nFail), r.Pos(), eng.IsNilConst(l.V) || isGet0(l.V), "the cluster result must be nil or the cluster of Get(name)")
				}
				return
			}
			nPos++
			okClient, n := true, 0
			for _, l := range c.W.CtxLeaves(res[1], nil, isClientsetCall, eng.LiftDepth, true) {
				if eng.IsNilConst(l.V) {
					continue
				}
				cc, _ := eng.CallResultOf(l.V)
				if !isClientsetCall(l.V) || !onlyDeep(eng.Receiver(cc), l.Fr, isPick0) {
					okClient = false
					continue
				}
				n++
			}
			okErr := eng.GuardedByNil(r, isPick1, true) || holdsDeep(r, func(rel eng.Rel) bool {
				return rel.Op == token.EQL && ((isPick1(rel.X) && eng.IsNilConst(rel.Y)) || (isPick1(rel.Y) && eng.IsNilConst(rel.X)))
			})
			c.Check("R4", cf, "returned clientset = picked endpoint's Clientset()", r.Pos(), okClient && n > 0 && okCluster && okErr,
				"the clientset returned for a name must be the clientset of the endpoint picked from that cluster (on PickOne's err == nil edge), together with that cluster")
		})
		if nPos == 0 {
			c.Fail("R4", cf, "returned clientset = picked endpoint's Clientset()", cf.Pos(), "ClientFor never returns a clientset")
		}
	}
	if nImpl == 0 {
		c.Fail("R4", nil, "ClientProvider implementation", 0, "no declared ClientFor found")
	}

	// manager.Get reads the manager's own table under (a function of) the name
	if get := c.MustMethod(pkgClusters, "manager", "Get"); get != nil {
		isLoad := func(v ssa.Value) bool {
			cc, i := eng.CallResultOf(v)
			return cc != nil && i == 0 && eng.IsCall(cc, "(*sync.Map).Load") && eng.FieldAddrOf(eng.Receiver(cc), tManager, "clusters")
		}
		n := 0
		eng.Instrs(get, func(ins ssa.Instruction) {
			r, isRet := ins.(*ssa.Return)
			if !isRet || len(r.Results) != 2 || eng.IsNilConst(r.Results[0]) {
				return
			}
			n++
			ok := only(r.Results[0], isLoad)
			for _, l := range sl.Leaves(r.Results[0], isLoad) {
				if cc, _ := eng.CallResultOf(l); cc != nil && isLoad(l) {
					if !sl.WithArgs().WithUp().DerivesFrom(eng.Args(cc)[0], func(v ssa.Value) bool { return v == ssa.Value(get.Params[1]) }) {
						ok = false
					}
				}
			}
			c.Check("R4", get, "Get(name) = clusters.Load(f(name))", r.Pos(), ok, "the cluster returned for a name is the table entry stored under that name")
		})
		if n == 0 {
			c.Fail("R4", get, "Get(name) = clusters.Load(f(name))", get.Pos(), "Get never returns a cluster")
		}
	}

	// PickOne picks among the receiver's own endpoints: every endpoint it can return was loaded
	// from an Endpoints table (origin), and that table is the one of the cluster PickOne was
	// called on (identity) — whether the pick goes through a strategy object bound to the
	// cluster, a function handed the cluster, or helpers that split the work.
	if po := c.MustMethod(pkgClusters, "ClusterInfo", "PickOne"); po != nil {
		isLoad := func(v ssa.Value) bool {
			cc, i := eng.CallResultOf(v)
			return cc != nil && i == 0 && eng.IsCall(cc, "(*"+tEndpointInfoMap+").Load")
		}
		okCluster, okOrigin, nLoads := true, true, 0
		whyCluster, whyOrigin := "", ""
		eng.Instrs(po, func(ins ssa.Instruction) {
			r, isRet := ins.(*ssa.Return)
			if !isRet || len(r.Results) != 2 || r.Block() == po.Recover {
				return
			}
			v := eng.ReturnResults(r)[0]
			for _, l := range c.W.CtxLeaves(v, nil, isLoad, eng.LiftDepth+2, false) {
				switch x := l.V.(type) {
				case *ssa.Const:
					if !x.IsNil() && x.Value != nil {
						okOrigin, whyOrigin = false, "returns "+c12Describe(x)
					}
					continue
				case *ssa.MakeSlice:
					continue // the empty list the ready endpoints are collected in
				}
				if !isLoad(l.V) {
					okOrigin, whyOrigin = false, "an endpoint returned comes from "+c12Describe(l.V)+", not from an Endpoints table"
					continue
				}
				nLoads++
				cc, _ := eng.CallResultOf(l.V)
				table := c.W.ResolveCtx(eng.Receiver(cc), l.Fr, false)
				var owner ssa.Value
				switch {
				case eng.FieldLoadOf(table.V, tClusterInfo, "Endpoints"):
					owner = c12FieldBase(table.V)
				case eng.FieldAddrOf(table.V, tClusterInfo, "Endpoints"):
					owner = table.V.(*ssa.FieldAddr).X
				}
				if owner == nil {
					okCluster, whyCluster = false, "the table read is "+eng.PathString(table.V)+", not the Endpoints field of a cluster"
					continue
				}
				if cl := c.W.ResolveCtx(owner, table.Fr, false); cl.V != ssa.Value(po.Params[0]) || cl.Fr != nil {
					okCluster, whyCluster = false, "the cluster whose endpoints are read is "+c12Describe(cl.V)+", not the receiver"
				}
			}
		})
		// a strategy object built here must be bound to the receiver
		for _, s := range eng.StoresToField(c.W.Region(po), tPickStrategy, "cluster") {
			if v := c.W.ResolveCtx(s.Val, nil, true); v.V != ssa.Value(po.Params[0]) {
				okCluster, whyCluster = false, "the pick strategy is bound to "+c12Describe(v.V)+", not to the receiver"
			}
		}
		c.Check("R4", po, "picker.cluster = receiver", po.Pos(), okCluster && nLoads > 0, "PickOne must pick among the endpoints of the cluster it is called on"+c12Found(whyCluster))
		c.Check("R4", po, "result = that picker's Pop()", po.Pos(), okOrigin && nLoads > 0, "the endpoint returned is one loaded from the Endpoints table of the cluster the pick is bound to (C03.R1 shows how it is chosen among them)"+c12Found(whyOrigin))
	}

	// Clientset() is the endpoint's own field
	if cs := c.MustMethod(pkgClusters, "EndpointInfo", "Clientset"); cs != nil {
		ok := false
		eng.Instrs(cs, func(ins ssa.Instruction) {
			if r, isRet := ins.(*ssa.Return); isRet && len(r.Results) == 1 {
				ok = eng.FieldLoadOf(r.Results[0], tEndpointInfo, "clientset") && c12FieldBase(r.Results[0]) == ssa.Value(cs.Params[0])
			}
		})
		c.Check("R4", cs, "Clientset() = receiver.clientset", cs.Pos(), ok, "")
	}

	// The functions that build an endpoint's clientset and configs are found by what they do
	// (kubernetes.NewForConfig on a copy of an endpoint's proxyConfig; the stores into
	// EndpointInfo.clientset / proxyConfig / Endpoint; the registration in ClusterInfo.Endpoints),
	// not by name: they may be methods, functions taking the fields they need, or helpers
	// returning the objects to their caller.
	isProxyCfgLoad := func(v ssa.Value) bool { return eng.FieldLoadOf(v, tEndpointInfo, "proxyConfig") }
	isNewForConfig := func(v ssa.Value) bool {
		cc, i := eng.CallResultOf(v)
		return cc != nil && i == 0 && eng.IsCall(cc, "k8s.io/client-go/kubernetes.NewForConfig")
	}
	// cfgSource returns the value the config handed to NewForConfig call n (entered through fr) is
	// taken from — the pointer whose pointee is copied into the local config, or the argument itself —
	// resolved into the calling context.
	cfgSource := func(n *ssa.Call, fr *eng.DFrame) (eng.CtxVal, bool) {
		arg := eng.Args(n)[0]
		if cfg, isAlloc := arg.(*ssa.Alloc); isAlloc {
			var src ssa.Value
			k := 0
			for _, r := range *cfg.Referrers() {
				if st, isSt := r.(*ssa.Store); isSt && st.Addr == ssa.Value(cfg) {
					k++
					if ld, isLd := st.Val.(*ssa.UnOp); isLd && ld.Op == token.MUL {
						src = ld.X
					}
				}
			}
			if k != 1 || src == nil {
				return eng.CtxVal{}, false
			}
			return c.W.ResolveCtx(src, fr, true), true
		}
		return c.W.ResolveCtx(arg, fr, true), true
	}

	// clientset is written only with a clientset built from the same endpoint's own proxyConfig
	stores := eng.StoresToField(c.W.AllRepoFuncs(), tEndpointInfo, "clientset")
	for k, s := range stores {
		of := c.W.ResolveCtx(s.Addr.(*ssa.FieldAddr).X, nil, true)
		ok, n := true, 0
		for _, l := range c.W.CtxLeaves(s.Val, nil, isNewForConfig, eng.LiftDepth, true) {
			if eng.IsNilConst(l.V) {
				continue // the failure return of the builder: no clientset at all
			}
			if !isNewForConfig(l.V) {
				ok = false
				continue
			}
			n++
			cc, _ := eng.CallResultOf(l.V)
			src, found := cfgSource(cc, l.Fr)
			if !found || !isProxyCfgLoad(src.V) {
				ok = false
				continue
			}
			if base := c.W.ResolveCtx(c12FieldBase(src.V), src.Fr, true); base.V != of.V {
				ok = false
			}
		}
		c.Check("R4", s.Parent(), fmt.Sprintf("store EndpointInfo.clientset#%d = own createTransport()", k+1), s.Pos(), ok && n > 0, "an endpoint's clientset must be the one built (kubernetes.NewForConfig) from the proxyConfig of the same endpoint")
	}
	if len(stores) == 0 {
		c.Fail("R4", nil, "store EndpointInfo.clientset", 0, "the clientset is never set")
	}

	// the clientset is built from a copy of an endpoint's proxyConfig, Host untouched
	{
		n := 0
		ord := map[*ssa.Function]int{}
		for _, fn := range c.W.FuncsOf(pkgClusters) {
			for _, ci := range eng.CallsTo(fn, "k8s.io/client-go/kubernetes.NewForConfig") {
				cc, isCall := ci.(*ssa.Call)
				if !isCall {
					continue
				}
				n++
				ord[fn]++
				// in every calling context the source is the proxyConfig of the endpoint the function works on
				isSrc := func(v ssa.Value) bool {
					vs := c.W.UpVals(v)
					for _, u := range vs {
						if !isProxyCfgLoad(u) {
							return false
						}
						if _, isParam := c.W.ResolveCtx(c12FieldBase(u), nil, true).V.(*ssa.Parameter); !isParam {
							return false
						}
					}
					return len(vs) > 0
				}
				ok, why := false, ""
				if cfg, isAlloc := eng.Args(cc)[0].(*ssa.Alloc); isAlloc {
					ok, why = c12ConfigCopyOf(cfg, isSrc)
				} else {
					ok, why = isSrc(eng.Args(cc)[0]), "clientset config is not the endpoint's proxyConfig"
				}
				construct := "clientset config = copy of own proxyConfig, Host kept"
				if ord[fn] > 1 {
					construct += fmt.Sprintf("#%d", ord[fn])
				}
				c.Check("R4", fn, construct, cc.Pos(), ok, "the clientset must talk to the endpoint's own address (rest.Config.Host of its proxyConfig)"+c12Found(why))
			}
		}
		if n == 0 {
			c.Fail("R4", nil, "clientset config = copy of own proxyConfig, Host kept", 0, "no clientset is ever built in pkg/clusters")
		}
	}

	// the endpoint's proxyConfig.Host, its Endpoint field and its key in the cluster's map are one value
	au := c02EndpointAdder(c)
	if au != nil && len(au.Params) > 1 {
		endpoint := ssa.Value(au.Params[1])
		auRegion := c.W.Region(au)
		isEndpoint := func(v ssa.Value) bool { return c12ResolvesTo(c.W, v, endpoint) }
		isCfgAlloc := func(v ssa.Value) bool {
			a, ok := v.(*ssa.Alloc)
			return ok && eng.TypeName(a.Type().(*types.Pointer).Elem()) == c12RestConfig
		}
		isInfoAlloc := func(v ssa.Value) bool {
			a, ok := v.(*ssa.Alloc)
			return ok && eng.TypeName(a.Type().(*types.Pointer).Elem()) == tEndpointInfo
		}
		at := func(fn *ssa.Function) (*ssa.Function, bool) {
			if c.W.OwnedBy(fn, au) {
				return au, true
			}
			return fn, false
		}
		// objectsOf: the local objects pointer value v may denote (through helper results and parameters)
		objectsOf := func(v ssa.Value, is func(ssa.Value) bool) (map[ssa.Value]bool, bool) {
			out := map[ssa.Value]bool{}
			for _, l := range c.W.CtxLeaves(v, nil, is, eng.LiftDepth, true) {
				if eng.IsNilConst(l.V) {
					continue
				}
				if !is(l.V) {
					return nil, false
				}
				out[l.V] = true
			}
			return out, len(out) > 0
		}
		infoAllocs := map[ssa.Value]bool{}
		pcs := eng.StoresToField(c.W.AllRepoFuncs(), tEndpointInfo, "proxyConfig")
		for k, s := range pcs {
			fn, owned := at(s.Parent())
			ok, why := owned, "proxyConfig written outside addOrUpdateEndpoint"
			if ok {
				if infos, found := objectsOf(s.Addr.(*ssa.FieldAddr).X, isInfoAlloc); found {
					for i := range infos {
						infoAllocs[i] = true
					}
				}
				cfgs, found := objectsOf(s.Val, isCfgAlloc)
				if !found {
					ok, why = false, "proxyConfig is not a config built here"
				}
				for cfg := range cfgs {
					hosts := 0
					for _, hs := range eng.StoresToField(auRegion, c12RestConfig, "Host") {
						bases, _ := objectsOf(hs.Addr.(*ssa.FieldAddr).X, isCfgAlloc)
						if !bases[cfg] {
							continue
						}
						hosts++
						if !isEndpoint(hs.Val) {
							ok, why = false, "Host of the endpoint's config is not the endpoint address"
						}
					}
					if hosts == 0 {
						ok, why = false, "Host of the endpoint's config is never set to the endpoint address"
					}
				}
			}
			if ok {
				why = ""
			}
			c.Check("R4", fn, fmt.Sprintf("store EndpointInfo.proxyConfig#%d has Host = endpoint", k+1), s.Pos(), ok,
				"the config an endpoint's transports and clientset are built from must point at that endpoint"+c12Found(why))
		}
		if len(pcs) == 0 {
			c.Fail("R4", au, "store EndpointInfo.proxyConfig has Host = endpoint", au.Pos(), "proxyConfig is never set")
		}
		eps := eng.StoresToField(c.W.AllRepoFuncs(), tEndpointInfo, "Endpoint")
		for k, s := range eps {
			fn, owned := at(s.Parent())
			infos, found := objectsOf(s.Addr.(*ssa.FieldAddr).X, isInfoAlloc)
			ok := owned && isEndpoint(s.Val) && found
			for i := range infos {
				ok = ok && infoAllocs[i]
			}
			c.Check("R4", fn, fmt.Sprintf("store EndpointInfo.Endpoint#%d = endpoint", k+1), s.Pos(), ok, "the endpoint's name must be the address its config points to")
		}
		if len(eps) == 0 {
			c.Fail("R4", au, "store EndpointInfo.Endpoint = endpoint", au.Pos(), "Endpoint is never set")
		}
		nSt := 0
		for _, fn := range auRegion {
			for _, ci := range eng.CallsTo(fn, "(*"+tEndpointInfoMap+").Store") {
				nSt++
				a := eng.Args(ci)
				ok := len(a) == 2 && isEndpoint(a[0]) && eng.FieldLoadOf(eng.Receiver(ci), tClusterInfo, "Endpoints") &&
					c12ResolvesTo(c.W, c12FieldBase(eng.Receiver(ci)), au.Params[0])
				if ok {
					infos, found := objectsOf(a[1], isInfoAlloc)
					ok = found
					for i := range infos {
						ok = ok && infoAllocs[i]
					}
				}
				c.Check("R4", au, fmt.Sprintf("Endpoints.Store(endpoint, info)#%d", nSt), ci.Pos(), ok, "the endpoint must be registered in its own cluster's map under its own address")
			}
		}
		if nSt == 0 {
			c.Fail("R4", au, "Endpoints.Store(endpoint, info)", au.Pos(), "the new endpoint is never registered")
		}
		// no other write of rest.Config.Host in pkg/clusters
		for _, s := range eng.StoresToField(c.W.FuncsOf(pkgClusters), c12RestConfig, "Host") {
			if !c.W.OwnedBy(s.Parent(), au) {
				c.Fail("R4", s.Parent(), "store rest.Config.Host outside addOrUpdateEndpoint", s.Pos(), "a second writer of Host can redirect an endpoint's clientset")
			}
		}
	}
}

// c12ResolvesTo reports whether v is target in every calling context: v itself (through
// conversions and single-store spills), or a parameter of an extracted helper that every call
// site binds to such a value (depth ≤ LiftDepth). The search stops at target, which may itself
// be a parameter of a helper.
func c12ResolvesTo(w *eng.World, v, target ssa.Value) bool {
	var rec func(v ssa.Value, depth int) bool
	rec = func(v ssa.Value, depth int) bool {
		for i := 0; i < 8; i++ {
			if v == target {
				return true
			}
			switch n := v.(type) {
			case *ssa.ChangeType:
				v = n.X
				continue
			case *ssa.UnOp:
				if a, ok := n.X.(*ssa.Alloc); ok && n.Op == token.MUL {
					if sv := eng.SingleStoreOf(a); sv != nil {
						v = sv
						continue
					}
				}
			}
			break
		}
		p, ok := v.(*ssa.Parameter)
		if !ok || depth <= 0 {
			return false
		}
		ups := w.UpArgSites(p)
		for _, u := range ups {
			if !rec(u.Arg, depth-1) {
				return false
			}
		}
		return len(ups) > 0
	}
	return rec(v, eng.LiftDepth)
}

// c12ConfigCopyOf reports whether the local rest.Config `cfg` is initialised by exactly one
// whole-struct store of *src (src identified by isSrc) and its Host field is never written.
func c12ConfigCopyOf(cfg *ssa.Alloc, isSrc func(ssa.Value) bool) (bool, string) {
	whole := 0
	ok := true
	why := ""
	if cfg.Referrers() == nil {
		return false, "config is never initialised"
	}
	for _, r := range *cfg.Referrers() {
		switch u := r.(type) {
		case *ssa.Store:
			if u.Addr != ssa.Value(cfg) {
				continue
			}
			whole++
			ld, isLoad := u.Val.(*ssa.UnOp)
			if !isLoad || ld.Op != token.MUL || !isSrc(ld.X) {
				ok, why = false, "clientset config is not a copy of the endpoint's proxyConfig"
			}
		case *ssa.FieldAddr:
			if eng.FieldAddrOf(u, c12RestConfig, "Host") && u.Referrers() != nil {
				for _, rr := range *u.Referrers() {
					if st, isSt := rr.(*ssa.Store); isSt && st.Addr == ssa.Value(u) {
						ok, why = false, "Host of the clientset config is overwritten"
					}
				}
			}
		}
	}
	if whole != 1 && ok {
		return false, fmt.Sprintf("clientset config initialised %d times", whole)
	}
	return ok, why
}
