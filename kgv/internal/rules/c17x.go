package rules

import (
	"fmt"
	"go/token"

	"golang.org/x/tools/go/ssa"

	"kgv/internal/eng"
)

func init() { RegisterExtra("C17", c17StarAnywhere) }

// c17StarAnywhere (C17.R4): admission rewrites a list that contains the match-all entry ANYWHERE
// to the single entry "*". For the stored rule to match what the submitted rule matched, the
// matcher must recognise the match-all entry at any position as well: every comparison of a
// list entry with the match-all constant in a matcher classifier reads the entry at a
// loop-varying index of the list (an element of a loop over the whole list), never at a
// constant position such as rules[0]. With "head only", the submitted ["get","*"] matches get
// alone while the stored ["*"] matches everything.
func c17StarAnywhere(c *eng.Ctx) {
	c.Rule("R4", "match-all is recognised at any position: in every classifier of package v1alpha1 the entry compared with the match-all constant is read at a loop-varying index of the list, not at a constant index", 1)
	n := 0
	for _, fn := range c.W.FuncsOf(pkgV1alpha1) {
		for _, p := range fn.Params {
			if !c17IsStringSlice(p.Type()) {
				continue
			}
			k := c17Classify(c.W, fn, p, c.Depth)
			if k == nil || len(k.stars) == 0 || len(k.dashes) == 0 {
				continue
			}
			for i, t := range k.stars {
				// the entry compared: t.subj (or an operand of the comparison) as an element of the parameter
				var elem *ssa.IndexAddr
				for _, v := range []ssa.Value{t.subj, t.val} {
					if elem != nil || v == nil {
						continue
					}
					eng.NewOriginWalk(v, func(x ssa.Value) bool {
						if ld, ok := x.(*ssa.UnOp); ok && ld.Op == token.MUL {
							if ia, ok := ld.X.(*ssa.IndexAddr); ok && ia.X == ssa.Value(p) {
								elem = ia
								return false
							}
						}
						return true
					})
				}
				if elem == nil {
					continue // compared inside a helper on its own parameter: the call site's entry is judged by R3
				}
				n++
				_, isConst := eng.IntConst(elem.Index)
				ok := !isConst && eng.InLoop(elem.Block())
				c.Check("R4", fn, fmt.Sprintf("match-all test#%d reads a loop-varying entry", i+1), elem.Pos(), ok,
					"the entry compared with the match-all constant is read at a fixed position: a list holding \"*\" elsewhere is read differently by the matcher than by admission, which collapses it to [\"*\"]")
			}
		}
	}
	if n == 0 {
		c.Fail("R4", nil, "match-all tests of the matcher classifiers", 0, "no comparison of a list entry with the match-all constant found in a classifier of package v1alpha1")
	}
}
