package rules

import (
	"fmt"
	"go/token"
	"strings"

	"golang.org/x/tools/go/ssa"

	"kgv/internal/eng"
)

// c09Extra holds the C09 rules added after the second seeded round.
func c09Extra(c *eng.Ctx) {
	c.Rule("R5", "a recorded grant is applied: every write of maxInflightWrapper.acquiredMaxInflight (store, swap, add, compare-and-swap) lies on paths that all pass a Resize of the wrapped limiter — the remembered grant never runs ahead of the limiter, so a grant repeated after a failure takes effect again", 2)
	c.Rule("R6", "readiness is raised only on evidence: setLeaderStatus receives true only as the outcome of a heartbeat answered 200 without error, or on the edge where discovery reports a different leader for the shard; nothing else resets the not-ready hysteresis", 2)

	// ---- R5
	isAcq := func(v ssa.Value) bool { return eng.FieldAddrOf(v, tMaxInflightW, "acquiredMaxInflight") }
	isResize := func(i ssa.Instruction) bool {
		ci, ok := i.(ssa.CallInstruction)
		return ok && eng.MethodNameIs(ci, "Resize")
	}
	n := 0
	for _, fn := range c.W.FuncsOf(pkgFCRemote) {
		if fn.Name() == "init" {
			continue
		}
		var writes []ssa.Instruction
		eng.Instrs(fn, func(ins ssa.Instruction) {
			switch x := ins.(type) {
			case *ssa.Store:
				if isAcq(x.Addr) {
					writes = append(writes, ins)
				}
			case *ssa.Call:
				o := eng.CalleeObj(x)
				if o == nil || o.Pkg() == nil || o.Pkg().Path() != "sync/atomic" {
					return
				}
				nm := o.Name()
				if !(strings.HasPrefix(nm, "Store") || strings.HasPrefix(nm, "Swap") || strings.HasPrefix(nm, "Add") || strings.HasPrefix(nm, "CompareAndSwap")) {
					return
				}
				if a := eng.Args(x); len(a) > 0 && isAcq(a[0]) {
					writes = append(writes, ins)
				}
			}
		})
		for _, w := range writes {
			if fn.Signature.Recv() == nil && strings.HasPrefix(fn.Name(), "new") {
				continue // constructor initialisation
			}
			n++
			ok := eng.AlwaysAfter(w, isResize) || eng.AlwaysBefore(fn, w, isResize)
			c.Check("R5", fn, fmt.Sprintf("grant write#%d ⇒ Resize on every path", n), w.Pos(), ok,
				"the acquired limit is recorded on a path that does not resize the limiter: after a fallback (or a configuration change) resized the limiter without touching the record, the same grant is considered 'unchanged' and the server's quota never takes effect again")
		}
	}
	if n == 0 {
		c.Fail("R5", nil, "writes of acquiredMaxInflight", 0, "no write of the remembered grant found")
	}

	// ---- R6
	sls := c.MustMethod(pkgClientsets, "clientSets", "setLeaderStatus")
	if sls == nil {
		return
	}
	k := 0
	for _, fn := range c.W.FuncsOf(pkgClientsets) {
		for _, ci := range eng.CallsToFn(fn, sls) {
			a := eng.Args(ci)
			if len(a) != 3 {
				continue
			}
			k++
			construct := fmt.Sprintf("setLeaderStatus#%d: true only on evidence", k)
			leaderChanged := func(r eng.Rel) bool {
				if r.Op != token.NEQ {
					return false
				}
				isLeader := func(v ssa.Value) bool {
					_, path := eng.AccessPath(v)
					return len(path) > 0 && path[len(path)-1] == "Leader"
				}
				return isLeader(r.X) || isLeader(r.Y)
			}
			heartbeatOK := func(at ssa.Instruction) bool {
				is200 := eng.GuardedBy(at, func(r eng.Rel) bool {
					if r.Op != token.EQL {
						return false
					}
					kx, okx := eng.IntConst(r.X)
					ky, oky := eng.IntConst(r.Y)
					return (okx && kx == 200) || (oky && ky == 200)
				})
				noErr := eng.GuardedByNil(at, func(v ssa.Value) bool {
					cc, i := eng.CallResultOf(v)
					return cc != nil && i == 1 && eng.MethodNameIs(cc, "Raw")
				}, true)
				return is200 && noErr
			}
			switch v := a[2].(type) {
			case *ssa.Const:
				if eng.IsBoolConst(v, false) {
					c.Pass("R6", fn, construct, ci.Pos(), "")
					continue
				}
				c.Check("R6", fn, construct, ci.Pos(), eng.GuardedBy(ci.(ssa.Instruction), leaderChanged),
					"a constant true reaches setLeaderStatus outside the leader-changed edge: every discovery round marks the shard ready and restarts the not-ready hysteresis, so a leader that fails its heartbeats keeps serving stale quotas")
			case *ssa.Phi:
				ok := true
				for i, e := range v.Edges {
					if eng.IsBoolConst(e, false) {
						continue
					}
					if !eng.IsBoolConst(e, true) {
						ok = false
						continue
					}
					pred := v.Block().Preds[i]
					if !heartbeatOK(pred.Instrs[len(pred.Instrs)-1]) {
						ok = false
					}
				}
				c.Check("R6", fn, construct, ci.Pos(), ok, "the ready flag may be true only on the edge 'heartbeat returned no error and status 200'")
			default:
				// a cell written in branches (captured variable): every store of true must sit on the evidence edge
				ok := false
				if ld, isLd := v.(*ssa.UnOp); isLd && ld.Op == token.MUL {
					if al, isAl := ld.X.(*ssa.Alloc); isAl && al.Referrers() != nil {
						ok = true
						for _, r := range *al.Referrers() {
							if st, isSt := r.(*ssa.Store); isSt && st.Addr == ssa.Value(al) {
								if eng.IsBoolConst(st.Val, false) {
									continue
								}
								if !eng.IsBoolConst(st.Val, true) || !heartbeatOK(st) {
									ok = false
								}
							}
						}
					}
				}
				c.Check("R6", fn, construct, ci.Pos(), ok, "the ready flag may be true only on the edge 'heartbeat returned no error and status 200'")
			}
		}
	}
	if k == 0 {
		c.Fail("R6", sls, "call sites of setLeaderStatus", sls.Pos(), "none found")
	}
}
