package rules

import (
	"fmt"
	"go/token"
	"strings"

	"golang.org/x/tools/go/ssa"

	"kgv/internal/eng"
)

// c09Extra holds the C09 rules added after the second seeded round.
func c09Extra(c *eng.Ctx) {
	c.Rule("R5", "a recorded grant is applied: every write of maxInflightWrapper.acquiredMaxInflight (store, swap, add, compare-and-swap) lies on paths that all pass a Resize of the wrapped limiter — the remembered grant never runs ahead of the limiter, so a grant repeated after a failure takes effect again", 1)
	c.Rule("R6", "readiness is raised only on evidence: setLeaderStatus receives true only as the outcome of a heartbeat answered 200 without error, or on the edge where discovery reports a different leader for the shard; nothing else resets the not-ready hysteresis", 2)

	// ---- R5
	isAcq := func(v ssa.Value) bool { return eng.FieldAddrOf(v, tMaxInflightW, "acquiredMaxInflight") }
	isResize := func(i ssa.Instruction) bool {
		ci, ok := i.(ssa.CallInstruction)
		return ok && eng.MethodNameIs(ci, "Resize")
	}
	n := 0
	for _, fn := range c.W.FuncsOf(pkgFCRemote) {
		if fn.Name() == "init" {
			continue
		}
		var writes []ssa.Instruction
		eng.Instrs(fn, func(ins ssa.Instruction) {
			switch x := ins.(type) {
			case *ssa.Store:
				if isAcq(x.Addr) {
					writes = append(writes, ins)
				}
			case *ssa.Call:
				o := eng.CalleeObj(x)
				if o == nil || o.Pkg() == nil || o.Pkg().Path() != "sync/atomic" {
					return
				}
				nm := o.Name()
				if !(strings.HasPrefix(nm, "Store") || strings.HasPrefix(nm, "Swap") || strings.HasPrefix(nm, "Add") || strings.HasPrefix(nm, "CompareAndSwap")) {
					return
				}
				if a := eng.Args(x); len(a) > 0 && isAcq(a[0]) {
					writes = append(writes, ins)
				}
			}
		})
		for _, w := range writes {
			if c09FreshTarget(w) {
				continue // initialisation of a wrapper this function has just allocated (constructor)
			}
			n++
			ok := eng.AlwaysAfter(w, isResize) || eng.AlwaysBefore(fn, w, isResize)
			c.Check("R5", fn, fmt.Sprintf("grant write#%d ⇒ Resize on every path", n), w.Pos(), ok,
				"the acquired limit is recorded on a path that does not resize the limiter: after a fallback (or a configuration change) resized the limiter without touching the record, the same grant is considered 'unchanged' and the server's quota never takes effect again")
		}
	}
	if n == 0 {
		c.Fail("R5", nil, "writes of acquiredMaxInflight", 0, "no write of the remembered grant found")
	}

	// ---- R6
	// setLeaderStatus, by name or — renamed / converted — by role: the function of the package
	// that records a boolean parameter as the ready flag of a shard's heartbeat status
	flagIdx := 3 // position of the flag among the parameters (receiver included)
	sls := roleAnchor(c, c.W.Method(pkgClientsets, "clientSets", "setLeaderStatus"), "method ("+pkgClientsets+".clientSets).setLeaderStatus", func() []*ssa.Function {
		var cs []*ssa.Function
		for _, st := range eng.StoresToField(c.W.FuncsOf(pkgClientsets), pkgClientsets+".heartbeatStatus", "ready") {
			p, isP := st.Val.(*ssa.Parameter)
			if !isP || p.Parent() != st.Parent() || p.Parent().Parent() != nil {
				continue
			}
			dup := false
			for _, f := range cs {
				dup = dup || f == p.Parent()
			}
			if !dup {
				cs = append(cs, p.Parent())
				flagIdx = eng.ParamIndex(p)
			}
		}
		return cs
	})
	if sls == nil {
		return
	}
	// The flag handed to setLeaderStatus may be true only when that is implied by evidence:
	// (heartbeat status 200 ∧ no transport error) or (discovery reports a different leader).
	// "v is true ⇒ FACT" is decided structurally (boolFact): through phis of flag variables,
	// named conditions, negations, cells written in branches, and predicate helpers returning
	// the flag (every return that can yield true must carry the fact in its guards); a constant
	// true must sit at a call site guarded by the fact (lifted through helper call sites); a
	// parameter of a helper is judged at every call site of the helper.
	is200 := func(r eng.Rel, _ *callBind) bool {
		if r.Op != token.EQL {
			return false
		}
		kx, okx := eng.IntConst(r.X)
		ky, oky := eng.IntConst(r.Y)
		return (okx && kx == 200) || (oky && ky == 200)
	}
	noErr := func(r eng.Rel, _ *callBind) bool {
		if r.Op != token.EQL {
			return false
		}
		isRawErr := func(v ssa.Value) bool {
			cc, i := eng.CallResultOf(v)
			return cc != nil && i == 1 && eng.MethodNameIs(cc, "Raw")
		}
		return (eng.IsNilConst(r.Y) && isRawErr(r.X)) || (eng.IsNilConst(r.X) && isRawErr(r.Y))
	}
	leaderChanged := func(r eng.Rel, _ *callBind) bool {
		if r.Op != token.NEQ {
			return false
		}
		isLeader := func(v ssa.Value) bool {
			// the reported leader, read from the endpoint directly or handed to a helper as a parameter
			for i := 0; i < 4 && v != nil; i++ {
				if _, path := eng.AccessPath(v); len(path) > 0 && path[len(path)-1] == "Leader" {
					return true
				}
				p, isParam := v.(*ssa.Parameter)
				if !isParam {
					return false
				}
				args := eng.UpArgs(p)
				if len(args) == 0 {
					return false
				}
				for _, a := range args[1:] {
					if _, path := eng.AccessPath(a); !(len(path) > 0 && path[len(path)-1] == "Leader") {
						return false
					}
				}
				v = args[0]
			}
			return false
		}
		return isLeader(r.X) || isLeader(r.Y)
	}
	var trueOnlyOn func(v ssa.Value, at ssa.Instruction, depth int) bool
	trueOnlyOn = func(v ssa.Value, at ssa.Instruction, depth int) bool {
		holds := func(atom func(eng.Rel, *callBind) bool) bool {
			f := &boolFact{w: c.W, atom: atom}
			if f.implies(v, true, nil, map[ssa.Value]bool{}, eng.LiftDepth) {
				return true
			}
			return eng.GuardedBy(at, func(r eng.Rel) bool { return atom(r, nil) })
		}
		if (holds(is200) && holds(noErr)) || holds(leaderChanged) {
			return true
		}
		// the flag is handed down through a helper: every call site must supply evidence
		if p, isP := v.(*ssa.Parameter); isP && depth > 0 {
			ups := c.W.UpArgSites(p)
			if len(ups) == 0 {
				return false
			}
			for _, u := range ups {
				if !trueOnlyOn(u.Arg, u.Site, depth-1) {
					return false
				}
			}
			return true
		}
		return false
	}
	// the sources of the flag: the call sites of the recording function; where a site merely
	// hands on a parameter of a helper whose callers are all known, the call sites of that helper
	// instead (so splitting the recording function into layers keeps one obligation per source)
	type flagSite struct {
		call ssa.CallInstruction
		arg  ssa.Value
	}
	var sources func(f *ssa.Function, idx, depth int) []flagSite
	sources = func(f *ssa.Function, idx, depth int) []flagSite {
		var out []flagSite
		for _, fn := range c.W.FuncsOf(pkgClientsets) {
			for _, ci := range eng.CallsToFn(fn, f) {
				args := ci.Common().Args
				if idx < 0 || idx >= len(args) {
					continue
				}
				if p, isP := args[idx].(*ssa.Parameter); isP && depth > 0 && len(c.W.LiftSites(p.Parent())) > 0 {
					out = append(out, sources(p.Parent(), eng.ParamIndex(p), depth-1)...)
					continue
				}
				out = append(out, flagSite{ci, args[idx]})
			}
		}
		return out
	}
	k := 0
	for _, src := range sources(sls, flagIdx, eng.LiftDepth) {
		k++
		construct := fmt.Sprintf("setLeaderStatus#%d: true only on evidence", k)
		c.Check("R6", src.call.Parent(), construct, src.call.Pos(), trueOnlyOn(src.arg, src.call, eng.LiftDepth),
			"the ready flag may be true only on the edge 'heartbeat returned no error and status 200' or on the edge where discovery reports a different leader: otherwise every round marks the shard ready and restarts the not-ready hysteresis, so a leader that fails its heartbeats keeps serving stale quotas")
	}
	if k == 0 {
		c.Fail("R6", sls, "call sites of setLeaderStatus", sls.Pos(), "none found")
	}
}

// c09FreshTarget reports whether the write w (a Store, or an atomic call taking the address as
// its first argument) targets a field of an object allocated by the very function it sits in.
func c09FreshTarget(w ssa.Instruction) bool {
	var addr ssa.Value
	switch x := w.(type) {
	case *ssa.Store:
		addr = x.Addr
	case *ssa.Call:
		if a := eng.Args(x); len(a) > 0 {
			addr = a[0]
		}
	}
	fa, ok := addr.(*ssa.FieldAddr)
	if !ok {
		return false
	}
	al, isAl := fa.X.(*ssa.Alloc)
	return isAl && al.Parent() == w.Parent()
}
