package rules

// C13 — Sharding: one shard per upstream on both sides; only its leader serves it.
//
// R1  util.GetShardID is pure and returns int(fnv32a(name) % uint32(count)).
// R2  every shard id reaching IsLeader / getLimitStoreForShard / the k8s store's shard
//     comparison / the gateway's leader tables is computed by GetShardID(name, count), and
//     count is the one configured ShardingCount on both sides.
// R3  leader guard with key agreement at the four mutating entry points of the limiter.
// R4  stopLeading drops the shard's store before stopping it; the k8s store refuses to save
//     and skips loading conditions of other shards (c13ShardFilter, shared with C19.R5).
//
// The helpers of this file (c13Path, c13Returned, c13CutNilEdges, c13ContainsCall, …) are
// also used by c19.go.

import (
	"fmt"
	"go/token"
	"go/types"
	"strings"

	"golang.org/x/tools/go/ssa"

	"kgv/internal/eng"
)

func init() {
	Register("C13", c13)
	RegisterFixture("C13", c13Fixtures)
}

const (
	c13PkgOptions = mod + "/pkg/ratelimiter/options"
	c13PkgStore   = mod + "/pkg/ratelimiter/store"

	c13GetShardID = pkgRLUtil + ".GetShardID"
	c13IsLeader   = "(" + pkgElector + ".LeaderElector).IsLeader"
	c13GetLeaders = "(" + pkgElector + ".LeaderElector).GetLeaders"

	c13TRateLimiter = pkgLimiter + ".rateLimiter"
	c13TObjectStore = pkgRLStoreK8s + ".objectStore"
	c13TServerInfo  = pkgV1alpha1 + ".RateLimitServerInfo"
	c13TCallbacks   = pkgElector + ".LeaderCallbacks"
	c13TOptions     = c13PkgOptions + ".RateLimitOptions"

	// typed client of the RateLimitCondition resource (the API-backed store's persistence)
	c13CondIface = "(" + mod + "/pkg/client/kubernetes/typed/proxy/v1alpha1.RateLimitConditionInterface)"

	c13NamePath = "Spec.UpstreamCluster" // field path of the upstream name inside a RateLimitCondition
)

// ---------------------------------------------------------------------------------------
// Generic helpers (value identity through cells and closures, returns, edges)

func c13FieldName(t types.Type, i int) string {
	if p, ok := t.Underlying().(*types.Pointer); ok {
		t = p.Elem()
	}
	if st, ok := t.Underlying().(*types.Struct); ok && i < st.NumFields() {
		return st.Field(i).Name()
	}
	return "?"
}

// c13ReadOnlyAddr reports whether a derived address (field/element of a cell) is only read.
func c13ReadOnlyAddr(addr ssa.Value, depth int) bool {
	if addr.Referrers() == nil {
		return true
	}
	if depth > 6 {
		return false
	}
	for _, r := range *addr.Referrers() {
		switch u := r.(type) {
		case *ssa.DebugRef:
		case *ssa.UnOp:
			if u.Op != token.MUL {
				return false
			}
		case *ssa.FieldAddr:
			if !c13ReadOnlyAddr(u, depth+1) {
				return false
			}
		case *ssa.IndexAddr:
			if !c13ReadOnlyAddr(u, depth+1) {
				return false
			}
		default:
			return false // stored through, passed to a call, converted …
		}
	}
	return true
}

// c13SingleStore returns the only value ever stored into cell a (a local or heap variable,
// possibly captured by closures that only read it); nil when the cell is written more than
// once, partially, from a closure, or when its address escapes.
func c13SingleStore(a *ssa.Alloc) ssa.Value {
	var val ssa.Value
	n := 0
	var scan func(addr ssa.Value, depth int) bool
	scan = func(addr ssa.Value, depth int) bool {
		if addr.Referrers() == nil {
			return true
		}
		if depth > 4 {
			return false
		}
		for _, r := range *addr.Referrers() {
			switch u := r.(type) {
			case *ssa.DebugRef:
			case *ssa.UnOp:
				if u.Op != token.MUL {
					return false
				}
			case *ssa.Store:
				if u.Addr != addr {
					return false // the address itself is stored somewhere
				}
				n++
				val = u.Val
			case *ssa.FieldAddr:
				if !c13ReadOnlyAddr(u, 0) {
					return false
				}
			case *ssa.IndexAddr:
				if !c13ReadOnlyAddr(u, 0) {
					return false
				}
			case *ssa.MakeClosure:
				fn, ok := u.Fn.(*ssa.Function)
				if !ok {
					return false
				}
				for i, b := range u.Bindings {
					if b == addr && i < len(fn.FreeVars) {
						if !scan(fn.FreeVars[i], depth+1) {
							return false
						}
					}
				}
			default:
				return false
			}
		}
		return true
	}
	if !scan(a, 0) || n != 1 {
		return nil
	}
	return val
}

// c13Binding resolves a free variable to the value bound to it by the (single) MakeClosure
// of the enclosing function.
func c13Binding(fv *ssa.FreeVar) ssa.Value {
	fn := fv.Parent()
	p := fn.Parent()
	if p == nil {
		return nil
	}
	idx := -1
	for i, x := range fn.FreeVars {
		if x == fv {
			idx = i
		}
	}
	var out ssa.Value
	cnt := 0
	eng.Instrs(p, func(ins ssa.Instruction) {
		if mc, ok := ins.(*ssa.MakeClosure); ok && mc.Fn == ssa.Value(fn) && idx >= 0 && idx < len(mc.Bindings) {
			out = mc.Bindings[idx]
			cnt++
		}
	})
	if cnt != 1 {
		return nil
	}
	return out
}

// c13Ref names a value as "field path below a root value"; two reads with equal refs read
// the same location of the same object.
type c13Ref struct {
	Root ssa.Value
	Path string
}

func c13Join(a, b string) string {
	switch {
	case a == "":
		return b
	case b == "":
		return a
	}
	return a + "." + b
}

// c13Path resolves v to (root, "f.g"): through loads, field addressing, interface/type
// changes, single-store cells (spilled parameters, variables captured by closures) and free
// variables of closures.
func c13Path(v ssa.Value) (ssa.Value, string) {
	var path []string
	cur := v
	for i := 0; i < 64 && cur != nil; i++ {
		switch n := cur.(type) {
		case *ssa.UnOp:
			if n.Op != token.MUL {
				return cur, strings.Join(path, ".")
			}
			// a read of a whole variable that is assigned more than once (or escapes) denotes
			// its value at this instruction only: the load itself is the root
			cell := n.X
			for k := 0; k < 8; k++ {
				fv, isFV := cell.(*ssa.FreeVar)
				if !isFV {
					break
				}
				if cell = c13Binding(fv); cell == nil {
					return cur, strings.Join(path, ".")
				}
			}
			if a, isCell := cell.(*ssa.Alloc); isCell && c13SingleStore(a) == nil {
				return cur, strings.Join(path, ".")
			}
			cur = n.X
		case *ssa.FieldAddr:
			path = append([]string{c13FieldName(n.X.Type(), n.Field)}, path...)
			cur = n.X
		case *ssa.Field:
			path = append([]string{c13FieldName(n.X.Type(), n.Field)}, path...)
			cur = n.X
		case *ssa.ChangeType:
			cur = n.X
		case *ssa.MakeInterface:
			cur = n.X
		case *ssa.Alloc:
			sv := c13SingleStore(n)
			if sv == nil {
				return cur, strings.Join(path, ".")
			}
			cur = sv
		case *ssa.FreeVar:
			b := c13Binding(n)
			if b == nil {
				return cur, strings.Join(path, ".")
			}
			cur = b
		default:
			return cur, strings.Join(path, ".")
		}
	}
	return cur, strings.Join(path, ".")
}

func c13RefOf(v ssa.Value) c13Ref { r, p := c13Path(v); return c13Ref{r, p} }

// c13Alias resolves pure aliasing (no field step); ok=false when v is a field of something.
func c13Alias(v ssa.Value) (ssa.Value, bool) {
	r, p := c13Path(v)
	return r, p == ""
}

// c13Returned gives the value returned as result idx: go/ssa spills results of functions
// with defers into a local (`*t = v; rundefers; x = *t; return x`), which is resolved inside
// the returning block.
func c13Returned(ret *ssa.Return, idx int) ssa.Value {
	if idx < 0 || idx >= len(ret.Results) {
		return nil
	}
	v := ret.Results[idx]
	u, ok := v.(*ssa.UnOp)
	if !ok || u.Op != token.MUL || u.Block() != ret.Block() {
		return v
	}
	a, ok := u.X.(*ssa.Alloc)
	if !ok {
		return v
	}
	instrs := ret.Block().Instrs
	for i := eng.InstrIndex(u) - 1; i >= 0; i-- {
		if st, ok := instrs[i].(*ssa.Store); ok && st.Addr == ssa.Value(a) {
			return st.Val
		}
	}
	return v
}

func c13IsErrorType(t types.Type) bool {
	n, ok := t.(*types.Named)
	return ok && n.Obj().Pkg() == nil && n.Obj().Name() == "error"
}

// c13ErrIdx is the index of the trailing error result of fn, or -1.
func c13ErrIdx(fn *ssa.Function) int {
	rs := fn.Signature.Results()
	if rs.Len() == 0 || !c13IsErrorType(rs.At(rs.Len()-1).Type()) {
		return -1
	}
	return rs.Len() - 1
}

// c13FreshError reports whether v is an error that is non-nil by construction.
func c13FreshError(v ssa.Value) bool {
	c, ok := v.(*ssa.Call)
	return ok && eng.IsCall(c, "fmt.Errorf", "errors.New")
}

// c13CutNilEdges builds a PathQuery.BlockEdge predicate that cuts the if-edges on which the
// value identified by isErr is known to be nil (cutNil) or non-nil (!cutNil).
func c13CutNilEdges(isErr func(ssa.Value) bool, cutNil bool) func(from *ssa.BasicBlock, succ int) bool {
	return func(from *ssa.BasicBlock, succ int) bool {
		if len(from.Instrs) == 0 {
			return false
		}
		iff, ok := from.Instrs[len(from.Instrs)-1].(*ssa.If)
		if !ok {
			return false
		}
		r := eng.RelOf(iff.Cond, succ == 0)
		var other ssa.Value
		switch {
		case isErr(r.X):
			other = r.Y
		case isErr(r.Y):
			other = r.X
		default:
			return false
		}
		if !eng.IsNilConst(other) || (r.Op != token.EQL && r.Op != token.NEQ) {
			return false
		}
		return (r.Op == token.EQL) == cutNil
	}
}

// c13IsValue matches v itself or an alias of it (through single-store cells).
func c13IsValue(want ssa.Value) func(ssa.Value) bool {
	return func(v ssa.Value) bool {
		if v == want {
			return true
		}
		r, ok := c13Alias(v)
		return ok && r == want
	}
}

// c13ContainsCall reports whether fn, its closures, the methods it turns into method values
// (a closure rewritten as `x.m`), or repository functions it calls statically (to the given
// depth) contain a call satisfying pred.
func c13ContainsCall(fn *ssa.Function, pred func(ssa.CallInstruction) bool, depth int) bool {
	return c13ContainsCallRec(fn, pred, depth, map[*ssa.Function]bool{})
}

func c13ContainsCallRec(fn *ssa.Function, pred func(ssa.CallInstruction) bool, depth int, busy map[*ssa.Function]bool) bool {
	if fn == nil || fn.Blocks == nil || busy[fn] {
		return false
	}
	busy[fn] = true
	defer delete(busy, fn)
	for _, f := range eng.WithClosures(fn) {
		for _, ci := range eng.Calls(f) {
			if pred(ci) {
				return true
			}
			if depth > 0 {
				if g := eng.CalleeFn(ci); g != nil && g != fn && g.Pkg != nil && eng.IsRepoPkg(g.Pkg.Pkg.Path()) && c13ContainsCallRec(g, pred, depth-1, busy) {
					return true
				}
			}
		}
		// function values created here other than literals: a bound method value or a named
		// function of the repository run (if at all) on behalf of fn, like a literal would
		for _, g := range c13FuncValues(f) {
			if c13ContainsCallRec(g, pred, depth, busy) {
				return true
			}
		}
	}
	return false
}

// c13FuncValues returns the repository functions other than function literals whose value is
// taken in fn: bound method values (`w.tryWrite`) and named functions used as values.
func c13FuncValues(fn *ssa.Function) []*ssa.Function {
	var out []*ssa.Function
	add := func(g *ssa.Function) {
		if g != nil && g.Blocks != nil && g.Pkg != nil && eng.IsRepoPkg(g.Pkg.Pkg.Path()) {
			out = append(out, g)
		}
	}
	eng.Instrs(fn, func(ins ssa.Instruction) {
		if mc, ok := ins.(*ssa.MakeClosure); ok {
			if f, _ := mc.Fn.(*ssa.Function); f != nil && f.Synthetic != "" {
				add(c13FuncTarget(mc))
			}
			return
		}
		var callee ssa.Value
		if ci, ok := ins.(ssa.CallInstruction); ok {
			callee = ci.Common().Value
		}
		for _, op := range ins.Operands(nil) {
			if *op == nil || *op == callee {
				continue
			}
			if g, ok := (*op).(*ssa.Function); ok && g.Synthetic == "" {
				add(g)
			}
		}
	})
	return out
}

// c13ClosureArgs returns the functions passed as arguments of a call: function literals,
// bound method values (resolved to the method) and named repository functions.
func c13ClosureArgs(ci ssa.CallInstruction) []*ssa.Function {
	var out []*ssa.Function
	for _, a := range ci.Common().Args {
		for {
			if ct, ok := a.(*ssa.ChangeType); ok {
				a = ct.X
				continue
			}
			break
		}
		switch x := a.(type) {
		case *ssa.MakeClosure:
			if fn := c13FuncTarget(x); fn != nil {
				out = append(out, fn)
			}
		case *ssa.Function:
			if x.Blocks != nil && x.Pkg != nil && eng.IsRepoPkg(x.Pkg.Pkg.Path()) {
				out = append(out, x)
			}
		}
	}
	return out
}

// c13Performs reports whether executing call ci performs a call satisfying pred: directly,
// inside a function literal it receives, or inside the repository function it calls.
func c13Performs(ci ssa.CallInstruction, pred func(ssa.CallInstruction) bool, depth int) bool {
	if pred(ci) {
		return true
	}
	for _, fn := range c13ClosureArgs(ci) {
		if c13ContainsCall(fn, pred, depth) {
			return true
		}
	}
	if g := eng.CalleeFn(ci); g != nil && g.Pkg != nil && eng.IsRepoPkg(g.Pkg.Pkg.Path()) {
		return c13ContainsCall(g, pred, depth)
	}
	return false
}

// c13Sites lifts an instruction of a closure to the MakeClosure instructions of the
// outermost function that (transitively) create the closure: a guard that dominates the
// creation of a function literal dominates everything the literal does.
func c13Sites(ins ssa.Instruction) []ssa.Instruction {
	fn := ins.Parent()
	if fn.Parent() == nil {
		return []ssa.Instruction{ins}
	}
	var out []ssa.Instruction
	eng.Instrs(fn.Parent(), func(i ssa.Instruction) {
		if mc, ok := i.(*ssa.MakeClosure); ok && mc.Fn == ssa.Value(fn) {
			out = append(out, c13Sites(mc)...)
		}
	})
	return out
}

// c13CallSites returns every call of the repository that resolves to fn: static calls and
// interface calls of a method of that name on an interface fn's receiver implements.
func c13CallSites(c *eng.Ctx, fn *ssa.Function) []ssa.CallInstruction {
	var recvT types.Type
	if fn.Signature.Recv() != nil {
		recvT = fn.Signature.Recv().Type()
	}
	var out []ssa.CallInstruction
	for _, f := range c.W.AllRepoFuncs() {
		for _, call := range eng.Calls(f) {
			cc := call.Common()
			if cc.IsInvoke() {
				if recvT == nil || cc.Method.Name() != fn.Name() {
					continue
				}
				if it, ok := cc.Value.Type().Underlying().(*types.Interface); ok && types.Implements(recvT, it) {
					out = append(out, call)
				}
			} else if cc.StaticCallee() == fn {
				out = append(out, call)
			}
		}
	}
	return out
}

// c13ArgFor returns the operand of call bound to fn.Params[i] (i counts the receiver).
func c13ArgFor(call ssa.CallInstruction, i int) ssa.Value {
	cc := call.Common()
	if cc.IsInvoke() {
		if i == 0 {
			return cc.Value
		}
		i--
	}
	if i < 0 || i >= len(cc.Args) {
		return nil
	}
	return cc.Args[i]
}

func c13ParamIndex(p *ssa.Parameter) int {
	for i, x := range p.Parent().Params {
		if x == p {
			return i
		}
	}
	return -1
}

func c13StripConvert(v ssa.Value) ssa.Value {
	for {
		switch n := v.(type) {
		case *ssa.Convert:
			v = n.X
		case *ssa.ChangeType:
			v = n.X
		default:
			return v
		}
	}
}

func c13Implements(t types.Type, iface *types.Interface) bool {
	if iface == nil || t == nil {
		return false
	}
	if types.Implements(t, iface) {
		return true
	}
	if _, isPtr := t.Underlying().(*types.Pointer); !isPtr {
		if _, isIface := t.Underlying().(*types.Interface); !isIface {
			return types.Implements(types.NewPointer(t), iface)
		}
	}
	return false
}

// c13IfaceCall reports whether ci calls method `name` (one of names) on a value whose static
// type implements iface.
func c13IfaceCall(ci ssa.CallInstruction, iface *types.Interface, names ...string) bool {
	r := eng.Receiver(ci)
	if r == nil || !c13Implements(r.Type(), iface) {
		return false
	}
	for _, n := range names {
		if eng.MethodNameIs(ci, n) {
			return true
		}
	}
	return false
}

func c13Ordinal(counts map[string]int, key string) int { counts[key]++; return counts[key] }

// ---------------------------------------------------------------------------------------
// Shard-id origin: which GetShardID(name, count) calls compute an int value.

type c13Src struct {
	Call  *ssa.Call // the GetShardID call
	Name  c13Ref    // its name operand, expressed in the context of the queried value
	Count c13Ref    // its count operand, likewise
	Via   []*ssa.Call
	// Via: calls returning (id, error) through which the id was obtained and whose error
	// returns were disregarded: the use of the id must lie on their err == nil edge.
}

func c13IsGetShardID(v ssa.Value) bool {
	call, ok := v.(*ssa.Call)
	return ok && eng.IsCall(call, c13GetShardID)
}

// c13ShardSources resolves an int value to the GetShardID calls that compute it, following
// aliases, phis and (to the given depth) repository helpers whose parameters are rebound to
// the actual arguments. ok=false when some definition of v is anything else.
func c13ShardSources(v ssa.Value, depth int) ([]c13Src, bool) {
	return c13ShardSrc(v, depth, map[ssa.Value]bool{})
}

func c13ShardSrc(v ssa.Value, depth int, seen map[ssa.Value]bool) ([]c13Src, bool) {
	r, ok := c13Alias(v)
	if !ok || r == nil {
		return nil, false
	}
	if seen[r] {
		return nil, true
	}
	seen[r] = true
	switch n := r.(type) {
	case *ssa.Phi:
		var out []c13Src
		for _, e := range n.Edges {
			s, ok := c13ShardSrc(e, depth, seen)
			if !ok {
				return nil, false
			}
			out = append(out, s...)
		}
		return out, len(out) > 0
	case *ssa.Call:
		if c13IsGetShardID(n) {
			a := n.Call.Args
			return []c13Src{{Call: n, Name: c13RefOf(a[0]), Count: c13RefOf(a[1])}}, true
		}
		return c13FollowCall(n, 0, depth, seen)
	case *ssa.Extract:
		if call, ok := n.Tuple.(*ssa.Call); ok {
			return c13FollowCall(call, n.Index, depth, seen)
		}
	}
	return nil, false
}

func c13FollowCall(call *ssa.Call, idx, depth int, seen map[ssa.Value]bool) ([]c13Src, bool) {
	callee := call.Call.StaticCallee()
	if depth <= 0 || callee == nil || callee.Blocks == nil || callee.Pkg == nil || !eng.IsRepoPkg(callee.Pkg.Pkg.Path()) {
		return nil, false
	}
	errIdx := c13ErrIdx(callee)
	if errIdx == idx {
		return nil, false
	}
	subst := func(r c13Ref) c13Ref { return c13Subst(call, callee, r) }
	var out []c13Src
	skippedErr := false
	for _, b := range callee.Blocks {
		if ret, ok := b.Instrs[len(b.Instrs)-1].(*ssa.Return); ok && errIdx >= 0 && c13FreshError(c13Returned(ret, errIdx)) {
			skippedErr = true
		}
	}
	for _, b := range callee.Blocks {
		ret, ok := b.Instrs[len(b.Instrs)-1].(*ssa.Return)
		if !ok {
			continue
		}
		if errIdx >= 0 && c13FreshError(c13Returned(ret, errIdx)) {
			continue // failure return: the id is meaningless, the caller must test err
		}
		ss, ok := c13ShardSrc(c13Returned(ret, idx), depth-1, seen)
		if !ok {
			return nil, false
		}
		for _, s := range ss {
			s.Name, s.Count = subst(s.Name), subst(s.Count)
			if skippedErr {
				s.Via = append(append([]*ssa.Call{}, s.Via...), call)
			}
			out = append(out, s)
		}
	}
	return out, len(out) > 0
}

// c13Subst re-expresses a ref rooted at a parameter of callee in the context of its call.
func c13Subst(call *ssa.Call, callee *ssa.Function, r c13Ref) c13Ref {
	if p, ok := r.Root.(*ssa.Parameter); ok && p.Parent() == callee {
		if k := c13ParamIndex(p); k >= 0 && k < len(call.Call.Args) {
			b := c13RefOf(call.Call.Args[k])
			return c13Ref{b.Root, c13Join(b.Path, r.Path)}
		}
	}
	return r
}

// c13StoreSources resolves a LimitStore value to the GetShardID calls selecting it: the
// value must be getLimitStoreForShard(id) (gls), possibly through a repository helper such
// as getLimitStore(name). ok=false when it is anything else.
func c13StoreSources(v ssa.Value, gls *ssa.Function, depth int) ([]c13Src, bool) {
	r, ok := c13Alias(v)
	if !ok {
		return nil, false
	}
	idx := 0
	if ex, isE := r.(*ssa.Extract); isE {
		// one result of a helper returning (store, error)
		r, idx = ex.Tuple, ex.Index
	}
	if key, isLk := c13StoreLookup(r); isLk && idx == 0 {
		// the accessor written in place: limitStoreMap[id]
		return c13ShardSources(key, depth)
	}
	call, ok := r.(*ssa.Call)
	if !ok {
		return nil, false
	}
	callee := call.Call.StaticCallee()
	if callee == nil {
		return nil, false
	}
	if gls != nil && callee == gls {
		for i, p := range gls.Params {
			if p.Type().Underlying() == types.Typ[types.Int] && i < len(call.Call.Args) {
				return c13ShardSources(call.Call.Args[i], depth)
			}
		}
		return nil, false
	}
	if depth <= 0 || callee.Blocks == nil || callee.Pkg == nil || !eng.IsRepoPkg(callee.Pkg.Pkg.Path()) {
		return nil, false
	}
	errIdx := c13ErrIdx(callee)
	if errIdx == idx {
		return nil, false
	}
	var out []c13Src
	for _, b := range callee.Blocks {
		if b == callee.Recover || len(b.Instrs) == 0 {
			continue
		}
		ret, isRet := b.Instrs[len(b.Instrs)-1].(*ssa.Return)
		if !isRet || idx >= len(ret.Results) {
			continue
		}
		rv := c13Returned(ret, idx)
		if len(ret.Results) > 1 && eng.IsNilConst(rv) && errIdx >= 0 && c13FreshError(c13Returned(ret, errIdx)) {
			continue // failure return (nil, error): no store is handed out
		}
		ss, ok := c13StoreSources(rv, gls, depth-1)
		if !ok {
			return nil, false
		}
		for _, x := range ss {
			x.Name, x.Count = c13Subst(call, callee, x.Name), c13Subst(call, callee, x.Count)
			out = append(out, x)
		}
	}
	return out, len(out) > 0
}

func c13RefString(r c13Ref) string {
	name := fmt.Sprintf("<%T>", r.Root)
	switch x := r.Root.(type) {
	case *ssa.Parameter:
		name = "param#" + fmt.Sprint(c13ParamIndex(x))
	case *ssa.Call:
		name = "result of " + c13Short(eng.FullName(x))
	case *ssa.Alloc:
		name = "local " + x.Comment
	}
	return c13Join(name, r.Path)
}

func c13Short(s string) string { return strings.ReplaceAll(s, mod+"/", "") }

// ---------------------------------------------------------------------------------------

func c13(c *eng.Ctx) {
	c.Rule("R1", "util.GetShardID is a pure function of (name, count): it and its callees read no package-level variable and call nothing but hash/fnv and builtins; its result is int(h % uint32(count)) with the count parameter itself as modulus and h = FNV-1a over exactly the name bytes, hence in [0,count) for count >= 1. Otherwise two processes (gateway, limiter) or two calls can map one upstream to different shards, or to a shard nobody leads", 3)
	c.Rule("R2", "single definition of the shard id: every id that reaches IsLeader, getLimitStoreForShard, the k8s store's shard comparison or the gateway's leader tables is computed by GetShardID(name, count); count is the configured ShardingCount on the server (limiter, elector, stores) and the server-reported ShardCount (guarded != 0) on the gateway, and ServerInfo reports that same field; a shard's store is registered under its own id. A second definition (other hash, other modulus) makes the gateway address a server that refuses, or two servers serve one upstream", 30)
	c.Rule("R3", "leader guard with key agreement: in UpdateRateLimitConditionStatus, DoAcquire, UpstreamConditionHandler and deleteCondition every store mutation (Save/Delete/DeleteUpstream/SyncFlowControl, SetState/TryAcquireN) executes only on the IsLeader(GetShardID(u, n)) == true edge with u the upstream name the mutation is keyed by, on the store selected by that same shard id; the two serving calls answer the non-leader edge with an error naming the leader. Otherwise a non-leader changes quota/acquire state of an upstream another server owns", 17)
	c.Rule("R4", "losing a shard discards its state: the OnStoppedLeading callback removes limitStoreMap[shard] on every path and before the store is stopped; a store is deleted from the map only together with being stopped (the stopped store is the mapped one, or the removal is conditional on it being mapped); the k8s store refuses to save and skips loading conditions whose upstream hashes to another shard", 10)

	c13R1(c)
	c13R2(c)
	c13R3(c)
	c13R4(c)
	c13ShardFilter(c, "R4")
}

// ---- R1 ---------------------------------------------------------------------------------

func c13IsNew32a(v ssa.Value) bool {
	call, ok := v.(*ssa.Call)
	return ok && eng.IsCall(call, "hash/fnv.New32a")
}

// c13Effects lists what makes fn (and the repository functions it calls) impure: accesses
// to package-level variables, stores through non-local pointers, go/defer, and calls outside
// {builtins, hash/fnv constructors, Write/Sum32 on an fnv.New32a() object}.
func c13Effects(fn *ssa.Function, seen map[*ssa.Function]bool, out *[]string) {
	if seen[fn] {
		return
	}
	seen[fn] = true
	add := func(s string) { *out = append(*out, eng.FuncName(fn)+": "+s) }
	if len(fn.AnonFuncs) > 0 {
		add("creates function literals")
	}
	eng.Instrs(fn, func(ins ssa.Instruction) {
		for _, op := range ins.Operands(nil) {
			if g, ok := (*op).(*ssa.Global); ok {
				add("accesses package-level variable " + g.Name())
			}
		}
		switch x := ins.(type) {
		case *ssa.Go, *ssa.Defer:
			add("go/defer statement")
		case *ssa.Store:
			if r, _ := c13Path(x.Addr); r != nil {
				if _, local := r.(*ssa.Alloc); !local {
					add("store through a non-local pointer")
				}
			}
		case *ssa.Send, *ssa.Select, *ssa.MapUpdate:
			add("channel/map side effect")
		case *ssa.Call:
			cc := x.Common()
			if _, ok := cc.Value.(*ssa.Builtin); ok {
				return
			}
			if cc.IsInvoke() {
				if c13IsNew32a(cc.Value) && (cc.Method.Name() == "Write" || cc.Method.Name() == "Sum32") {
					return
				}
				add("interface call " + eng.FullName(x) + " on a value that is not fnv.New32a()")
				return
			}
			callee := cc.StaticCallee()
			switch {
			case callee == nil:
				add("dynamic call")
			case callee.Pkg != nil && callee.Pkg.Pkg.Path() == "hash/fnv":
			case callee.Pkg != nil && eng.IsRepoPkg(callee.Pkg.Pkg.Path()) && callee.Blocks != nil:
				c13Effects(callee, seen, out)
			default:
				add("calls " + eng.FullName(x))
			}
		}
	})
}

// c13HashOfName decides whether v is FNV-1a(32) over exactly the bytes of name; it returns
// "" or the reason why not. A same-repository helper returning the hash is followed.
func c13HashOfName(v ssa.Value, name ssa.Value, depth int) string {
	call, ok := v.(*ssa.Call)
	if !ok {
		return "the dividend is not the hash value itself"
	}
	cc := call.Common()
	if cc.IsInvoke() {
		if cc.Method.Name() != "Sum32" || !c13IsNew32a(cc.Value) {
			return "the dividend is not Sum32() of an fnv.New32a() object"
		}
		h := cc.Value.(*ssa.Call)
		writes := 0
		for _, r := range *h.Referrers() {
			switch u := r.(type) {
			case *ssa.DebugRef:
			case *ssa.Call:
				if u == call {
					continue
				}
				uc := u.Common()
				if !uc.IsInvoke() || uc.Value != ssa.Value(h) || uc.Method.Name() != "Write" || len(uc.Args) != 1 {
					return "the hash object is used by " + eng.FullName(u)
				}
				cv, ok := uc.Args[0].(*ssa.Convert)
				if !ok || cv.X != name {
					return "the hash input is not exactly []byte(name)"
				}
				if eng.InLoop(u.Block()) {
					return "the name is written to the hash inside a loop"
				}
				if !eng.AlwaysBefore(call.Parent(), call, func(i ssa.Instruction) bool { return i == ssa.Instruction(u) }) {
					return "Write(name) does not precede Sum32() on every path"
				}
				writes++
			default:
				return "the hash object escapes"
			}
		}
		if writes != 1 {
			return fmt.Sprintf("the hash is fed %d times (want exactly the name once)", writes)
		}
		return ""
	}
	callee := cc.StaticCallee()
	if depth > 0 && callee != nil && callee.Blocks != nil && callee.Pkg != nil && eng.IsRepoPkg(callee.Pkg.Pkg.Path()) {
		idx := -1
		for i, a := range cc.Args {
			if a == name {
				if idx >= 0 {
					return "helper receives the name twice"
				}
				idx = i
			}
		}
		if idx < 0 || idx >= len(callee.Params) {
			return "helper does not receive the name parameter"
		}
		n := 0
		for _, b := range callee.Blocks {
			if ret, ok := b.Instrs[len(b.Instrs)-1].(*ssa.Return); ok && len(ret.Results) == 1 {
				n++
				if why := c13HashOfName(ret.Results[0], callee.Params[idx], depth-1); why != "" {
					return why
				}
			}
		}
		if n == 0 {
			return "helper has no single-result return"
		}
		return ""
	}
	return "the dividend is computed by " + eng.FullName(call)
}

func c13R1(c *eng.Ctx) {
	fn := c.MustFunc(pkgRLUtil, "GetShardID")
	if fn == nil {
		return
	}
	if len(fn.Params) != 2 || fn.Signature.Results().Len() != 1 {
		c.Fail("R1", fn, "signature (name string, count int) int", fn.Pos(), "GetShardID no longer has the shape (name, count) -> id")
		return
	}
	name, count := fn.Params[0], fn.Params[1]

	var eff []string
	c13Effects(fn, map[*ssa.Function]bool{}, &eff)
	c.Check("R1", fn, "pure: no package-level state, only hash/fnv and builtins", fn.Pos(), len(eff) == 0,
		c13Why("the shard of a name must depend on (name, count) only", strings.Join(c13Dedup(eff), "; ")))

	nRet := 0
	shapeOK, shapeWhy := true, ""
	hashOK, hashWhy := true, ""
	for _, b := range fn.Blocks {
		ret, ok := b.Instrs[len(b.Instrs)-1].(*ssa.Return)
		if !ok {
			continue
		}
		nRet++
		var rem *ssa.BinOp
		if cv, ok := ret.Results[0].(*ssa.Convert); ok {
			rem, _ = cv.X.(*ssa.BinOp)
		}
		if rem == nil || rem.Op != token.REM {
			shapeOK, shapeWhy = false, "a return value is not int(<hash> % <modulus>)"
			hashOK, hashWhy = false, "no modulo found"
			continue
		}
		div, ok := rem.Y.(*ssa.Convert)
		if !ok || div.X != ssa.Value(count) {
			shapeOK, shapeWhy = false, "the modulus is not a conversion of the count parameter itself (e.g. count+1 yields ids outside [0,count), count-1 leaves a shard unused and disagrees with the elector's shard set)"
		} else if bt, isB := div.Type().Underlying().(*types.Basic); !isB || bt.Kind() != types.Uint32 || rem.X.Type() != div.Type() {
			shapeOK, shapeWhy = false, "the modulo is not computed in uint32"
		}
		if why := c13HashOfName(rem.X, name, 2); why != "" {
			hashOK, hashWhy = false, why
		}
	}
	if nRet == 0 {
		shapeOK, shapeWhy, hashOK, hashWhy = false, "no return", false, "no return"
	}
	c.Check("R1", fn, "result = int(h % uint32(count)), count = the parameter itself", fn.Pos(), shapeOK, c13Why("id in [0,count) for count >= 1 on every return", shapeWhy))
	c.Check("R1", fn, "h = FNV-1a(32) of exactly the name bytes", fn.Pos(), hashOK, c13Why("the dividend must be the FNV-1a hash of the name and nothing else", hashWhy))
}

// c13Why appends the reason of a failed check to the rule's explanation.
func c13Why(base, why string) string {
	if why == "" {
		return base
	}
	return base + "; " + why
}

func c13Dedup(in []string) []string {
	seen := map[string]bool{}
	var out []string
	for _, s := range in {
		if !seen[s] {
			seen[s] = true
			out = append(out, s)
		}
	}
	return out
}

// c13AllUp: v satisfies pred, or v is (an alias of) a parameter of a helper whose callers are all
// known and the operand bound to it satisfies c13AllUp at every call site.
func c13AllUp(w *eng.World, v ssa.Value, depth int, pred func(ssa.Value) bool) bool {
	if pred(v) {
		return true
	}
	a, ok := c13Alias(v)
	if !ok {
		return false
	}
	if a != v && pred(a) {
		return true
	}
	p, isP := a.(*ssa.Parameter)
	if !isP || depth <= 0 {
		return false
	}
	ups := w.UpArgSites(p)
	if len(ups) == 0 {
		return false
	}
	for _, u := range ups {
		if !c13AllUp(w, u.Arg, depth-1, pred) {
			return false
		}
	}
	return true
}

// c13Anchor resolves an anchor function by name (typ "" for a package-level function) and —
// when a refactoring renamed it or turned a method into a function — by what it does: the
// single top-level function of the package for which role holds. Only when nothing fulfils the
// role is the anchor reported as unresolved.
func c13Anchor(c *eng.Ctx, pkg, typ, name string, role func(fn *ssa.Function) bool) *ssa.Function {
	var f *ssa.Function
	if typ == "" {
		f = c.W.Func(pkg, name)
	} else {
		f = c.W.Method(pkg, typ, name)
	}
	if f != nil && f.Blocks != nil {
		return f
	}
	var cands []*ssa.Function
	if role != nil {
		for _, fn := range c.W.FuncsOf(pkg) {
			if fn.Parent() == nil && fn.Blocks != nil && fn.Synthetic == "" && role(fn) {
				cands = append(cands, fn)
			}
		}
	}
	if len(cands) == 1 {
		return cands[0]
	}
	what := "func " + pkg + "." + name
	if typ != "" {
		what = "method (" + pkg + "." + typ + ")." + name
	}
	c.Fail("engine", nil, "unresolved-anchor "+what, 0, fmt.Sprintf("anchor not found by name, and %d functions of the package fulfil its role", len(cands)))
	return nil
}

// c13IsStoreLookup: v reads the shard → store table of the limiter under key (also as the value
// of a comma-ok lookup).
func c13StoreLookup(v ssa.Value) (key ssa.Value, ok bool) {
	if e, isE := v.(*ssa.Extract); isE && e.Index == 0 {
		v = e.Tuple
	}
	lk, isL := v.(*ssa.Lookup)
	if !isL || !eng.FieldLoadOf(lk.X, c13TRateLimiter, "limitStoreMap") {
		return nil, false
	}
	return lk.Index, true
}

// c13StoreSelector resolves the accessor of the shard → store table (getLimitStoreForShard):
// by name, or the function every result of which is limitStoreMap[its own parameter]. nil
// (without a failure) when the accessor was inlined: the lookups themselves are the selection.
func c13StoreSelector(c *eng.Ctx) *ssa.Function {
	if f := c.W.Method(pkgLimiter, "rateLimiter", "getLimitStoreForShard"); f != nil && f.Blocks != nil {
		return f
	}
	var found *ssa.Function
	for _, fn := range c.W.FuncsOf(pkgLimiter) {
		if fn.Parent() != nil || fn.Signature.Results().Len() != 1 {
			continue
		}
		n, all := 0, true
		eng.Instrs(fn, func(ins ssa.Instruction) {
			ret, ok := ins.(*ssa.Return)
			if !ok || ret.Block() == fn.Recover {
				return
			}
			n++
			rv, _ := c13Alias(c13Returned(ret, 0))
			key, isLk := c13StoreLookup(rv)
			if isLk {
				k, _ := c13Alias(key)
				p, isP := k.(*ssa.Parameter)
				isLk = isP && p.Parent() == fn
			}
			if !isLk {
				all = false
			}
		})
		if n > 0 && all && found == nil {
			found = fn
		}
	}
	return found
}

// ---- R2 ---------------------------------------------------------------------------------

// c13ClientSetsImpls returns the named types implementing clientsets.ClientSets.
func c13ClientSetsImpls(c *eng.Ctx) []*types.Named {
	iface := c.W.Interface(pkgClientsets, "ClientSets")
	if iface == nil {
		c.Fail("engine", nil, "unresolved-anchor interface "+pkgClientsets+".ClientSets", 0, "interface not found")
		return nil
	}
	impls := c.W.Implementers(iface)
	if len(impls) == 0 {
		c.Fail("engine", nil, "unresolved-anchor ClientSets implementations", 0, "none found")
	}
	return impls
}

// c13TraceUp follows a value that is a plain parameter of a (non-closure) function to the
// corresponding operands of all its static/interface call sites, repeatedly; it returns the
// terminal values (non-parameters, parameters of functions without callers, or parameters of
// functions for which stop is true).
func c13TraceUp(c *eng.Ctx, v ssa.Value, stop func(*ssa.Function) bool, depth int) []ssa.Value {
	r, ok := c13Alias(v)
	if !ok {
		return []ssa.Value{v}
	}
	p, isParam := r.(*ssa.Parameter)
	if !isParam || depth <= 0 || p.Parent().Parent() != nil || (stop != nil && stop(p.Parent())) {
		return []ssa.Value{r}
	}
	sites := c13CallSites(c, p.Parent())
	if len(sites) == 0 {
		return []ssa.Value{r}
	}
	var out []ssa.Value
	for _, s := range sites {
		a := c13ArgFor(s, c13ParamIndex(p))
		if a == nil {
			out = append(out, r)
			continue
		}
		out = append(out, c13TraceUp(c, a, stop, depth-1)...)
	}
	return out
}

func c13R2(c *eng.Ctx) {
	depth := c.Depth
	sl := c.Slicer()
	fromGetShardID := func(v ssa.Value) (bool, string) {
		srcs, ok := c13ShardSources(v, depth)
		if !ok || len(srcs) == 0 {
			return false, "the shard id does not derive from util.GetShardID(name, count) on every definition"
		}
		return true, fmt.Sprintf("computed by %d GetShardID call(s)", len(srcs))
	}

	// (a) IsLeader(id) and (b) getLimitStoreForShard(id), anywhere in the repository
	gls := c13StoreSelector(c)
	nLeader, nStore := 0, 0
	for _, fn := range c.W.AllRepoFuncs() {
		ord := map[string]int{}
		for _, ci := range eng.Calls(fn) {
			switch {
			case eng.IsCall(ci, c13IsLeader):
				nLeader++
				ok, why := fromGetShardID(eng.Args(ci)[0])
				c.Check("R2", fn, fmt.Sprintf("IsLeader(shard)#%d shard = GetShardID(…)", c13Ordinal(ord, "l")), ci.Pos(), ok, why)
			case gls != nil && eng.CalleeFn(ci) == gls:
				nStore++
				ok, why := fromGetShardID(eng.Args(ci)[0])
				c.Check("R2", fn, fmt.Sprintf("getLimitStoreForShard(shard)#%d shard = GetShardID(…)", c13Ordinal(ord, "s")), ci.Pos(), ok, why)
			}
		}
	}
	if nLeader == 0 {
		c.Fail("R2", nil, "IsLeader(shard) sites", 0, "no call of LeaderElector.IsLeader found")
	}
	if gls == nil {
		// the accessor was inlined: the lookups of the table are the selection sites; those feeding
		// a mutation are tied to the guarded shard by R3 (c13StoreSources)
		for _, fn := range c.W.FuncsOf(pkgLimiter) {
			eng.Instrs(fn, func(ins ssa.Instruction) {
				if v, ok := ins.(ssa.Value); ok {
					if _, isLk := c13StoreLookup(v); isLk {
						nStore++
					}
				}
			})
		}
	}
	if nStore == 0 {
		c.Fail("R2", nil, "getLimitStoreForShard(shard) sites", 0, "no call of getLimitStoreForShard found")
	}

	// (c) the k8s store's own-shard comparison
	nCmp := 0
	for _, fn := range c.W.FuncsOf(pkgRLStoreK8s) {
		k := 0
		eng.Instrs(fn, func(ins ssa.Instruction) {
			b, ok := ins.(*ssa.BinOp)
			if !ok {
				return
			}
			switch b.Op {
			case token.EQL, token.NEQ, token.LSS, token.LEQ, token.GTR, token.GEQ:
			default:
				return
			}
			var other ssa.Value
			switch {
			case eng.FieldLoadOf(b.X, c13TObjectStore, "shard"):
				other = b.Y
			case eng.FieldLoadOf(b.Y, c13TObjectStore, "shard"):
				other = b.X
			default:
				return
			}
			nCmp++
			k++
			ok2, why := fromGetShardID(other)
			c.Check("R2", fn, fmt.Sprintf("compare with objectStore.shard#%d", k), b.Pos(), ok2, why)
		})
	}
	if nCmp == 0 {
		c.Fail("R2", nil, "compare with objectStore.shard", 0, "the k8s store never compares a condition's shard with its own")
	}

	// (d) gateway side: ShardIDFor and the leader tables indexed by it
	var countFields = map[string]bool{c13TRateLimiter: true, c13TObjectStore: true}
	for _, named := range c13ClientSetsImpls(c) {
		tn := eng.TypeName(named)
		countFields[tn] = true
		sid := c.W.DeclaredMethod(named, "ShardIDFor")
		if sid == nil || sid.Blocks == nil || len(sid.Params) != 2 {
			c.Fail("R2", nil, "ShardIDFor of "+c13Short(tn), 0, "method not found")
			continue
		}
		nOK := 0
		for _, b := range sid.Blocks {
			ret, ok := b.Instrs[len(b.Instrs)-1].(*ssa.Return)
			if !ok || len(ret.Results) != 2 {
				continue
			}
			errv := c13Returned(ret, 1)
			if c13FreshError(errv) {
				continue // failure return, id unused by callers (checked at the tables below)
			}
			if !eng.IsNilConst(errv) {
				c.Undecided("R2", sid, "ShardIDFor success return", ret.Pos(), "a return whose error is neither nil nor freshly constructed")
				continue
			}
			nOK++
			srcs, ok := c13ShardSources(c13Returned(ret, 0), depth)
			good := ok && len(srcs) > 0
			why := "the id returned with a nil error must be GetShardID(cluster, shardCount) — any other hash or modulus on the gateway addresses a server that does not lead the upstream's shard"
			for _, s := range srcs {
				if s.Name != (c13Ref{sid.Params[1], ""}) {
					good, why = false, "GetShardID is not applied to the cluster name parameter"
				}
				if s.Count != (c13Ref{sid.Params[0], "shardCount"}) {
					good, why = false, "GetShardID's count is not the receiver's synced shardCount"
				}
				// count != 0 (a zero modulus panics; before the first sync the count is unknown)
				guarded := eng.HoldsAt(s.Call, func(r eng.Rel) bool {
					x, y := r.X, r.Y
					op := r.Op
					if eng.FieldLoadOf(y, tn, "shardCount") {
						x, y, op = y, x, eng.FlipOp(op)
					}
					z, isInt := eng.IntConst(y)
					return eng.FieldLoadOf(x, tn, "shardCount") && isInt && z == 0 && (op == token.NEQ || op == token.GTR)
				})
				c.Check("R2", sid, "GetShardID guarded by shardCount != 0", s.Call.Pos(), guarded, "before the server's shard count is synced the gateway must not compute a shard (modulus 0 panics)")
			}
			c.Check("R2", sid, "success return = GetShardID(cluster, shardCount)", ret.Pos(), good, why)
		}
		if nOK == 0 {
			c.Fail("R2", sid, "success return = GetShardID(cluster, shardCount)", sid.Pos(), "ShardIDFor never returns an id with a nil error")
		}
		// the tables: Loads inside the ClientSets interface methods that take an upstream name
		iface := c.W.Interface(pkgClientsets, "ClientSets")
		nLoads := 0
		for i := 0; i < iface.NumMethods(); i++ {
			m := c.W.DeclaredMethod(named, iface.Method(i).Name())
			if m == nil || m.Blocks == nil || m == sid {
				continue
			}
			ord := map[string]int{}
			for _, ci := range eng.CallsTo(m, "(*sync.Map).Load") {
				recv := eng.Receiver(ci)
				var table string
				for _, f := range []string{"leaderEndpoints", "leaderReady"} {
					if eng.FieldAddrOf(recv, tn, f) {
						table = f
					}
				}
				if table == "" {
					continue
				}
				nLoads++
				construct := fmt.Sprintf("%s.Load(shard)#%d shard = ShardIDFor(cluster)", table, c13Ordinal(ord, table))
				srcs, ok := c13ShardSources(eng.Args(ci)[0], depth)
				good := ok && len(srcs) > 0
				why := "the leader table must be indexed by GetShardID(cluster, shardCount) of the upstream the caller asks for"
				for _, s := range srcs {
					if len(m.Params) < 2 || s.Name != (c13Ref{m.Params[1], ""}) {
						good, why = false, "the shard is not computed from the method's cluster parameter"
					}
					for _, via := range s.Via {
						errOf := func(v ssa.Value) bool {
							cc, idx := eng.CallResultOf(v)
							return cc == via && idx == c13ErrIdx(via.Call.StaticCallee())
						}
						if !eng.HoldsAtNil(ci, errOf, true) {
							good, why = false, "the table is consulted although "+via.Call.StaticCallee().Name()+" may have failed (id -1)"
						}
					}
				}
				c.Check("R2", m, construct, ci.Pos(), good, why)
			}
		}
		if nLoads == 0 {
			c.Fail("R2", nil, "leader tables of "+c13Short(tn), 0, "no lookup of leaderEndpoints/leaderReady by shard found in the ClientSets methods")
		}
		// gateway count = the server-reported ShardCount
		sts := eng.StoresToField(c.W.AllRepoFuncs(), tn, "shardCount")
		for k, st := range sts {
			x := c13StripConvert(st.Val)
			c.Check("R2", st.Parent(), fmt.Sprintf("store %s.shardCount#%d = serverInfo.ShardCount", c13Short(tn), k+1), st.Pos(),
				eng.FieldLoadOf(x, c13TServerInfo, "ShardCount"), "the gateway's modulus must be the count reported by the limiter server")
		}
		if len(sts) == 0 {
			c.Fail("R2", nil, "store "+c13Short(tn)+".shardCount", 0, "the gateway never learns the shard count")
		}
	}

	// (e) every GetShardID call site takes its count from one of the count fields
	nSites := 0
	for _, fn := range c.W.AllRepoFuncs() {
		k := 0
		for _, ci := range eng.CallsTo(fn, c13GetShardID) {
			nSites++
			k++
			a := eng.Args(ci)
			// the count operand is the field itself, or — in a function that is handed the count by
			// its callers (a method turned into a function taking the fields it needs) — a parameter
			// every call site binds to the field
			ok := len(a) == 2 && c13AllUp(c.W, a[1], eng.LiftDepth, func(v ssa.Value) bool {
				for t := range countFields {
					if eng.FieldLoadOf(v, t, "shardCount") {
						return true
					}
				}
				return false
			})
			c.Check("R2", fn, fmt.Sprintf("GetShardID#%d count = the component's shardCount field", k), ci.Pos(), ok, "the modulus must be the one configured/synced shard count, not a literal or a derived number")
		}
	}
	if nSites == 0 {
		c.Fail("R2", nil, "GetShardID call sites", 0, "none found")
	}

	// provenance of the count fields on the server
	ctorOK := false
	for k, st := range eng.StoresToField(c.W.AllRepoFuncs(), c13TRateLimiter, "shardCount") {
		ref := c13RefOf(st.Val)
		p, isP := ref.Root.(*ssa.Parameter)
		ok := isP && ref.Path == "ShardingCount" && eng.TypeName(p.Type()) == c13TOptions
		c.Check("R2", st.Parent(), fmt.Sprintf("store rateLimiter.shardCount#%d = options.ShardingCount", k+1), st.Pos(), ok, "the limiter's modulus is the configured sharding count")
		ctorOK = true
		// the elector runs one election per shard in [0, same count)
		for j, ci := range eng.CallsTo(st.Parent(), pkgElector+".NewLeaderElector") {
			a := eng.Args(ci)
			same := len(a) == 4 && c13RefOf(a[3]) == ref
			c.Check("R2", st.Parent(), fmt.Sprintf("NewLeaderElector#%d count = rateLimiter.shardCount's source", j+1), ci.Pos(), same, "the elector must elect leaders for exactly the shards GetShardID can produce")
		}
	}
	if !ctorOK {
		c.Fail("R2", nil, "store rateLimiter.shardCount", 0, "never set")
	}
	for k, st := range eng.StoresToField(c.W.AllRepoFuncs(), c13TObjectStore, "shardCount") {
		ok := true
		terms := c13TraceUp(c, st.Val, nil, 4)
		for _, t := range terms {
			if !eng.FieldLoadOf(t, c13TRateLimiter, "shardCount") {
				ok = false
			}
		}
		c.Check("R2", st.Parent(), fmt.Sprintf("store objectStore.shardCount#%d = rateLimiter.shardCount", k+1), st.Pos(), ok && len(terms) > 0, "the store filters by the same modulus the limiter routes with")
	}
	nInfo := 0
	for _, fn := range c.W.AllRepoFuncs() {
		if fn.Pkg != nil && fn.Pkg.Pkg.Path() == pkgV1alpha1 {
			continue // generated (un)marshalling code of the API type
		}
		for _, st := range eng.StoresToField([]*ssa.Function{fn}, c13TServerInfo, "ShardCount") {
			nInfo++
			c.Check("R2", fn, fmt.Sprintf("store ServerInfo.ShardCount#%d = rateLimiter.shardCount", nInfo), st.Pos(),
				eng.FieldLoadOf(c13StripConvert(st.Val), c13TRateLimiter, "shardCount"), "the count reported to gateways must be the modulus the server itself uses")
		}
	}
	if nInfo == 0 {
		c.Fail("R2", nil, "store ServerInfo.ShardCount", 0, "the server never reports its shard count")
	}

	// a shard's store is created for, and registered under, its own id
	nReg := 0
	inLimiter := func(f *ssa.Function) bool { return f.Pkg != nil && f.Pkg.Pkg.Path() == pkgLimiter }
	for _, fn := range c.W.FuncsOf(pkgLimiter) {
		eng.Instrs(fn, func(ins ssa.Instruction) {
			mu, ok := ins.(*ssa.MapUpdate)
			if !ok || !eng.FieldLoadOf(mu.Map, c13TRateLimiter, "limitStoreMap") {
				return
			}
			nReg++
			var ctor *ssa.Call
			sl.DerivesFrom(mu.Value, func(v ssa.Value) bool {
				if cc, ok := v.(*ssa.Call); ok && eng.IsCall(cc, c13PkgStore+".NewLimitStore") {
					ctor = cc
					return true
				}
				return false
			})
			ok2 := ctor != nil
			why := "the registered store must be the one built by NewLimitStore for this shard"
			if ctor != nil {
				a := eng.Args(ctor)
				if len(a) != 4 || c13RefOf(a[2]) != c13RefOf(mu.Key) {
					ok2, why = false, "the store is registered under another shard id than it was built for (requests of shard s would reach a store that refuses them)"
				} else if !eng.FieldLoadOf(a[3], c13TRateLimiter, "shardCount") {
					ok2, why = false, "the store is built with another shard count than the limiter's"
				}
			}
			c.Check("R2", fn, fmt.Sprintf("limitStoreMap[s] = NewLimitStore(…, s, shardCount)#%d", nReg), mu.Pos(), ok2, why)
		})
	}
	if nReg == 0 {
		c.Fail("R2", nil, "limitStoreMap[s] = NewLimitStore(…, s, shardCount)", 0, "no registration of a shard store found")
	}
	for k, st := range eng.StoresToField(c.W.AllRepoFuncs(), c13TObjectStore, "shard") {
		ok := true
		terms := c13TraceUp(c, st.Val, inLimiter, 4)
		for _, t := range terms {
			// must arrive at the shard argument of a NewLimitStore call in the limiter
			found := false
			for _, fn := range c.W.FuncsOf(pkgLimiter) {
				for _, ci := range eng.CallsTo(fn, c13PkgStore+".NewLimitStore") {
					if a := eng.Args(ci); len(a) == 4 {
						if r, isAlias := c13Alias(a[2]); isAlias && r == t {
							found = true
						}
					}
				}
			}
			if !found {
				ok = false
			}
		}
		c.Check("R2", st.Parent(), fmt.Sprintf("store objectStore.shard#%d = the id the store was created for", k+1), st.Pos(), ok && len(terms) > 0, "the store's own shard is the constructor's shard argument passed down from the limiter")
	}
}

// ---- R3 ---------------------------------------------------------------------------------

// c13Guard is one `IsLeader(id) == true` fact that holds at a program point, with the
// GetShardID calls computing id.
type c13Guard struct {
	Leader *ssa.Call
	Srcs   []c13Src
}

// c13LeaderGuards returns the leader guards under which ins executes in its own function: the
// facts implied by its dominating branches (resolved through named flags, short-circuit values
// and boolean predicate helpers, eng.FactsAt) that state `IsLeader(id) == true`, or that the
// error result of a helper is nil which returns a nil error only under such a guard
// (`id, err := r.leadingShard(name); if err != nil { return }`).
func c13LeaderGuards(ins ssa.Instruction, depth int) []c13Guard {
	return c13LeaderGuardsH(ins, depth, 2)
}

func c13LeaderGuardsH(ins ssa.Instruction, depth, hdepth int) []c13Guard {
	var out []c13Guard
	if ins == nil || ins.Block() == nil {
		return nil
	}
	for _, f := range eng.FactsAt(ins, eng.LiftDepth) {
		gs := c13GuardsOfRel(f.Rel, depth, hdepth)
		// facts found inside a predicate helper speak about the helper's parameters
		for e := f.Env; e != nil && len(gs) > 0; e = e.Parent {
			gs = c13SubstGuards(e.Call, e.Callee, gs)
		}
		out = append(out, gs...)
	}
	return out
}

// c13GuardsOfRel classifies one relation (over the values of the function it was found in).
func c13GuardsOfRel(r eng.Rel, depth, hdepth int) []c13Guard {
	if r.Op != token.EQL && r.Op != token.NEQ {
		return nil
	}
	// IsLeader(id) == true, or `ok == true` with ok the boolean result of a helper that answers
	// true only for the leader
	if (r.Op == token.EQL && eng.IsBoolConst(r.Y, true)) || (r.Op == token.NEQ && eng.IsBoolConst(r.Y, false)) {
		v, ok := c13Alias(r.X)
		if !ok {
			return nil
		}
		if g, isL := c13LeaderCallGuard(v, depth); isL {
			return []c13Guard{g}
		}
		if ex, isE := v.(*ssa.Extract); isE && hdepth > 0 {
			if call, isC := ex.Tuple.(*ssa.Call); isC {
				return c13HelperGuards(call, ex.Index, false, depth, hdepth)
			}
		}
		return nil
	}
	// err == nil, err the error result of a helper whose success returns are leader-guarded
	if r.Op != token.EQL || hdepth <= 0 {
		return nil
	}
	x := r.X
	if eng.IsNilConst(x) {
		x = r.Y
	} else if !eng.IsNilConst(r.Y) {
		return nil
	}
	v, ok := c13Alias(x)
	if !ok {
		return nil
	}
	ex, ok := v.(*ssa.Extract)
	if !ok {
		return nil
	}
	call, ok := ex.Tuple.(*ssa.Call)
	if !ok {
		return nil
	}
	return c13HelperGuards(call, ex.Index, true, depth, hdepth)
}

// c13LeaderCallGuard: v is the result of IsLeader(id) with id computed by GetShardID.
func c13LeaderCallGuard(v ssa.Value, depth int) (c13Guard, bool) {
	call, ok := v.(*ssa.Call)
	if !ok || !eng.IsCall(call, c13IsLeader) {
		return c13Guard{}, false
	}
	srcs, ok := c13ShardSources(eng.Args(call)[0], depth)
	if !ok || len(srcs) == 0 {
		return c13Guard{}, false
	}
	return c13Guard{call, srcs}, true
}

// c13HelperGuards: the leader guards implied by result idx of a call of a repository helper
// signalling success — a nil error (isErr) or a true boolean: every return of the helper that
// can signal success executes under the guard (or returns the IsLeader answer itself). The
// guards are stated in the context of the call.
func c13HelperGuards(call *ssa.Call, idx int, isErr bool, depth, hdepth int) []c13Guard {
	h := call.Call.StaticCallee()
	if h == nil || h.Blocks == nil || h.Pkg == nil || !eng.IsRepoPkg(h.Pkg.Pkg.Path()) || hdepth <= 0 {
		return nil
	}
	if isErr && c13ErrIdx(h) != idx {
		return nil
	}
	var common []c13Guard
	n := 0
	for _, b := range h.Blocks {
		if b == h.Recover || len(b.Instrs) == 0 {
			continue
		}
		ret, isRet := b.Instrs[len(b.Instrs)-1].(*ssa.Return)
		if !isRet {
			continue
		}
		rv := c13Returned(ret, idx)
		if rv == nil || (isErr && c13FreshError(rv)) || (!isErr && eng.IsBoolConst(rv, false)) {
			continue // a failure return
		}
		gs := c13LeaderGuardsH(ret, depth, hdepth-1)
		if !isErr {
			if a, ok := c13Alias(rv); ok {
				if g, isL := c13LeaderCallGuard(a, depth); isL {
					gs = append(gs, g)
				}
			}
		}
		if n == 0 {
			common = gs
		} else {
			var keep []c13Guard
			for _, g := range common {
				for _, g2 := range gs {
					if g.Leader == g2.Leader {
						keep = append(keep, g)
						break
					}
				}
			}
			common = keep
		}
		n++
	}
	if n == 0 {
		return nil
	}
	return c13SubstGuards(call, h, common)
}

// c13SubstSrcs re-expresses shard sources stated over the parameters of callee in the context of
// the call site.
func c13SubstSrcs(call ssa.CallInstruction, callee *ssa.Function, srcs []c13Src) []c13Src {
	out := make([]c13Src, len(srcs))
	for i, s := range srcs {
		s.Name, s.Count = c13SubstCI(call, callee, s.Name), c13SubstCI(call, callee, s.Count)
		out[i] = s
	}
	return out
}

func c13SubstGuards(call ssa.CallInstruction, callee *ssa.Function, gs []c13Guard) []c13Guard {
	out := make([]c13Guard, len(gs))
	for i, g := range gs {
		out[i] = c13Guard{g.Leader, c13SubstSrcs(call, callee, g.Srcs)}
	}
	return out
}

// c13SubstCI is c13Subst for any call instruction that calls callee statically.
func c13SubstCI(call ssa.CallInstruction, callee *ssa.Function, r c13Ref) c13Ref {
	if call == nil || call.Common().IsInvoke() {
		return r
	}
	if p, ok := r.Root.(*ssa.Parameter); ok && p.Parent() == callee {
		if k := c13ParamIndex(p); k >= 0 && k < len(call.Common().Args) {
			b := c13RefOf(call.Common().Args[k])
			return c13Ref{b.Root, c13Join(b.Path, r.Path)}
		}
	}
	return r
}

// c13Level is one program point under which an instruction executes: the instruction itself,
// the creation site of the function literal holding it, or the call site of the extracted
// helper holding it (bind: that call, which binds the parameters of callee).
type c13Level struct {
	at     ssa.Instruction
	bind   ssa.CallInstruction
	callee *ssa.Function
}

// c13Chains enumerates, for an instruction of the region of entry, the chains of program
// points leading from it out to entry: element 0 is ins; element k+1 is the creation site of the
// closure, or a call site of the helper with known callers (eng.GuardSites), that holds
// element k. A guard at any level guards ins.
func c13Chains(ins ssa.Instruction, entry *ssa.Function, depth int) [][]c13Level {
	fn := ins.Parent()
	self := c13Level{at: ins}
	if fn == entry {
		return [][]c13Level{{self}}
	}
	var out [][]c13Level
	if fn.Parent() != nil {
		eng.Instrs(fn.Parent(), func(i ssa.Instruction) {
			if mc, ok := i.(*ssa.MakeClosure); ok && mc.Fn == ssa.Value(fn) {
				for _, up := range c13Chains(mc, entry, depth) {
					out = append(out, append([]c13Level{self}, up...))
				}
			}
		})
		if len(out) > 0 {
			return out
		}
	}
	if depth > 0 {
		for _, s := range eng.Current.GuardSites(fn) {
			for _, up := range c13Chains(s, entry, depth-1) {
				head := up[0]
				if s.Common().StaticCallee() == fn {
					head.bind, head.callee = s, fn
				}
				chain := append([]c13Level{self, head}, up[1:]...)
				out = append(out, chain)
			}
		}
		if len(out) > 0 {
			return out
		}
	}
	if fn.Parent() != nil {
		return nil // a function literal whose creation cannot be found
	}
	return [][]c13Level{{self}}
}

// c13LiftRef re-expresses a ref of the function of chain[from] in the context of the outermost
// level of the chain.
func c13LiftRef(chain []c13Level, from int, r c13Ref) c13Ref {
	for k := from + 1; k < len(chain); k++ {
		if chain[k].bind != nil {
			r = c13SubstCI(chain[k].bind, chain[k].callee, r)
		}
	}
	return r
}

// c13LiftValue resolves a value of the function of chain[0] that is a parameter of an extracted
// helper to the argument bound to it further out in the chain.
func c13LiftValue(chain []c13Level, v ssa.Value) ssa.Value {
	for k := 1; k < len(chain); k++ {
		if chain[k].bind == nil {
			continue
		}
		r, isAlias := c13Alias(v)
		if !isAlias {
			return v
		}
		p, isP := r.(*ssa.Parameter)
		if !isP || p.Parent() != chain[k].callee {
			continue
		}
		i := c13ParamIndex(p)
		args := chain[k].bind.Common().Args
		if i < 0 || i >= len(args) {
			return v
		}
		v = args[i]
	}
	return v
}

// c13ChainGuards collects the leader guards of every level of a chain, stated in the context of
// the outermost level.
func c13ChainGuards(chain []c13Level, depth int) []c13Guard {
	var out []c13Guard
	for k, lv := range chain {
		for _, g := range c13LeaderGuards(lv.at, depth) {
			srcs := make([]c13Src, len(g.Srcs))
			for i, s := range g.Srcs {
				s.Name, s.Count = c13LiftRef(chain, k, s.Name), c13LiftRef(chain, k, s.Count)
				srcs[i] = s
			}
			out = append(out, c13Guard{g.Leader, srcs})
		}
	}
	return out
}

type c13Agreement struct{ ok bool }

// c13CallSiteAgreement decides (once per entry point) that at every call site of entry the
// operand bound to parameter i is the field `path` of the object operand j points to, read
// without an intervening write of that object.
func c13CallSiteAgreement(c *eng.Ctx, cache map[string]*c13Agreement, entry *ssa.Function, i, j int, path string) bool {
	key := fmt.Sprintf("%p/%d/%d/%s", entry, i, j, path)
	if a, ok := cache[key]; ok {
		return a.ok
	}
	a := &c13Agreement{ok: true}
	cache[key] = a
	sites := c13CallSites(c, entry)
	if len(sites) == 0 {
		a.ok = false
		c.Fail("R3", entry, fmt.Sprintf("callers pass arg%d = arg%d.%s", i, j, path), entry.Pos(), "no call site found, the guard's name and the mutation's key cannot be related")
		return false
	}
	ord := map[*ssa.Function]int{}
	for _, s := range sites {
		ai, aj := c13ArgFor(s, i), c13ArgFor(s, j)
		ord[s.Parent()]++
		construct := fmt.Sprintf("call %s#%d: arg%d = arg%d.%s", entry.Name(), ord[s.Parent()], i, j, path)
		ok, why := false, "the leader guard is keyed by the first argument while the store mutations are keyed by the object's "+path+": the caller must pass exactly that field, otherwise a non-leader of the object's shard mutates its state"
		if ai != nil && aj != nil {
			ri, rj := c13RefOf(ai), c13RefOf(aj)
			ok = rj.Path == "" && ri.Root == rj.Root && ri.Path == path
			if ok {
				if ld, isIns := ai.(ssa.Instruction); isIns && ld.Parent() == s.Parent() {
					obj := rj.Root
					writer := func(x ssa.Instruction) bool {
						if x == ssa.Instruction(s) {
							return false
						}
						switch u := x.(type) {
						case *ssa.Store:
							r, _ := c13Path(u.Addr)
							return r == obj
						case ssa.CallInstruction:
							for _, arg := range u.Common().Args {
								if r, p := c13Path(arg); r == obj && p == "" {
									return true
								}
								if fa, isFA := arg.(*ssa.FieldAddr); isFA {
									if r, _ := c13Path(fa); r == obj {
										return true
									}
								}
							}
						}
						return false
					}
					if w := eng.ReachAfter(ld, eng.PathQuery{Target: writer, Avoid: func(x ssa.Instruction) bool { return x == ssa.Instruction(s) }}); w != nil {
						ok, why = false, "the object may be rewritten between reading its "+path+" and the call"
					}
				}
			}
		}
		if !ok {
			a.ok = false
		}
		c.Check("R3", s.Parent(), construct, s.Pos(), ok, why)
	}
	return a.ok
}

// c13NamesLeader: ev is a non-nil error built from GetLeaders().
func c13NamesLeader(c *eng.Ctx, ev ssa.Value) bool {
	if ev == nil || eng.IsNilConst(ev) {
		return false
	}
	return c.Slicer().WithArgs().DerivesFrom(ev, func(v ssa.Value) bool {
		cc, ok := v.(*ssa.Call)
		return ok && eng.IsCall(cc, c13GetLeaders)
	})
}

// c13NonLeaderAnswered decides, for one IsLeader call of the region of a serving entry point,
// that every way of leaving the entry point after IsLeader answered false carries an error
// naming the leader. A return of the function holding the call counts as "leader" only when it
// executes under IsLeader == true (a fact of its block: plain branch, named flag, switch). When
// the call sits in an extracted helper the helper signals the non-leader case to its callers
// through its own results — a non-nil error naming the leader, or a false boolean — and each
// caller must answer with the error on every path on which that signal is not excluded.
func c13NonLeaderAnswered(c *eng.Ctx, leader *ssa.Call, entry *ssa.Function, depth int) (bad bool, why string) {
	fn := leader.Parent()
	isLeaderTrue := func(ret ssa.Instruction) bool {
		for _, r := range eng.RelsAt(ret) {
			if v, ok := c13Alias(r.X); ok && v == ssa.Value(leader) &&
				((r.Op == token.EQL && eng.IsBoolConst(r.Y, true)) || (r.Op == token.NEQ && eng.IsBoolConst(r.Y, false))) {
				return true
			}
		}
		return false
	}
	// returns that can be reached after IsLeader answered false
	var rets []*ssa.Return
	for _, b := range fn.Blocks {
		if b == fn.Recover || len(b.Instrs) == 0 {
			continue
		}
		ret, ok := b.Instrs[len(b.Instrs)-1].(*ssa.Return)
		if !ok || isLeaderTrue(ret) {
			continue
		}
		if eng.ReachAfter(leader, eng.PathQuery{Target: func(i ssa.Instruction) bool { return i == ssa.Instruction(ret) }}) != nil {
			rets = append(rets, ret)
		}
	}
	if fn == entry || fn.Parent() != nil {
		top := fn
		if fn.Parent() != nil {
			// inside a function literal: only the literal's own returns are seen; not classified
			return true, "IsLeader is tested inside a function literal"
		}
		errIdx := c13ErrIdx(top)
		for _, ret := range rets {
			if !c13NamesLeader(c, c13Returned(ret, errIdx)) {
				return true, ""
			}
		}
		return false, ""
	}
	// an extracted helper: how does it signal "not leader"?
	sites := eng.Current.LiftSites(fn)
	if depth <= 0 || len(sites) == 0 {
		return true, "IsLeader is tested in a function whose callers are not all known"
	}
	hErr := c13ErrIdx(fn)
	res := fn.Signature.Results()
	boolIdx := -1
	if hErr < 0 {
		for i := 0; i < res.Len(); i++ {
			if b, ok := res.At(i).Type().Underlying().(*types.Basic); ok && b.Info()&types.IsBoolean != 0 {
				boolIdx = i
			}
		}
		if boolIdx < 0 {
			return true, "the helper testing IsLeader returns neither an error nor a boolean"
		}
	}
	for _, ret := range rets {
		if hErr >= 0 {
			if !c13NamesLeader(c, c13Returned(ret, hErr)) {
				return true, "the helper testing IsLeader returns without an error naming the leader on its non-leader path"
			}
			continue
		}
		rv := c13Returned(ret, boolIdx)
		if a, ok := c13Alias(rv); !eng.IsBoolConst(rv, false) && !(ok && a == ssa.Value(leader)) {
			return true, "the helper testing IsLeader answers true on a path where IsLeader was false"
		}
	}
	// at every call site: every way out on which the signal is not excluded answers with the error
	inRegion := map[*ssa.Function]bool{}
	for _, f := range c.W.Region(entry) {
		inRegion[f] = true
	}
	nSites := 0
	for _, s := range sites {
		if !inRegion[s.Parent()] {
			continue // a call from another entry point: decided there
		}
		nSites++
		call, isCall := s.(*ssa.Call)
		if !isCall {
			return true, "the helper testing IsLeader is started with go/defer"
		}
		caller := call.Parent()
		if caller != entry {
			return true, "the helper testing IsLeader is called from another helper or a function literal"
		}
		isSig := func(v ssa.Value) bool {
			a, ok := c13Alias(v)
			if !ok {
				return false
			}
			if hErr >= 0 {
				e, isE := a.(*ssa.Extract)
				return (isE && e.Tuple == ssa.Value(call) && e.Index == hErr) || (res.Len() == 1 && a == ssa.Value(call))
			}
			e, isE := a.(*ssa.Extract)
			return (isE && e.Tuple == ssa.Value(call) && e.Index == boolIdx) || (res.Len() == 1 && a == ssa.Value(call))
		}
		var cut func(from *ssa.BasicBlock, succ int) bool
		if hErr >= 0 {
			cut = c13CutNilEdges(isSig, true) // err == nil edges: the leader case
		} else {
			cut = func(from *ssa.BasicBlock, succ int) bool {
				for _, r := range eng.EdgeRels(from, succ) {
					if isSig(r.X) && ((r.Op == token.EQL && eng.IsBoolConst(r.Y, true)) || (r.Op == token.NEQ && eng.IsBoolConst(r.Y, false))) {
						return true
					}
				}
				return false
			}
		}
		errIdx := c13ErrIdx(caller)
		x := eng.ReachAfter(call, eng.PathQuery{BlockEdge: cut, Target: func(i ssa.Instruction) bool {
			ret, ok := i.(*ssa.Return)
			if !ok {
				return false
			}
			// a return in a block that is only reached with the signal excluded is the leader case
			for _, r := range eng.RelsAt(ret) {
				if hErr >= 0 && r.Op == token.EQL && ((isSig(r.X) && eng.IsNilConst(r.Y)) || (isSig(r.Y) && eng.IsNilConst(r.X))) {
					return false
				}
				if hErr < 0 && isSig(r.X) && ((r.Op == token.EQL && eng.IsBoolConst(r.Y, true)) || (r.Op == token.NEQ && eng.IsBoolConst(r.Y, false))) {
					return false
				}
			}
			return !c13NamesLeader(c, c13Returned(ret, errIdx))
		}})
		if x != nil {
			return true, "a caller of the helper testing IsLeader can return without the error although the helper signalled `not leader`"
		}
	}
	if nSites == 0 {
		return true, "the helper testing IsLeader is not called from the entry point"
	}
	return false, ""
}

func c13R3(c *eng.Ctx) {
	depth := c.Depth
	storeIface := c.W.Interface(pkgRLStoreIf, "LimitStore")
	fcIfaceG := c.W.Interface(pkgRLStoreFC, "GlobalFlowControl")
	rlIface := c.W.Interface(pkgLimiter, "RateLimiter")
	if storeIface == nil || fcIfaceG == nil || rlIface == nil {
		c.Fail("engine", nil, "unresolved-anchor interfaces LimitStore/GlobalFlowControl/RateLimiter", 0, "not found")
		return
	}
	gls := c13StoreSelector(c)
	isStoreMut := func(ci ssa.CallInstruction) bool {
		return c13IfaceCall(ci, storeIface, "Save", "Delete", "DeleteUpstream", "SyncFlowControl")
	}
	isFCMut := func(ci ssa.CallInstruction) bool { return c13IfaceCall(ci, fcIfaceG, "SetState", "TryAcquireN") }
	cache := map[string]*c13Agreement{}

	var entries []*ssa.Function
	for _, name := range []string{"UpdateRateLimitConditionStatus", "DoAcquire", "UpstreamConditionHandler", "deleteCondition"} {
		var role func(fn *ssa.Function) bool
		if name == "deleteCondition" {
			// the internal entry point of the cleanup passes, whatever it is called and whether it is
			// a method or a function handed the elector and the count: the function that removes one
			// condition from a store it is given
			role = func(fn *ssa.Function) bool {
				for _, e := range entries {
					if e == fn {
						return false
					}
				}
				for _, ci := range eng.Calls(fn) {
					if c13IfaceCall(ci, storeIface, "Delete") {
						if _, isP := eng.Receiver(ci).(*ssa.Parameter); isP {
							return true
						}
					}
				}
				return false
			}
		}
		entry := c13Anchor(c, pkgLimiter, "rateLimiter", name, role)
		if entry == nil {
			continue
		}
		entries = append(entries, entry)
		sameName := func(guard, key c13Ref) bool {
			if guard == key {
				return true
			}
			gp, gIsP := guard.Root.(*ssa.Parameter)
			kp, kIsP := key.Root.(*ssa.Parameter)
			if gIsP && kIsP && gp.Parent() == entry && kp.Parent() == entry && guard.Path == "" && key.Path != "" {
				// no write of that field inside the entry point itself (its closures and extracted helpers)
				for _, f := range c.W.Region(entry) {
					bad := false
					eng.Instrs(f, func(ins ssa.Instruction) {
						if st, ok := ins.(*ssa.Store); ok {
							// a store to the key field or to a struct enclosing it, through the same object
							if r := c13RefOf(st.Addr); r.Root == key.Root && (r.Path == key.Path || strings.HasPrefix(key.Path, r.Path+".")) {
								bad = true
							}
						}
					})
					if bad {
						return false
					}
				}
				return c13CallSiteAgreement(c, cache, entry, c13ParamIndex(gp), c13ParamIndex(kp), key.Path)
			}
			return false
		}

		ord := map[string]int{}
		nMut := 0
		// the entry point together with its closures and the helpers (with known callers) its body
		// may have been spread over
		region := c.W.Region(entry)
		for _, fn := range region {
			for _, ci := range eng.Calls(fn) {
				if !isStoreMut(ci) && !isFCMut(ci) {
					continue
				}
				nMut++
				mname := eng.CalleeObj(ci).Name()
				label := fmt.Sprintf("%s#%d", mname, c13Ordinal(ord, mname))

				// the upstream name(s) the mutation is keyed by, and the store it goes to — decided per
				// chain: a flow control handed to an extracted helper is looked up by the caller, so
				// the receiver is first resolved through the arguments of the chain's call sites
				chains := c13Chains(ci, entry, eng.LiftDepth)
				type keyed struct {
					keys     []c13Ref  // stated in the context of the outermost level
					storeVal ssa.Value // the store, a value of the function of chain[storeLvl]
					storeLvl int
				}
				keysOf := func(chain []c13Level) (keyed, bool) {
					if isStoreMut(ci) {
						return keyed{[]c13Ref{c13LiftRef(chain, 0, c13RefOf(eng.Args(ci)[0]))}, eng.Receiver(ci), 0}, true
					}
					r, _ := c13Alias(c13LiftValue(chain, eng.Receiver(ci)))
					gf, idx := eng.CallResultOf(r)
					if gf == nil || idx != 0 || !c13IfaceCall(gf, storeIface, "GetFlowControl") {
						return keyed{}, false
					}
					lvl := 0
					for k, lv := range chain {
						if lv.at.Parent() == gf.Parent() {
							lvl = k
						}
					}
					return keyed{[]c13Ref{c13LiftRef(chain, lvl, c13RefOf(eng.Args(gf)[0]))}, eng.Receiver(gf), lvl}, true
				}
				undecided := false
				for _, chain := range chains {
					if _, ok := keysOf(chain); !ok {
						undecided = true
					}
				}
				if undecided {
					c.Undecided("R3", fn, label+" on the IsLeader(shard(key)) edge", ci.Pos(), "cannot tell which upstream the flow control belongs to (it is not the result of LimitStore.GetFlowControl(upstream, …))")
					continue
				}

				ok := len(chains) > 0
				why := "the mutation must be control-dependent on IsLeader(GetShardID(u, n)) == true with u the upstream it is keyed by; otherwise a server that does not lead u's shard changes u's quota/acquire state"
				sok, swhy := len(chains) > 0, "the store receiving the mutation must be getLimitStoreForShard(id) of the id the leader guard tested"
				for _, chain := range chains {
					// keys and guards, both stated in the context of the outermost level
					kd, _ := keysOf(chain)
					lkeys, storeVal := kd.keys, kd.storeVal
					matched := false
					var guardSrcs []c13Src
					gs := c13ChainGuards(chain, depth)
					if len(gs) == 0 {
						why = "no IsLeader(GetShardID(…)) == true guard dominates the mutation; " + why
					}
					for _, g := range gs {
						all := true
						for _, s := range g.Srcs {
							for _, k := range lkeys {
								if !sameName(s.Name, k) {
									all = false
								}
							}
						}
						if all {
							matched = true
							guardSrcs = g.Srcs
						} else if len(gs) > 0 {
							why = fmt.Sprintf("the leader guard is keyed by %s but the mutation by %s; %s", c13RefString(g.Srcs[0].Name), c13RefString(lkeys[0]), why)
						}
					}
					if !matched {
						ok = false
					}

					// the store is the one of the guarded shard (or handed in by the caller together with the condition)
					sr, isAlias := c13Alias(c13LiftValue(chain[kd.storeLvl:], storeVal))
					thisOK := false
					if isAlias {
						switch x := sr.(type) {
						case *ssa.Parameter:
							thisOK = x.Parent() == entry
							swhy = "store handed in by the caller (it iterates the stores of led shards); the guard still tests the condition's own shard"
						case *ssa.Call, *ssa.Extract:
							// selected by an id computed from the same name and count as the guard's id
							srcs, ok2 := c13StoreSources(x, gls, depth)
							thisOK = ok2 && len(srcs) > 0 && len(guardSrcs) > 0
							// the selecting call sits at some level of the chain: state its sources in the outermost context
							lvl := 0
							for k, lv := range chain {
								if xi, isIns := x.(ssa.Instruction); isIns && lv.at.Parent() == xi.Parent() {
									lvl = k
								}
							}
							for _, s := range srcs {
								s.Name, s.Count = c13LiftRef(chain, lvl, s.Name), c13LiftRef(chain, lvl, s.Count)
								same := false
								for _, g := range guardSrcs {
									if g.Name == s.Name && g.Count == s.Count {
										same = true
									}
								}
								if !same {
									thisOK = false
								}
							}
						}
					}
					if !thisOK {
						sok = false
					}
				}
				c.Check("R3", fn, label+" on the IsLeader(shard(key)) edge", ci.Pos(), ok, why)
				c.Check("R3", fn, label+" on the store of the guarded shard", ci.Pos(), sok, swhy)
			}
		}
		if nMut == 0 {
			c.Fail("R3", entry, "store mutations", entry.Pos(), "no store mutation found in an entry point that is expected to change store state")
		}

		// serving calls: the non-leader edge answers with an error naming the leader
		serving := false
		for i := 0; i < rlIface.NumMethods(); i++ {
			if rlIface.Method(i).Name() == name {
				serving = true
			}
		}
		errIdx := c13ErrIdx(entry)
		if !serving || errIdx < 0 {
			continue
		}
		n := 0
		for _, fn := range region {
			for _, ci := range eng.CallsTo(fn, c13IsLeader) {
				call, isCall := ci.(*ssa.Call)
				if !isCall {
					continue
				}
				n++
				bad, why := c13NonLeaderAnswered(c, call, entry, eng.LiftDepth)
				detail := "on the IsLeader == false edge every return must carry a non-nil error built from GetLeaders() so that the gateway can re-address the request"
				if why != "" {
					detail = why + "; " + detail
				}
				c.Check("R3", entry, fmt.Sprintf("non-leader ⇒ error naming the leader#%d", n), ci.Pos(), !bad, detail)
			}
		}
		if n == 0 {
			c.Fail("R3", entry, "non-leader ⇒ error naming the leader", entry.Pos(), "the serving call does not branch on IsLeader")
		}
	}

	// cross-reference only: other functions of the limiter that mutate stores without a leader guard
	for _, fn := range c.W.FuncsOf(pkgLimiter) {
		for _, ci := range eng.Calls(fn) {
			if isStoreMut(ci) || isFCMut(ci) {
				guarded := true
				for _, s := range c13Sites(ci) {
					if len(c13LeaderGuards(s, depth)) == 0 {
						guarded = false
					}
				}
				if !guarded {
					c.Note("C13 note: %s calls %s without a leader guard (it iterates limitStoreMap, i.e. stores of shards currently led; leadership-change races are outside the rule set)", eng.FuncName(fn), eng.CalleeObj(ci).Name())
				}
			}
		}
	}
}

// ---- R4 ---------------------------------------------------------------------------------

// c13FuncTarget resolves a function value (function, literal, bound method value) to the
// function that runs when it is called.
func c13FuncTarget(v ssa.Value) *ssa.Function {
	switch x := v.(type) {
	case *ssa.Function:
		return x
	case *ssa.ChangeType:
		return c13FuncTarget(x.X)
	case *ssa.MakeClosure:
		fn, ok := x.Fn.(*ssa.Function)
		if !ok {
			return nil
		}
		if strings.HasPrefix(fn.Synthetic, "bound method wrapper") {
			for _, ci := range eng.Calls(fn) {
				if g := eng.CalleeFn(ci); g != nil {
					return g
				}
			}
			return nil
		}
		return fn
	}
	return nil
}

func c13R4(c *eng.Ctx) {
	storeIface := c.W.Interface(pkgRLStoreIf, "LimitStore")
	if storeIface == nil {
		c.Fail("engine", nil, "unresolved-anchor interface LimitStore", 0, "not found")
		return
	}
	isStop := func(ci ssa.CallInstruction) bool { return c13IfaceCall(ci, storeIface, "Stop") }

	// the function wired as OnStoppedLeading
	sts := eng.StoresToField(c.W.FuncsOf(pkgLimiter), c13TCallbacks, "OnStoppedLeading")
	if len(sts) == 0 {
		c.Fail("R4", nil, "OnStoppedLeading callback wired", 0, "the limiter never registers a stopped-leading callback: a lost shard keeps its in-memory state")
	}
	for k, st := range sts {
		stopFn := c13FuncTarget(st.Val)
		if stopFn == nil || stopFn.Blocks == nil || len(stopFn.Params) == 0 {
			c.Undecided("R4", st.Parent(), fmt.Sprintf("OnStoppedLeading callback wired#%d", k+1), st.Pos(), "cannot resolve the callback to a function")
			continue
		}
		c.Pass("R4", st.Parent(), fmt.Sprintf("OnStoppedLeading callback wired#%d", k+1), st.Pos(), "→ "+eng.FuncName(stopFn))
		shard := ssa.Value(stopFn.Params[len(stopFn.Params)-1])
		// isShard: v, a value of a function entered through env (nil: stopFn itself), denotes the
		// callback's shard parameter
		isShard := func(v ssa.Value, env *eng.CallEnv) bool {
			for i := 0; i < 4; i++ {
				a, ok := c13Alias(v)
				if !ok {
					return false
				}
				if a == shard {
					return true
				}
				r := eng.ResolveEnv(a, env)
				if r.V == a && r.Env == env {
					return false
				}
				v, env = r.V, r.Env
			}
			return false
		}
		// the removal, written in place or in a helper called on every path (the helper's key is
		// resolved through the arguments of the call)
		delPred := func(ins ssa.Instruction, env *eng.CallEnv) bool {
			call, ok := ins.(*ssa.Call)
			if !ok || !c13IsBuiltin(call, "delete") || len(call.Call.Args) != 2 {
				return false
			}
			return eng.FieldLoadOf(call.Call.Args[0], c13TRateLimiter, "limitStoreMap") && isShard(call.Call.Args[1], env)
		}
		isDelete := eng.MustIn(delPred)
		leak := eng.ReachFromEntry(stopFn, eng.PathQuery{Target: eng.IsExit, Avoid: isDelete})
		c.Check("R4", stopFn, "delete(limitStoreMap, shard) on every path", stopFn.Pos(), leak == nil,
			"after leadership of a shard is lost its store must leave the map on every path; otherwise requests keep being served from stale in-memory state once leadership returns")
		anyMapDelete := func(ci ssa.CallInstruction) bool {
			return c13IsBuiltin(ci, "delete") && len(ci.Common().Args) == 2 && eng.FieldLoadOf(ci.Common().Args[0], c13TRateLimiter, "limitStoreMap")
		}
		n := 0
		// stops(fn, env, removed): the calls of fn that stop a store; removed: the entry is already
		// deleted whenever fn is entered. A helper that both removes the entry and stops the store
		// is looked into (the order is decided inside it).
		var stops func(fn *ssa.Function, env *eng.CallEnv, removed bool, depth int)
		stops = func(fn *ssa.Function, env *eng.CallEnv, removed bool, depth int) {
			isDel := eng.MustInFrom(env, delPred)
			for _, ci := range eng.Calls(fn) {
				if !c13Performs(ci, isStop, 2) {
					continue
				}
				before := removed || eng.AlwaysBefore(fn, ci, isDel)
				if call, isCall := ci.(*ssa.Call); isCall && !isStop(ci) && depth > 0 {
					if g := eng.CalleeFn(ci); g != nil && g.Blocks != nil && c13ContainsCall(g, anyMapDelete, 1) {
						stops(g, &eng.CallEnv{Call: call, Callee: g, Parent: env}, before, depth-1)
						continue
					}
				}
				n++
				// the store that is stopped is the one registered for this shard
				var stopped ssa.Value
				if isStop(ci) {
					stopped = eng.Receiver(ci)
				} else {
					for _, a := range ci.Common().Args {
						if c13Implements(a.Type(), storeIface) {
							stopped = a
						}
					}
				}
				own := false
				if stopped != nil {
					eng.WalkDefs(stopped, env, func(d eng.EnvValue, _ []eng.Via) bool {
						if lk, ok := d.V.(*ssa.Lookup); ok && eng.FieldLoadOf(lk.X, c13TRateLimiter, "limitStoreMap") && isShard(lk.Index, d.Env) {
							own = true
						}
						return !own
					})
				}
				c.Check("R4", stopFn, fmt.Sprintf("store removed from the map before it is stopped#%d", n), ci.Pos(), before && own,
					"Stop (flush + close) of limitStoreMap[shard] must come after the entry is deleted: while it is still in the map, requests mutate a store that is being flushed/stopped")
			}
		}
		stops(stopFn, nil, false, eng.LiftDepth)
		if n == 0 {
			c.Fail("R4", stopFn, "store removed from the map before it is stopped", stopFn.Pos(), "the callback never stops the shard's store")
		}
	}

	c13RemovedIsStopped(c, storeIface)

	// the elector invokes the callback with the shard it lost
	n := 0
	for _, fn := range c.W.FuncsOf(pkgElector) {
		for _, ci := range eng.Calls(fn) {
			cc := ci.Common()
			if cc.IsInvoke() || cc.StaticCallee() != nil || !eng.FieldLoadOf(cc.Value, c13TCallbacks, "OnStoppedLeading") {
				continue
			}
			n++
			root, _ := c13Path(cc.Args[0])
			_, isParam := root.(*ssa.Parameter)
			if _, isFV := root.(*ssa.FreeVar); isFV {
				isParam = true // shard id captured by a function literal
			}
			c.Check("R4", fn, fmt.Sprintf("elector invokes OnStoppedLeading(shard)#%d", n), ci.Pos(), len(cc.Args) == 1 && isParam, "the callback receives the shard id whose lease was lost")
		}
	}
	if n == 0 {
		c.Fail("R4", nil, "elector invokes OnStoppedLeading(shard)", 0, "the elector never invokes the stopped-leading callback")
	}
}

// c13RemovedIsStopped (R4): a store leaves the shard → store table only together with being
// stopped, and the store that is stopped is the one that left. For every delete(limitStoreMap, k)
// of the limiter — seen from each function under whose control it runs (the helper holding it
// may be shared) — some Stop that follows stops either the value that was mapped under k (a
// lookup under the same key), or a store s with the removal conditional on limitStoreMap[k] == s.
// Otherwise a healthy store registered meanwhile is dropped from the table without being
// stopped: it is in no map, nobody can discard it, and (k8s store) its sync loop keeps writing
// the shard's state after leadership is lost.
func c13RemovedIsStopped(c *eng.Ctx, storeIface *types.Interface) {
	isStop := func(ci ssa.CallInstruction) bool { return c13IfaceCall(ci, storeIface, "Stop") }
	isMap := func(v ssa.Value) bool { return eng.FieldLoadOf(v, c13TRateLimiter, "limitStoreMap") }
	// sameIn: v, a value of a function entered through env (nil: the anchor), denotes want, a value
	// of the anchor
	sameIn := func(v ssa.Value, env *eng.CallEnv, want ssa.Value) bool {
		for i := 0; i < 4; i++ {
			a, ok := c13Alias(v)
			if !ok {
				return false
			}
			if a == want {
				return true
			}
			r := eng.ResolveEnv(a, env)
			if r.V == a && r.Env == env {
				return false
			}
			v, env = r.V, r.Env
		}
		return false
	}
	ord := map[*ssa.Function]int{}
	for _, fn := range c.W.FuncsOf(pkgLimiter) {
		for _, ci := range eng.Calls(fn) {
			del, isCall := ci.(*ssa.Call)
			if !isCall || !c13IsBuiltin(del, "delete") || len(del.Call.Args) != 2 || !isMap(del.Call.Args[0]) {
				continue
			}
			type ctxKey struct {
				anchor *ssa.Function
				site   ssa.Instruction
			}
			done := map[ctxKey]bool{}
			// a function literal called in place runs as part of the function that creates it
			// (capturing literals are not lifted by eng.UpChains)
			base, baseSite := fn, ssa.Instruction(del)
			for base.Parent() != nil && len(c.W.UpSites(base)) == 0 {
				var call ssa.Instruction
				eng.Instrs(base.Parent(), func(ins ssa.Instruction) {
					mc, ok := ins.(*ssa.MakeClosure)
					if !ok || mc.Fn != ssa.Value(base) || mc.Referrers() == nil || len(*mc.Referrers()) != 1 {
						return
					}
					if cc, isCall := (*mc.Referrers())[0].(*ssa.Call); isCall && cc.Call.Value == ssa.Value(mc) {
						call = cc
					}
				})
				if call == nil {
					break
				}
				base, baseSite = base.Parent(), call
			}
			for _, full := range c.W.UpChains(base, nil) {
				// the anchor: the innermost function on the chain that stops a store (the removal may
				// sit in a helper shared by several of them)
				ch := full[:0]
				for i := 0; i <= len(full); i++ {
					cand := full[:i]
					stops := false
					for _, sc := range eng.Calls(cand.Top(base)) {
						if c13Performs(sc, isStop, 2) {
							stops = true
						}
					}
					if stops {
						ch = cand
						break
					}
				}
				anchor := ch.Top(base)
				site := baseSite
				if len(ch) > 0 {
					site = ch[len(ch)-1].Call
				}
				if done[ctxKey{anchor, site}] {
					continue
				}
				done[ctxKey{anchor, site}] = true
				// the removed key, stated in the anchor
				key := del.Call.Args[1]
				if a, ok := c13Alias(key); ok {
					key = a
				}
				key = ch.Resolve(key)
				if a, ok := c13Alias(key); ok {
					key = a
				}
				// the store the removal is conditional on: limitStoreMap[k] == s at the delete
				var condStore []ssa.Value
				for _, r := range eng.RelsAt(del) {
					if r.Op != token.EQL {
						continue
					}
					for _, side := range [][2]ssa.Value{{r.X, r.Y}, {r.Y, r.X}} {
						k, isLk := c13StoreLookup(side[0])
						if !isLk {
							continue
						}
						ka, _ := c13Alias(k)
						da, _ := c13Alias(del.Call.Args[1])
						if ka != nil && ka == da {
							s := side[1]
							if a, ok := c13Alias(s); ok {
								s = a
							}
							s = ch.Resolve(s)
							if a, ok := c13Alias(s); ok {
								s = a
							}
							condStore = append(condStore, s)
						}
					}
				}
				ok := false
				for _, sc := range eng.Calls(anchor) {
					if !c13Performs(sc, isStop, 2) {
						continue
					}
					sc := sc
					if sc != site && eng.ReachAfter(site, eng.PathQuery{Target: func(i ssa.Instruction) bool { return i == ssa.Instruction(sc) }}) == nil {
						continue
					}
					var stopped ssa.Value
					if isStop(sc) {
						stopped = eng.Receiver(sc)
					} else {
						for _, a := range sc.Common().Args {
							if c13Implements(a.Type(), storeIface) {
								stopped = a
							}
						}
					}
					if stopped == nil {
						continue
					}
					for _, s := range condStore {
						if sameIn(stopped, nil, s) {
							ok = true
						}
					}
					eng.WalkDefs(stopped, nil, func(d eng.EnvValue, _ []eng.Via) bool {
						if k, isLk := c13StoreLookup(d.V); isLk && sameIn(k, d.Env, key) {
							ok = true
						}
						return !ok
					})
				}
				ord[anchor]++
				c.Check("R4", anchor, fmt.Sprintf("removed store is the one that is stopped#%d", ord[anchor]), del.Pos(), ok,
					"an entry is deleted from limitStoreMap although the store stopped afterwards is neither the value mapped under that key nor a store the removal is conditional on (limitStoreMap[k] == s): a store registered meanwhile is dropped without being stopped and keeps running outside the table")
			}
		}
	}
}

func c13IsBuiltin(c ssa.CallInstruction, name string) bool {
	b, ok := c.Common().Value.(*ssa.Builtin)
	return ok && b.Name() == name
}

// ---- shard filter of the k8s store (C13.R4, C19.R5) --------------------------------------

// c13ObjRoot identifies the API object a value denotes, modulo DeepCopy.
func c13ObjRoot(v ssa.Value) ssa.Value {
	for i := 0; i < 8; i++ {
		r, p := c13Path(v)
		if p != "" {
			return r
		}
		if call, ok := r.(*ssa.Call); ok {
			if g := call.Call.StaticCallee(); g != nil && g.Name() == "DeepCopy" && len(call.Call.Args) == 1 {
				v = call.Call.Args[0]
				continue
			}
		}
		return r
	}
	return v
}

// c13OwnShardRel reports whether rel states  GetShardID(obj.Spec.UpstreamCluster, s.shardCount) == s.shard
// (wantEq) or != (wantEq=false) for the store receiver recv and, when obj != nil, that object.
func c13OwnShardRel(r eng.Rel, wantEq bool, recv ssa.Value, obj ssa.Value, depth int) bool {
	if (wantEq && r.Op != token.EQL) || (!wantEq && r.Op != token.NEQ) {
		return false
	}
	var other ssa.Value
	switch {
	case eng.FieldLoadOf(r.X, c13TObjectStore, "shard"):
		other = r.Y
	case eng.FieldLoadOf(r.Y, c13TObjectStore, "shard"):
		other = r.X
	default:
		return false
	}
	srcs, ok := c13ShardSources(other, depth)
	if !ok || len(srcs) == 0 {
		return false
	}
	for _, s := range srcs {
		if s.Count != (c13Ref{recv, "shardCount"}) || s.Name.Path != c13NamePath {
			return false
		}
		if obj != nil && c13ObjRoot(s.Name.Root) != c13ObjRoot(obj) {
			return false
		}
	}
	return true
}

// c13ShardFilter checks the own-shard filter of objectStore.Save and objectStore.Load and
// records the obligations under `rule` of the calling property (C13.R4 and C19.R5).
func c13ShardFilter(c *eng.Ctx, rule string) {
	depth := c.Depth
	storeIface := c.W.Interface(pkgRLStoreIf, "LimitStore")
	if storeIface == nil {
		c.Fail("engine", nil, "unresolved-anchor interface LimitStore", 0, "not found")
		return
	}
	isLocalSave := func(ci ssa.CallInstruction) bool {
		return c13IfaceCall(ci, storeIface, "Save") && eng.FieldLoadOf(eng.Receiver(ci), c13TObjectStore, "localStore")
	}
	isAPIWrite := func(ci ssa.CallInstruction) bool {
		return eng.IsCall(ci, c13CondIface+".Update", c13CondIface+".Create")
	}

	// Save refuses conditions of other shards
	if save := c.MustMethod(pkgRLStoreK8s, "objectStore", "Save"); save != nil && len(save.Params) == 3 {
		recv, obj := ssa.Value(save.Params[0]), ssa.Value(save.Params[2])
		own := func(r eng.Rel) bool { return c13OwnShardRel(r, true, recv, obj, depth) }
		nAPI, nLocal := 0, 0
		// the in-memory write, in Save or in a helper (all callers known) its tail was moved into:
		// the own-shard test must hold at the write or at every call that leads to it
		for _, rf := range c.W.Region(save) {
			if rf == save {
				continue
			}
			for _, ci := range eng.Calls(rf) {
				if isLocalSave(ci) {
					nLocal++
					c.Check(rule, save, fmt.Sprintf("Save: local write#%d only for the store's own shard", nLocal), ci.Pos(), eng.HoldsAt(ci, own),
						"the in-memory write must be control-dependent on GetShardID(condition.Spec.UpstreamCluster, shardCount) == shard of the condition being saved; otherwise a store holds (and later flushes/serves) state of a shard its server does not lead")
				}
			}
		}
		for _, ci := range eng.Calls(save) {
			switch {
			case isLocalSave(ci):
				nLocal++
				c.Check(rule, save, fmt.Sprintf("Save: local write#%d only for the store's own shard", nLocal), ci.Pos(), eng.HoldsAt(ci, own),
					"the in-memory write must be control-dependent on GetShardID(condition.Spec.UpstreamCluster, shardCount) == shard of the condition being saved; otherwise a store holds (and later flushes/serves) state of a shard its server does not lead")
			case c13Performs(ci, isAPIWrite, 2):
				nAPI++
				c.Check(rule, save, fmt.Sprintf("Save: API write#%d only for the store's own shard", nAPI), ci.Pos(), eng.HoldsAt(ci, own),
					"the API write must be control-dependent on the own-shard test of the condition being saved")
			}
		}
		if nLocal == 0 {
			c.Fail(rule, save, "Save: local write only for the store's own shard", save.Pos(), "no write to the local store found")
		}
		if nAPI == 0 {
			c.Fail(rule, save, "Save: API write only for the store's own shard", save.Pos(), "no API write found")
		}
		// the refusing edge returns an error
		nIf := 0
		for _, b := range save.Blocks {
			iff, ok := b.Instrs[len(b.Instrs)-1].(*ssa.If)
			if !ok {
				continue
			}
			for si := 0; si < 2; si++ {
				if !c13OwnShardRel(eng.RelOf(iff.Cond, si == 0), false, recv, obj, depth) {
					continue
				}
				nIf++
				bad := eng.ReachFromBlock(b.Succs[si], eng.PathQuery{Target: func(x ssa.Instruction) bool {
					ret, ok := x.(*ssa.Return)
					return ok && !c13FreshError(c13Returned(ret, c13ErrIdx(save)))
				}})
				c.Check(rule, save, fmt.Sprintf("Save: foreign shard ⇒ error#%d", nIf), iff.Pos(), bad == nil, "a condition of another shard must be refused with an error (the caller must not acknowledge it)")
			}
		}
		if nIf == 0 {
			c.Fail(rule, save, "Save: foreign shard ⇒ error", save.Pos(), "no branch on the own-shard test found")
		}
	}

	// Load takes exactly the listed conditions of the own shard
	if load := c.MustMethod(pkgRLStoreK8s, "objectStore", "Load"); load != nil && len(load.Params) == 1 {
		recv := ssa.Value(load.Params[0])
		sl := c.Slicer()
		isListed := func(v ssa.Value) bool {
			cc, idx := eng.CallResultOf(v)
			return cc != nil && idx == 0 && eng.IsCall(cc, c13CondIface+".List")
		}
		n := 0
		for _, ci := range eng.Calls(load) {
			if !isLocalSave(ci) {
				continue
			}
			n++
			obj := eng.Args(ci)[1]
			c.Check(rule, load, fmt.Sprintf("Load: local write#%d only for the store's own shard", n), ci.Pos(),
				eng.HoldsAt(ci, func(r eng.Rel) bool { return c13OwnShardRel(r, true, recv, obj, depth) }),
				"a listed condition is taken into the store only if GetShardID(its Spec.UpstreamCluster, shardCount) == shard, tested on the very object that is saved; otherwise a new leader serves state of other shards")
			c.Check(rule, load, fmt.Sprintf("Load: local write#%d stores a listed condition", n), ci.Pos(), sl.WithArgs().DerivesFrom(obj, isListed),
				"what is loaded must come from the API server's list of conditions")
		}
		if n == 0 {
			c.Fail(rule, load, "Load: local write only for the store's own shard", load.Pos(), "Load never writes to the local store")
		}
		// completeness: every own-shard item of the list reaches the local write
		nLoop := 0
		for _, b := range load.Blocks {
			iff, ok := b.Instrs[len(b.Instrs)-1].(*ssa.If)
			if !ok {
				continue
			}
			r := eng.RelOf(iff.Cond, true)
			bound, op := r.Y, r.Op
			if lc, isCall := r.X.(*ssa.Call); isCall && c13IsBuiltin(lc, "len") {
				bound, op = r.X, eng.FlipOp(op)
			}
			lc, isCall := bound.(*ssa.Call)
			if !isCall || !c13IsBuiltin(lc, "len") || op != token.LSS || !sl.DerivesFrom(lc.Call.Args[0], isListed) {
				continue
			}
			nLoop++
			skipForeign := func(from *ssa.BasicBlock, si int) bool {
				f, ok := from.Instrs[len(from.Instrs)-1].(*ssa.If)
				return ok && c13OwnShardRel(eng.RelOf(f.Cond, si == 0), false, recv, nil, depth)
			}
			miss := eng.ReachFromBlock(b.Succs[0], eng.PathQuery{
				Target:    func(x ssa.Instruction) bool { return x == ssa.Instruction(iff) || eng.IsExit(x) },
				Avoid:     func(x ssa.Instruction) bool { ci, ok := x.(ssa.CallInstruction); return ok && isLocalSave(ci) },
				BlockEdge: skipForeign,
			})
			c.Check(rule, load, fmt.Sprintf("Load: every own-shard item is stored#%d", nLoop), iff.Pos(), miss == nil,
				"an iteration may skip the local write only on the foreign-shard edge; any other skip loses persisted state of the shard when leadership moves")
		}
		if nLoop == 0 {
			c.Fail(rule, load, "Load: every own-shard item is stored", load.Pos(), "no loop over the listed conditions found")
		}
	}
}

// ---------------------------------------------------------------------------------------
// Self-test of the value-identity helper the key-agreement checks rest on.

const c13FxSrc = `package fx
type Spec struct{ Up, Inst string }
type Obj struct{ Name string; Spec Spec }
func use(string) {}
func key(string) {}

func sameDirect(o *Obj)  { use(o.Spec.Up); key(o.Spec.Up) }
func sameLocal(o *Obj)   { u := o.Spec.Up; use(u); key(u) }
func sameClosure(o *Obj) { u := o.Spec.Up; use(u); func() { key(u) }() }
func sameParamClosure(u string) { use(u); func() { func() { key(u) }() }() }
func diffField(o *Obj)   { use(o.Spec.Up); key(o.Spec.Inst) }
func diffObject(o, q *Obj) { use(o.Spec.Up); key(q.Spec.Up) }
func diffReassigned(o *Obj) { u := o.Spec.Up; use(u); func() { u = o.Name }(); key(u) }
func diffName(o *Obj)    { use(o.Name); key(o.Spec.Up) }
`

func c13Fixtures(c *eng.Ctx) {
	p, _, err := eng.BuildFixture(c13FxSrc)
	if err != nil {
		c.Fixture("C13.sameref/build", "ok", err.Error())
		return
	}
	for _, t := range []struct {
		name string
		want bool
	}{{"sameDirect", true}, {"sameLocal", true}, {"sameClosure", true}, {"sameParamClosure", true}, {"diffField", false}, {"diffObject", false}, {"diffReassigned", false}, {"diffName", false}} {
		var a, b []ssa.Value
		for _, fn := range eng.WithClosures(p.Func(t.name)) {
			for _, ci := range eng.CallsTo(fn, "fx.use") {
				a = append(a, eng.Args(ci)[0])
			}
			for _, ci := range eng.CallsTo(fn, "fx.key") {
				b = append(b, eng.Args(ci)[0])
			}
		}
		got := len(a) == 1 && len(b) == 1 && c13RefOf(a[0]) == c13RefOf(b[0])
		c.Fixture("C13.sameref/"+t.name, fmt.Sprint(t.want), fmt.Sprint(got))
	}
}
