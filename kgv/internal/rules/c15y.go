package rules

import (
	"fmt"

	"golang.org/x/tools/go/ssa"

	"kgv/internal/eng"
)

func init() { RegisterExtra("C15", c15NoPinnedEndpointClient) }

// c15NoPinnedEndpointClient (C15.R7): "a removed endpoint receives no traffic" also covers the
// reviews the gateway itself sends. ClientProvider.ClientFor(host) picks an endpoint of the
// cluster and returns that endpoint's client; the authenticator and the authorizer keep
// per-host state (token caches, decision caches) that lives until the cluster stops. R7: no
// value stored into those per-host tables derives from the client result of ClientFor — the
// endpoint is picked anew for every review. A client captured in the cached authenticator keeps
// sending token reviews to its endpoint after the endpoint was removed from the server list.
func c15NoPinnedEndpointClient(c *eng.Ctx) {
	c.Rule("R7", "no endpoint client is pinned in per-host state: values stored into the authenticator's / authorizer's per-host tables do not derive from the client result of ClientFor", 2)
	isPickedClient := func(v ssa.Value) bool {
		cc, i := eng.CallResultOf(v)
		return cc != nil && i == 1 && eng.MethodNameIs(cc, "ClientFor")
	}
	sl := (&eng.Slicer{W: c.W, Depth: 3}).WithArgs()
	n := 0
	for _, pk := range []string{pkgTokenWH, pkgAuthzWH} {
		for _, fn := range c.W.FuncsOf(pk) {
			for _, ci := range eng.CallsTo(fn, "(*sync.Map).LoadOrStore", "(*sync.Map).Store") {
				a := eng.Args(ci)
				if len(a) != 2 {
					continue
				}
				n++
				pinned := sl.DerivesFrom(a[1], isPickedClient)
				c.Check("R7", fn, fmt.Sprintf("per-host state#%d holds no picked client", n), ci.Pos(), !pinned,
					"the value kept for the host until its cluster stops is built from the client of one picked endpoint: that endpoint keeps receiving the gateway's reviews after it was removed from the cluster's servers (and the other endpoints receive none)")
			}
		}
	}
	if n == 0 {
		c.Fail("R7", nil, "per-host tables of the authenticator and authorizer", 0, "no LoadOrStore/Store into a per-host table found")
	}
}
