package rules

import (
	"fmt"
	"go/token"
	"go/types"
	"sort"
	"strings"

	"golang.org/x/tools/go/ssa"

	"kgv/internal/eng"
)

// ---- R9: one policy field per polarity decision ----------------------------------------
//
// "A list made only of inverted entries matches exactly what the positive list does not" is a
// statement about ONE list of the rule. The function that splits a list into positive and
// inverted entries decides the polarity for whatever list it is handed; handing it a list
// assembled from two rule fields lets the entries of one field switch off the inversion of
// the other. R9 finds the list-splitting functions from the code (a '-' strip applied to the
// elements of a parameter, and every function that forwards its own parameter to one) and
// requires, at every call from a per-field matcher, that the list argument derives from
// exactly one parameter of the matcher.

func c01ListConsumers(c *eng.Ctx) map[*ssa.Function]map[int]bool {
	sl := &eng.Slicer{W: c.W, Depth: 2}
	out := map[*ssa.Function]map[int]bool{}
	funcs := c.W.FuncsOf(pkgV1alpha1)
	mark := func(f *ssa.Function, i int) bool {
		if out[f] == nil {
			out[f] = map[int]bool{}
		}
		if out[f][i] {
			return false
		}
		out[f][i] = true
		return true
	}
	for _, f := range funcs {
		top := f
		for top.Parent() != nil {
			top = top.Parent()
		}
		var all []ssa.Instruction
		eng.Instrs(f, func(i ssa.Instruction) { all = append(all, i) })
		for _, ins := range all {
			v, ok := ins.(ssa.Value)
			if !ok || !c01IsStrip(v) {
				continue
			}
			var src ssa.Value
			if s, isS := v.(*ssa.Slice); isS {
				src = s.X
			} else if cc, _ := eng.CallResultOf(v); cc != nil {
				src = eng.Args(cc)[0]
			}
			if src == nil {
				continue
			}
			for i, p := range top.Params {
				if _, isSlice := p.Type().Underlying().(*types.Slice); !isSlice {
					continue
				}
				pp := p
				if sl.DerivesFrom(src, func(x ssa.Value) bool { return x == ssa.Value(pp) }) {
					mark(top, i)
				}
			}
		}
	}
	for changed := true; changed; {
		changed = false
		for _, f := range funcs {
			if f.Parent() != nil {
				continue
			}
			for _, ci := range eng.Calls(f) {
				g := eng.CalleeFn(ci)
				if g == nil || out[g] == nil {
					continue
				}
				for i := range out[g] {
					args := ci.Common().Args
					if i >= len(args) {
						continue
					}
					for j, p := range f.Params {
						if args[i] == ssa.Value(p) && mark(f, j) {
							changed = true
						}
					}
				}
			}
		}
	}
	return out
}

func c01R9(c *eng.Ctx) {
	cons := c01ListConsumers(c)
	if len(cons) == 0 {
		c.Fail("R9", nil, "list-splitting functions", 0, "no function strips '-' from the elements of a list parameter: the polarity decision was not found")
		return
	}
	sl := (&eng.Slicer{W: c.W, Depth: 3}).WithArgs()
	n := 0
	for _, name := range c01Matchers {
		m := c.W.Func(pkgV1alpha1, name)
		if m == nil {
			continue // reported by R2
		}
		k := 0
		for _, f := range eng.WithClosures(m) {
			for _, ci := range eng.Calls(f) {
				g := eng.CalleeFn(ci)
				if g == nil || cons[g] == nil {
					continue
				}
				var idxs []int
				for i := range cons[g] {
					idxs = append(idxs, i)
				}
				sort.Ints(idxs)
				for _, i := range idxs {
					args := ci.Common().Args
					if i >= len(args) {
						continue
					}
					k++
					n++
					var from []string
					for _, p := range m.Params {
						pp := p
						if sl.DerivesFrom(args[i], func(x ssa.Value) bool { return x == ssa.Value(pp) }) {
							from = append(from, p.Name())
						}
					}
					c.Check("R9", m, fmt.Sprintf("list handed to %s#%d comes from one rule field", g.Name(), k), ci.Pos(), len(from) == 1,
						"the positive/inverted decision is taken per list: this list derives from parameters ["+strings.Join(from, ", ")+"] of the matcher, so entries of one rule field change the polarity of another (or the list is not a rule field at all)")
				}
			}
		}
	}
	if n == 0 {
		c.Fail("R9", nil, "calls of list-splitting functions from the matchers", 0, "no per-field matcher hands a list to a splitting function")
	}
}

// ---- R10: a successful Sync publishes the object's own policy list -----------------------
//
// "The decision depends only on the request attributes and the cluster's current policy
// list": the list MatchAttributes loads is the one the last successful Sync stored. Every
// nil return of ClusterInfo.Sync must therefore lie behind the store of the synced object's
// Spec.DispatchPolicies; the only success path that may skip it is the refusal of an object
// of a different cluster (name test).

func c01R10(c *eng.Ctx) {
	sync := c.MustMethod(pkgClusters, "ClusterInfo", "Sync")
	if sync == nil {
		return
	}
	if len(sync.Params) < 2 {
		c.Fail("R10", sync, "Sync(object)", sync.Pos(), "unexpected signature")
		return
	}
	obj := sync.Params[1]
	var stores []ssa.CallInstruction
	for _, ci := range eng.Calls(sync) {
		if !eng.MethodNameIs(ci, "Store") {
			continue
		}
		if !eng.FieldAddrOf(eng.Receiver(ci), pkgClusters+".ClusterInfo", "currentDispatchPolicies") {
			continue
		}
		stores = append(stores, ci)
	}
	if len(stores) != 1 {
		c.Fail("R10", sync, "one store of the policy list", sync.Pos(), fmt.Sprintf("found %d stores to currentDispatchPolicies in Sync", len(stores)))
		return
	}
	st := stores[0]
	// the stored value is the object's Spec.DispatchPolicies, unfiltered
	arg := eng.Args(st)[0]
	for {
		if mi, ok := arg.(*ssa.MakeInterface); ok {
			arg = mi.X
			continue
		}
		break
	}
	root, path := eng.AccessPath(arg)
	c.Check("R10", sync, "stored list is object.Spec.DispatchPolicies", st.Pos(),
		root == ssa.Value(obj) && len(path) >= 2 && path[len(path)-1] == "DispatchPolicies" && path[len(path)-2] == "Spec",
		"the list published for routing must be exactly the policy list of the synced object (got "+eng.PathString(arg)+")")
	isStore := func(i ssa.Instruction) bool { return i == st.(ssa.Instruction) }
	nameTest := func(r eng.Rel) bool {
		if r.Op != token.NEQ {
			return false
		}
		isCluster := func(v ssa.Value) bool { return eng.FieldLoadOf(v, pkgClusters+".ClusterInfo", "Cluster") }
		sl := (&eng.Slicer{W: c.W, Depth: 1}).WithArgs()
		fromName := func(v ssa.Value) bool {
			return sl.DerivesFrom(v, func(x ssa.Value) bool {
				rt, p := eng.AccessPath(x)
				return rt == ssa.Value(obj) && len(p) > 0 && p[len(p)-1] == "Name"
			})
		}
		return (isCluster(r.X) && fromName(r.Y)) || (isCluster(r.Y) && fromName(r.X))
	}
	k := 0
	for _, b := range sync.Blocks {
		if b == sync.Recover {
			continue
		}
		ret, ok := b.Instrs[len(b.Instrs)-1].(*ssa.Return)
		if !ok {
			continue
		}
		res := eng.ReturnResults(ret)
		if len(res) != 1 {
			continue
		}
		if !eng.IsNilConst(res[0]) {
			// an error value or a phi: every nil-carrying incoming edge is handled through the path query below
			if _, isPhi := res[0].(*ssa.Phi); !isPhi {
				continue
			}
		}
		k++
		skips := eng.ReachFromEntry(sync, eng.PathQuery{
			Target: func(i ssa.Instruction) bool { return i == ssa.Instruction(ret) },
			Avoid:  isStore,
		}) != nil
		if !skips {
			c.Pass("R10", sync, fmt.Sprintf("success return#%d lies behind the store", k), ret.Pos(), "")
			continue
		}
		if _, isPhi := res[0].(*ssa.Phi); isPhi {
			// a merged return: only nil-carrying edges matter
			phi := res[0].(*ssa.Phi)
			bad := false
			for i, e := range phi.Edges {
				if !eng.IsNilConst(e) {
					continue
				}
				pred := phi.Block().Preds[i]
				reach := eng.ReachFromEntry(sync, eng.PathQuery{
					Target: func(ins ssa.Instruction) bool { return ins.Block() == pred && ins == pred.Instrs[len(pred.Instrs)-1] },
					Avoid:  isStore,
				}) != nil
				if reach && !eng.GuardedBy(pred.Instrs[len(pred.Instrs)-1], nameTest) {
					bad = true
				}
			}
			c.Check("R10", sync, fmt.Sprintf("success return#%d lies behind the store", k), ret.Pos(), !bad,
				"Sync reports success on a path that does not publish the object's policy list and is not the refusal of another cluster's object: routing keeps deciding on a stale list")
			continue
		}
		c.Check("R10", sync, fmt.Sprintf("success return#%d lies behind the store", k), ret.Pos(), eng.GuardedBy(ret, nameTest),
			"Sync reports success on a path that does not publish the object's policy list and is not the refusal of another cluster's object: routing keeps deciding on a stale list")
	}
	if k == 0 {
		c.Fail("R10", sync, "success returns", sync.Pos(), "no nil return found in Sync")
	}
}
