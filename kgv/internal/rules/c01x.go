package rules

import (
	"fmt"
	"go/token"
	"go/types"
	"sort"
	"strings"

	"golang.org/x/tools/go/ssa"

	"kgv/internal/eng"
)

// ---- R9: one policy field per polarity decision ----------------------------------------
//
// "A list made only of inverted entries matches exactly what the positive list does not" is a
// statement about ONE list of the rule. The function that splits a list into positive and
// inverted entries decides the polarity for whatever list it is handed; handing it a list
// assembled from two rule fields lets the entries of one field switch off the inversion of
// the other. R9 finds the list-splitting functions from the code (a '-' strip applied to the
// elements of a parameter, and every function that forwards its own parameter to one) and
// requires, at every call from a per-field matcher, that the list argument derives from
// exactly one parameter of the matcher.

func c01ListConsumers(c *eng.Ctx) map[*ssa.Function]map[int]bool {
	// WithUp: the strip may sit in a per-entry helper (`value, inverted := splitRule(rules[i])`);
	// the entry it is applied to is then traced into the call sites of the helper
	sl := (&eng.Slicer{W: c.W, Depth: 2}).WithUp()
	out := map[*ssa.Function]map[int]bool{}
	funcs := c.W.FuncsOf(pkgV1alpha1)
	mark := func(f *ssa.Function, i int) bool {
		if out[f] == nil {
			out[f] = map[int]bool{}
		}
		if out[f][i] {
			return false
		}
		out[f][i] = true
		return true
	}
	for _, f := range funcs {
		top := f
		for top.Parent() != nil {
			top = top.Parent()
		}
		var all []ssa.Instruction
		eng.Instrs(f, func(i ssa.Instruction) { all = append(all, i) })
		for _, ins := range all {
			v, ok := ins.(ssa.Value)
			if !ok || !c01IsStrip(v) {
				continue
			}
			var src ssa.Value
			if s, isS := v.(*ssa.Slice); isS {
				src = s.X
			} else if cc, _ := eng.CallResultOf(v); cc != nil {
				src = eng.Args(cc)[0]
			}
			if src == nil {
				continue
			}
			// the list parameters (of the function itself, or of a caller of the per-entry helper
			// the strip sits in) whose elements the stripped string is taken from
			sl.Walk(src, func(n eng.Node) bool {
				p, isP := n.V.(*ssa.Parameter)
				if !isP {
					return true
				}
				if _, isSlice := p.Type().Underlying().(*types.Slice); !isSlice {
					return true
				}
				if g := p.Parent(); g != nil && g.Parent() == nil && g.Pkg == top.Pkg {
					mark(g, eng.ParamIndex(p))
				}
				return true
			})
		}
	}
	for changed := true; changed; {
		changed = false
		for _, f := range funcs {
			if f.Parent() != nil {
				continue
			}
			for _, ci := range eng.Calls(f) {
				g := eng.CalleeFn(ci)
				if g == nil || out[g] == nil {
					continue
				}
				for i := range out[g] {
					args := ci.Common().Args
					if i >= len(args) {
						continue
					}
					for j, p := range f.Params {
						if args[i] == ssa.Value(p) && mark(f, j) {
							changed = true
						}
					}
				}
			}
		}
	}
	return out
}

func c01R9(c *eng.Ctx) {
	cons := c01ListConsumers(c)
	if len(cons) == 0 {
		c.Fail("R9", nil, "list-splitting functions", 0, "no function strips '-' from the elements of a list parameter: the polarity decision was not found")
		return
	}
	sl := (&eng.Slicer{W: c.W, Depth: 3}).WithArgs()
	n := 0
	for _, name := range c01Matchers {
		m := c.W.Func(pkgV1alpha1, name)
		if m == nil {
			continue // reported by R2
		}
		k := 0
		for _, f := range eng.WithClosures(m) {
			for _, ci := range eng.Calls(f) {
				g := eng.CalleeFn(ci)
				if g == nil || cons[g] == nil {
					continue
				}
				var idxs []int
				for i := range cons[g] {
					idxs = append(idxs, i)
				}
				sort.Ints(idxs)
				for _, i := range idxs {
					args := ci.Common().Args
					if i >= len(args) {
						continue
					}
					k++
					n++
					var from []string
					for _, p := range m.Params {
						pp := p
						if sl.DerivesFrom(args[i], func(x ssa.Value) bool { return x == ssa.Value(pp) }) {
							from = append(from, p.Name())
						}
					}
					c.Check("R9", m, fmt.Sprintf("list handed to %s#%d comes from one rule field", g.Name(), k), ci.Pos(), len(from) == 1,
						"the positive/inverted decision is taken per list: this list derives from parameters ["+strings.Join(from, ", ")+"] of the matcher, so entries of one rule field change the polarity of another (or the list is not a rule field at all)")
				}
			}
		}
	}
	if n == 0 {
		c.Fail("R9", nil, "calls of list-splitting functions from the matchers", 0, "no per-field matcher hands a list to a splitting function")
	}
}

// ---- R10: a successful Sync publishes the object's own policy list -----------------------
//
// "The decision depends only on the request attributes and the cluster's current policy
// list": the list MatchAttributes loads is the one the last successful Sync stored. Every
// nil return of ClusterInfo.Sync must therefore lie behind the store of the synced object's
// Spec.DispatchPolicies; the only success path that may skip it is the refusal of an object
// of a different cluster (name test).

func c01R10(c *eng.Ctx) {
	sync := c.MustMethod(pkgClusters, "ClusterInfo", "Sync")
	if sync == nil {
		return
	}
	if len(sync.Params) < 2 {
		c.Fail("R10", sync, "Sync(object)", sync.Pos(), "unexpected signature")
		return
	}
	obj := sync.Params[1]
	samePkg := c01SamePkg(sync)
	// the store may have been moved into a same-package helper of Sync (`c.publish(cluster.Spec)`):
	// it is looked for in every function Sync's body is spread over and related to Sync's own
	// parameter through the calling context
	type site struct {
		call ssa.CallInstruction
		ctx  *eng.CallCtx
	}
	var sites []site
	distinct := map[ssa.CallInstruction]bool{}
	for _, ctx := range eng.DownCtxs(sync, samePkg, eng.LiftDepth) {
		for _, ci := range eng.Calls(ctx.Fn) {
			if !eng.MethodNameIs(ci, "Store") {
				continue
			}
			if !eng.FieldAddrOf(eng.Receiver(ci), pkgClusters+".ClusterInfo", "currentDispatchPolicies") {
				continue
			}
			sites = append(sites, site{ci, ctx})
			distinct[ci] = true
		}
	}
	if len(distinct) != 1 {
		c.Fail("R10", sync, "one store of the policy list", sync.Pos(), fmt.Sprintf("found %d stores to currentDispatchPolicies in Sync", len(distinct)))
		return
	}
	st := sites[0].call
	// the stored value is the object's Spec.DispatchPolicies, unfiltered
	okVal := true
	got := ""
	for _, s := range sites {
		arg := eng.Args(s.call)[0]
		for {
			if mi, ok := arg.(*ssa.MakeInterface); ok {
				arg = mi.X
				continue
			}
			break
		}
		root, path, rctx := eng.ResolvePathIn(arg, s.ctx)
		if !(root == ssa.Value(obj) && rctx != nil && rctx.Fn == sync && len(path) >= 2 && path[len(path)-1] == "DispatchPolicies" && path[len(path)-2] == "Spec") {
			okVal = false
		}
		got = eng.PathString(arg)
	}
	c.Check("R10", sync, "stored list is object.Spec.DispatchPolicies", st.Pos(), okVal,
		"the list published for routing must be exactly the policy list of the synced object (got "+got+")")
	isStore := func(i ssa.Instruction) bool { return i == st.(ssa.Instruction) }
	// the name of the object: a value read from object.…Name, also inside a predicate helper the
	// test was moved into (its parameter is then bound to the object at every call site)
	isObj := func(v ssa.Value) bool {
		return v == ssa.Value(obj) || c.W.ResolveUp(v) == ssa.Value(obj)
	}
	nameTest := func(r eng.Rel) bool {
		if r.Op != token.NEQ {
			return false
		}
		isCluster := func(v ssa.Value) bool { return eng.FieldLoadOf(v, pkgClusters+".ClusterInfo", "Cluster") }
		sl := (&eng.Slicer{W: c.W, Depth: 1}).WithArgs()
		fromName := func(v ssa.Value) bool {
			return sl.DerivesFrom(v, func(x ssa.Value) bool {
				rt, p := eng.AccessPath(x)
				return rt != nil && isObj(rt) && len(p) > 0 && p[len(p)-1] == "Name"
			})
		}
		return (isCluster(r.X) && fromName(r.Y)) || (isCluster(r.Y) && fromName(r.X))
	}
	k := 0
	for _, ret := range c01VirtualReturns(sync, eng.LiftDepth) {
		f := ret.Parent()
		res := eng.ReturnResults(ret)
		if len(res) != 1 {
			continue
		}
		phi, isPhi := res[0].(*ssa.Phi)
		if !eng.IsNilConst(res[0]) && !isPhi && eng.ProvablyNonNil(res[0], ret) {
			continue // an error value
		}
		k++
		// behind: every path to the return executes the store (in this function, in a helper
		// that always stores, or before every call of the helper the return sits in)
		if eng.AlwaysBefore(f, ret, isStore) {
			c.Pass("R10", sync, fmt.Sprintf("success return#%d lies behind the store", k), ret.Pos(), "")
			continue
		}
		if _, isConst := res[0].(*ssa.Const); !isConst && !isPhi {
			// `return err` with an error that may be nil: success is the case err == nil; on the
			// paths on which the comparisons of err with nil say so the store must have run
			facts := eng.NilFacts(f, res[0], true)
			px := eng.LiftMust(isStore)
			behind := len(facts) > 0 && eng.FactReachFromEntry(f, eng.FactQuery{
				Assume: facts,
				Target: func(i ssa.Instruction, _ eng.KnownFn) bool { return i == ssa.Instruction(ret) },
				Avoid:  func(i ssa.Instruction) bool { return i != ssa.Instruction(ret) && px(i) },
			}) == nil
			c.Check("R10", sync, fmt.Sprintf("success return#%d lies behind the store", k), ret.Pos(), behind || eng.GuardedBy(ret, nameTest),
				"Sync hands on an error that may be nil on a path that does not publish the object's policy list")
			continue
		}
		detail := "Sync reports success on a path that does not publish the object's policy list and is not the refusal of another cluster's object: routing keeps deciding on a stale list"
		if isPhi {
			// a merged return: only nil-carrying edges matter
			bad := false
			for i, e := range phi.Edges {
				if !eng.IsNilConst(e) || i >= len(phi.Block().Preds) {
					if _, isC := e.(*ssa.Const); !isC {
						if _, isP := e.(*ssa.Phi); isP {
							bad = true // nested merge: not followed
						}
					}
					continue
				}
				pred := phi.Block().Preds[i]
				last := pred.Instrs[len(pred.Instrs)-1]
				if eng.AlwaysBefore(f, last, isStore) {
					continue
				}
				if !c01EdgeHolds(c01Edge{pred, phi.Block()}, nameTest) {
					bad = true
				}
			}
			c.Check("R10", sync, fmt.Sprintf("success return#%d lies behind the store", k), ret.Pos(), !bad, detail)
			continue
		}
		c.Check("R10", sync, fmt.Sprintf("success return#%d lies behind the store", k), ret.Pos(), eng.GuardedBy(ret, nameTest), detail)
	}
	if k == 0 {
		c.Fail("R10", sync, "success returns", sync.Pos(), "no nil return found in Sync")
	}
}
