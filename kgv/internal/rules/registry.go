// Package rules holds the per-property rule sets. Each property registers one function
// that evaluates all of its rules on the loaded program and records obligations.
package rules

import (
	"sort"

	"kgv/internal/eng"
)

// PropFunc evaluates one property.
type PropFunc func(c *eng.Ctx)

var registry = map[string]PropFunc{}
var fixtures = map[string][]func(c *eng.Ctx){}

// Register adds a property rule set.
func Register(id string, f PropFunc) { registry[id] = f }

// RegisterFixture adds a self-test run before the rules of property id.
func RegisterFixture(id string, f func(c *eng.Ctx)) { fixtures[id] = append(fixtures[id], f) }

// Get returns the rule set of a property.
func Get(id string) (PropFunc, bool) { f, ok := registry[id]; return f, ok }

// Fixtures returns the fixtures of a property.
func Fixtures(id string) []func(c *eng.Ctx) { return fixtures[id] }

// IDs lists registered properties.
func IDs() []string {
	var out []string
	for k := range registry {
		out = append(out, k)
	}
	sort.Strings(out)
	return out
}
