// Package rules holds the per-property rule sets. Each property registers one function
// that evaluates all of its rules on the loaded program and records obligations.
package rules

import (
	"sort"

	"kgv/internal/eng"
)

// PropFunc evaluates one property.
type PropFunc func(c *eng.Ctx)

var registry = map[string]PropFunc{}
var fixtures = map[string][]func(c *eng.Ctx){}

// Register adds a property rule set.
func Register(id string, f PropFunc) { registry[id] = f }

// RegisterFixture adds a self-test run before the rules of property id.
func RegisterFixture(id string, f func(c *eng.Ctx)) { fixtures[id] = append(fixtures[id], f) }

var extras = map[string][]PropFunc{}

// RegisterExtra adds rules that run after the registered rule set of property id (rule files
// added later, e.g. after a seeded round, hook in here without touching the original file).
func RegisterExtra(id string, f PropFunc) { extras[id] = append(extras[id], f) }

// Get returns the rule set of a property (followed by its extras).
func Get(id string) (PropFunc, bool) {
	f, ok := registry[id]
	if !ok {
		return nil, false
	}
	ex := extras[id]
	if len(ex) == 0 {
		return f, true
	}
	return func(c *eng.Ctx) {
		defer func() {
			for _, e := range ex {
				e(c)
			}
		}()
		f(c)
	}, true
}

// Fixtures returns the fixtures of a property.
func Fixtures(id string) []func(c *eng.Ctx) { return fixtures[id] }

// IDs lists registered properties.
func IDs() []string {
	var out []string
	for k := range registry {
		out = append(out, k)
	}
	sort.Strings(out)
	return out
}
