package rules

import (
	"fmt"

	"golang.org/x/tools/go/ssa"

	"kgv/internal/eng"
)

// c03Extra holds the C03 rules added after the second seeded round.
func c03Extra(c *eng.Ctx) {
	c.Rule("R6", "removed servers leave the rotation on every sync: in syncEndpoints the removal of the endpoints that are no longer listed (delete from the Endpoints map, cancel of the endpoint's context) is passed on every path to an exit except the skipSyncEndpoints refusal — in particular it is not skipped when adding another endpoint fails", 3)
	c.Rule("R7", "probing can restart: whenever EnsureGatewayHealthCheck invokes the stored cancel function it also clears the cancelHealthCheck field on every path through that call (a non-nil field means 'a prober is running')", 1)

	sl := c.Slicer()
	c03RemovalEveryPath(c, "R6")

	// ---- R7
	if eg := c.MustFunc(pkgClusters, "EnsureGatewayHealthCheck"); eg != nil {
		isClear := func(i ssa.Instruction) bool {
			st, ok := i.(*ssa.Store)
			return ok && eng.FieldAddrOf(st.Addr, tEndpointInfo, "cancelHealthCheck") && eng.IsNilConst(st.Val)
		}
		n := 0
		for _, f := range eng.WithClosures(eg) {
			for _, ci := range eng.Calls(f) {
				if ci.Common().IsInvoke() || ci.Common().StaticCallee() != nil {
					continue
				}
				if !sl.DerivesFrom(ci.Common().Value, func(v ssa.Value) bool { return eng.FieldLoadOf(v, tEndpointInfo, "cancelHealthCheck") }) {
					continue
				}
				n++
				ok := eng.AlwaysBefore(f, ci.(ssa.Instruction), isClear) || eng.AlwaysAfter(ci.(ssa.Instruction), isClear)
				c.Check("R7", f, fmt.Sprintf("cancel#%d ⇒ field cleared", n), ci.Pos(), ok,
					"the prober is cancelled but cancelHealthCheck stays non-nil: when the endpoint is enabled again no new prober is started and its health is never re-evaluated")
			}
		}
		if n == 0 {
			c.Fail("R7", eg, "cancel ⇒ field cleared", eg.Pos(), "the stored cancel function is never invoked")
		}
	}
}

// c03RemovalEveryPath: the removal of unlisted endpoints in syncEndpoints is passed on every path
// to an exit (C03.R6; the same obligation is a necessary condition of C15 and registered there
// as C15.R5).
func c03RemovalEveryPath(c *eng.Ctx, rule string) {
	sl := c.Slicer()
	if se := c.MustMethod(pkgClusters, "ClusterInfo", "syncEndpoints"); se != nil {
		isEndpointsDelete := func(ci ssa.CallInstruction) bool {
			if !eng.MethodNameIs(ci, "LoadAndDelete") && !eng.MethodNameIs(ci, "Delete") {
				return false
			}
			r := eng.Receiver(ci)
			return eng.FieldAddrOf(r, tClusterInfo, "Endpoints") || eng.FieldLoadOf(r, tClusterInfo, "Endpoints")
		}
		// the delete may sit in se itself, in a closure handed to an iterator, or in an extracted
		// helper: find it in the region of se and lift it to the instruction of se it runs under
		var site ssa.Instruction
		var del ssa.CallInstruction
		for _, g := range c.W.Region(se) {
			for _, ci := range eng.Calls(g) {
				if !isEndpointsDelete(ci) {
					continue
				}
				if sites := c.W.SitesIn(se, ci.(ssa.Instruction)); len(sites) == 1 && site == nil {
					site, del = sites[0], ci
				}
			}
		}
		if site == nil {
			c.Fail(rule, se, "removal of unlisted endpoints", se.Pos(), "syncEndpoints never deletes from the Endpoints map: removed servers stay in rotation")
		} else {
			isSite := func(i ssa.Instruction) bool { return i == site }
			isSkipFlag := func(v ssa.Value) bool { return eng.FieldLoadOf(v, tClusterInfo, "skipSyncEndpoints") }
			k := 0
			bad := ""
			for _, b := range se.Blocks {
				if b == se.Recover || len(b.Instrs) == 0 {
					continue
				}
				ret, ok := b.Instrs[len(b.Instrs)-1].(*ssa.Return)
				if !ok {
					continue
				}
				k++
				skips := eng.ReachFromEntry(se, eng.PathQuery{Target: func(i ssa.Instruction) bool { return i == ssa.Instruction(ret) }, Avoid: isSite}) != nil
				if skips && !eng.GuardedByBool(ret, isSkipFlag, true) {
					_, line := c.W.Pos(ret.Pos())
					bad = fmt.Sprintf("the return at line %d is reachable without the removal", line)
				}
			}
			c.Check(rule, se, "removal on every path to an exit", site.Pos(), bad == "",
				"a sync that fails (or returns) before the removal leaves a server that was taken out of the list in rotation, with its prober alive"+c02Found(bad))
			// the removed endpoint's context is cancelled
			cancelled := false
			for _, g := range eng.WithClosures(del.Parent()) {
				for _, ci := range eng.Calls(g) {
					if ci.Common().IsInvoke() || ci.Common().StaticCallee() != nil {
						continue
					}
					if eng.FieldLoadOf(ci.Common().Value, tEndpointInfo, "cancel") &&
						sl.DerivesFrom(ci.Common().Value, func(v ssa.Value) bool {
							cc, i := eng.CallResultOf(v)
							return cc != nil && ssa.CallInstruction(cc) == del && i == 0
						}) {
						cancelled = true
					}
				}
			}
			if eng.MethodNameIs(del, "LoadAndDelete") {
				c.Check(rule, del.Parent(), "removed endpoint's context is cancelled", del.Pos(), cancelled,
					"the endpoint taken out of the map must have its context cancelled (stops its prober and the requests watching it)")
			}
			// the names removed are current \ wanted: the receiver of the iteration derives from a Diff whose
			// receiver is the current set — checked only when the iterator form is used
			if rc, ok := site.(ssa.CallInstruction); ok && eng.MethodNameIs(rc, "Range") {
				recv := eng.Receiver(rc)
				cc, _ := eng.CallResultOf(recv)
				okDiff := false
				if cc != nil && eng.MethodNameIs(cc, "Diff") {
					cur := eng.Receiver(cc)
					okDiff = sl.WithArgs().DerivesFrom(cur, func(v ssa.Value) bool {
						x, _ := eng.CallResultOf(v)
						return x != nil && eng.MethodNameIs(x, "AllEndpoints")
					})
				}
				c.Check(rule, se, "removed = current \\ wanted", rc.Pos(), okDiff, "the set iterated for removal must be Diff(current endpoints, wanted endpoints) with the current set as receiver")
			}
		}
	}

}
