package rules

import (
	"fmt"
	"go/token"

	"golang.org/x/tools/go/ssa"

	"kgv/internal/eng"
)

// c03Extra holds the C03 rules added after the second seeded round.
func c03Extra(c *eng.Ctx) {
	c.Rule("R6", "removed servers leave the rotation on every sync: in syncEndpoints the removal of the endpoints that are no longer listed (delete from the Endpoints map, cancel of the endpoint's context) is passed on every path to an exit except the skipSyncEndpoints refusal — in particular it is not skipped when adding another endpoint fails", 3)
	c.Rule("R7", "probing can restart: whenever EnsureGatewayHealthCheck invokes the stored cancel function it also clears the cancelHealthCheck field on every path through that call (a non-nil field means 'a prober is running')", 1)

	sl := c.Slicer()
	c03RemovalEveryPath(c, "R6")

	// ---- R7
	if eg := c.MustFunc(pkgClusters, "EnsureGatewayHealthCheck"); eg != nil {
		isClear := func(i ssa.Instruction) bool {
			st, ok := i.(*ssa.Store)
			return ok && eng.FieldAddrOf(st.Addr, tEndpointInfo, "cancelHealthCheck") && eng.IsNilConst(st.Val)
		}
		n := 0
		for _, f := range c.W.Region(eg) {
			for _, ci := range eng.Calls(f) {
				if ci.Common().IsInvoke() || ci.Common().StaticCallee() != nil {
					continue
				}
				if !sl.WithUp().DerivesFrom(ci.Common().Value, func(v ssa.Value) bool { return eng.FieldLoadOf(v, tEndpointInfo, "cancelHealthCheck") }) {
					continue
				}
				n++
				ok := eng.AlwaysBefore(f, ci.(ssa.Instruction), isClear) || eng.AlwaysAfter(ci.(ssa.Instruction), isClear)
				c.Check("R7", f, fmt.Sprintf("cancel#%d ⇒ field cleared", n), ci.Pos(), ok,
					"the prober is cancelled but cancelHealthCheck stays non-nil: when the endpoint is enabled again no new prober is started and its health is never re-evaluated")
			}
		}
		if n == 0 {
			c.Fail("R7", eg, "cancel ⇒ field cleared", eg.Pos(), "the stored cancel function is never invoked")
		}
	}
}

// c03RemovalEveryPath: the removal of unlisted endpoints in syncEndpoints is passed on every path
// to an exit (C03.R6; the same obligation is a necessary condition of C15 and registered there
// as C15.R5).
func c03RemovalEveryPath(c *eng.Ctx, rule string) {
	sl := c.Slicer()
	if se := c03SyncAnchor(c); se != nil {
		isEndpointsDelete := c03IsEndpointsDelete
		// the delete may sit in se itself, in a closure handed to an iterator, or in an extracted
		// helper: find it in the region of se and lift it to the instruction of se it runs under
		var site ssa.Instruction
		var del ssa.CallInstruction
		for _, g := range c.W.Region(se) {
			for _, ci := range eng.Calls(g) {
				if !isEndpointsDelete(ci) {
					continue
				}
				if sites := c.W.SitesIn(se, ci.(ssa.Instruction)); len(sites) == 1 && site == nil {
					site, del = sites[0], ci
				}
			}
		}
		// the loop form of the iteration (`for _, name := range removed.ToStrings() { …delete… }`):
		// the removal as a whole is entered where the elements are taken — an empty set means
		// nothing to remove, not a skipped removal
		var iter *ssa.Call
		if del == nil {
			// (a deletion in a helper called from a loop is found below the sync function)
			for _, d := range c.W.Down(se, eng.LiftDepth+1, nil).All() {
				for _, ci := range eng.Calls(d.Fn) {
					if isEndpointsDelete(ci) && del == nil {
						del = ci
					}
				}
			}
		}
		if del != nil {
			var ch eng.UpChain
			if ds := c.W.Down(se, eng.LiftDepth+1, nil).Of(del.Parent()); len(ds) > 0 {
				ch = ds[0].Chain()
			}
			if src, loop, _ := setIterSource(sl, del, ch); src != nil && loop.OnlyHeaderExits() {
				iter = src
				site = nil
				if sites := c.W.SitesIn(se, src); len(sites) == 1 {
					site = sites[0]
				}
			}
		}
		if site == nil && iter == nil {
			// a helper on the way may have further callers (which do not matter for what the sync does):
			// follow the calls of the sync function downwards instead
			down := c.W.Down(se, eng.LiftDepth+1, nil)
			for _, d := range down.All() {
				for _, ci := range eng.Calls(d.Fn) {
					if !isEndpointsDelete(ci) || site != nil {
						continue
					}
					top := ssa.Instruction(ci.(ssa.Instruction))
					for x := d; x != nil && x.Parent != nil; x = x.Parent {
						top = x.Site
					}
					if top != nil && top.Parent() == se {
						site, del = top, ci
					}
				}
			}
		}
		if site == nil {
			c.Fail(rule, se, "removal of unlisted endpoints", se.Pos(), "syncEndpoints never deletes from the Endpoints map: removed servers stay in rotation")
		} else {
			isSite := func(i ssa.Instruction) bool { return i == site }
			isSkipFlag := func(v ssa.Value) bool { return eng.FieldLoadOf(v, tClusterInfo, "skipSyncEndpoints") }
			// the endpoint sync begins where the removed set is computed (the Diff calls, possibly in a
			// helper): exits taken before that point — the skip refusal, or, when the sync was merged
			// into its caller, earlier failures of the caller — are not exits of the endpoint sync
			var begins []ssa.Instruction
			for _, g := range c.W.Region(se) {
				for _, ci := range eng.Calls(g) {
					if eng.MethodNameIs(ci, "Diff") {
						begins = append(begins, c.W.SitesIn(se, ci.(ssa.Instruction))...)
					}
				}
			}
			k := 0
			bad := ""
			for _, b := range se.Blocks {
				if b == se.Recover || len(b.Instrs) == 0 {
					continue
				}
				ret, ok := b.Instrs[len(b.Instrs)-1].(*ssa.Return)
				if !ok {
					continue
				}
				k++
				isRet := func(i ssa.Instruction) bool { return i == ssa.Instruction(ret) }
				skips := false
				if len(begins) == 0 {
					skips = eng.ReachFromEntry(se, eng.PathQuery{Target: isRet, Avoid: isSite}) != nil
				}
				for _, b := range begins {
					if b != site && eng.ReachAfter(b, eng.PathQuery{Target: isRet, Avoid: isSite}) != nil {
						skips = true
					}
				}
				if skips && !eng.GuardedByBool(ret, isSkipFlag, true) {
					_, line := c.W.Pos(ret.Pos())
					bad = fmt.Sprintf("the return at line %d is reachable without the removal", line)
				}
			}
			c.Check(rule, se, "removal on every path to an exit", site.Pos(), bad == "",
				"a sync that fails (or returns) before the removal leaves a server that was taken out of the list in rotation, with its prober alive"+c02Found(bad))
			// the removed endpoint's context is cancelled
			cancelled := false
			// (in the deleting function itself, in a helper the removed endpoint is handed to, or in the
			// caller a removing helper hands it back to: anywhere in the Region of the sync function)
			dsl := deepSlicer(c).WithUp()
			for _, g := range c.W.Region(se) {
				for _, ci := range eng.Calls(g) {
					if ci.Common().IsInvoke() || ci.Common().StaticCallee() != nil {
						continue
					}
					if dsl.DerivesFrom(ci.Common().Value, func(v ssa.Value) bool { return eng.FieldLoadOf(v, tEndpointInfo, "cancel") }) &&
						dsl.DerivesFrom(ci.Common().Value, func(v ssa.Value) bool {
							cc, i := eng.CallResultOf(v)
							return cc != nil && ssa.CallInstruction(cc) == del && i == 0
						}) {
						cancelled = true
					}
				}
			}
			if eng.MethodNameIs(del, "LoadAndDelete") {
				c.Check(rule, del.Parent(), "removed endpoint's context is cancelled", del.Pos(), cancelled,
					"the endpoint taken out of the map must have its context cancelled (stops its prober and the requests watching it)")
			}
			// the names removed are current \ wanted: the receiver of the iteration derives from a Diff whose
			// receiver is the current set — checked only when the iterator form is used
			// (the iteration may sit in syncEndpoints or in a helper it hands the removed set to; the
			// Diff may be computed by a helper that returns the removed set, alone or with others)
			tree := c.W.Down(se, eng.LiftDepth+1, nil)
			var rc ssa.CallInstruction
			var rcCtx *eng.DownCtx
			for _, d := range tree.Of(del.Parent()) {
				for x := d; x != nil && x.Parent != nil; x = x.Parent {
					if !x.Direct && eng.MethodNameIs(x.Site, "Range") {
						rc, rcCtx = x.Site, x.Parent
						break
					}
				}
			}
			if iter != nil {
				if ds := tree.Of(iter.Parent()); len(ds) > 0 {
					rc, rcCtx = iter, ds[0]
				}
			}
			if rc != nil {
				recv := rcCtx.Canon(eng.Receiver(rc))
				cc, _ := eng.CallResultOf(recv.V)
				okDiff := false
				if cc != nil && eng.MethodNameIs(cc, "Diff") {
					cur := recv.C.Canon(eng.Receiver(cc))
					okDiff = cur.C.DerivesFrom(sl.WithArgs(), cur.V, func(v ssa.Value) bool {
						x, _ := eng.CallResultOf(v)
						return x != nil && eng.MethodNameIs(x, "AllEndpoints")
					})
				}
				c.Check(rule, se, "removed = current \\ wanted", rc.Pos(), okDiff, "the set iterated for removal must be Diff(current endpoints, wanted endpoints) with the current set as receiver")
			}
		}
	}

}

// ---------------------------------------------------------------------------------------
// Helpers shared by the C03 / C14 / C15 rules (second refactoring wave).

// popTree is the context tree of a Pop implementation: Pop together with the same-package
// helpers its body may have been spread over.
func popTree(c *eng.Ctx, pop *ssa.Function) *eng.DownTree {
	return c.W.Down(pop, eng.LiftDepth+1, nil)
}

// deepSlicer is the tier's slicer inlining at least as deep as helpers are followed, so that a
// value handed through a chain of extracted helpers is still traced to its origin.
func deepSlicer(c *eng.Ctx) *eng.Slicer {
	sl := c.Slicer()
	if sl.Depth < eng.LiftDepth+1 {
		sl.Depth = eng.LiftDepth + 1
	}
	return sl
}

// ctxsOf returns the contexts in which fn runs as part of the tree's anchor; when fn lies
// outside the tree (too deep) the single nil context is returned and the queries fall back
// to the function's own body.
func ctxsOf(t *eng.DownTree, fn *ssa.Function) []*eng.DownCtx {
	if ds := t.Of(fn); len(ds) > 0 {
		return ds
	}
	return []*eng.DownCtx{nil}
}

// relIsBool: r states that the boolean identified by match has truth value want.
func relIsBool(r eng.Rel, match func(ssa.Value) bool, want bool) bool {
	if r.Op == token.EQL && match(r.X) && eng.IsBoolConst(r.Y, want) {
		return true
	}
	return r.Op == token.NEQ && match(r.X) && eng.IsBoolConst(r.Y, !want)
}

// relIsNil: r states that the value identified by match is nil (wantNil) / non-nil.
func relIsNil(r eng.Rel, match func(ssa.Value) bool, wantNil bool) bool {
	var other ssa.Value
	switch {
	case match(r.X):
		other = r.Y
	case match(r.Y):
		other = r.X
	default:
		return false
	}
	if !eng.IsNilConst(other) {
		return false
	}
	return (r.Op == token.EQL && wantNil) || (r.Op == token.NEQ && !wantNil)
}

// ---------------------------------------------------------------------------------------
// Anchors by role. Unexported helpers are looked up by name first (stable obligation keys);
// when a refactoring renamed a helper, merged it into its caller or split it, the function
// that fulfils its role is used instead: the top-level function of the package with the
// smallest Region in which the role's defining constructs occur.

func anchorByRole(c *eng.Ctx, byName *ssa.Function, what, pkg string, role func(region []*ssa.Function) bool) *ssa.Function {
	if byName != nil && byName.Blocks != nil {
		return byName
	}
	var best *ssa.Function
	bestN := 0
	for _, fn := range c.W.FuncsOf(pkg) {
		if fn.Parent() != nil {
			continue
		}
		region := c.W.Region(fn)
		if !role(region) {
			continue
		}
		if best == nil || len(region) < bestN {
			best, bestN = fn, len(region)
		}
	}
	if best == nil {
		c.Fail("engine", nil, "unresolved-anchor "+what, 0, "anchor not found by name, and no function of "+pkg+" fulfils its role")
	}
	return best
}

func regionHasCall(region []*ssa.Function, pred func(ssa.CallInstruction) bool) bool {
	for _, fn := range region {
		for _, ci := range eng.Calls(fn) {
			if pred(ci) {
				return true
			}
		}
	}
	return false
}

// c03IsEndpointsDelete: a removal from a cluster's endpoint map.
func c03IsEndpointsDelete(ci ssa.CallInstruction) bool {
	if !eng.MethodNameIs(ci, "LoadAndDelete") && !eng.MethodNameIs(ci, "Delete") {
		return false
	}
	r := eng.Receiver(ci)
	return eng.FieldAddrOf(r, tClusterInfo, "Endpoints") || eng.FieldLoadOf(r, tClusterInfo, "Endpoints")
}

// c03SyncAnchor: ClusterInfo.syncEndpoints — by role the function that diffs the current
// against the wanted endpoints and removes from the endpoint map.
func c03SyncAnchor(c *eng.Ctx) *ssa.Function {
	return anchorByRole(c, c.W.Method(pkgClusters, "ClusterInfo", "syncEndpoints"), "method ("+pkgClusters+".ClusterInfo).syncEndpoints", pkgClusters,
		func(region []*ssa.Function) bool {
			return regionHasCall(region, c03IsEndpointsDelete) &&
				regionHasCall(region, func(ci ssa.CallInstruction) bool { return eng.MethodNameIs(ci, "Diff") })
		})
}

// c03AddUpdateAnchor: ClusterInfo.addOrUpdateEndpoint — by role the function that updates the
// disabled flag of a known endpoint and creates the context of a new one.
func c03AddUpdateAnchor(c *eng.Ctx) *ssa.Function {
	return anchorByRole(c, c.W.Method(pkgClusters, "ClusterInfo", "addOrUpdateEndpoint"), "method ("+pkgClusters+".ClusterInfo).addOrUpdateEndpoint", pkgClusters,
		func(region []*ssa.Function) bool {
			return regionHasCall(region, func(ci ssa.CallInstruction) bool { return eng.IsCall(ci, "(*"+tEndpointInfo+").SetDisabled") }) &&
				len(eng.StoresToField(region, tEndpointInfo, "ctx")) > 0
		})
}

// c03InvokesProbe: fn (or a function of its Region) calls the endpoint's healthCheckFun.
func c03InvokesProbe(c *eng.Ctx, fn *ssa.Function) bool {
	return regionHasCall(c.W.Region(fn), func(ci ssa.CallInstruction) bool {
		return !ci.Common().IsInvoke() && ci.Common().StaticCallee() == nil && eng.FieldLoadOf(ci.Common().Value, tEndpointInfo, "healthCheckFun")
	})
}

// c03ProbeStarter: startGatewayHealthCheck — by role the function holding the go statement
// that starts the goroutine invoking the probe function.
func c03ProbeStarter(c *eng.Ctx) *ssa.Function {
	byName := c.W.Func(pkgClusters, "startGatewayHealthCheck")
	if byName != nil && byName.Blocks != nil {
		return byName
	}
	for _, fn := range c.W.FuncsOf(pkgClusters) {
		found := false
		eng.Instrs(fn, func(ins ssa.Instruction) {
			if g, ok := ins.(*ssa.Go); ok {
				if f := c.W.FuncOfValue(g.Call.Value); f != nil && f.Blocks != nil && c03InvokesProbe(c, f) {
					found = true
				}
			}
		})
		if found {
			return eng.Outermost(fn)
		}
	}
	c.Fail("engine", nil, "unresolved-anchor func "+pkgClusters+".startGatewayHealthCheck", 0, "anchor not found by name, and no function starts a goroutine that invokes healthCheckFun")
	return nil
}

// c03OwnCtx: ctxArg is the context of endpoint ep itself (its ctx field or Context()).
func c03OwnCtx(ctxArg, ep ssa.Value) bool {
	if b := eng.FieldBase(ctxArg, tEndpointInfo, "ctx"); b != nil {
		return b == ep || eng.SameValue(unspill(b), unspill(ep))
	}
	if cc, _ := eng.CallResultOf(ctxArg); cc != nil && eng.IsCall(cc, "(*"+tEndpointInfo+").Context") {
		// the accessor must hand out the ctx field of its receiver
		f := cc.Call.StaticCallee()
		if f == nil || len(f.Params) == 0 {
			return false
		}
		rets := eng.Returns(f)
		for _, ret := range rets {
			res := eng.ReturnResults(ret)
			if len(res) != 1 || eng.FieldBase(res[0], tEndpointInfo, "ctx") != ssa.Value(f.Params[0]) {
				return false
			}
		}
		r := eng.Receiver(cc)
		return len(rets) > 0 && (r == ep || eng.SameValue(unspill(r), unspill(ep)))
	}
	return false
}

// c03EndpointOrigins counts the endpoints v may denote: the values a variable assigned in
// several branches may hold, and — for a parameter of a helper whose callers are all known —
// those of the arguments at its call sites.
func c03EndpointOrigins(c *eng.Ctx, v ssa.Value, depth int) int {
	n := 0
	for _, o := range eng.PhiOrigins(v) {
		if p, ok := o.(*ssa.Parameter); ok && depth > 0 {
			if ups := c.W.UpArgSites(p); len(ups) > 0 {
				for _, u := range ups {
					n += c03EndpointOrigins(c, u.Arg, depth-1)
				}
				continue
			}
		}
		n++
	}
	return n
}

// c03EnsuresSubject: instruction i (re)evaluates the probes of endpoint subj — a call of
// EnsureGatewayHealthCheck for subj, or a call of a same-package function that is handed subj
// and does so for that parameter on every path. from is the instruction the paths come from
// (nil: the entry of i's function); the endpoint an argument denotes is taken on those paths.
func c03EnsuresSubject(from ssa.Instruction, subj ssa.Value, depth int) func(ssa.Instruction) bool {
	return func(i ssa.Instruction) bool {
		call, ok := i.(*ssa.Call)
		if !ok {
			return false
		}
		same := func(v ssa.Value) bool {
			for _, o := range eng.ValuesAfter(from, v) {
				if o != subj && !eng.SameValue(o, subj) {
					return false
				}
			}
			return true
		}
		if eng.IsCall(call, pkgClusters+".EnsureGatewayHealthCheck") {
			a := eng.Args(call)
			return len(a) > 0 && same(a[0])
		}
		callee := call.Call.StaticCallee()
		if callee == nil || call.Call.IsInvoke() || depth <= 0 || !eng.Analysable(callee) || len(callee.Blocks) == 0 || callee.Pkg == nil || callee.Pkg.Pkg.Path() != pkgClusters {
			return false
		}
		for k, a := range call.Call.Args {
			if k >= len(callee.Params) || !same(a) {
				continue
			}
			if eng.ReachFromEntry(callee, eng.PathQuery{Target: eng.IsExit, Avoid: c03EnsuresSubject(nil, callee.Params[k], depth-1)}) == nil {
				return true
			}
		}
		return false
	}
}

// c03EnsureFollows: every path from ins to the exit of its function calls
// EnsureGatewayHealthCheck for subject (the endpoint as named at ins), directly or through a
// helper the endpoint is handed to; when ins sits in a helper that returns before, every call
// site of the helper must be followed by the call, for the value the helper's parameter is
// bound to.
func c03EnsureFollows(c *eng.Ctx, ins ssa.Instruction, subject ssa.Value, depth int) bool {
	if eng.ReachAfter(ins, eng.PathQuery{Target: eng.IsExit, Avoid: c03EnsuresSubject(ins, subject, eng.LiftDepth)}) == nil {
		return true
	}
	p, isP := subject.(*ssa.Parameter)
	if !isP || depth <= 0 || p.Parent() != ins.Parent() {
		return false
	}
	sites := c.W.LiftSites(ins.Parent())
	idx := eng.ParamIndex(p)
	if len(sites) == 0 || idx < 0 {
		return false
	}
	for _, s := range sites {
		args := s.Common().Args
		if _, isCall := s.(*ssa.Call); !isCall || idx >= len(args) {
			return false
		}
		if !c03EnsureFollows(c, s, args[idx], depth-1) {
			return false
		}
	}
	return true
}

// c03StatusReadyQuiet: endpointStatus.IsReady — by role the bool method of endpointStatus
// that EndpointInfo.IsReady returns the result of, called on the endpoint's status field; or
// EndpointInfo.IsReady itself when it reads the Disabled and Healthy fields of the status (the
// status method was merged into it).
func c03StatusReadyQuiet(c *eng.Ctx, eir *ssa.Function) *ssa.Function {
	if f := c.W.Method(pkgClusters, "endpointStatus", "IsReady"); f != nil && f.Blocks != nil {
		return f
	}
	if eir == nil {
		return nil
	}
	var found *ssa.Function
	for _, r := range eng.Returns(eir) {
		for _, v := range eng.ReturnResults(r) {
			cc, _ := eng.CallResultOf(v)
			if cc == nil || cc.Call.IsInvoke() {
				continue
			}
			f := cc.Call.StaticCallee()
			if f != nil && f.Blocks != nil && f.Signature.Recv() != nil && eng.TypeName(f.Signature.Recv().Type()) == tEndpointStatus &&
				eng.FieldLoadOf(eng.Receiver(cc), tEndpointInfo, "status") {
				found = f
			}
		}
	}
	if found == nil {
		reads := map[string]bool{}
		for _, fn := range c.W.Region(eir) {
			eng.Instrs(fn, func(ins ssa.Instruction) {
				if u, ok := ins.(*ssa.UnOp); ok && u.Op == token.MUL {
					for _, f := range []string{"Disabled", "Healthy"} {
						if eng.FieldAddrOf(u.X, tEndpointStatus, f) {
							reads[f] = true
						}
					}
				}
			})
		}
		if reads["Disabled"] && reads["Healthy"] {
			found = eir
		}
	}
	return found
}

func c03StatusReady(c *eng.Ctx, eir *ssa.Function) *ssa.Function {
	f := c03StatusReadyQuiet(c, eir)
	if f == nil {
		c.Fail("engine", nil, "unresolved-anchor method ("+pkgClusters+".endpointStatus).IsReady", 0, "anchor not found by name, and EndpointInfo.IsReady does not return the result of a method of its status")
	}
	return f
}

// unspill sees through the cell of a local or parameter that is written once (a variable
// captured by function literals is kept in such a cell and every use is a load of it).
func unspill(v ssa.Value) ssa.Value {
	var none *eng.DownCtx
	if r := none.Canon(v); r.V != nil {
		return r.V
	}
	return v
}

// setIterSource: the call l (a deletion keyed by its first argument) runs once per element of
// a set in the loop form of a Range callback: the key derives from an element of the slice
// returned by ToStrings() / Elements() of a set, taken outside the loop — in the function of
// l itself, or, when l sits in a helper that is handed the key (calling context ch, direct
// calls only), at the call of the helper. It returns that source call, the loop, and the
// instruction of the loop body that stands for the deletion (l or the helper call); nil
// otherwise.
func setIterSource(sl *eng.Slicer, l ssa.CallInstruction, ch eng.UpChain) (*ssa.Call, *eng.Loop, ssa.Instruction) {
	if len(eng.Args(l)) == 0 {
		return nil, nil, nil
	}
	isSrc := func(v ssa.Value) bool {
		cc, idx := eng.CallResultOf(v)
		return cc != nil && idx == -1 && (eng.MethodNameIs(cc, "ToStrings") || eng.MethodNameIs(cc, "Elements"))
	}
	cur, key := ssa.Instruction(l), eng.Args(l)[0]
	for level := 0; level <= len(ch); level++ {
		var src *ssa.Call
		var param *ssa.Parameter
		clean := true
		for _, lf := range sl.Leaves(key, isSrc) {
			switch {
			case isSrc(lf) && (src == nil || lf == ssa.Value(src)):
				src, _ = eng.CallResultOf(lf)
			default:
				if p, isP := lf.(*ssa.Parameter); isP && p.Parent() == cur.Parent() && param == nil {
					param = p
				} else {
					clean = false
				}
			}
		}
		if clean && src != nil && param == nil {
			loop := eng.InnermostLoop(cur.Block())
			if loop == nil || src.Parent() != cur.Parent() || loop.Blocks[src.Block()] {
				return nil, nil, nil
			}
			return src, loop, cur
		}
		// the key is the helper's parameter: continue at the call of the helper
		if !clean || src != nil || param == nil || level >= len(ch) || !ch[level].Direct || ch[level].Fn != cur.Parent() {
			return nil, nil, nil
		}
		key = ch[level].Bind(param)
		if key == nil {
			return nil, nil, nil
		}
		cur = ch[level].Call
	}
	return nil, nil, nil
}
