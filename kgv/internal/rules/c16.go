package rules

import (
	"fmt"
	"go/constant"
	"go/token"
	"go/types"
	"sort"
	"strings"

	"golang.org/x/tools/go/ssa"

	"kgv/internal/eng"
)

func init() {
	Register("C16", c16)
	RegisterFixture("C16", c16Fixtures)
	RegisterFixture("C03", interpFixtures("C03"))
	RegisterFixture("C09", interpFixtures("C09"))
}

const c16FxSrc = `package fx
type S struct{ A, B *int; N int }
func good(s *S) int {
	if s.A != nil && *s.A > 0 { return 1 }
	if s.B == nil { return 0 }
	return *s.B
}
func bad(s *S) int {
	if s.B != nil { return *s.A }
	return 0
}
func conj(s *S) bool { return s.N > 0 && s.A != nil }
`

// shape enumeration on a tiny validator: the bad variant dereferences A under a test of B.
func c16Fixtures(c *eng.Ctx) {
	p, _, err := eng.BuildFixture(c16FxSrc)
	if err != nil {
		c.Fixture("C16.shapes/build", "ok", err.Error())
		return
	}
	for name, want := range map[string]string{"good": "", "bad": "{B}"} {
		fn := p.Func(name)
		var bad []string
		for mask := 0; mask < 4; mask++ {
			in := &eng.Interp{MaxPaths: 64}
			in.PinPath = func(path string) (eng.AV, bool) {
				for i, f := range []string{"s.A", "s.B"} {
					if path == f {
						if mask&(1<<i) != 0 {
							return eng.AV{K: eng.NonNilV}, true
						}
						return eng.AV{K: eng.NilV}, true
					}
				}
				return eng.AV{}, false
			}
			paths, _ := in.Run(fn, nil)
			for _, pr := range paths {
				if len(pr.NilDerefs) > 0 {
					bad = append(bad, c16ShapeName([]string{"A", "B"}, mask))
					break
				}
			}
		}
		c.Fixture("C16.shapes/"+name, want, strings.Join(bad, " "))
	}
}

// interpFixtures self-tests forcing (a pinned member forces the result) for the properties
// that use the interpreter without a template of their own.
func interpFixtures(prop string) func(c *eng.Ctx) {
	return func(c *eng.Ctx) {
		p, _, err := eng.BuildFixture(c16FxSrc)
		if err != nil {
			c.Fixture(prop+".forcing/build", "ok", err.Error())
			return
		}
		run := func(pin eng.AV) string {
			in := &eng.Interp{MaxPaths: 64, PinPath: func(path string) (eng.AV, bool) {
				if path == "s.A" {
					return pin, true
				}
				return eng.AV{}, false
			}}
			paths, _ := in.Run(p.Func("conj"), nil)
			res := map[string]bool{}
			for _, pr := range paths {
				if len(pr.Ret) == 1 {
					res[pr.Ret[0].String()] = true
				}
			}
			var ks []string
			for k := range res {
				ks = append(ks, k)
			}
			sort.Strings(ks)
			return strings.Join(ks, ",")
		}
		c.Fixture(prop+".forcing/A=nil forces false", "false", run(eng.AV{K: eng.NilV}))
		c.Fixture(prop+".forcing/A!=nil leaves both", "false,true", run(eng.AV{K: eng.NonNilV}))
	}
}

const (
	tSchemaCfg = pkgV1alpha1 + ".FlowControlSchemaConfiguration"
	tSchema    = pkgV1alpha1 + ".FlowControlSchema"
	pkgField   = "k8s.io/apimachinery/pkg/util/validation/field"
)

// c16IsReject reports whether a call builds a field error (the validators' reject blocks).
func c16IsReject(ci ssa.CallInstruction) bool {
	o := eng.CalleeObj(ci)
	if o == nil || o.Pkg() == nil || o.Pkg().Path() != pkgField {
		return false
	}
	switch o.Name() {
	case "Invalid", "Required", "Forbidden", "Duplicate", "NotSupported", "NotFound", "TooLong", "TooMany", "InternalError":
		return true
	}
	return false
}

// c16Optional returns the optional (pointer) members of FlowControlSchemaConfiguration.
func c16Optional(c *eng.Ctx) []string {
	n := c.W.Named(pkgV1alpha1, "FlowControlSchemaConfiguration")
	if n == nil {
		c.Fail("engine", nil, "unresolved-anchor type FlowControlSchemaConfiguration", 0, "")
		return nil
	}
	st := n.Underlying().(*types.Struct)
	var out []string
	for i := 0; i < st.NumFields(); i++ {
		if _, ok := st.Field(i).Type().Underlying().(*types.Pointer); ok {
			out = append(out, st.Field(i).Name())
		}
	}
	return out
}

// c16Target reports whether a load reads an optional member of a schema object that is the
// analysed input: rooted at a parameter or local copy of type FlowControlSchema(Configuration).
func c16Target(ld *ssa.UnOp, fields []string) (string, bool) {
	fa, ok := ld.X.(*ssa.FieldAddr)
	if !ok || eng.TypeName(fa.X.Type()) != tSchemaCfg {
		return "", false
	}
	name := ""
	st := fa.X.Type().Underlying().(*types.Pointer).Elem().Underlying().(*types.Struct)
	if fa.Field < st.NumFields() {
		name = st.Field(fa.Field).Name()
	}
	found := false
	for _, f := range fields {
		if f == name {
			found = true
		}
	}
	if !found {
		return "", false
	}
	root, _ := eng.AccessPath(ld)
	switch r := root.(type) {
	case *ssa.Parameter:
		tn := eng.TypeName(r.Type())
		return name, tn == tSchema || tn == tSchemaCfg
	case *ssa.Alloc:
		tn := eng.TypeName(r.Type())
		return name, tn == tSchema || tn == tSchemaCfg
	}
	return "", false
}

func c16ShapeName(fields []string, mask int) string {
	var on []string
	for i, f := range fields {
		if mask&(1<<i) != 0 {
			on = append(on, f)
		}
	}
	if len(on) == 0 {
		return "{}"
	}
	return "{" + strings.Join(on, ",") + "}"
}

// c16Run interprets fn with the optional members pinned to the shape.
func c16Run(c *eng.Ctx, fn *ssa.Function, fields []string, mask int, depth int) ([]eng.PathResult, error) {
	return c16RunFollowing(c, fn, fields, mask, depth, nil)
}

// c16RunFollowing is c16Run with a restriction on the callees that are interpreted.
func c16RunFollowing(c *eng.Ctx, fn *ssa.Function, fields []string, mask int, depth int, follow func(*ssa.Function) bool) ([]eng.PathResult, error) {
	in := &eng.Interp{W: c.W, Depth: depth, MaxPaths: 1 << 15, FollowCall: follow}
	in.PinLoad = func(ld *ssa.UnOp, _ string) (eng.AV, bool) {
		name, ok := c16Target(ld, fields)
		if !ok {
			return eng.AV{}, false
		}
		for i, f := range fields {
			if f == name {
				if mask&(1<<i) != 0 {
					return eng.AV{K: eng.NonNilV}, true
				}
				return eng.AV{K: eng.NilV}, true
			}
		}
		return eng.AV{}, false
	}
	return in.Run(fn, nil)
}

func c16(c *eng.Ctx) {
	c.Rule("R1", "the flow-control validator is total on every nil-ness shape of the optional members: no path dereferences a nil member (2ⁿ shapes enumerated, numeric comparisons left free)", 32)
	c.Rule("R2", "accepts ⊆ applicable: every shape the validator accepts is consistent (exactly one of exempt/maxRequestsInflight/tokenBucket; a global member only with its local member) and every consumer of the schema runs on it without dereferencing a nil member", 30)
	c.Rule("R3", "parser agreement: every parser a consumer applies to a field of the object (url.Parse on endpoints, X509KeyPair and ParseCertsPEM on serving/client material, feature-gate Set on the annotation) is applied by validation to the same field with its error gating a reject", 5)
	c.Rule("R4", "results that are nil on error are not dereferenced on the error edge, including by deferred closures", 1)
	c.Rule("R5", "ranges: on every accepting path the limits consumers convert to unsigned or use as rates are bounded below (max ≥ 0, qps ≥ 1, burst ≥ qps, global ≥ local), derived from the validator's reject conditions", 10)
	c.Rule("R6", "referential and uniformity rejects: unknown upstream-subset endpoints, unknown flow-control schema names, mixed endpoint schemes, empty or duplicate schema names", 5)

	fields := c16Optional(c)
	vf := c.MustFunc(pkgValidation, "ValidateFlowControlConfiguration")
	if fields == nil || vf == nil {
		return
	}
	// ---- R1: totality on shapes; accepted shapes
	var accepted []int
	for mask := 0; mask < 1<<len(fields); mask++ {
		paths, err := c16Run(c, vf, fields, mask, eng.LiftDepth)
		ok := err == nil && len(paths) > 0
		detail := ""
		acc := false
		for _, p := range paths {
			if p.LoopCut {
				ok, detail = false, "a loop did not fold: undecided"
			}
			if len(p.NilDerefs) > 0 {
				ok = false
				f, l := c.W.Pos(p.NilDerefs[0].Pos())
				detail = fmt.Sprintf("nil member dereferenced at %s:%d (%s) — validating such an object panics", f, l, eng.PathString(derefBase(p.NilDerefs[0])))
			}
			if p.Panicked {
				ok, detail = false, "a path panics"
			}
			rej := false
			for _, ci := range p.Calls {
				if c16IsReject(ci) {
					rej = true
				}
			}
			if !rej && len(p.NilDerefs) == 0 && !p.Panicked {
				acc = true
			}
		}
		if err != nil {
			detail = err.Error()
		}
		c.Check("R1", vf, "validator total on shape "+c16ShapeName(fields, mask), vf.Pos(), ok, detail)
		if acc {
			accepted = append(accepted, mask)
		}
	}
	// ---- R2: consistency of accepted shapes
	idx := map[string]int{}
	for i, f := range fields {
		idx[f] = i
	}
	has := func(mask int, f string) bool { i, ok := idx[f]; return ok && mask&(1<<i) != 0 }
	var names []string
	for _, m := range accepted {
		names = append(names, c16ShapeName(fields, m))
		n := 0
		for _, f := range []string{"Exempt", "MaxRequestsInflight", "TokenBucket"} {
			if has(m, f) {
				n++
			}
		}
		ok := n == 1 && (!has(m, "GlobalMaxRequestsInflight") || has(m, "MaxRequestsInflight")) && (!has(m, "GlobalTokenBucket") || has(m, "TokenBucket"))
		c.Check("R2", vf, "accepted shape "+c16ShapeName(fields, m)+" is consistent", vf.Pos(), ok, "contradictory or incomplete flow-control configurations must be rejected: exactly one limiter type, a global limit only together with its local limit")
	}
	if len(accepted) == 0 {
		c.Fail("R2", vf, "accepted shapes", vf.Pos(), "the validator accepts no shape at all")
	}
	c.Note("shapes accepted by ValidateFlowControlConfiguration: %s", strings.Join(names, " "))
	for _, f := range []string{"Exempt", "MaxRequestsInflight", "TokenBucket", "GlobalMaxRequestsInflight", "GlobalTokenBucket"} {
		if _, ok := idx[f]; !ok {
			c.Fail("R2", vf, "member "+f, vf.Pos(), "expected optional member not found in FlowControlSchemaConfiguration")
		}
	}
	// consumers
	type consumer struct{ pkg, typ, name string }
	consumers := []consumer{
		{pkgFC, "", "GuessFlowControlSchemaType"}, {pkgFC, "", "NewFlowControl"}, {pkgFCRemote, "localWrapper", "Sync"},
		{pkgFCRemote, "", "EnableGlobalFlowControl"}, {pkgLimiter, "", "toFlowControlLimit"}, {pkgLimiter, "", "updateUpstreamStateCondition"},
		{pkgRLStoreFC, "", "NewGlobalFlowControl"}, {pkgRLStoreFC, "", "ResizeGlobalFlowControl"}, {pkgRLStoreLoc, "upstreamCondition", "syncLocalFlowControls"},
		{pkgFCRoot, "upstreamLimiter", "syncLocalFlowControls"},
	}
	// The consumers are anchored by name (stable keys) but found by ROLE: every function of the
	// data plane that reads an optional member of the schema must be analysed — as part of a
	// named consumer (its Region: the helpers it is split into) or, when a consumer was renamed,
	// merged or newly added, under the function its calling contexts end in. A missing name is
	// not a failure as long as the role is covered.
	var consumerFns []*ssa.Function
	covered := map[*ssa.Function]bool{}
	byRole := map[*ssa.Function]bool{}
	addConsumer := func(fn *ssa.Function) {
		for _, x := range consumerFns {
			if x == fn {
				return
			}
		}
		consumerFns = append(consumerFns, fn)
		for _, r := range c.W.Region(fn) {
			covered[r] = true
		}
	}
	for _, cs := range consumers {
		var fn *ssa.Function
		if cs.typ != "" {
			fn = c.W.Method(cs.pkg, cs.typ, cs.name)
		} else {
			fn = c.W.Func(cs.pkg, cs.name)
		}
		if fn != nil && fn.Blocks != nil {
			addConsumer(fn)
		}
	}
	for _, fn := range c.W.AllRepoFuncs() {
		if fn.Pkg == nil || covered[fn] {
			continue
		}
		pp := fn.Pkg.Pkg.Path()
		if strings.HasPrefix(pp, pkgV1alpha1) || pp == pkgAdmission || strings.Contains(pp, "/pkg/client/") || strings.HasSuffix(pp, "_test") {
			continue // the API package (generated code), validation and admission are not consumers
		}
		reads := false
		eng.Instrs(fn, func(ins ssa.Instruction) {
			if ld, ok := ins.(*ssa.UnOp); ok && ld.Op == token.MUL {
				if _, ok := c16Target(ld, fields); ok {
					reads = true
				}
			}
		})
		if reads {
			byRole[fn] = true
			addConsumer(fn)
		}
	}
	if len(consumerFns) == 0 {
		c.Fail("R2", nil, "consumers of the flow-control schema", 0, "no function of the data plane reads a member of FlowControlSchemaConfiguration")
	}
	// safeOn interprets fn on one accepted shape: no path dereferences a nil member
	safeOn := func(fn *ssa.Function, m int, follow func(*ssa.Function) bool) (bool, string) {
		paths, err := c16RunFollowing(c, fn, fields, m, 4, follow)
		if err != nil {
			return false, err.Error()
		}
		if len(paths) == 0 {
			return false, "no path enumerated"
		}
		for _, p := range paths {
			if len(p.NilDerefs) > 0 {
				f, l := c.W.Pos(p.NilDerefs[0].Pos())
				return false, fmt.Sprintf("the data plane dereferences a nil member at %s:%d (%s) for an object validation accepts", f, l, eng.PathString(derefBase(p.NilDerefs[0])))
			}
		}
		return true, ""
	}
	for _, fn := range consumerFns {
		for _, m := range accepted {
			ok, detail := safeOn(fn, m, nil)
			if !ok && byRole[fn] {
				// a reader found by its role may be a helper that relies on a test made by its
				// caller: it is safe when it is safe as a part of every function its calling
				// contexts end in (only the helpers on the way down to it are interpreted there,
				// the rest of a large caller is irrelevant and would only multiply the paths)
				if roots := c04Roots(c, fn); len(roots) > 0 && !(len(roots) == 1 && roots[0] == fn) {
					onWay := map[*ssa.Function]bool{fn: true}
					for changed := true; changed; {
						changed = false
						for _, r := range roots {
							for _, g := range c.W.Region(r) {
								if onWay[g] {
									continue
								}
								for _, ci := range eng.Calls(g) {
									if cf := eng.CalleeFn(ci); cf != nil && onWay[cf] {
										onWay[g] = true
										changed = true
										break
									}
								}
							}
						}
					}
					all := true
					for _, r := range roots {
						o, _ := safeOn(r, m, func(callee *ssa.Function) bool { return onWay[callee] })
						all = all && o
					}
					if all {
						ok, detail = true, ""
					}
				}
			}
			c.Check("R2", fn, "consumer safe on shape "+c16ShapeName(fields, m), fn.Pos(), ok, detail)
		}
	}

	c16AdmitsValidated(c)
	c16Preconditions(c)
	c16Parsers(c)
	c16NilOnError(c)
	c16Ranges(c)
	c16Referential(c)
}

func fieldNameOf(t types.Type, i int) string {
	if p, ok := t.Underlying().(*types.Pointer); ok {
		t = p.Elem()
	}
	if st, ok := t.Underlying().(*types.Struct); ok && i < st.NumFields() {
		return st.Field(i).Name()
	}
	return "?"
}

// derefBase returns the pointer that a dereferencing instruction goes through.
func derefBase(ins ssa.Instruction) ssa.Value {
	switch n := ins.(type) {
	case *ssa.FieldAddr:
		return n.X
	case *ssa.UnOp:
		return n.X
	case *ssa.Store:
		return n.Addr
	}
	return nil
}

// ---- R3 -------------------------------------------------------------------------------

func c16Parsers(c *eng.Ctx) {
	type use struct{ parser, field string }
	parsers := []string{"net/url.Parse", "crypto/tls.X509KeyPair", "k8s.io/client-go/util/cert.ParseCertsPEM"}
	var fieldOfD func(v ssa.Value, depth int) string
	fieldOf := func(v ssa.Value) string { return fieldOfD(v, 3) }
	fieldOfD = func(v ssa.Value, depth int) string {
		// "Type.field" of the API object field the argument is read from
		cur := convOf(v)
		for i := 0; i < 6; i++ {
			switch n := cur.(type) {
			case *ssa.Parameter:
				// the parser is applied in a helper: the field is what every caller hands in
				if depth <= 0 {
					return ""
				}
				// (a helper shared by several fields — one validator for the client's and the
				// serving key pair — stands for all of them: the fields are joined with '|')
				var fs []string
				for _, a := range eng.UpArgs(n) {
					fa := fieldOfD(a, depth-1)
					if fa == "" {
						return ""
					}
					for _, one := range strings.Split(fa, "|") {
						dup := false
						for _, x := range fs {
							dup = dup || x == one
						}
						if !dup {
							fs = append(fs, one)
						}
					}
				}
				sort.Strings(fs)
				return strings.Join(fs, "|")
			case *ssa.UnOp:
				if n.Op != token.MUL {
					return ""
				}
				cur = n.X
				continue
			case *ssa.FieldAddr:
				tn := eng.TypeName(n.X.Type())
				if strings.HasPrefix(tn, pkgV1alpha1+".") {
					return strings.TrimPrefix(tn, pkgV1alpha1+".") + "." + fieldNameOf(n.X.Type(), n.Field)
				}
				return ""
			case *ssa.Field:
				tn := eng.TypeName(n.X.Type())
				if strings.HasPrefix(tn, pkgV1alpha1+".") {
					return strings.TrimPrefix(tn, pkgV1alpha1+".") + "." + fieldNameOf(n.X.Type(), n.Field)
				}
				return ""
			}
			return ""
		}
		return ""
	}
	collect := func(funcs []*ssa.Function) map[use]ssa.CallInstruction {
		out := map[use]ssa.CallInstruction{}
		for _, fn := range funcs {
			for _, ci := range eng.Calls(fn) {
				for _, p := range parsers {
					if !eng.IsCall(ci, p) {
						continue
					}
					for _, a := range eng.Args(ci) {
						if f := fieldOf(a); f != "" {
							for _, one := range strings.Split(f, "|") {
								out[use{p, one}] = ci
							}
						}
					}
				}
			}
		}
		return out
	}
	consumerFuncs := append(append([]*ssa.Function{}, c.W.FuncsOf(pkgClusters)...), c.W.FuncsOf(pkgDispatcher)...)
	validatorFuncs := append(append([]*ssa.Function{}, c.W.FuncsOf(pkgValidation)...), c.W.FuncsOf(pkgAdmission)...)
	cu := collect(consumerFuncs)
	vu := collect(validatorFuncs)
	var keys []use
	for k := range cu {
		keys = append(keys, k)
	}
	sort.Slice(keys, func(i, j int) bool { return keys[i].parser+keys[i].field < keys[j].parser+keys[j].field })
	for _, k := range keys {
		ci := cu[k]
		vc, ok := vu[k]
		detail := fmt.Sprintf("the data plane applies %s to field %s; validation must apply the same parser to the same field and reject on error (e.g. endpoint \"https://%%zz\" passes a prefix check but url.Parse fails when the cluster is synced)", shortName(k.parser), k.field)
		if ok {
			// the parser's error gates a reject: the error of the validator's parser call is forced
			// to non-nil and every path of the validator it belongs to (the root of the calling
			// contexts of the function holding the call, helpers interpreted) that makes the call
			// must reach a reject block afterwards — in the same function, in its caller after the
			// helper reported the problem by a result, wherever.
			call, isCall := vc.(*ssa.Call)
			gated := false
			if isCall {
				errIdx := -1
				if res := call.Call.Signature().Results(); res.Len() > 0 && res.At(res.Len()-1).Type().String() == "error" {
					errIdx = res.Len() - 1
					if res.Len() == 1 {
						errIdx = -1
					}
					gated = true
					for _, root := range c04Roots(c, vc.Parent()) {
						gated = gated && c16ForcedReject(c, root,
							func(cc *ssa.Call, idx int, _ *eng.TraceFrame) (eng.AV, bool) {
								if cc != call {
									return eng.AV{}, false
								}
								if idx == errIdx {
									return eng.AV{K: eng.NonNilV}, true
								}
								if idx == -1 && errIdx != -1 {
									return eng.AV{}, true // executed: results come from the Extract pins
								}
								return eng.AV{}, false
							}, nil, c16PinnedCall(call))
					}
				}
			}
			ok = gated
			if !gated {
				detail = "validation calls the parser but its error does not lead to a reject"
			}
		}
		c.Check("R3", ci.Parent(), shortName(k.parser)+" on "+k.field+" is validated", ci.Pos(), ok, detail)
	}
	if len(keys) < 4 {
		c.Fail("R3", nil, "parsers applied by consumers", 0, fmt.Sprintf("expected url.Parse, X509KeyPair (cert, key) and ParseCertsPEM uses on API fields in the data plane, found %d", len(keys)))
	}
	// feature gates: consumer Set on the annotation ⇒ validator Set on the annotation, error gating a reject
	setName := "(k8s.io/component-base/featuregate.MutableFeatureGate).Set"
	consumerSet := false
	for _, fn := range c.W.FuncsOf(pkgClusters) {
		if len(eng.CallsTo(fn, setName)) > 0 {
			consumerSet = true
		}
	}
	if consumerSet {
		ok := false
		for _, fn := range c.W.FuncsOf(pkgAdmission) {
			for _, sc := range eng.CallsTo(fn, setName) {
				call, isCall := sc.(*ssa.Call)
				if !isCall {
					continue
				}
				fromAnn := c.Slicer().DerivesFrom(eng.Args(call)[0], func(v ssa.Value) bool {
					l, isL := v.(*ssa.Lookup)
					return isL && c09LeafFieldOfLookup(l) == "Annotations"
				})
				// the error of Set is forced to non-nil: every path of the admission function the
				// call belongs to that makes it reaches a reject block afterwards
				if fromAnn {
					gated := true
					for _, root := range c04Roots(c, fn) {
						gated = gated && c16ForcedReject(c, root,
							func(cc *ssa.Call, idx int, _ *eng.TraceFrame) (eng.AV, bool) {
								if cc == call && idx == -1 {
									return eng.AV{K: eng.NonNilV}, true
								}
								return eng.AV{}, false
							}, nil, c16PinnedCall(call))
					}
					ok = ok || gated
				}
			}
		}
		c.Check("R3", nil, "feature-gate annotation is validated with the gate's own parser", 0, ok, "an annotation the gateway cannot Set must be rejected at admission")
	}
}

func c09LeafFieldOfLookup(l *ssa.Lookup) string {
	_, p := eng.AccessPath(l.X)
	if len(p) == 0 {
		return ""
	}
	return p[len(p)-1]
}

// ---- R4 -------------------------------------------------------------------------------

// c16NilOnErr computes the repository functions returning (…, *T, …, error) whose every
// error return carries a nil pointer; the map value is the index of the pointer result.
func c16NilOnErr(c *eng.Ctx, funcs []*ssa.Function) map[*ssa.Function]int {
	out := map[*ssa.Function]int{}
	for _, fn := range funcs {
		res := fn.Signature.Results()
		if res.Len() < 2 || res.At(res.Len()-1).Type().String() != "error" {
			continue
		}
		pi := -1
		for i := 0; i < res.Len()-1; i++ {
			if _, ok := res.At(i).Type().Underlying().(*types.Pointer); ok {
				pi = i
			}
		}
		if pi < 0 {
			continue
		}
		all, any := true, false
		eng.Instrs(fn, func(ins ssa.Instruction) {
			r, ok := ins.(*ssa.Return)
			if !ok || r.Block() == fn.Recover {
				return
			}
			rs := eng.ReturnResults(r)
			if eng.IsNilConst(rs[len(rs)-1]) {
				return
			}
			any = true
			if !eng.IsNilConst(rs[pi]) {
				all = false
			}
		})
		if all && any {
			out[fn] = pi
		}
	}
	return out
}

// derefsReceiver reports whether method m dereferences its pointer receiver without a
// dominating nil test of it.
func derefsReceiver(m *ssa.Function) bool {
	if m == nil || len(m.Params) == 0 || m.Blocks == nil {
		return true
	}
	recv := m.Params[0]
	bad := false
	eng.Instrs(m, func(ins ssa.Instruction) {
		var base ssa.Value
		switch n := ins.(type) {
		case *ssa.FieldAddr:
			base = n.X
		case *ssa.UnOp:
			if n.Op == token.MUL {
				base = n.X
			}
		}
		if base != ssa.Value(recv) {
			return
		}
		if !eng.GuardedByNil(ins, func(v ssa.Value) bool { return v == ssa.Value(recv) }, false) {
			bad = true
		}
	})
	return bad
}

func c16NilOnError(c *eng.Ctx) {
	scope := []string{pkgCtrl, pkgClusters, pkgValidation, pkgAdmission}
	if c.Thorough() {
		scope = nil
		for _, p := range c.W.RepoPackages() {
			scope = append(scope, p.Pkg.Path())
		}
	}
	nilOnErr := c16NilOnErr(c, c.W.AllRepoFuncs())
	n := 0
	for _, pkg := range scope {
		for _, fn := range c.W.FuncsOf(pkg) {
			if fn.Parent() != nil {
				continue // closures are reached through their enclosing function
			}
			for _, ci := range eng.Calls(fn) {
				call, ok := ci.(*ssa.Call)
				callee := eng.CalleeFn(ci)
				pi, isNOE := nilOnErr[callee]
				if !ok || !isNOE {
					continue
				}
				n++
				var tv, ev ssa.Value
				for _, e := range eng.ExtractOf(call, pi) {
					tv = e
				}
				for _, e := range eng.ExtractOf(call, callee.Signature.Results().Len()-1) {
					ev = e
				}
				good := true
				detail := ""
				if tv != nil && ev != nil {
					// direct dereferences on the err != nil edge
					if tv.Referrers() != nil {
						for _, r := range *tv.Referrers() {
							if derefUse(r, tv) && eng.GuardedByNil(r, func(v ssa.Value) bool { return v == ev }, false) {
								good, detail = false, "the nil result is dereferenced on the error edge"
							}
						}
					}
					// through captured cells and deferred closures
					tc, ec := cellOf(tv), cellOf(ev)
					if tc != nil && ec != nil {
						for _, cl := range eng.WithClosures(fn)[1:] {
							tf, ef := freeVarFor(fn, cl, tc), freeVarFor(fn, cl, ec)
							if tf == nil || ef == nil || !isDeferred(fn, cl) {
								continue
							}
							eng.Instrs(cl, func(ins ssa.Instruction) {
								ld, isLd := ins.(*ssa.UnOp)
								if !isLd || ld.Op != token.MUL || ld.X != ssa.Value(tf) || ld.Referrers() == nil {
									return
								}
								for _, r := range *ld.Referrers() {
									if !derefUse(r, ld) {
										continue
									}
									onErr := eng.GuardedByNil(r, func(v ssa.Value) bool {
										u, isU := v.(*ssa.UnOp)
										return isU && u.Op == token.MUL && u.X == ssa.Value(ef)
									}, false)
									nilSafe := eng.GuardedByNil(r, func(v ssa.Value) bool {
										u, isU := v.(*ssa.UnOp)
										return isU && u.Op == token.MUL && u.X == ssa.Value(tf)
									}, false)
									// the error path of the call reaches an exit without re-assigning the result cell
									if onErr && !nilSafe && errPathKeepsNil(call, ev, tc) {
										good = false
										detail = fmt.Sprintf("%s returns (nil, err); a deferred closure runs on that path with err != nil and calls a method that dereferences the nil result: the goroutine panics", shortName(eng.FullName(call)))
									}
								}
							})
						}
					}
				}
				c.Check("R4", fn, "result of "+shortName(eng.FullName(call))+" unused on its error edge", call.Pos(), good, detail)
			}
		}
	}
	if n == 0 {
		c.Fail("R4", nil, "calls to nil-on-error functions", 0, "none found in scope")
	}
}

// derefUse reports whether instruction r dereferences pointer v (field access, load, or a
// call of a pointer-receiver method that dereferences its receiver).
func derefUse(r ssa.Instruction, v ssa.Value) bool {
	switch n := r.(type) {
	case *ssa.FieldAddr:
		return n.X == v
	case *ssa.UnOp:
		return n.Op == token.MUL && n.X == v
	case ssa.CallInstruction:
		if eng.Receiver(n) == v && !n.Common().IsInvoke() {
			return derefsReceiver(n.Common().StaticCallee())
		}
	}
	return false
}

// cellOf returns the local cell a value is stored into (captured variable), if any.
func cellOf(v ssa.Value) *ssa.Alloc {
	if v.Referrers() == nil {
		return nil
	}
	for _, r := range *v.Referrers() {
		if st, ok := r.(*ssa.Store); ok && st.Val == v {
			if a, ok := st.Addr.(*ssa.Alloc); ok {
				return a
			}
		}
	}
	return nil
}

// freeVarFor returns the free variable of closure cl bound to cell in fn.
func freeVarFor(fn, cl *ssa.Function, cell *ssa.Alloc) *ssa.FreeVar {
	var out *ssa.FreeVar
	for _, f := range eng.WithClosures(fn) {
		eng.Instrs(f, func(ins ssa.Instruction) {
			mc, ok := ins.(*ssa.MakeClosure)
			if !ok || mc.Fn != ssa.Value(cl) {
				return
			}
			for i, b := range mc.Bindings {
				if b == ssa.Value(cell) && i < len(cl.FreeVars) {
					out = cl.FreeVars[i]
				}
			}
		})
	}
	return out
}

func isDeferred(fn, cl *ssa.Function) bool {
	found := false
	eng.Instrs(fn, func(ins ssa.Instruction) {
		d, ok := ins.(*ssa.Defer)
		if !ok {
			return
		}
		if mc, ok := d.Call.Value.(*ssa.MakeClosure); ok && mc.Fn == ssa.Value(cl) {
			found = true
		}
	})
	return found
}

// errPathKeepsNil: from the err != nil edge of the call some exit is reachable without a
// store to the result cell and after the closure was deferred.
func errPathKeepsNil(call *ssa.Call, ev ssa.Value, tc *ssa.Alloc) bool {
	for _, br := range eng.BranchesOnNil(ev) {
		x := eng.ReachFromBlock(br.OnNonNil, eng.PathQuery{Target: eng.IsExit, Avoid: func(i ssa.Instruction) bool {
			st, ok := i.(*ssa.Store)
			return ok && st.Addr == ssa.Value(tc)
		}})
		if x != nil {
			return true
		}
	}
	// err stored in a cell and re-read
	if ec := cellOf(ev); ec != nil && ec.Referrers() != nil {
		for _, r := range *ec.Referrers() {
			if ld, ok := r.(*ssa.UnOp); ok && ld.Op == token.MUL {
				for _, br := range eng.BranchesOnNil(ld) {
					x := eng.ReachFromBlock(br.OnNonNil, eng.PathQuery{Target: eng.IsExit, Avoid: func(i ssa.Instruction) bool {
						st, ok := i.(*ssa.Store)
						return ok && st.Addr == ssa.Value(tc)
					}})
					if x != nil {
						return true
					}
				}
			}
		}
	}
	return false
}

// ---- R5 -------------------------------------------------------------------------------

// c16Ranges decides the lower bounds of the numeric limits by FORCING: for every bound the
// optional members are pinned to a consistent shape in which the fields exist, every numeric
// field is pinned to a value that satisfies all the other bounds, the field(s) of the bound at
// hand to values that violate it — the nearest violating value and a far one (a test for one
// particular value, `== 0`, lets the far one through) — and every path of the validator (the
// helpers it is split into are interpreted, whatever their names) must reach a reject block.
// The same run with the unviolated values must have an accepting path, so that "every path
// rejects" is never vacuous. How the validator spells the test (if / switch / early return,
// in a per-member helper, on a named local) does not matter.
func c16Ranges(c *eng.Ctx) {
	vf := c.W.Func(pkgValidation, "ValidateFlowControlConfiguration")
	if vf == nil || vf.Blocks == nil {
		return // reported as an unresolved anchor by the caller
	}
	fields := c16Optional(c)
	if fields == nil {
		return
	}
	type nums map[string]int64 // "Member.Field" → value
	valid := nums{
		"MaxRequestsInflight.Max": 5, "GlobalMaxRequestsInflight.Max": 10,
		"TokenBucket.QPS": 5, "TokenBucket.Burst": 10, "GlobalTokenBucket.QPS": 10, "GlobalTokenBucket.Burst": 20,
	}
	// run interprets the validator on one shape with the numbers pinned; it reports whether
	// some path accepts (reaches the exit without passing a reject block).
	run := func(members []string, vals nums) (accepts bool, undecided string) {
		mask := 0
		for i, f := range fields {
			for _, m := range members {
				if f == m {
					mask |= 1 << i
				}
			}
		}
		in := &eng.Interp{W: c.W, Depth: 4, MaxPaths: 1 << 15}
		in.PinLoad = func(ld *ssa.UnOp, _ string) (eng.AV, bool) {
			name, ok := c16Target(ld, fields)
			if !ok {
				return eng.AV{}, false
			}
			for i, f := range fields {
				if f == name {
					if mask&(1<<i) != 0 {
						return eng.AV{K: eng.NonNilV}, true
					}
					return eng.AV{K: eng.NilV}, true
				}
			}
			return eng.AV{}, false
		}
		in.PinPath = func(path string) (eng.AV, bool) {
			parts := strings.Split(path, ".")
			if len(parts) < 3 {
				return eng.AV{}, false
			}
			if v, ok := vals[parts[len(parts)-2]+"."+parts[len(parts)-1]]; ok {
				return eng.AVInt(v), true
			}
			return eng.AV{}, false
		}
		paths, err := in.Run(vf, nil)
		if err != nil {
			return false, err.Error()
		}
		if len(paths) == 0 {
			return false, "no path enumerated"
		}
		for _, p := range paths {
			if p.Panicked || len(p.NilDerefs) > 0 {
				continue // decided by R1
			}
			if p.LoopCut {
				return false, "a loop did not fold"
			}
			rej := false
			for _, ci := range p.Calls {
				rej = rej || c16IsReject(ci)
			}
			if !rej {
				accepts = true
			}
		}
		return accepts, ""
	}
	with := func(base nums, over nums) nums {
		out := nums{}
		for k, v := range base {
			out[k] = v
		}
		for k, v := range over {
			out[k] = v
		}
		return out
	}
	inflight := []string{"MaxRequestsInflight", "GlobalMaxRequestsInflight"}
	bucket := []string{"TokenBucket", "GlobalTokenBucket"}
	type bound struct {
		construct string
		members   []string
		violate   []nums // each: the values that differ from `valid`
		why       string
	}
	clamp := "the gateway clamps server quotas to the global limit and falls back to the local one: a global limit below the local limit is contradictory"
	bounds := []bound{
		{"GlobalMaxRequestsInflight.Max ≥ MaxRequestsInflight.Max on accepting paths", inflight, []nums{{"GlobalMaxRequestsInflight.Max": 4}, {"MaxRequestsInflight.Max": 1000}}, clamp},
		{"GlobalTokenBucket.QPS ≥ TokenBucket.QPS on accepting paths", bucket, []nums{{"GlobalTokenBucket.QPS": 4}, {"TokenBucket.QPS": 9, "TokenBucket.Burst": 10, "GlobalTokenBucket.QPS": 8}}, clamp},
		{"GlobalTokenBucket.Burst ≥ TokenBucket.Burst on accepting paths", bucket, []nums{{"GlobalTokenBucket.Burst": 9, "GlobalTokenBucket.QPS": 6}, {"TokenBucket.Burst": 1000}}, clamp},
		{"TokenBucket.Burst ≥ TokenBucket.QPS on accepting paths", bucket[:1], []nums{{"TokenBucket.Burst": 4}, {"TokenBucket.QPS": 1000}}, clamp},
		{"MaxRequestsInflight.Max ≥ 0 on accepting paths", inflight[:1], []nums{{"MaxRequestsInflight.Max": -1}, {"MaxRequestsInflight.Max": -1000}}, "converted to uint32 as the in-flight limit"},
		{"TokenBucket.QPS ≥ 1 on accepting paths", bucket[:1], []nums{{"TokenBucket.QPS": 0}, {"TokenBucket.QPS": -5}}, "a token bucket rate: zero or negative becomes uint32 garbage / a limiter that admits nothing or everything"},
		{"TokenBucket.Burst ≥ 1 on accepting paths", bucket[:1], []nums{{"TokenBucket.Burst": 0}, {"TokenBucket.Burst": -5, "TokenBucket.QPS": -5}}, "converted to uint32 / int as the bucket size"},
		{"GlobalMaxRequestsInflight.Max ≥ 0 on accepting paths", inflight, []nums{{"GlobalMaxRequestsInflight.Max": -1}, {"GlobalMaxRequestsInflight.Max": -1000, "MaxRequestsInflight.Max": 0}}, "the global in-flight limit"},
		{"GlobalTokenBucket.QPS ≥ 1 on accepting paths", bucket, []nums{{"GlobalTokenBucket.QPS": 0}, {"GlobalTokenBucket.QPS": -5}}, "the global rate"},
		{"GlobalTokenBucket.Burst ≥ 1 on accepting paths", bucket, []nums{{"GlobalTokenBucket.Burst": 0}, {"GlobalTokenBucket.Burst": -5}}, "the global bucket size"},
	}
	sane := map[string]string{}
	for _, b := range bounds {
		key := strings.Join(b.members, ",")
		if _, done := sane[key]; !done {
			acc, und := run(b.members, valid)
			switch {
			case und != "":
				sane[key] = "undecided: " + und
			case !acc:
				sane[key] = "the validator accepts no object of shape {" + key + "} with consistent limits: the forcing would be vacuous"
			default:
				sane[key] = ""
			}
		}
		ok, detail := sane[key] == "", sane[key]
		for _, v := range b.violate {
			if !ok {
				break
			}
			acc, und := run(b.members, with(valid, v))
			if und != "" {
				ok, detail = false, "undecided: "+und
			} else if acc {
				ok, detail = false, fmt.Sprintf("%s; an object of shape {%s} with %v (other limits consistent) is accepted — e.g. tokenBucket {qps:-5, burst:-5} passes an `== 0` test", b.why, key, map[string]int64(v))
			}
		}
		if ok {
			detail = b.why + "; every path of the validator rejects the nearest and a far violating value"
		}
		if strings.HasPrefix(detail, "undecided") {
			c.Undecided("R5", vf, b.construct, vf.Pos(), detail)
		} else {
			c.Check("R5", vf, b.construct, vf.Pos(), ok, detail)
		}
	}
}

// c16ForcedReject: with the given pins, every path of fn (the helpers it is split into — its
// Region — interpreted; the exported validators it calls for nested sections are separate
// subjects) on which an event satisfying `at` occurs reaches a reject block afterwards, and at
// least one path has such an event.
func c16ForcedReject(c *eng.Ctx, fn *ssa.Function, pin func(cc *ssa.Call, idx int, fr *eng.TraceFrame) (eng.AV, bool), pinLoad func(ld *ssa.UnOp) (eng.AV, bool), at func(e eng.TraceEvent) bool) bool {
	in := &eng.Interp{W: c.W, Depth: eng.LiftDepth, MaxPaths: 1 << 14}
	if pinLoad != nil {
		in.PinLoad = func(ld *ssa.UnOp, _ string) (eng.AV, bool) { return pinLoad(ld) }
	}
	inRegion := map[*ssa.Function]bool{}
	for _, f := range c.W.Region(fn) {
		inRegion[f] = true
	}
	tr := &eng.Tracer{In: in, Follow: func(_ *ssa.Call, callee *ssa.Function, _ *eng.TraceFrame) bool { return inRegion[callee] }, KnownResults: true}
	if pin != nil {
		tr.Pin = func(cc *ssa.Call, idx int, fr *eng.TraceFrame, _ *eng.State) (eng.AV, bool) { return pin(cc, idx, fr) }
	}
	paths, err := tr.Run(fn, nil)
	c.Note("C16 forcing on %s: %d paths (err=%v)", eng.FuncName(fn), len(paths), err)
	if err != nil {
		return false
	}
	hit := 0
	for _, tp := range paths {
		pos := -1
		for i, e := range tp.Events {
			if at(e) {
				pos = i
				break
			}
		}
		if pos < 0 {
			continue
		}
		hit++
		rejected := false
		for _, e := range tp.Events[pos+1:] {
			if ci := e.Call(); ci != nil && c16IsReject(ci) {
				rejected = true
			}
		}
		if !rejected {
			return false
		}
	}
	return hit > 0
}

// c16PinnedCall: the event is the execution of call `cc` with a pinned result.
func c16PinnedCall(cc *ssa.Call) func(e eng.TraceEvent) bool {
	return func(e eng.TraceEvent) bool { return e.Kind == eng.EvCall && e.Pinned && e.Ins == ssa.Instruction(cc) }
}

// ---- R6 -------------------------------------------------------------------------------

func c16Referential(c *eng.Ctx) {
	has := "(k8s.io/apimachinery/pkg/util/sets.String).Has"
	if dp := c.MustFunc(pkgValidation, "ValidateDispatchPolicy"); dp != nil && len(dp.Params) >= 2 {
		// Decided by forcing: the membership test of the set handed in as parameter k is pinned
		// to "not a member" and every path of the validator that makes the test (helpers of the
		// package interpreted, the set followed through their parameters) must reach a reject
		// block afterwards. Where the test sits and how it is spelled does not matter.
		dpRegion := map[*ssa.Function]bool{}
		for _, f := range c.W.Region(dp) {
			dpRegion[f] = true
		}
		forced := func(param int, argOK func(v ssa.Value, fr *eng.TraceFrame) bool) bool {
			isTest := func(cc *ssa.Call, fr *eng.TraceFrame) bool {
				if !eng.IsCall(cc, has) || len(eng.Args(cc)) != 1 {
					return false
				}
				rv, _ := fr.Resolve(eng.Receiver(cc))
				return rv == ssa.Value(dp.Params[param]) && argOK(eng.Args(cc)[0], fr)
			}
			tr := &eng.Tracer{
				In: &eng.Interp{W: c.W, Depth: eng.LiftDepth, MaxPaths: 1 << 14},
				Pin: func(cc *ssa.Call, idx int, fr *eng.TraceFrame, _ *eng.State) (eng.AV, bool) {
					if idx == -1 && isTest(cc, fr) {
						return eng.AVBool(false), true
					}
					return eng.AV{}, false
				},
				Follow: func(_ *ssa.Call, callee *ssa.Function, _ *eng.TraceFrame) bool { return dpRegion[callee] },
			}
			paths, err := tr.Run(dp, nil)
			if err != nil {
				return false
			}
			tested := 0
			for _, tp := range paths {
				at := -1
				for i, e := range tp.Events {
					if cc, ok := e.Ins.(*ssa.Call); ok && e.Kind == eng.EvCall && e.Pinned && isTest(cc, e.Frame) {
						at = i
						break
					}
				}
				if at < 0 {
					continue
				}
				tested++
				rejected := false
				for _, e := range tp.Events[at+1:] {
					if ci := e.Call(); ci != nil && c16IsReject(ci) {
						rejected = true
					}
				}
				if !rejected {
					return false
				}
			}
			return tested > 0
		}
		sl := c.Slicer()
		derivesIn := func(v ssa.Value, fr *eng.TraceFrame, pred func(ssa.Value) bool) bool {
			for i := 0; i < 6 && v != nil; i++ {
				if sl.DerivesFrom(v, pred) {
					return true
				}
				// continue in the caller when the value is a helper's parameter
				next := false
				for _, l := range sl.Leaves(v, nil) {
					if prm, ok := l.(*ssa.Parameter); ok {
						if a, in, ok := fr.Bind(prm); ok {
							v, fr, next = a, in, true
							break
						}
					}
				}
				if !next {
					return false
				}
			}
			return false
		}
		subset := forced(0, func(v ssa.Value, fr *eng.TraceFrame) bool {
			return derivesIn(v, fr, func(x ssa.Value) bool { return eng.FieldLoadOf(x, pkgV1alpha1+".DispatchPolicy", "UpstreamSubset") })
		})
		schema := forced(1, func(v ssa.Value, fr *eng.TraceFrame) bool {
			return derivesIn(v, fr, func(x ssa.Value) bool {
				return eng.FieldLoadOf(x, pkgV1alpha1+".DispatchPolicy", "FlowControlSchemaName")
			})
		})
		c.Check("R6", dp, "unknown upstream-subset endpoint rejected", dp.Pos(), subset, "a policy naming an endpoint that is not among the servers gets no traffic target (503 for every request)")
		c.Check("R6", dp, "unknown flow-control schema name rejected", dp.Pos(), schema, "a policy naming an unknown schema silently runs unlimited")
	}
	// the sets passed to ValidateDispatchPolicy are the ones built from servers / schemas: every
	// call of it in the region of ValidateUpstreamClusterSpec (the loop over the policies may sit
	// in a helper) gets, resolved through the helper's parameters, the first results of
	// ValidateServers and ValidateFlowControl
	if sp := c.MustFunc(pkgValidation, "ValidateUpstreamClusterSpec"); sp != nil {
		region := c.W.Region(sp)
		inRegion := map[*ssa.Function]bool{}
		for _, f := range region {
			inRegion[f] = true
		}
		n, ok := 0, true
		for _, fn := range region {
			for _, ci := range eng.CallsTo(fn, pkgValidation+".ValidateDispatchPolicy") {
				a := eng.Args(ci)
				chains := []eng.UpChain{nil}
				if fn != sp {
					chains = nil
					for _, ch := range c.W.UpChains(fn, func(f *ssa.Function) bool { return f == sp }) {
						if ch.Top(fn) == sp {
							chains = append(chains, ch)
						}
					}
				}
				for _, ch := range chains {
					n++
					resolve := func(v ssa.Value) ssa.Value {
						return c04ResolveIn(v, ch, func(f *ssa.Function) bool { return inRegion[f] }).v
					}
					c0, i0 := eng.CallResultOf(resolve(a[0]))
					c1, i1 := eng.CallResultOf(resolve(a[1]))
					ok = ok && c0 != nil && eng.IsCall(c0, pkgValidation+".ValidateServers") && i0 == 0 && c1 != nil && eng.IsCall(c1, pkgValidation+".ValidateFlowControl") && i1 == 0
				}
			}
		}
		c.Check("R6", sp, "policies are checked against the object's own servers and schemas", sp.Pos(), ok && n > 0, "")
	}
	forcedReject := func(fn *ssa.Function, pin func(cc *ssa.Call, idx int, fr *eng.TraceFrame) (eng.AV, bool), pinLoad func(ld *ssa.UnOp) (eng.AV, bool), at func(e eng.TraceEvent) bool) bool {
		return c16ForcedReject(c, fn, pin, pinLoad, at)
	}
	if vs := c.MustFunc(pkgValidation, "ValidateServers"); vs != nil {
		// mixed schemes: the size of a string set is forced to 2; every path that asks for it rejects
		isLen := func(cc *ssa.Call) bool { return eng.IsCall(cc, "(k8s.io/apimachinery/pkg/util/sets.String).Len") }
		mixed := forcedReject(vs,
			func(cc *ssa.Call, idx int, _ *eng.TraceFrame) (eng.AV, bool) {
				if idx == -1 && isLen(cc) {
					return eng.AVInt(2), true
				}
				return eng.AV{}, false
			}, nil,
			func(e eng.TraceEvent) bool {
				cc, ok := e.Ins.(*ssa.Call)
				return ok && e.Kind == eng.EvCall && e.Pinned && isLen(cc)
			})
		c.Check("R6", vs, "mixed endpoint schemes rejected", vs.Pos(), mixed, "the client configuration takes the scheme of the first server for all of them")
		// every endpoint is inserted into the upstream set: in the loop that inserts endpoints,
		// every iteration passes the insertion (directly or in a helper that always performs it)
		su := c.Slicer().WithUp()
		isIns := func(i ssa.Instruction) bool {
			ci, ok := i.(*ssa.Call)
			if !ok || !eng.IsCall(ci, "(k8s.io/apimachinery/pkg/util/sets.String).Insert") {
				return false
			}
			for _, a := range eng.Args(ci) {
				if su.DerivesFrom(a, func(v ssa.Value) bool {
					return eng.FieldLoadOf(v, pkgV1alpha1+".UpstreamClusterServer", "Endpoint")
				}) {
					return true
				}
			}
			return false
		}
		must, may := eng.LiftMust(isIns), eng.LiftMay(isIns)
		ins := false
		for _, l := range eng.NaturalLoops(vs) {
			inserts := false
			for b := range l.Blocks {
				for _, i := range b.Instrs {
					inserts = inserts || may(i)
				}
			}
			if inserts && l.EveryIterationPasses(must) {
				ins = true
			}
		}
		c.Check("R6", vs, "upstream set = endpoints of all servers", vs.Pos(), ins, "")
	}
	if vfc := c.MustFunc(pkgValidation, "ValidateFlowControl"); vfc != nil {
		isName := func(v ssa.Value) bool { return eng.FieldLoadOf(v, tSchema, "Name") }
		nameRead := func(e eng.TraceEvent) bool {
			v, ok := e.Ins.(ssa.Value)
			return e.Kind == eng.EvPinned && ok && isName(v)
		}
		pinName := func(s string) func(ld *ssa.UnOp) (eng.AV, bool) {
			return func(ld *ssa.UnOp) (eng.AV, bool) {
				if isName(ld) {
					return eng.AV{K: eng.ConstV, C: constant.MakeString(s)}, true
				}
				return eng.AV{}, false
			}
		}
		// an empty name: every path that looks at the name rejects
		empty := forcedReject(vfc, nil, pinName(""), nameRead)
		// a name the set already has: the membership test of a schema name is forced to true
		isHasName := func(cc *ssa.Call, fr *eng.TraceFrame) bool {
			if !eng.IsCall(cc, has) || len(eng.Args(cc)) != 1 {
				return false
			}
			rv, _ := fr.Resolve(eng.Args(cc)[0])
			return isName(rv)
		}
		dup := forcedReject(vfc,
			func(cc *ssa.Call, idx int, fr *eng.TraceFrame) (eng.AV, bool) {
				if idx == -1 && isHasName(cc, fr) {
					return eng.AVBool(true), true
				}
				return eng.AV{}, false
			}, pinName("a-schema"),
			func(e eng.TraceEvent) bool {
				cc, ok := e.Ins.(*ssa.Call)
				return ok && e.Kind == eng.EvCall && e.Pinned && isHasName(cc, e.Frame)
			})
		c.Check("R6", vfc, "empty schema name rejected", vfc.Pos(), empty, "")
		c.Check("R6", vfc, "duplicate schema name rejected", vfc.Pos(), dup, "two schemas of one name share one limiter")
	}
}

// ---- R7 (added after seeded change C16-2) -----------------------------------------------

// c16AdmitsValidated: in the admission plugin's Validate every admitting return (nil, or the
// aggregate of the collected errors) is reached only through ValidateUpstreamCluster of the
// object and through the read of its feature-gate annotation; the only exempt return is the
// one for requests the plugin ignores. A shortcut such as "spec unchanged ⇒ admit" lets an
// annotation-only update with an unusable feature-gate value through.
func c16AdmitsValidated(c *eng.Ctx) {
	c.Rule("R7", "every admitted object was validated: in the admission plugin's Validate each return that can admit passes ValidateUpstreamCluster of the object and the feature-gate annotation check; only ignored requests return early", 2)
	named := c.W.Named(pkgAdmission, "upstreamclusterPlugin")
	if named == nil {
		c.Fail("engine", nil, "unresolved-anchor type upstreamclusterPlugin", 0, "")
		return
	}
	v := c.W.DeclaredMethod(named, "Validate")
	if v == nil || v.Blocks == nil {
		c.Fail("engine", nil, "unresolved-anchor method Validate", 0, "")
		return
	}
	isValidate := func(i ssa.Instruction) bool { return eng.IsPlainCall(i, pkgValidation+".ValidateUpstreamCluster") }
	isAnnRead := func(i ssa.Instruction) bool {
		l, ok := i.(*ssa.Lookup)
		return ok && c09LeafFieldOfLookup(l) == "Annotations"
	}
	isAnnNilTest := func(i ssa.Instruction) bool {
		iff, ok := i.(*ssa.If)
		if !ok {
			return false
		}
		r := eng.RelOf(iff.Cond, true)
		_, px := eng.AccessPath(r.X)
		return len(px) > 0 && px[len(px)-1] == "Annotations" && eng.IsNilConst(r.Y)
	}
	n := 0
	eng.Instrs(v, func(ins ssa.Instruction) {
		r, ok := ins.(*ssa.Return)
		if !ok || r.Block() == v.Recover || len(r.Results) != 1 {
			return
		}
		res := eng.ReturnResults(r)[0]
		// returns of a definite error (Forbidden, list failure) do not admit
		if cc, _ := eng.CallResultOf(res); cc != nil && !eng.MethodNameIs(cc, "ToAggregate") {
			return
		}
		// the ignore edge: guarded by shouldIgnore(a). Should that helper have been renamed,
		// merged or inlined, the ignoring returns are recognised by their role instead: they are
		// not reachable from any use of the submitted *UpstreamCluster (a field access, handing it
		// to a function) — a return that has not looked at the object cannot be a shortcut for
		// particular objects.
		if ignoreFn := c.W.Func(pkgAdmission, "shouldIgnore"); ignoreFn != nil && ignoreFn.Blocks != nil {
			if eng.GuardedByBool(r, func(x ssa.Value) bool {
				cc, _ := eng.CallResultOf(x)
				return cc != nil && eng.IsCall(cc, pkgAdmission+".shouldIgnore")
			}, true) {
				return
			}
		} else {
			isObj := func(x ssa.Value) bool {
				_, isPtr := x.Type().(*types.Pointer)
				return isPtr && eng.TypeName(x.Type()) == pkgV1alpha1+".UpstreamCluster"
			}
			after := false
			eng.Instrs(v, func(i ssa.Instruction) {
				used := false
				switch x := i.(type) {
				case *ssa.FieldAddr:
					used = isObj(x.X)
				case ssa.CallInstruction:
					for _, a := range x.Common().Args {
						used = used || isObj(a)
					}
				case *ssa.MakeInterface:
					used = isObj(x.X)
				}
				if used && eng.ReachAfter(i, eng.PathQuery{Target: func(x ssa.Instruction) bool { return x == ssa.Instruction(r) }}) != nil {
					after = true
				}
			})
			if !after {
				return
			}
		}
		n++
		okV := eng.AlwaysBefore(v, r, isValidate)
		okA := eng.AlwaysBefore(v, r, func(i ssa.Instruction) bool { return isAnnRead(i) || isAnnNilTest(i) })
		c.Check("R7", v, fmt.Sprintf("admitting return#%d only after full validation", n), r.Pos(), okV && okA,
			"an object can be admitted on a path that skips ValidateUpstreamCluster or the feature-gate annotation check (e.g. a \"spec unchanged\" shortcut for updates): an annotation-only update to an unusable gate value is stored and ClusterInfo.Sync of it fails before anything else is applied")
	})
	if n == 0 {
		c.Fail("R7", v, "admitting return", v.Pos(), "no admitting return found")
	}
	// the object validated is the request's object
	for _, ci := range eng.CallsTo(v, pkgValidation+".ValidateUpstreamCluster") {
		from := c.Slicer().DerivesFrom(eng.Args(ci)[0], func(x ssa.Value) bool {
			cc, _ := eng.CallResultOf(x)
			return cc != nil && eng.MethodNameIs(cc, "GetObject")
		})
		c.Check("R7", v, "the submitted object is what is validated", ci.Pos(), from, "")
	}
}

// ---- R8: preconditions of the client library ----------------------------------------------

// c16Preconditions: the data plane hands fields of the object to client-go, which refuses
// some combinations; validation must refuse them first.
//
//	P1  transport.TLSConfigFor fails when a CA is given together with the insecure flag (the
//	    guard is located in the dependency's own SSA, so the precondition is read from the
//	    code that enforces it); buildClusterRESTConfig copies ClientConfig.CAData and
//	    ClientConfig.Insecure into that configuration.
//	P2  rest.DefaultServerURL / the dispatcher need a URL with a host: "https://" parses but
//	    has none.
func c16Preconditions(c *eng.Ctx) {
	c.Rule("R8", "preconditions of the client library are validated: caData together with insecure is rejected (client-go's TLSConfigFor refuses it), and an endpoint whose parsed URL has no host is rejected (client-go's server URL and the dispatcher need one)", 2)
	// --- P1: locate the guard in the dependency
	p1 := false
	if dep := c.W.Func("k8s.io/client-go/transport", "TLSConfigFor"); dep != nil && dep.Blocks != nil {
		eng.Instrs(dep, func(ins ssa.Instruction) {
			r, ok := ins.(*ssa.Return)
			if !ok || len(r.Results) != 2 || eng.IsNilConst(r.Results[1]) {
				return
			}
			insecure, hasCA := false, false
			for _, g := range eng.GuardsOf(r) {
				rel := g.Rel()
				if eng.FieldLoadOf(rel.X, "k8s.io/client-go/transport.TLSConfig", "Insecure") && eng.IsBoolConst(rel.Y, true) && rel.Op == token.EQL {
					insecure = true
				}
				if cc, _ := eng.CallResultOf(rel.X); cc != nil && eng.MethodNameIs(cc, "HasCA") && eng.IsBoolConst(rel.Y, true) && rel.Op == token.EQL {
					hasCA = true
				}
			}
			if insecure && hasCA {
				p1 = true
			}
		})
	}
	// the consumer passes both fields on: somewhere in the clusters package the object's CAData
	// and Insecure are copied into a client-go TLS configuration (found by the stores, not by
	// the name of the function that holds them)
	passes := false
	{
		sl := c.Slicer().WithUp()
		from := func(v ssa.Value, field string) bool {
			return sl.DerivesFrom(v, func(x ssa.Value) bool { return eng.FieldLoadOf(x, pkgV1alpha1+".ClientConfig", field) })
		}
		ca, ins := false, false
		fs := c.W.FuncsOf(pkgClusters)
		for _, st := range eng.StoresToField(fs, "k8s.io/client-go/rest.TLSClientConfig", "CAData") {
			ca = ca || from(st.Val, "CAData")
		}
		for _, st := range eng.StoresToField(fs, "k8s.io/client-go/rest.TLSClientConfig", "Insecure") {
			ins = ins || from(st.Val, "Insecure")
		}
		passes = ca && ins
	}
	if !p1 || !passes {
		c.Note("R8/P1 not applicable on this tree: dependency guard found=%v, consumer passes caData+insecure=%v", p1, passes)
		c.Pass("R8", nil, "caData with insecure is rejected", 0, "precondition not present in the dependency / not exercised by the consumer")
	} else {
		// Decided by forcing on the validator of the client configuration (the function(s) of the
		// validation package the reads of ClientConfig.Insecure belong to): for an https endpoint
		// with CAData present, Insecure=false must leave an accepting path (the forcing is not
		// vacuous) and Insecure=true must not — every path reaches a reject block, wherever the
		// two tests sit (one function, caller and helper, a switch, named flags).
		tCC := pkgV1alpha1 + ".ClientConfig"
		holders := map[*ssa.Function]bool{}
		var roots []*ssa.Function
		for _, fn := range c.W.FuncsOf(pkgValidation) {
			reads := false
			eng.Instrs(fn, func(i ssa.Instruction) {
				if v, ok := i.(ssa.Value); ok && eng.FieldLoadOf(v, tCC, "Insecure") {
					reads = true
				}
			})
			if !reads {
				continue
			}
			for _, r := range c04Roots(c, fn) {
				if !holders[r] {
					holders[r] = true
					roots = append(roots, r)
				}
			}
		}
		accepts := func(root *ssa.Function, insecure bool) (bool, error) {
			inRegion := map[*ssa.Function]bool{}
			for _, f := range c.W.Region(root) {
				inRegion[f] = true
			}
			in := &eng.Interp{W: c.W, Depth: eng.LiftDepth, MaxPaths: 1 << 15, FollowCall: func(callee *ssa.Function) bool { return inRegion[callee] }}
			in.PinLoad = func(ld *ssa.UnOp, _ string) (eng.AV, bool) {
				switch {
				case eng.FieldLoadOf(ld, tCC, "Insecure"):
					return eng.AVBool(insecure), true
				case eng.FieldLoadOf(ld, tCC, "CAData"):
					return eng.AV{K: eng.LenV, C: constant.MakeInt64(3)}, true
				}
				return eng.AV{}, false
			}
			var args []eng.AV
			for _, prm := range root.Params {
				if b, ok := prm.Type().Underlying().(*types.Basic); ok && b.Info()&types.IsString != 0 {
					args = append(args, eng.AV{K: eng.ConstV, C: constant.MakeString("https")})
				} else {
					args = append(args, eng.AV{})
				}
			}
			paths, err := in.Run(root, args)
			if err != nil {
				return false, err
			}
			for _, p := range paths {
				if p.Panicked || p.LoopCut {
					continue
				}
				rej := false
				for _, ci := range p.Calls {
					rej = rej || c16IsReject(ci)
				}
				if !rej {
					return true, nil
				}
			}
			return false, nil
		}
		ok, detail := len(roots) > 0, "clientConfig {insecure: true, caData: <valid>} with an https endpoint passes validation, but client-go's transport.TLSConfigFor refuses a CA together with the insecure flag: CreateClusterInfo / the endpoint transports fail for an admitted object"
		for _, r := range roots {
			base, err1 := accepts(r, false)
			forced, err2 := accepts(r, true)
			switch {
			case err1 != nil || err2 != nil:
				ok, detail = false, fmt.Sprintf("undecided: %v %v", err1, err2)
			case !base:
				ok, detail = false, "the validator accepts no https client configuration with caData at all: the forcing would be vacuous"
			case forced:
				ok = false
			}
		}
		c.Check("R8", c.W.Func(pkgValidation, "ValidateClientConfig"), "caData with insecure is rejected", 0, ok, detail)
	}
	// --- P2: empty host. Decided by forcing: url.Parse of the validator succeeds (nil error), the
	// Host of a URL reads as "", and every path of the validator the parse belongs to that looks
	// at the host must reach a reject block — wherever the test and the reject sit.
	okHost := false
	var vs *ssa.Function
	for _, fn := range c.W.FuncsOf(pkgValidation) {
		for _, pc := range eng.CallsTo(fn, "net/url.Parse") {
			call, isCall := pc.(*ssa.Call)
			if !isCall {
				continue
			}
			isHost := func(v ssa.Value) bool { return eng.FieldLoadOf(v, "net/url.URL", "Host") }
			all := true
			roots := c04Roots(c, fn)
			for _, root := range roots {
				vs = root
				all = all && c16ForcedReject(c, root,
					func(cc *ssa.Call, idx int, _ *eng.TraceFrame) (eng.AV, bool) {
						if cc != call {
							return eng.AV{}, false
						}
						switch idx {
						case 0:
							return eng.AV{K: eng.NonNilV}, true
						case 1:
							return eng.AV{K: eng.NilV}, true
						}
						return eng.AV{}, true
					},
					func(ld *ssa.UnOp) (eng.AV, bool) {
						if isHost(ld) {
							return eng.AV{K: eng.ConstV, C: constant.MakeString("")}, true
						}
						return eng.AV{}, false
					},
					func(e eng.TraceEvent) bool {
						v, ok := e.Ins.(ssa.Value)
						return e.Kind == eng.EvPinned && ok && isHost(v)
					})
			}
			if all && len(roots) > 0 {
				okHost = true
			}
		}
	}
	c.Check("R8", vs, "endpoint without a host is rejected", 0, okHost,
		"the endpoint \"https://\" parses (url.Parse succeeds) but has no host: client-go's DefaultServerURL refuses it (\"host must be a URL or a host:port pair\"), so the endpoint's clientset cannot be built and Sync of the admitted object fails")
}
