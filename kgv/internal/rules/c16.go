package rules

import (
	"fmt"
	"go/token"
	"go/types"
	"sort"
	"strings"

	"golang.org/x/tools/go/ssa"

	"kgv/internal/eng"
)

func init() {
	Register("C16", c16)
	RegisterFixture("C16", c16Fixtures)
	RegisterFixture("C03", interpFixtures("C03"))
	RegisterFixture("C09", interpFixtures("C09"))
}

const c16FxSrc = `package fx
type S struct{ A, B *int; N int }
func good(s *S) int {
	if s.A != nil && *s.A > 0 { return 1 }
	if s.B == nil { return 0 }
	return *s.B
}
func bad(s *S) int {
	if s.B != nil { return *s.A }
	return 0
}
func conj(s *S) bool { return s.N > 0 && s.A != nil }
`

// shape enumeration on a tiny validator: the bad variant dereferences A under a test of B.
func c16Fixtures(c *eng.Ctx) {
	p, _, err := eng.BuildFixture(c16FxSrc)
	if err != nil {
		c.Fixture("C16.shapes/build", "ok", err.Error())
		return
	}
	for name, want := range map[string]string{"good": "", "bad": "{B}"} {
		fn := p.Func(name)
		var bad []string
		for mask := 0; mask < 4; mask++ {
			in := &eng.Interp{MaxPaths: 64}
			in.PinPath = func(path string) (eng.AV, bool) {
				for i, f := range []string{"s.A", "s.B"} {
					if path == f {
						if mask&(1<<i) != 0 {
							return eng.AV{K: eng.NonNilV}, true
						}
						return eng.AV{K: eng.NilV}, true
					}
				}
				return eng.AV{}, false
			}
			paths, _ := in.Run(fn, nil)
			for _, pr := range paths {
				if len(pr.NilDerefs) > 0 {
					bad = append(bad, c16ShapeName([]string{"A", "B"}, mask))
					break
				}
			}
		}
		c.Fixture("C16.shapes/"+name, want, strings.Join(bad, " "))
	}
}

// interpFixtures self-tests forcing (a pinned member forces the result) for the properties
// that use the interpreter without a template of their own.
func interpFixtures(prop string) func(c *eng.Ctx) {
	return func(c *eng.Ctx) {
		p, _, err := eng.BuildFixture(c16FxSrc)
		if err != nil {
			c.Fixture(prop+".forcing/build", "ok", err.Error())
			return
		}
		run := func(pin eng.AV) string {
			in := &eng.Interp{MaxPaths: 64, PinPath: func(path string) (eng.AV, bool) {
				if path == "s.A" {
					return pin, true
				}
				return eng.AV{}, false
			}}
			paths, _ := in.Run(p.Func("conj"), nil)
			res := map[string]bool{}
			for _, pr := range paths {
				if len(pr.Ret) == 1 {
					res[pr.Ret[0].String()] = true
				}
			}
			var ks []string
			for k := range res {
				ks = append(ks, k)
			}
			sort.Strings(ks)
			return strings.Join(ks, ",")
		}
		c.Fixture(prop+".forcing/A=nil forces false", "false", run(eng.AV{K: eng.NilV}))
		c.Fixture(prop+".forcing/A!=nil leaves both", "false,true", run(eng.AV{K: eng.NonNilV}))
	}
}

const (
	tSchemaCfg = pkgV1alpha1 + ".FlowControlSchemaConfiguration"
	tSchema    = pkgV1alpha1 + ".FlowControlSchema"
	pkgField   = "k8s.io/apimachinery/pkg/util/validation/field"
)

// c16IsReject reports whether a call builds a field error (the validators' reject blocks).
func c16IsReject(ci ssa.CallInstruction) bool {
	o := eng.CalleeObj(ci)
	if o == nil || o.Pkg() == nil || o.Pkg().Path() != pkgField {
		return false
	}
	switch o.Name() {
	case "Invalid", "Required", "Forbidden", "Duplicate", "NotSupported", "NotFound", "TooLong", "TooMany", "InternalError":
		return true
	}
	return false
}

// c16Optional returns the optional (pointer) members of FlowControlSchemaConfiguration.
func c16Optional(c *eng.Ctx) []string {
	n := c.W.Named(pkgV1alpha1, "FlowControlSchemaConfiguration")
	if n == nil {
		c.Fail("engine", nil, "unresolved-anchor type FlowControlSchemaConfiguration", 0, "")
		return nil
	}
	st := n.Underlying().(*types.Struct)
	var out []string
	for i := 0; i < st.NumFields(); i++ {
		if _, ok := st.Field(i).Type().Underlying().(*types.Pointer); ok {
			out = append(out, st.Field(i).Name())
		}
	}
	return out
}

// c16Target reports whether a load reads an optional member of a schema object that is the
// analysed input: rooted at a parameter or local copy of type FlowControlSchema(Configuration).
func c16Target(ld *ssa.UnOp, fields []string) (string, bool) {
	fa, ok := ld.X.(*ssa.FieldAddr)
	if !ok || eng.TypeName(fa.X.Type()) != tSchemaCfg {
		return "", false
	}
	name := ""
	st := fa.X.Type().Underlying().(*types.Pointer).Elem().Underlying().(*types.Struct)
	if fa.Field < st.NumFields() {
		name = st.Field(fa.Field).Name()
	}
	found := false
	for _, f := range fields {
		if f == name {
			found = true
		}
	}
	if !found {
		return "", false
	}
	root, _ := eng.AccessPath(ld)
	switch r := root.(type) {
	case *ssa.Parameter:
		tn := eng.TypeName(r.Type())
		return name, tn == tSchema || tn == tSchemaCfg
	case *ssa.Alloc:
		tn := eng.TypeName(r.Type())
		return name, tn == tSchema || tn == tSchemaCfg
	}
	return "", false
}

func c16ShapeName(fields []string, mask int) string {
	var on []string
	for i, f := range fields {
		if mask&(1<<i) != 0 {
			on = append(on, f)
		}
	}
	if len(on) == 0 {
		return "{}"
	}
	return "{" + strings.Join(on, ",") + "}"
}

// c16Run interprets fn with the optional members pinned to the shape.
func c16Run(c *eng.Ctx, fn *ssa.Function, fields []string, mask int, depth int) ([]eng.PathResult, error) {
	in := &eng.Interp{W: c.W, Depth: depth, MaxPaths: 1 << 15}
	in.PinLoad = func(ld *ssa.UnOp, _ string) (eng.AV, bool) {
		name, ok := c16Target(ld, fields)
		if !ok {
			return eng.AV{}, false
		}
		for i, f := range fields {
			if f == name {
				if mask&(1<<i) != 0 {
					return eng.AV{K: eng.NonNilV}, true
				}
				return eng.AV{K: eng.NilV}, true
			}
		}
		return eng.AV{}, false
	}
	return in.Run(fn, nil)
}

func c16(c *eng.Ctx) {
	c.Rule("R1", "the flow-control validator is total on every nil-ness shape of the optional members: no path dereferences a nil member (2ⁿ shapes enumerated, numeric comparisons left free)", 32)
	c.Rule("R2", "accepts ⊆ applicable: every shape the validator accepts is consistent (exactly one of exempt/maxRequestsInflight/tokenBucket; a global member only with its local member) and every consumer of the schema runs on it without dereferencing a nil member", 30)
	c.Rule("R3", "parser agreement: every parser a consumer applies to a field of the object (url.Parse on endpoints, X509KeyPair and ParseCertsPEM on serving/client material, feature-gate Set on the annotation) is applied by validation to the same field with its error gating a reject", 5)
	c.Rule("R4", "results that are nil on error are not dereferenced on the error edge, including by deferred closures", 1)
	c.Rule("R5", "ranges: on every accepting path the limits consumers convert to unsigned or use as rates are bounded below (max ≥ 0, qps ≥ 1, burst ≥ qps, global ≥ local), derived from the validator's reject conditions", 10)
	c.Rule("R6", "referential and uniformity rejects: unknown upstream-subset endpoints, unknown flow-control schema names, mixed endpoint schemes, empty or duplicate schema names", 5)

	fields := c16Optional(c)
	vf := c.MustFunc(pkgValidation, "ValidateFlowControlConfiguration")
	if fields == nil || vf == nil {
		return
	}
	// ---- R1: totality on shapes; accepted shapes
	var accepted []int
	for mask := 0; mask < 1<<len(fields); mask++ {
		paths, err := c16Run(c, vf, fields, mask, 2)
		ok := err == nil && len(paths) > 0
		detail := ""
		acc := false
		for _, p := range paths {
			if p.LoopCut {
				ok, detail = false, "a loop did not fold: undecided"
			}
			if len(p.NilDerefs) > 0 {
				ok = false
				f, l := c.W.Pos(p.NilDerefs[0].Pos())
				detail = fmt.Sprintf("nil member dereferenced at %s:%d (%s) — validating such an object panics", f, l, eng.PathString(derefBase(p.NilDerefs[0])))
			}
			if p.Panicked {
				ok, detail = false, "a path panics"
			}
			rej := false
			for _, ci := range p.Calls {
				if c16IsReject(ci) {
					rej = true
				}
			}
			if !rej && len(p.NilDerefs) == 0 && !p.Panicked {
				acc = true
			}
		}
		if err != nil {
			detail = err.Error()
		}
		c.Check("R1", vf, "validator total on shape "+c16ShapeName(fields, mask), vf.Pos(), ok, detail)
		if acc {
			accepted = append(accepted, mask)
		}
	}
	// ---- R2: consistency of accepted shapes
	idx := map[string]int{}
	for i, f := range fields {
		idx[f] = i
	}
	has := func(mask int, f string) bool { i, ok := idx[f]; return ok && mask&(1<<i) != 0 }
	var names []string
	for _, m := range accepted {
		names = append(names, c16ShapeName(fields, m))
		n := 0
		for _, f := range []string{"Exempt", "MaxRequestsInflight", "TokenBucket"} {
			if has(m, f) {
				n++
			}
		}
		ok := n == 1 && (!has(m, "GlobalMaxRequestsInflight") || has(m, "MaxRequestsInflight")) && (!has(m, "GlobalTokenBucket") || has(m, "TokenBucket"))
		c.Check("R2", vf, "accepted shape "+c16ShapeName(fields, m)+" is consistent", vf.Pos(), ok, "contradictory or incomplete flow-control configurations must be rejected: exactly one limiter type, a global limit only together with its local limit")
	}
	if len(accepted) == 0 {
		c.Fail("R2", vf, "accepted shapes", vf.Pos(), "the validator accepts no shape at all")
	}
	c.Note("shapes accepted by ValidateFlowControlConfiguration: %s", strings.Join(names, " "))
	for _, f := range []string{"Exempt", "MaxRequestsInflight", "TokenBucket", "GlobalMaxRequestsInflight", "GlobalTokenBucket"} {
		if _, ok := idx[f]; !ok {
			c.Fail("R2", vf, "member "+f, vf.Pos(), "expected optional member not found in FlowControlSchemaConfiguration")
		}
	}
	// consumers
	type consumer struct{ pkg, typ, name string }
	consumers := []consumer{
		{pkgFC, "", "GuessFlowControlSchemaType"}, {pkgFC, "", "NewFlowControl"}, {pkgFCRemote, "localWrapper", "Sync"},
		{pkgFCRemote, "", "EnableGlobalFlowControl"}, {pkgLimiter, "", "toFlowControlLimit"}, {pkgLimiter, "", "updateUpstreamStateCondition"},
		{pkgRLStoreFC, "", "NewGlobalFlowControl"}, {pkgRLStoreFC, "", "ResizeGlobalFlowControl"}, {pkgRLStoreLoc, "upstreamCondition", "syncLocalFlowControls"},
		{pkgFCRoot, "upstreamLimiter", "syncLocalFlowControls"},
	}
	for _, cs := range consumers {
		var fn *ssa.Function
		if cs.typ != "" {
			fn = c.MustMethod(cs.pkg, cs.typ, cs.name)
		} else {
			fn = c.MustFunc(cs.pkg, cs.name)
		}
		if fn == nil {
			continue
		}
		for _, m := range accepted {
			paths, err := c16Run(c, fn, fields, m, 4)
			ok := err == nil && len(paths) > 0
			detail := ""
			for _, p := range paths {
				if len(p.NilDerefs) > 0 {
					ok = false
					f, l := c.W.Pos(p.NilDerefs[0].Pos())
					detail = fmt.Sprintf("the data plane dereferences a nil member at %s:%d (%s) for an object validation accepts", f, l, eng.PathString(derefBase(p.NilDerefs[0])))
				}
			}
			if err != nil {
				detail = err.Error()
			}
			c.Check("R2", fn, "consumer safe on shape "+c16ShapeName(fields, m), fn.Pos(), ok, detail)
		}
	}

	c16AdmitsValidated(c)
	c16Preconditions(c)
	c16Parsers(c)
	c16NilOnError(c)
	c16Ranges(c)
	c16Referential(c)
}

func fieldNameOf(t types.Type, i int) string {
	if p, ok := t.Underlying().(*types.Pointer); ok {
		t = p.Elem()
	}
	if st, ok := t.Underlying().(*types.Struct); ok && i < st.NumFields() {
		return st.Field(i).Name()
	}
	return "?"
}

// derefBase returns the pointer that a dereferencing instruction goes through.
func derefBase(ins ssa.Instruction) ssa.Value {
	switch n := ins.(type) {
	case *ssa.FieldAddr:
		return n.X
	case *ssa.UnOp:
		return n.X
	case *ssa.Store:
		return n.Addr
	}
	return nil
}

// ---- R3 -------------------------------------------------------------------------------

func c16Parsers(c *eng.Ctx) {
	type use struct{ parser, field string }
	parsers := []string{"net/url.Parse", "crypto/tls.X509KeyPair", "k8s.io/client-go/util/cert.ParseCertsPEM"}
	var fieldOfD func(v ssa.Value, depth int) string
	fieldOf := func(v ssa.Value) string { return fieldOfD(v, 3) }
	fieldOfD = func(v ssa.Value, depth int) string {
		// "Type.field" of the API object field the argument is read from
		cur := convOf(v)
		for i := 0; i < 6; i++ {
			switch n := cur.(type) {
			case *ssa.Parameter:
				// the parser is applied in a helper: the field is what every caller hands in
				if depth <= 0 {
					return ""
				}
				f := ""
				for k, a := range eng.UpArgs(n) {
					fa := fieldOfD(a, depth-1)
					if fa == "" || (k > 0 && fa != f) {
						return ""
					}
					f = fa
				}
				return f
			case *ssa.UnOp:
				if n.Op != token.MUL {
					return ""
				}
				cur = n.X
				continue
			case *ssa.FieldAddr:
				tn := eng.TypeName(n.X.Type())
				if strings.HasPrefix(tn, pkgV1alpha1+".") {
					return strings.TrimPrefix(tn, pkgV1alpha1+".") + "." + fieldNameOf(n.X.Type(), n.Field)
				}
				return ""
			case *ssa.Field:
				tn := eng.TypeName(n.X.Type())
				if strings.HasPrefix(tn, pkgV1alpha1+".") {
					return strings.TrimPrefix(tn, pkgV1alpha1+".") + "." + fieldNameOf(n.X.Type(), n.Field)
				}
				return ""
			}
			return ""
		}
		return ""
	}
	collect := func(funcs []*ssa.Function) map[use]ssa.CallInstruction {
		out := map[use]ssa.CallInstruction{}
		for _, fn := range funcs {
			for _, ci := range eng.Calls(fn) {
				for _, p := range parsers {
					if !eng.IsCall(ci, p) {
						continue
					}
					for _, a := range eng.Args(ci) {
						if f := fieldOf(a); f != "" {
							out[use{p, f}] = ci
						}
					}
				}
			}
		}
		return out
	}
	consumerFuncs := append(append([]*ssa.Function{}, c.W.FuncsOf(pkgClusters)...), c.W.FuncsOf(pkgDispatcher)...)
	validatorFuncs := append(append([]*ssa.Function{}, c.W.FuncsOf(pkgValidation)...), c.W.FuncsOf(pkgAdmission)...)
	cu := collect(consumerFuncs)
	vu := collect(validatorFuncs)
	var keys []use
	for k := range cu {
		keys = append(keys, k)
	}
	sort.Slice(keys, func(i, j int) bool { return keys[i].parser+keys[i].field < keys[j].parser+keys[j].field })
	for _, k := range keys {
		ci := cu[k]
		vc, ok := vu[k]
		detail := fmt.Sprintf("the data plane applies %s to field %s; validation must apply the same parser to the same field and reject on error (e.g. endpoint \"https://%%zz\" passes a prefix check but url.Parse fails when the cluster is synced)", shortName(k.parser), k.field)
		if ok {
			// the parser's error gates a reject
			call, isCall := vc.(*ssa.Call)
			gated := false
			if isCall {
				for _, fn := range validatorFuncs {
					for _, rc := range eng.Calls(fn) {
						if !c16IsReject(rc) || rc.Parent() != vc.Parent() {
							continue
						}
						if eng.GuardedByNil(rc, func(v ssa.Value) bool {
							cc, _ := eng.CallResultOf(v)
							return cc == call
						}, false) {
							gated = true
						}
					}
				}
			}
			ok = gated
			if !gated {
				detail = "validation calls the parser but its error does not lead to a reject"
			}
		}
		c.Check("R3", ci.Parent(), shortName(k.parser)+" on "+k.field+" is validated", ci.Pos(), ok, detail)
	}
	if len(keys) < 4 {
		c.Fail("R3", nil, "parsers applied by consumers", 0, fmt.Sprintf("expected url.Parse, X509KeyPair (cert, key) and ParseCertsPEM uses on API fields in the data plane, found %d", len(keys)))
	}
	// feature gates: consumer Set on the annotation ⇒ validator Set on the annotation, error gating a reject
	setName := "(k8s.io/component-base/featuregate.MutableFeatureGate).Set"
	consumerSet := false
	for _, fn := range c.W.FuncsOf(pkgClusters) {
		if len(eng.CallsTo(fn, setName)) > 0 {
			consumerSet = true
		}
	}
	if consumerSet {
		ok := false
		for _, fn := range c.W.FuncsOf(pkgAdmission) {
			for _, sc := range eng.CallsTo(fn, setName) {
				call, isCall := sc.(*ssa.Call)
				if !isCall {
					continue
				}
				fromAnn := c.Slicer().DerivesFrom(eng.Args(call)[0], func(v ssa.Value) bool {
					l, isL := v.(*ssa.Lookup)
					return isL && c09LeafFieldOfLookup(l) == "Annotations"
				})
				for _, rc := range eng.Calls(fn) {
					if c16IsReject(rc) && eng.GuardedByNil(rc, func(v ssa.Value) bool { return v == ssa.Value(call) }, false) && fromAnn {
						ok = true
					}
				}
			}
		}
		c.Check("R3", nil, "feature-gate annotation is validated with the gate's own parser", 0, ok, "an annotation the gateway cannot Set must be rejected at admission")
	}
}

func c09LeafFieldOfLookup(l *ssa.Lookup) string {
	_, p := eng.AccessPath(l.X)
	if len(p) == 0 {
		return ""
	}
	return p[len(p)-1]
}

// ---- R4 -------------------------------------------------------------------------------

// c16NilOnErr computes the repository functions returning (…, *T, …, error) whose every
// error return carries a nil pointer; the map value is the index of the pointer result.
func c16NilOnErr(c *eng.Ctx, funcs []*ssa.Function) map[*ssa.Function]int {
	out := map[*ssa.Function]int{}
	for _, fn := range funcs {
		res := fn.Signature.Results()
		if res.Len() < 2 || res.At(res.Len()-1).Type().String() != "error" {
			continue
		}
		pi := -1
		for i := 0; i < res.Len()-1; i++ {
			if _, ok := res.At(i).Type().Underlying().(*types.Pointer); ok {
				pi = i
			}
		}
		if pi < 0 {
			continue
		}
		all, any := true, false
		eng.Instrs(fn, func(ins ssa.Instruction) {
			r, ok := ins.(*ssa.Return)
			if !ok || r.Block() == fn.Recover {
				return
			}
			rs := eng.ReturnResults(r)
			if eng.IsNilConst(rs[len(rs)-1]) {
				return
			}
			any = true
			if !eng.IsNilConst(rs[pi]) {
				all = false
			}
		})
		if all && any {
			out[fn] = pi
		}
	}
	return out
}

// derefsReceiver reports whether method m dereferences its pointer receiver without a
// dominating nil test of it.
func derefsReceiver(m *ssa.Function) bool {
	if m == nil || len(m.Params) == 0 || m.Blocks == nil {
		return true
	}
	recv := m.Params[0]
	bad := false
	eng.Instrs(m, func(ins ssa.Instruction) {
		var base ssa.Value
		switch n := ins.(type) {
		case *ssa.FieldAddr:
			base = n.X
		case *ssa.UnOp:
			if n.Op == token.MUL {
				base = n.X
			}
		}
		if base != ssa.Value(recv) {
			return
		}
		if !eng.GuardedByNil(ins, func(v ssa.Value) bool { return v == ssa.Value(recv) }, false) {
			bad = true
		}
	})
	return bad
}

func c16NilOnError(c *eng.Ctx) {
	scope := []string{pkgCtrl, pkgClusters, pkgValidation, pkgAdmission}
	if c.Thorough() {
		scope = nil
		for _, p := range c.W.RepoPackages() {
			scope = append(scope, p.Pkg.Path())
		}
	}
	nilOnErr := c16NilOnErr(c, c.W.AllRepoFuncs())
	n := 0
	for _, pkg := range scope {
		for _, fn := range c.W.FuncsOf(pkg) {
			if fn.Parent() != nil {
				continue // closures are reached through their enclosing function
			}
			for _, ci := range eng.Calls(fn) {
				call, ok := ci.(*ssa.Call)
				callee := eng.CalleeFn(ci)
				pi, isNOE := nilOnErr[callee]
				if !ok || !isNOE {
					continue
				}
				n++
				var tv, ev ssa.Value
				for _, e := range eng.ExtractOf(call, pi) {
					tv = e
				}
				for _, e := range eng.ExtractOf(call, callee.Signature.Results().Len()-1) {
					ev = e
				}
				good := true
				detail := ""
				if tv != nil && ev != nil {
					// direct dereferences on the err != nil edge
					if tv.Referrers() != nil {
						for _, r := range *tv.Referrers() {
							if derefUse(r, tv) && eng.GuardedByNil(r, func(v ssa.Value) bool { return v == ev }, false) {
								good, detail = false, "the nil result is dereferenced on the error edge"
							}
						}
					}
					// through captured cells and deferred closures
					tc, ec := cellOf(tv), cellOf(ev)
					if tc != nil && ec != nil {
						for _, cl := range eng.WithClosures(fn)[1:] {
							tf, ef := freeVarFor(fn, cl, tc), freeVarFor(fn, cl, ec)
							if tf == nil || ef == nil || !isDeferred(fn, cl) {
								continue
							}
							eng.Instrs(cl, func(ins ssa.Instruction) {
								ld, isLd := ins.(*ssa.UnOp)
								if !isLd || ld.Op != token.MUL || ld.X != ssa.Value(tf) || ld.Referrers() == nil {
									return
								}
								for _, r := range *ld.Referrers() {
									if !derefUse(r, ld) {
										continue
									}
									onErr := eng.GuardedByNil(r, func(v ssa.Value) bool {
										u, isU := v.(*ssa.UnOp)
										return isU && u.Op == token.MUL && u.X == ssa.Value(ef)
									}, false)
									nilSafe := eng.GuardedByNil(r, func(v ssa.Value) bool {
										u, isU := v.(*ssa.UnOp)
										return isU && u.Op == token.MUL && u.X == ssa.Value(tf)
									}, false)
									// the error path of the call reaches an exit without re-assigning the result cell
									if onErr && !nilSafe && errPathKeepsNil(call, ev, tc) {
										good = false
										detail = fmt.Sprintf("%s returns (nil, err); a deferred closure runs on that path with err != nil and calls a method that dereferences the nil result: the goroutine panics", shortName(eng.FullName(call)))
									}
								}
							})
						}
					}
				}
				c.Check("R4", fn, "result of "+shortName(eng.FullName(call))+" unused on its error edge", call.Pos(), good, detail)
			}
		}
	}
	if n == 0 {
		c.Fail("R4", nil, "calls to nil-on-error functions", 0, "none found in scope")
	}
}

// derefUse reports whether instruction r dereferences pointer v (field access, load, or a
// call of a pointer-receiver method that dereferences its receiver).
func derefUse(r ssa.Instruction, v ssa.Value) bool {
	switch n := r.(type) {
	case *ssa.FieldAddr:
		return n.X == v
	case *ssa.UnOp:
		return n.Op == token.MUL && n.X == v
	case ssa.CallInstruction:
		if eng.Receiver(n) == v && !n.Common().IsInvoke() {
			return derefsReceiver(n.Common().StaticCallee())
		}
	}
	return false
}

// cellOf returns the local cell a value is stored into (captured variable), if any.
func cellOf(v ssa.Value) *ssa.Alloc {
	if v.Referrers() == nil {
		return nil
	}
	for _, r := range *v.Referrers() {
		if st, ok := r.(*ssa.Store); ok && st.Val == v {
			if a, ok := st.Addr.(*ssa.Alloc); ok {
				return a
			}
		}
	}
	return nil
}

// freeVarFor returns the free variable of closure cl bound to cell in fn.
func freeVarFor(fn, cl *ssa.Function, cell *ssa.Alloc) *ssa.FreeVar {
	var out *ssa.FreeVar
	for _, f := range eng.WithClosures(fn) {
		eng.Instrs(f, func(ins ssa.Instruction) {
			mc, ok := ins.(*ssa.MakeClosure)
			if !ok || mc.Fn != ssa.Value(cl) {
				return
			}
			for i, b := range mc.Bindings {
				if b == ssa.Value(cell) && i < len(cl.FreeVars) {
					out = cl.FreeVars[i]
				}
			}
		})
	}
	return out
}

func isDeferred(fn, cl *ssa.Function) bool {
	found := false
	eng.Instrs(fn, func(ins ssa.Instruction) {
		d, ok := ins.(*ssa.Defer)
		if !ok {
			return
		}
		if mc, ok := d.Call.Value.(*ssa.MakeClosure); ok && mc.Fn == ssa.Value(cl) {
			found = true
		}
	})
	return found
}

// errPathKeepsNil: from the err != nil edge of the call some exit is reachable without a
// store to the result cell and after the closure was deferred.
func errPathKeepsNil(call *ssa.Call, ev ssa.Value, tc *ssa.Alloc) bool {
	for _, br := range eng.BranchesOnNil(ev) {
		x := eng.ReachFromBlock(br.OnNonNil, eng.PathQuery{Target: eng.IsExit, Avoid: func(i ssa.Instruction) bool {
			st, ok := i.(*ssa.Store)
			return ok && st.Addr == ssa.Value(tc)
		}})
		if x != nil {
			return true
		}
	}
	// err stored in a cell and re-read
	if ec := cellOf(ev); ec != nil && ec.Referrers() != nil {
		for _, r := range *ec.Referrers() {
			if ld, ok := r.(*ssa.UnOp); ok && ld.Op == token.MUL {
				for _, br := range eng.BranchesOnNil(ld) {
					x := eng.ReachFromBlock(br.OnNonNil, eng.PathQuery{Target: eng.IsExit, Avoid: func(i ssa.Instruction) bool {
						st, ok := i.(*ssa.Store)
						return ok && st.Addr == ssa.Value(tc)
					}})
					if x != nil {
						return true
					}
				}
			}
		}
	}
	return false
}

// ---- R5 -------------------------------------------------------------------------------

// c16Ranges derives lower bounds of the numeric limits from the validator's reject guards.
func c16Ranges(c *eng.Ctx) {
	funcs := []*ssa.Function{c.W.Func(pkgValidation, "ValidateFlowControlConfiguration"), c.W.Func(pkgValidation, "validateTokenBucketFlowControlSchema")}
	// field identification: "Parent.Field" from the access path, e.g. "GlobalTokenBucket.QPS"; inside the
	// token-bucket helper the parameter is the local tokenBucket member.
	name := func(v ssa.Value, fn *ssa.Function) string {
		v = convOf(v)
		root, p := eng.AccessPath(v)
		var q []string
		for _, x := range p {
			if x != "[]" && x != "FlowControlSchemaConfiguration" {
				q = append(q, x)
			}
		}
		if len(q) == 1 && fn.Name() == "validateTokenBucketFlowControlSchema" {
			if _, ok := root.(*ssa.Parameter); ok {
				return "TokenBucket." + q[0]
			}
		}
		if len(q) == 2 {
			return q[0] + "." + q[1]
		}
		return ""
	}
	type edge struct {
		to    string // field ≥ to + k   (to == "" means constant)
		k     int64
		where token.Pos
	}
	lower := map[string][]edge{}
	for _, fn := range funcs {
		if fn == nil {
			continue
		}
		for _, ci := range eng.Calls(fn) {
			if !c16IsReject(ci) {
				continue
			}
			for _, g := range eng.GuardsOf(ci) {
				r := g.Rel()
				// the other numeric guards of this reject must be else-branches of rejects (an else-if chain)
				chainOK := true
				for _, g2 := range eng.GuardsOf(ci) {
					if g2 == g {
						continue
					}
					r2 := g2.Rel()
					if eng.IsNilConst(r2.X) || eng.IsNilConst(r2.Y) {
						continue
					}
					// numeric guard: its opposite successor must contain a reject
					opp := g2.If.Block().Succs[0]
					if g2.Branch {
						opp = g2.If.Block().Succs[1]
					}
					hasRej := false
					for _, ins := range opp.Instrs {
						if cc, ok := ins.(ssa.CallInstruction); ok && c16IsReject(cc) {
							hasRej = true
						}
					}
					if !hasRej {
						chainOK = false
					}
				}
				if !chainOK {
					continue
				}
				x, y := name(r.X, fn), name(r.Y, fn)
				kx, xc := eng.IntConst(r.X)
				ky, yc := eng.IntConst(r.Y)
				_ = kx
				_ = xc
				// reject when  X op Y ; accept ⇒ ¬(X op Y)
				switch {
				case x != "" && yc:
					switch r.Op {
					case token.LSS: // reject x < k ⇒ x ≥ k
						lower[x] = append(lower[x], edge{"", ky, ci.Pos()})
					case token.LEQ: // reject x <= k ⇒ x ≥ k+1
						lower[x] = append(lower[x], edge{"", ky + 1, ci.Pos()})
					}
				case x != "" && y != "":
					switch r.Op {
					case token.LSS: // reject x < y ⇒ x ≥ y
						lower[x] = append(lower[x], edge{y, 0, ci.Pos()})
					case token.LEQ:
						lower[x] = append(lower[x], edge{y, 1, ci.Pos()})
					case token.GTR: // reject x > y ⇒ y ≥ x
						lower[y] = append(lower[y], edge{x, 0, ci.Pos()})
					}
				}
			}
		}
	}
	var lb func(f string, seen map[string]bool) (int64, bool)
	lb = func(f string, seen map[string]bool) (int64, bool) {
		if seen[f] {
			return 0, false
		}
		seen[f] = true
		best, ok := int64(0), false
		for _, e := range lower[f] {
			v, k := e.k, true
			if e.to != "" {
				var b int64
				b, k = lb(e.to, seen)
				v = b + e.k
			}
			if k && (!ok || v > best) {
				best, ok = v, true
			}
		}
		delete(seen, f)
		return best, ok
	}
	want := []struct {
		f   string
		min int64
		why string
	}{
		{"MaxRequestsInflight.Max", 0, "converted to uint32 as the in-flight limit"},
		{"TokenBucket.QPS", 1, "a token bucket rate: zero or negative becomes uint32 garbage / a limiter that admits nothing or everything"},
		{"TokenBucket.Burst", 1, "converted to uint32 / int as the bucket size"},
		{"GlobalMaxRequestsInflight.Max", 0, "the global in-flight limit"},
		{"GlobalTokenBucket.QPS", 1, "the global rate"},
		{"GlobalTokenBucket.Burst", 1, "the global bucket size"},
	}
	vf := funcs[0]
	for _, rel := range [][2]string{{"GlobalMaxRequestsInflight.Max", "MaxRequestsInflight.Max"}, {"GlobalTokenBucket.QPS", "TokenBucket.QPS"}, {"GlobalTokenBucket.Burst", "TokenBucket.Burst"}, {"TokenBucket.Burst", "TokenBucket.QPS"}} {
		ok := false
		for _, e := range lower[rel[0]] {
			if e.to == rel[1] && e.k >= 0 {
				ok = true
			}
		}
		c.Check("R5", vf, fmt.Sprintf("%s ≥ %s on accepting paths", rel[0], rel[1]), vf.Pos(), ok, "the gateway clamps server quotas to the global limit and falls back to the local one: a global limit below the local limit is contradictory")
	}
	for _, w := range want {
		b, ok := lb(w.f, map[string]bool{})
		c.Check("R5", vf, fmt.Sprintf("%s ≥ %d on accepting paths", w.f, w.min), vf.Pos(), ok && b >= w.min,
			fmt.Sprintf("%s; derived lower bound: %v (known=%v) — e.g. tokenBucket {qps:-5, burst:-5} passes an `== 0` test", w.why, b, ok))
	}
}

// ---- R6 -------------------------------------------------------------------------------

func c16Referential(c *eng.Ctx) {
	has := "(k8s.io/apimachinery/pkg/util/sets.String).Has"
	if dp := c.MustFunc(pkgValidation, "ValidateDispatchPolicy"); dp != nil {
		subset, schema := false, false
		for _, ci := range eng.Calls(dp) {
			if !c16IsReject(ci) {
				continue
			}
			for _, g := range eng.GuardsOf(ci) {
				r := g.Rel()
				cc, _ := eng.CallResultOf(r.X)
				if cc == nil || !eng.IsCall(cc, has) || !(eng.IsBoolConst(r.Y, false) && r.Op == token.EQL || eng.IsBoolConst(r.Y, true) && r.Op == token.NEQ) {
					continue
				}
				recvParam := -1
				for i, p := range dp.Params {
					if eng.Receiver(cc) == ssa.Value(p) {
						recvParam = i
					}
				}
				arg := eng.Args(cc)[0]
				if recvParam == 0 && c.Slicer().DerivesFrom(arg, func(v ssa.Value) bool { return eng.FieldLoadOf(v, pkgV1alpha1+".DispatchPolicy", "UpstreamSubset") }) {
					subset = true
				}
				if recvParam == 1 && eng.FieldLoadOf(arg, pkgV1alpha1+".DispatchPolicy", "FlowControlSchemaName") {
					schema = true
				}
			}
		}
		c.Check("R6", dp, "unknown upstream-subset endpoint rejected", dp.Pos(), subset, "a policy naming an endpoint that is not among the servers gets no traffic target (503 for every request)")
		c.Check("R6", dp, "unknown flow-control schema name rejected", dp.Pos(), schema, "a policy naming an unknown schema silently runs unlimited")
	}
	// the sets passed to ValidateDispatchPolicy are the ones built from servers / schemas
	if sp := c.MustFunc(pkgValidation, "ValidateUpstreamClusterSpec"); sp != nil {
		ok := false
		for _, ci := range eng.CallsTo(sp, pkgValidation+".ValidateDispatchPolicy") {
			a := eng.Args(ci)
			c0, i0 := eng.CallResultOf(a[0])
			c1, i1 := eng.CallResultOf(a[1])
			ok = c0 != nil && eng.IsCall(c0, pkgValidation+".ValidateServers") && i0 == 0 && c1 != nil && eng.IsCall(c1, pkgValidation+".ValidateFlowControl") && i1 == 0
		}
		c.Check("R6", sp, "policies are checked against the object's own servers and schemas", sp.Pos(), ok, "")
	}
	if vs := c.MustFunc(pkgValidation, "ValidateServers"); vs != nil {
		mixed := false
		for _, ci := range eng.Calls(vs) {
			if !c16IsReject(ci) {
				continue
			}
			if eng.GuardedBy(ci, func(r eng.Rel) bool {
				cc, _ := eng.CallResultOf(r.X)
				k, isK := eng.IntConst(r.Y)
				return cc != nil && eng.IsCall(cc, "(k8s.io/apimachinery/pkg/util/sets.String).Len") && isK && k == 1 && r.Op == token.GTR
			}) {
				mixed = true
			}
		}
		c.Check("R6", vs, "mixed endpoint schemes rejected", vs.Pos(), mixed, "the client configuration takes the scheme of the first server for all of them")
		// every endpoint is inserted into the upstream set
		ins := false
		for _, ci := range eng.CallsTo(vs, "(k8s.io/apimachinery/pkg/util/sets.String).Insert") {
			for _, a := range eng.Args(ci) {
				if c.Slicer().DerivesFrom(a, func(v ssa.Value) bool {
					return eng.FieldLoadOf(v, pkgV1alpha1+".UpstreamClusterServer", "Endpoint")
				}) && eng.InLoop(ci.Block()) && len(eng.GuardsOf(ci)) <= 1 {
					ins = true
				}
			}
		}
		c.Check("R6", vs, "upstream set = endpoints of all servers", vs.Pos(), ins, "")
	}
	if vfc := c.MustFunc(pkgValidation, "ValidateFlowControl"); vfc != nil {
		empty, dup := false, false
		for _, ci := range eng.Calls(vfc) {
			if !c16IsReject(ci) {
				continue
			}
			if eng.GuardedBy(ci, func(r eng.Rel) bool {
				lc, isC := r.X.(*ssa.Call)
				k, isK := eng.IntConst(r.Y)
				return isC && isBuiltin(lc, "len") && eng.FieldLoadOf(lc.Call.Args[0], tSchema, "Name") && isK && k == 0 && r.Op == token.EQL
			}) {
				empty = true
			}
			if eng.GuardedByBool(ci, func(v ssa.Value) bool {
				cc, _ := eng.CallResultOf(v)
				return cc != nil && eng.IsCall(cc, has) && eng.FieldLoadOf(eng.Args(cc)[0], tSchema, "Name")
			}, true) {
				dup = true
			}
		}
		c.Check("R6", vfc, "empty schema name rejected", vfc.Pos(), empty, "")
		c.Check("R6", vfc, "duplicate schema name rejected", vfc.Pos(), dup, "two schemas of one name share one limiter")
	}
}

// ---- R7 (added after seeded change C16-2) -----------------------------------------------

// c16AdmitsValidated: in the admission plugin's Validate every admitting return (nil, or the
// aggregate of the collected errors) is reached only through ValidateUpstreamCluster of the
// object and through the read of its feature-gate annotation; the only exempt return is the
// one for requests the plugin ignores. A shortcut such as "spec unchanged ⇒ admit" lets an
// annotation-only update with an unusable feature-gate value through.
func c16AdmitsValidated(c *eng.Ctx) {
	c.Rule("R7", "every admitted object was validated: in the admission plugin's Validate each return that can admit passes ValidateUpstreamCluster of the object and the feature-gate annotation check; only ignored requests return early", 2)
	named := c.W.Named(pkgAdmission, "upstreamclusterPlugin")
	if named == nil {
		c.Fail("engine", nil, "unresolved-anchor type upstreamclusterPlugin", 0, "")
		return
	}
	v := c.W.DeclaredMethod(named, "Validate")
	if v == nil || v.Blocks == nil {
		c.Fail("engine", nil, "unresolved-anchor method Validate", 0, "")
		return
	}
	isValidate := func(i ssa.Instruction) bool { return eng.IsPlainCall(i, pkgValidation+".ValidateUpstreamCluster") }
	isAnnRead := func(i ssa.Instruction) bool {
		l, ok := i.(*ssa.Lookup)
		return ok && c09LeafFieldOfLookup(l) == "Annotations"
	}
	isAnnNilTest := func(i ssa.Instruction) bool {
		iff, ok := i.(*ssa.If)
		if !ok {
			return false
		}
		r := eng.RelOf(iff.Cond, true)
		_, px := eng.AccessPath(r.X)
		return len(px) > 0 && px[len(px)-1] == "Annotations" && eng.IsNilConst(r.Y)
	}
	n := 0
	eng.Instrs(v, func(ins ssa.Instruction) {
		r, ok := ins.(*ssa.Return)
		if !ok || r.Block() == v.Recover || len(r.Results) != 1 {
			return
		}
		res := eng.ReturnResults(r)[0]
		// returns of a definite error (Forbidden, list failure) do not admit
		if cc, _ := eng.CallResultOf(res); cc != nil && !eng.MethodNameIs(cc, "ToAggregate") {
			return
		}
		// the ignore edge
		if eng.GuardedByBool(r, func(x ssa.Value) bool {
			cc, _ := eng.CallResultOf(x)
			return cc != nil && eng.IsCall(cc, pkgAdmission+".shouldIgnore")
		}, true) {
			return
		}
		n++
		okV := eng.AlwaysBefore(v, r, isValidate)
		okA := eng.AlwaysBefore(v, r, func(i ssa.Instruction) bool { return isAnnRead(i) || isAnnNilTest(i) })
		c.Check("R7", v, fmt.Sprintf("admitting return#%d only after full validation", n), r.Pos(), okV && okA,
			"an object can be admitted on a path that skips ValidateUpstreamCluster or the feature-gate annotation check (e.g. a \"spec unchanged\" shortcut for updates): an annotation-only update to an unusable gate value is stored and ClusterInfo.Sync of it fails before anything else is applied")
	})
	if n == 0 {
		c.Fail("R7", v, "admitting return", v.Pos(), "no admitting return found")
	}
	// the object validated is the request's object
	for _, ci := range eng.CallsTo(v, pkgValidation+".ValidateUpstreamCluster") {
		from := c.Slicer().DerivesFrom(eng.Args(ci)[0], func(x ssa.Value) bool {
			cc, _ := eng.CallResultOf(x)
			return cc != nil && eng.MethodNameIs(cc, "GetObject")
		})
		c.Check("R7", v, "the submitted object is what is validated", ci.Pos(), from, "")
	}
}

// ---- R8: preconditions of the client library ----------------------------------------------

// c16Preconditions: the data plane hands fields of the object to client-go, which refuses
// some combinations; validation must refuse them first.
//
//	P1  transport.TLSConfigFor fails when a CA is given together with the insecure flag (the
//	    guard is located in the dependency's own SSA, so the precondition is read from the
//	    code that enforces it); buildClusterRESTConfig copies ClientConfig.CAData and
//	    ClientConfig.Insecure into that configuration.
//	P2  rest.DefaultServerURL / the dispatcher need a URL with a host: "https://" parses but
//	    has none.
func c16Preconditions(c *eng.Ctx) {
	c.Rule("R8", "preconditions of the client library are validated: caData together with insecure is rejected (client-go's TLSConfigFor refuses it), and an endpoint whose parsed URL has no host is rejected (client-go's server URL and the dispatcher need one)", 2)
	// --- P1: locate the guard in the dependency
	p1 := false
	if dep := c.W.Func("k8s.io/client-go/transport", "TLSConfigFor"); dep != nil && dep.Blocks != nil {
		eng.Instrs(dep, func(ins ssa.Instruction) {
			r, ok := ins.(*ssa.Return)
			if !ok || len(r.Results) != 2 || eng.IsNilConst(r.Results[1]) {
				return
			}
			insecure, hasCA := false, false
			for _, g := range eng.GuardsOf(r) {
				rel := g.Rel()
				if eng.FieldLoadOf(rel.X, "k8s.io/client-go/transport.TLSConfig", "Insecure") && eng.IsBoolConst(rel.Y, true) && rel.Op == token.EQL {
					insecure = true
				}
				if cc, _ := eng.CallResultOf(rel.X); cc != nil && eng.MethodNameIs(cc, "HasCA") && eng.IsBoolConst(rel.Y, true) && rel.Op == token.EQL {
					hasCA = true
				}
			}
			if insecure && hasCA {
				p1 = true
			}
		})
	}
	// the consumer passes both fields on
	passes := false
	if b := c.MustFunc(pkgClusters, "buildClusterRESTConfig"); b != nil {
		ca, ins := false, false
		for _, st := range eng.StoresToField([]*ssa.Function{b}, "k8s.io/client-go/rest.TLSClientConfig", "CAData") {
			if eng.FieldLoadOf(st.Val, pkgV1alpha1+".ClientConfig", "CAData") {
				ca = true
			}
		}
		for _, st := range eng.StoresToField([]*ssa.Function{b}, "k8s.io/client-go/rest.TLSClientConfig", "Insecure") {
			if eng.FieldLoadOf(st.Val, pkgV1alpha1+".ClientConfig", "Insecure") {
				ins = true
			}
		}
		passes = ca && ins
	}
	if !p1 || !passes {
		c.Note("R8/P1 not applicable on this tree: dependency guard found=%v, consumer passes caData+insecure=%v", p1, passes)
		c.Pass("R8", nil, "caData with insecure is rejected", 0, "precondition not present in the dependency / not exercised by the consumer")
	} else {
		ok := false
		for _, fn := range c.W.FuncsOf(pkgValidation) {
			for _, ci := range eng.Calls(fn) {
				if !c16IsReject(ci) {
					continue
				}
				ins, ca := false, false
				for _, f := range eng.FactsAt(ci, 1) {
					_ = f
				}
				for _, g := range eng.GuardsOf(ci) {
					rel := g.Rel()
					if eng.FieldLoadOf(rel.X, pkgV1alpha1+".ClientConfig", "Insecure") && ((eng.IsBoolConst(rel.Y, true) && rel.Op == token.EQL) || (eng.IsBoolConst(rel.Y, false) && rel.Op == token.NEQ)) {
						ins = true
					}
					if lc, isC := rel.X.(*ssa.Call); isC && isBuiltin(lc, "len") && eng.FieldLoadOf(lc.Call.Args[0], pkgV1alpha1+".ClientConfig", "CAData") {
						if z, isZ := eng.IntConst(rel.Y); isZ && z == 0 && (rel.Op == token.GTR || rel.Op == token.NEQ) {
							ca = true
						}
					}
				}
				if ins && ca {
					ok = true
				}
			}
		}
		c.Check("R8", c.W.Func(pkgValidation, "ValidateClientConfig"), "caData with insecure is rejected", 0, ok,
			"clientConfig {insecure: true, caData: <valid>} with an https endpoint passes validation, but client-go's transport.TLSConfigFor refuses a CA together with the insecure flag: CreateClusterInfo / the endpoint transports fail for an admitted object")
	}
	// --- P2: empty host
	okHost := false
	var vs *ssa.Function
	for _, fn := range c.W.FuncsOf(pkgValidation) {
		for _, pc := range eng.CallsTo(fn, "net/url.Parse") {
			call, isCall := pc.(*ssa.Call)
			if !isCall {
				continue
			}
			vs = fn
			for _, ci := range eng.Calls(fn) {
				if !c16IsReject(ci) {
					continue
				}
				for _, g := range eng.GuardsOf(ci) {
					rel := g.Rel()
					x := rel.X
					isEmptyCmp := false
					if lc, isC := x.(*ssa.Call); isC && isBuiltin(lc, "len") {
						x = lc.Call.Args[0]
						if z, isZ := eng.IntConst(rel.Y); isZ && z == 0 && (rel.Op == token.EQL || rel.Op == token.LEQ) {
							isEmptyCmp = true
						}
					} else if k, isK := eng.StringConst(rel.Y); isK && k == "" && rel.Op == token.EQL {
						isEmptyCmp = true
					}
					if isEmptyCmp && eng.FieldLoadOf(x, "net/url.URL", "Host") && c.Slicer().DerivesFrom(x, func(v ssa.Value) bool { cc, _ := eng.CallResultOf(v); return cc == call }) {
						okHost = true
					}
				}
			}
		}
	}
	c.Check("R8", vs, "endpoint without a host is rejected", 0, okHost,
		"the endpoint \"https://\" parses (url.Parse succeeds) but has no host: client-go's DefaultServerURL refuses it (\"host must be a URL or a host:port pair\"), so the endpoint's clientset cannot be built and Sync of the admitted object fails")
}
